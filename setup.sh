#!/bin/sh
# Build the framework from files on disk only (offline): Go harness against /repo, Lean driver,
# all property theorems. Each ./check rebuilds what it needs again from /repo's working tree.
set -e
cd "$(dirname "$0")"
export GOFLAGS=-mod=mod GOPROXY=off
unset GOTOOLCHAIN
mkdir -p .work/bin evidence replays lean/CqlVerif/Gen lean/CqlVerif/Audit
(cd harness && CGO_ENABLED=0 go build -tags verif -o ../.work/bin/vh ./cmd/vh)
# the regenerated Lean parts (never committed): every translator once, from /repo's working tree
for g in config policy slot lexer panics locks tls gate retrygate; do
  ./.work/bin/vh extract $g -out lean/CqlVerif/Gen
done
(cd lean && lake build driver CqlVerif)
