#!/bin/sh
# Build the framework from files on disk only (offline): Go harness against /repo, Lean driver,
# all property theorems. Each ./check rebuilds what it needs again from /repo's working tree.
set -e
cd "$(dirname "$0")"
export GOFLAGS=-mod=mod GOPROXY=off
unset GOTOOLCHAIN
mkdir -p .work/bin evidence replays lean/CqlVerif/Gen lean/CqlVerif/Audit
(cd harness && CGO_ENABLED=0 go build -tags verif -o ../.work/bin/vh ./cmd/vh)
if [ -x ./gen.sh ]; then ./gen.sh; fi
(cd lean && lake build driver CqlVerif)
