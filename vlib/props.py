"""Per-property configuration of ./check. Keep in step with MANIFEST.json and DESIGN.md §5."""

KERNEL = "Lean 4.33.0 kernel; axioms allowed: propext, Classical.choice, Quot.sound (audited by #print axioms on every theorem of the Props module)"
DRIVER = "the Lean driver (core-only lean_exe) executes exactly the model/spec definitions the theorems are about"
HARNESS = "Go harness (vh) linked against /repo's working tree with -tags verif; its generators bound what the correspondence sees"

PROPS = {
    "C15": {
        "module": "CqlVerif.Props.C15",
        "streams": [{"name": "lb", "quick": 3000, "thorough": 300000}],
        "rule": "lb: notification histories over <=7 hosts with plans created/consumed at arbitrary points; exhaustive op lists over 2 hosts up to depth 5 (quick) / 7 (thorough), random histories up to 60 ops, counter jumps to the 2^32 and 2^64 wrap points through the VerifSetLBIndex hook; distinct = distinct op lists; non-trivial = contains at least one Next() call (all emitted cases do)",
        "trusted_base": [KERNEL, DRIVER, HARNESS,
                         "Model/LB.lean is hand-written; tied to proxycore/lb.go by the lb stream (public API differential) and by PlanSpec evaluated on the real outputs",
                         "atomic.Value / atomic.AddUint64 / sync.Mutex semantics (Go memory model) are assumed; concurrent interleavings are not modelled"],
        "assumptions": ["host lists shorter than 2^63", "fewer than 2^64 plans per process (rotation theorem); exactly-once holds without this bound",
                        "the cluster announces Add only for keys that are not members (wfFrom)"],
    },
}
