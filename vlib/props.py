"""Per-property configuration of ./check. Keep in step with MANIFEST.json and DESIGN.md §5."""

KERNEL = "Lean 4.33.0 kernel; axioms allowed: propext, Classical.choice, Quot.sound (audited by #print axioms on every theorem of the Props module)"
DRIVER = "the Lean driver (core-only lean_exe) executes exactly the model/spec definitions the theorems are about"
HARNESS = "Go harness (vh) linked against /repo's working tree with -tags verif; its generators bound what the correspondence sees"

PROPS = {
    "C15": {
        "module": "CqlVerif.Props.C15",
        "claim": "Lean theorems over Model/LB (plan_exact, plan_no_duplicates, exhausted_forever, members_exact, rotation, fair_window, snapshot_stable) for all notification histories, host counts and counter values; the model is tied to proxycore/lb.go by a differential stream on the public API and by the PlanSpec oracle evaluated on the real outputs",
        "note": "trusted: Lean kernel, hand-written model + correspondence generators, Go atomics/mutex semantics; concurrent interleavings of plan creation with notifications are not modelled",
        "streams": [{"name": "lb", "quick": 3000, "thorough": 300000}],
        "rule": "lb: notification histories over <=7 hosts with plans created/consumed at arbitrary points; exhaustive op lists over 2 hosts up to depth 5 (quick) / 7 (thorough), random histories up to 60 ops, counter jumps to the 2^32 and 2^64 wrap points through the VerifSetLBIndex hook; distinct = distinct op lists; non-trivial = contains at least one Next() call (all emitted cases do)",
        "trusted_base": [KERNEL, DRIVER, HARNESS,
                         "Model/LB.lean is hand-written; tied to proxycore/lb.go by the lb stream (public API differential) and by PlanSpec evaluated on the real outputs",
                         "atomic.Value / atomic.AddUint64 / sync.Mutex semantics (Go memory model) are assumed; concurrent interleavings are not modelled"],
        "assumptions": ["host lists shorter than 2^63", "fewer than 2^64 plans per process (rotation theorem); exactly-once holds without this bound",
                        "the cluster announces Add only for keys that are not members (wfFrom)"],
    },
    "C20": {
        "module": "CqlVerif.Props.C20",
        "claim": "start_only_if_consistent (for every configuration: Run proceeds only if names known, backend given, heartbeat < idle timeout, >= 1 connection, version <= max version, peers with addresses / tokens) over Model/Config; theorems by kernel evaluation over behaviour tables regenerated from the real option parsers on every run (every letter-case variant of every documented spelling + near-misses): names select what they denote, are injective, unknown names rejected; Model/Config mirrors the start-up validation order",
        "note": "trusted: Lean kernel, the tabulator (calls the real functions through verif hooks), documented-name table in Spec/Names.lean; kong/yaml parsing is library behaviour: the Run-level refusal is tied to Model/Config.validate by the cfg stream",
        "technique": "Lean 4 kernel-checked table theorems over regenerated behaviour tables + differential",
        "gens": ["config"],
        "streams": [{"name": "names", "quick": 2000, "thorough": 100000}, {"name": "cfg", "quick": 120, "thorough": 6000}],
        "shrink": False,
        "rule": "cfg: the real proxy.Run in a child process against a fake backend, options supplied as flags / environment variables / a YAML file (and the same option through two sources), each inconsistency of the property through each source, durations and connection counts around their boundaries, version pairs, peers with and without rpc-address / tokens, unknown names, malformed YAML; observed: exit code or, when it starts, the version used towards the backend and the highest version accepted from clients; compared with Model/Config.validate on the effective configuration. names: every letter-case variant of every documented protocol-version spelling (v3 v4 v5 DSEv1 DSEv2 3 4 5 65 66) and near-misses, consistency names in sampled (quick) / all (thorough, and always in Gen.ConfigTables) letter cases, plus mutated names; distinct = distinct byte strings; non-trivial = all (each exercises the real parser)",
        "trusted_base": [KERNEL, DRIVER, HARNESS,
                         "Gen/ConfigTables.lean is regenerated on every run by calling the real parseProtocolVersion / clWrapper.UnmarshalText (hooks VerifParseProtocolVersion, VerifUnmarshalConsistency) on a finite, exhaustively covered domain",
                         "Model/Config.lean (validation order in Run/buildNodes) is hand-written; kong/yaml parsing is library behaviour"],
        "assumptions": ["documented spellings are those of README/--help plus their numeric forms; names are ASCII (Go's Unicode case folding of non-ASCII look-alikes is outside the table)"],
    },
}

RETRY_STREAM = {"name": "retry", "quick": 1500, "thorough": 60000}
SCHED_STREAM = {"name": "sched", "quick": 1, "thorough": 1}
RETRY_RULE = ("retry: one request through the real proxy (in-process, loopback) against a scripted fakecass cluster: 1-4 hosts x 1-2 connections, "
              "every start offset, 15 request kinds (QUERY/EXECUTE/BATCH/graph x idempotent/non-idempotent/unparseable/unknown id/counter, ground truth attached by construction), "
              "hosts down, per-attempt outcomes drawn from every error kind, write types, read-timeout shapes, connection drop, UNPREPARED with each re-prepare outcome "
              "(biased 3:1 towards outcomes that continue the retry chain); compared: hosts that received attempts, re-prepares, reply class; "
              "distinct = distinct scenarios; non-trivial = all (each runs the real proxy end to end)")
PROPS["C04"] = {
    "module": "CqlVerif.Props.C04",
    "gens": ["policy", "retrygate"],
    "streams": [RETRY_STREAM, {"name": "idem", "quick": 1500, "thorough": 100000}],
    "claim": "Lean theorem retry_gate_shape_ok over the regenerated text of checkIdempotent / OnClose / OnResult / handleErrorResult (Gen/RetryGateFacts.lean, logging left out) against Spec/RetryGateShape; Lean theorem no_unsafe_reexec over Model/Retry for all plans, outcome scripts, re-prepare outcomes and host failures between attempts; policy decisions are generated from retrypolicy.go on every run; model tied to request.go/clientconn.go by the e2e retry stream, NoUnsafeReexec evaluated on every observed trace",
    "note": "trusted: Lean kernel, policy translator, hand-written Retry model + e2e correspondence (fakecass scripted outcomes); statement classification is C06's theorem plus the catalogue of request kinds whose ground truth is attached by construction; whether a backend applied a write is outside by definition",
    "rule": RETRY_RULE,
    "trusted_base": [KERNEL, DRIVER, HARNESS, "Gen/RetryPolicy.lean regenerated by the boolean-function translator from proxy/retrypolicy.go",
                     "Model/Retry.lean hand-written; fakecass backend built on the reference go-cassandra-native-protocol codec"],
    "assumptions": ["the safe-outcome set is the one the property states (unavailable, bootstrapping, read timeout, unprepared)",
                    "one outcome per attempt that reaches a backend; backends answer a frame at most once"],
}
PROPS["C05"] = {
    "module": "CqlVerif.Props.C05",
    "gens": ["policy"],
    "streams": [RETRY_STREAM, SCHED_STREAM, {"name": "lb", "quick": 3000, "thorough": 300000}],
    "claim": "Lean theorems over the generated policy (closed forms for all retry counts and field values) and over Model/Retry: attempts_bounded, failover_success, terminates; tied to the code by the policy translator and the e2e retry stream (ordered host/outcome traces vs the model)",
    "note": "trusted: Lean kernel, translator, hand-written model + e2e correspondence; leastBusyConn tie-breaking is compared but not specified",
    "rule": RETRY_RULE,
    "trusted_base": [KERNEL, DRIVER, HARNESS, "Gen/RetryPolicy.lean regenerated by the boolean-function translator from proxy/retrypolicy.go",
                     "Model/Retry.lean hand-written; fakecass backend built on the reference go-cassandra-native-protocol codec"],
    "assumptions": ["host set changes between attempts are modelled as a time-indexed down predicate", "re-execution after a successful re-prepare is not counted as a retry"],
}

CORE_STREAM = {"name": "core", "quick": 1200, "thorough": 40000}
STORM_STREAM = {"confirm": False, "name": "storm", "quick": 60, "thorough": 1500, "timeout": 7200}
CORE_RULE = ("core: sequentialised multi-request histories through the real proxy (1-3 hosts, 1-3 clients, up to 17 actions: requests on chosen client streams incl. equal ids on different clients and immediate reuse, "
             "backends hold every frame and answer / drop connections in any order) compared per request (hosts tried, reply class, client, stream) with Model.Core; "
             "storm: 2-8 concurrent clients x 40-240 requests (x8 thorough), 1-3 hosts x 1-2 connections, reordering backends, retried errors, up to 30 connection kills (single and simultaneous), "
             "bursts that hold >2048 requests in flight per connection; oracles ExactlyOne and Routed on what the clients observed; "
             "distinct = distinct histories/storm parameters; non-trivial = all")
CORE_TB = [KERNEL, DRIVER, HARNESS, "Model/Core.lean hand-written (atomic handler steps); atomicity of a handler w.r.t. other requests rests on request.mu / closingMu (lock facts, C18) and is otherwise explored by the storm stream only",
           "Go runtime, channels, sync.Map, TCP and timers are not modelled; backend assumption: a frame is answered at most once on its own connection and stream"]
PROPS["C01"] = {
    "module": "CqlVerif.Props.C01",
    "gens": ["policy"],
    "streams": [CORE_STREAM, STORM_STREAM, RETRY_STREAM, SCHED_STREAM, {"name": "ks", "quick": 400, "thorough": 10000}],
    "shrink": False,
    "claim": "Lean theorems replies_le_one and reply_on_own_stream over Model/Core for every interleaving of handler steps, any number of clients/requests/hosts/connections/streams and every fault sequence (induction over arbitrary action lists); single-request liveness answered_when_attempts_answered; liveness of the concurrent core as an invariant: unanswered_is_owned (in every reachable state a request without an answer has a frame on the wire of a live connection, or sits on a dead connection whose Closing has not run, or has a close notification due), quiescent_all_answered (nothing in flight => every accepted request has exactly one answer), accepted_send_is_owned; tied to the code by the core (differential) and storm (oracle) e2e streams",
    "note": "safety half proved outright; 'never none' is proved as an ownership invariant of Model/Core (what remains to the runtime: the backend answers what is on a live wire or the connection dies, Closing and its notifications run) and as termination of the single-request life-cycle (Model/Retry), and checked by the ExactlyOne oracle on e2e storms; intra-handler interleavings rest on lock facts, not on a mechanised reduction theorem",
    "rule": CORE_RULE, "trusted_base": CORE_TB,
    "assumptions": ["the client stays connected", "every backend attempt is answered or its connection dropped"],
}
PROPS["C02"] = {
    "module": "CqlVerif.Props.C02",
    "gens": ["policy"],
    "race": True,
    "streams": [CORE_STREAM, STORM_STREAM, {"name": "late", "quick": 40, "thorough": 3000}, {"name": "bytes", "quick": 300, "thorough": 20000}, {"name": "ks", "quick": 400, "thorough": 10000}, {"name": "race", "quick": 0, "thorough": 20, "cache": False, "confirm": False}],
    "shrink": False,
    "claim": "Lean theorems streams_partition, wire_matches_pending and route_correct over Model/Core for all interleavings, stream-id choices, recycling and exhaustion; tied to the code by the core and storm e2e streams (tokens echoed by the backends, Routed oracle) and by the late stream (one backend connection over histories of thousands of requests: internal requests abandoned by their caller and answered late while the 2048 stream ids are recycled)",
    "note": "trusted: Lean kernel, hand-written model + e2e correspondence; sync.Map/channel linearizability assumed; backends that answer a stream twice are C17's subject",
    "rule": CORE_RULE, "trusted_base": CORE_TB,
    "assumptions": ["a backend answers a frame at most once, on the connection and stream it arrived on"],
}

PROPS["C13"] = {
    "module": "CqlVerif.Props.C13",
    "gens": ["gate"],
    "streams": [{"name": "gate", "quick": 300, "thorough": 6000}],
    "shrink": False,
    "claim": "Lean theorem gate_shape_ok over the regenerated shape of client.Receive (Gen/GateFacts.lean: order of header decode, version gate, body decode and dispatch; the gate's condition and body; every case of the dispatch) against Spec/GateShape; Lean theorems gate_ok (every version byte x opcode byte x configured maximum x decodable-or-not, via a kernel-checked finite table lifted by an abstraction lemma), gate_closed_form, out_of_range_never_routed, startup_one_frame, unsupported_compression_only_error over Model/Front; tied to proxy.go by the gate stream: one fresh connection per probe against the real proxy (known versions x both directions x defined opcodes [all 256 in thorough] x every maximum, unknown version bytes) plus handshake sequences",
    "note": "trusted: Lean kernel, hand-written Front model + e2e correspondence; the pinned protocol library's header/body decoding is modelled (which opcodes are valid, which minimal bodies decode), not verified; TLS listener not covered",
    "rule": "gate: X probes = one frame with a chosen version/direction byte and opcode (body rendered by the reference codec for that version) followed by OPTIONS to test usability; handshake sequences of OPTIONS/STARTUP(compression names in any case, unknown, empty)/REGISTER/QUERY/gate probes; compared per frame: reply class and count, frames reaching the backend; distinct = distinct sequences; non-trivial = all",
    "trusted_base": [KERNEL, DRIVER, HARNESS, "Model/Front.lean hand-written", "GateSpec orders versions numerically, as the gate does (v5 < DSEv1 < DSEv2)"],
    "assumptions": ["frames that are not requests at all (response opcodes, invalid opcodes) may be dropped by closing the connection"],
}

PROPS["C08"] = {
    "module": "CqlVerif.Props.C08",
    "gens": ["policy"],
    "streams": [{"name": "prep", "quick": 800, "thorough": 30000}, {"name": "ks", "quick": 400, "thorough": 10000}],
    "shrink": False,
    "claim": "Lean theorems unprepared_recovered, cache_filled, execute_answered, execute_succeeds over Model/Prepared for every plan and every backend/proxy state (hosts that never saw the PREPARE, restarted hosts, hosts added later, failing/dropped re-prepares); tied to clientconn.go/connpool.go/session.go by the prep e2e stream (backends that execute an id only if a PREPARE reached them, each compression, late-added hosts, ids inside batches)",
    "note": "trusted: Lean kernel, hand-written model + e2e correspondence; the cache is modelled as a map (LRU eviction beyond ~390k entries is outside: hypothesis 'still cached' is explicit); backend assumption: after a successful PREPARE the same connection executes the id",
    "rule": "prep: histories of PREPARE/EXECUTE/BATCH(prepared child) over 1-3 hosts (+1 joining later), none/lz4/snappy, node restarts (forget), scripted failure (error / connection drop) of the next PREPARE on a node; compared: every client reply class and the hosts that received re-prepares; PreparedOK oracle on the real replies; distinct = distinct histories",
    "trusted_base": [KERNEL, DRIVER, HARNESS, "Model/Prepared.lean hand-written"],
    "assumptions": ["the statement is still in the proxy's prepared cache", "re-prepare PREPAREs are answered or their connection dropped"],
}

PROPS["C14"] = {
    "module": "CqlVerif.Props.C14",
    "streams": [{"name": "events", "quick": 600, "thorough": 20000}, {"name": "shake", "quick": 3000, "thorough": 200000}],
    "shrink": False,
    "claim": "Lean theorems registry_inv, fanout_exact, no_topology_forward, disconnect_isolated, register_other_types, hand_over_conserves (the bounded channel from the control connection's reader to the event loop neither drops nor reorders, for every capacity) over Model/Events; control_handshake_registers (for every server script - READY at once, any authenticator with or without a challenge round trip, version refusals first, errors, silence - a successful handshake of a connection with an event handler ends with REGISTER), pooled_handshake_never_registers over Model/Handshake, tied to clientconn.go by the shake stream (the real ClientConn.Handshake against a scripted server: frames received and outcome) for every history of connect/register(any subset)/disconnect/events/control-connection failover; tied to proxy.go/cluster.go by the events e2e stream (fakecass injects events on the control connection; clients log EVENT frames: stream -1, content, order)",
    "note": "trusted: Lean kernel, hand-written model + e2e correspondence (sequentialised histories); events emitted while no control connection exists are outside the statement; the EVENT frame carries the cluster's negotiated version, not the client's (recorded, not judged)",
    "rule": "events: 1-4 clients, histories of up to 17 actions: connect, REGISTER for any subset of the three event types, disconnect, schema events of all five targets, topology and status events, control-connection drops followed by fail-over; compared: per client the ordered list of event ids received; distinct = distinct histories",
    "trusted_base": [KERNEL, DRIVER, HARNESS, "Model/Events.lean hand-written"],
    "assumptions": ["a disconnect has been noticed by the proxy before the next event (the harness waits 15 ms)"],
}

PROPS["C07"] = {
    "module": "CqlVerif.Props.C07",
    "streams": [{"name": "ks", "quick": 800, "thorough": 30000}, {"name": "gate", "quick": 300, "thorough": 6000}],
    "shrink": False,
    "claim": "Lean theorems forward_uses_current, use_failure_frame, use_success (reply names the keyspace as the backend would; only this client's state changes), getSession_spec (session_key_inv / pool_conn_keyspace) over Model/Keyspace for all interleaved histories; tied to proxy.go/session.go/connpool.go by the ks e2e stream: fakecass tags each connection with (keyspace, version, compression) and logs them per tokenised request",
    "note": "trusted: Lean kernel, hand-written model + e2e correspondence (sequentialised histories); the fake backend implements CQL identifier rules (unquote / lower-case); simultaneous USE of one new keyspace by many clients is covered by the race run of C18, not here",
    "rule": "ks: 1-3 clients with versions 3/4 and none/lz4/snappy, histories of USE (unquoted any case, quoted, with doubled quotes, non-existent) and data requests; compared per action: keyspace named in the reply / backend error, and for data requests the backend connection's (keyspace, version, compression); distinct = distinct histories",
    "trusted_base": [KERNEL, DRIVER, HARNESS, "Model/Keyspace.lean hand-written"],
    "assumptions": ["keyspace names are ASCII", "reconnected pool connections re-run USE (connPool.connect) - exercised only through session creation here"],
}

PROPS["C16"] = {
    "module": "CqlVerif.Props.C16",
    "gens": ["slot"],
    "streams": [{"name": "reconn", "quick": 2000, "thorough": 200000}, {"name": "topo", "quick": 150, "thorough": 5000, "timeout": 7200}, {"name": "heal", "quick": 14, "thorough": 400, "timeout": 7200}, {"name": "shake", "quick": 3000, "thorough": 200000}, RETRY_STREAM],
    "shrink": False,
    "claim": "Lean theorems delay_bounds (all base/max with 0<base<=max, base<2^44 ns, all attempt counts and jitters, Go int64 wrap-around modelled) + overflow_witness for the excluded range, reset_restarts, views_agree / refresh_follows_peers (cluster view, load balancer and session pools equal the last peers table for every refresh / fail-over history), outage_iff_not_connected; over Model/Slot (the stayConnected loops of a pool slot and of the control connection): never_abandoned (after every turn of every history the loop is connected, has a connect timer armed, or was stopped), heals, loss_rearms, backoff_restarts_after_success (the delay armed after a re-established connection is lost again is what a fresh policy yields), armed_within_bounds (every delay a timer is ever armed with lies in [base, max]), slot_shape_ok (the shape of both loops, regenerated from the syntax tree on every run, is the one the model has); tied to reconnpolicy.go by a differential stream on the public API and to cluster.go/session.go/lb.go by the topo stream (real Cluster+LB+Session wired as Proxy.Connect, 40 ms refresh window, fakecass membership changes, child process so listener crashes are observed) and to connpool.go / cluster.go's reconnection loops by the heal stream (real proxy; the pooled or the control connection is dropped again and again and the backend turns away k attempts: when each attempt arrives is compared with the delays Model/Slot arms)",
    "note": "trusted: Lean kernel, hand-written models + correspondence; timers are real-time in the tie (generous margins) and event order in the model; heartbeat/idle-timeout detection and the readiness endpoint are exercised by the retry/storm/e2e streams only; the heal stream measures real time: lower bounds are exact (a timer never fires early), upper bounds carry 300 ms of slack; negative base delays are outside (delay_bounds hypothesis)",
    "rule": "reconn: base x max grid incl. 0, negatives, base>max, powers of two around the 2^44/2^45 overflow boundary, random 63-bit values; sequences of NextDelay/Reset/Clone up to 70 calls; the real delay must be the model's for one of the 30 jitters. topo: 1-3 initial nodes, joins, leaves, sessions on existing/non-existent keyspaces, control-connection drops, probes of the load balancer's plan and of session routing; distinct = distinct op lists. heal: pool / control connection x base 1-40 ms x max 0.4-3 s x 2-6 rounds of (drop, k refused attempts, one accepted), k up to 5 (pool: 12th delay of the sequence) / 10 (control); verdicts: not reconnected, delay below base, above max, back-off not restarted after a success, gap outside the model's window",
    "trusted_base": [KERNEL, DRIVER, HARNESS, "Model/Reconnect.lean, Model/Cluster.lean, Model/Slot.lean hand-written", "Gen/SlotFacts.lean regenerated by `vh extract slot` (go/ast over connpool.go, cluster.go); Spec/SlotShape.lean the expected shape"],
    "assumptions": ["0 < base <= max and base < 2^44 ns for the bounds theorem", "the peers table read by a refresh has no duplicate hosts"],
}

PROPS["C06"] = {
    "module": "CqlVerif.Props.C06",
    "gens": ["lexer"],
    "streams": [{"name": "lex", "quick": 4000, "thorough": 400000}, {"name": "idem", "quick": 6000, "thorough": 600000},
                # ast: the syntax trees of Model/CqlAst against the real scanner (rendering) and the real classifier (verdict)
                {"name": "ast", "quick": 4000, "thorough": 300000}],
    "shrink": False,
    "claim": "Lean theorems term_grammar_sound (by mutual induction over the syntax trees of the CQL term grammar - literals, bind markers, list/set/map/UDT/tuple literals to any depth, casts, calls: on the rendering of any term in any token context, with any fuel, the parser answers not-idempotent or has read exactly the term and the term holds no now()/uuid() call) insert_grammar_sound, update_grammar_sound, update_where_grammar_sound, delete_where_grammar_sound, batch_grammar_sound, insert_if_not_idempotent and counter_update_not_idempotent (every child of a batch of INSERTs; every INSERT … VALUES (terms) <any tail> and every UPDATE … SET c = term, … <tail>, through classify from the first token: verdict idempotent => no inserted / assigned value holds such a call); plain_term_accepted, plain_insert_accepted and plain_update_accepted (the other direction: plain terms, plain INSERTs and plain UPDATE assignments are read to their end and answered idempotent without error, given fuel for their size); Lean theorem no_verdict_dropped (for every token stream: verdict idempotent => no function term the classifier parsed, at any nesting depth and in every clause and batch child, was a call of now()/uuid(); ghost flag + preservation lemmas through all 30 parser functions); Lean theorems over the regenerated scanner tables + hand-written classifier model, for every token stream and every fuel: unparseable_false (error => not idempotent, by induction through all 25 parser functions), total, select_idempotent, ddl_use_not_idempotent, counter_batch_not_idempotent, if_clause_not_idempotent; soundness w.r.t. the documented rule, plain-mutation completeness and case/whitespace/terminator invariance are decided by the idem stream's ground-truth oracle (statements generated from a CQL grammar with truth attached by construction) - they are not theorems (a grammar-level classify_sound over ASTs was not attempted; no_verdict_dropped is the half of it that concerns the classifier's own traversal)",
    "note": "partial: grammar-level soundness over syntax trees is proved for terms, INSERT statements and the plain assignments of UPDATE statements (token level; the scanner's part - text to those tokens - is the ast stream's); WHERE clauses of the forms column-op-term and column-IN-terms, whole-row DELETEs and batches of INSERTs are covered too; for the other UPDATE operations and relation forms, DELETE selectors and batches with UPDATE / DELETE children it is checked by the ground-truth stream, not proved; no_verdict_dropped and the other theorems hold for arbitrary bytes. Trusted: Lean kernel, the goto-program translator + scanner interpreter (validated against the real lexer.next() on every run), hand-written parser model (validated against parser.IsQueryIdempotent on every run), the generator's ground truth",
    "rule": "ast: random syntax trees of Model/CqlAst written out as CQL text by the harness and as tokens by Term.render - real scanner tokens vs rendering, real verdict on INSERT INTO <table> (c) VALUES (<text>) vs the model's, verdict idempotent => Term.nonIdem = false. lex: the repo's own test strings, keyword case variants, truncations / single-byte mutations / random strings over a token-heavy alphabet incl. NUL, 0xFF and UTF-8, generated statements in random case/whitespace variants; compared: token kinds, end positions, identifier text. idem: statements from a type-directed CQL generator (INSERT incl. JSON, UPDATE, DELETE, BATCH logged/unlogged/counter, USING, WHERE relations of every shape, IF, nested list/set/map/UDT/tuple/cast/function terms to depth 4, system and user now()/uuid()), each with 3 meaning-preserving variants, plus truncated/mutated statements; oracles: unsound / plain-rejected / variant-changes-verdict / error-but-idempotent / panic; distinct = distinct texts",
    "trusted_base": [KERNEL, DRIVER, HARNESS, "Gen/LexTables.lean regenerated from parser/lexer.go by partial evaluation of the ragel goto program", "Model/Lexer.lean (60-line interpreter), Model/Parser.lean hand-written", "Model/CqlAst.lean (the term grammar and its rendering as tokens) hand-written, compared with the real scanner by the ast stream"],
    "assumptions": ["identifiers are compared ASCII-case-insensitively (strings.EqualFold's Unicode folding of non-ASCII identifiers is compared in the tie, not modelled)"],
}

PROPS["C09"] = {
    "module": "CqlVerif.Props.C09",
    "gens": ["lexer"],
    "streams": [{"name": "handled", "quick": 2000, "thorough": 100000}, {"name": "route", "quick": 300, "thorough": 10000}],
    "shrink": False,
    "claim": "Lean theorems non_select_forwarded, use_handled, handled_select_iff (handled <=> effective keyspace is system and the table is virtualised, under CQL identifier rules), foreign_qualifier_forwarded over Model/Select for every token stream and current keyspace; tied to parser.IsQueryHandled by the handled stream over the product {current keyspace} x {qualifier} x {table} x {selectors} x {trailing clauses} x {statement kinds} with ground truth by construction, and end to end by the route stream (QUERY, PREPARE and EXECUTE of the returned id: did the statement reach a backend)",
    "note": "trusted: Lean kernel, regenerated scanner tables + interpreter, hand-written Select model, the generator's ground truth; statements outside the generated family are covered by the differential stream only",
    "rule": "handled: 10 current keyspaces x 10 qualifiers x 20 tables x 11 selector lists x 6 trailing clauses (every 9th combination quick, all 132000 thorough) + USE forms + every other statement kind + generator statements; compared: handled, error, statement kind, table, selector count. route: real proxy, 18 fixed + generated cases; distinct = distinct (keyspace, text) pairs",
    "trusted_base": [KERNEL, DRIVER, HARNESS, "Gen/LexTables.lean regenerated", "Model/Select.lean hand-written"],
    "assumptions": ["identifiers are ASCII"],
}

PROPS["C11"] = {
    "module": "CqlVerif.Props.C11",
    "streams": [{"name": "codec", "quick": 6000, "thorough": 400000}],
    "shrink": False,
    "claim": "Lean theorems agree_query / agree_execute / agree_batch (partial decoding of every valid body - any sizes in range, any parameters, with and without result-metadata id, any number and kind of batch children - returns exactly the fields written, so re-encoding reproduces the bytes), reencode_execute (for every byte string the decoder accepts), decode_total, over Model/Wire + Model/PartialCodec; tied to codecs/partial_codecs.go and to the reference codec by the codec stream (reference-generated bodies over the full option space x v3/v4/v5/DSEv1/DSEv2, prefixes, single-byte mutations, random bytes; panics caught)",
    "note": "trusted: Lean kernel, hand-written primitives/codec model (validated against the real partial codecs on every run), the pinned go-cassandra-native-protocol library as the definition of 'valid body' (its head-field layout is checked by the Agrees oracle on every run, not proved)",
    "rule": "codec: bodies encoded by the reference codec from generated QUERY/EXECUTE/BATCH messages (all QueryOptions flags, named/positional/null/unset/empty values, paging state, serial consistency, timestamps, keyspace, now-in-seconds, continuous paging, 0-4 batch children of both kinds) for each of the five versions, plus prefixes (all prefixes in thorough), byte mutations and random bytes; compared: partial decode fields / error, re-encoded bytes, EncodedLength; Agrees oracle vs the reference decoder; distinct = distinct (version, opcode, body)",
    "trusted_base": [KERNEL, DRIVER, HARNESS, "Model/Wire.lean, Model/PartialCodec.lean hand-written"],
    "assumptions": ["[long string] lengths are non-negative in valid bodies (the reference encoder never writes a negative length)"],
}

BYTES_STREAM = {"name": "bytes", "quick": 300, "thorough": 20000, "timeout": 7200}
BYTES_RULE = ("bytes: real proxy between a raw client and fakecass; per case a (version in v3/v4/v5/DSEv1/DSEv2, compression none/lz4/snappy, unsupported-consistency list, override level) configuration and 6-11 requests "
              "(QUERY incl. generator statements, EXECUTE of prepared SELECT/non-SELECT ids, BATCH, PREPARE) with all QueryOptions flags, named/positional values, paging state, timestamps, keyspace, now-in-seconds, continuous paging, "
              "tracing flag, custom payload; responses of every kind incl. non-retried errors, tracing ids, warnings, custom payloads; compared byte for byte: request header flags/opcode/version/body at the backend, declared length vs bytes present, "
              "response header/body at the client; overridden requests decoded with the reference codec and compared field by field; distinct = distinct configurations")
PROPS["C03"] = {
    "module": "CqlVerif.Props.C03",
    # late: what a client receives on a stream is the backend's answer to what it sent there (backend ids recycled, the
    # connection's own requests answered late); ks: a request is forwarded - not answered by the proxy - whatever
    # USE statements, accepted or rejected, came before it on the connection
    "streams": [BYTES_STREAM, {"name": "late", "quick": 40, "thorough": 3000}, {"name": "ks", "quick": 400, "thorough": 10000}],
    "shrink": False,
    "claim": "Lean theorems header_roundtrip (every 9-byte v3+ header), forward_transparent (every raw frame: any version byte, flags, opcode, body of any length/content; only the two stream bytes change), forward_length over Model/Frame; tied to proxy.go/request.go/clientconn.go by the bytes e2e stream (raw bytes recorded on both sides of the real proxy)",
    "note": "trusted: Lean kernel, hand-written frame model + e2e byte comparison; bufio coalescing/TCP segmentation (streams compared after reassembly); compression is an opaque body for forwarding; v5 modern framing does not exist in the pinned library",
    "rule": BYTES_RULE, "trusted_base": [KERNEL, DRIVER, HARNESS, "Model/Frame.lean hand-written"],
    "assumptions": ["frames the proxy answers itself are C09's subject", "errors the retry policy retries are C05's subject (only never-retried error kinds are used as responses)"],
}
PROPS["C12"] = {
    "module": "CqlVerif.Props.C12",
    "streams": [BYTES_STREAM, {"name": "codec", "quick": 3000, "thorough": 100000}],
    "shrink": False,
    "claim": "Lean theorems override_query / override_execute / override_batch (on every valid body in the list: exactly the two consistency bytes change, length preserved so the frame stays well-formed), select_untouched, other_consistency_untouched, no_config_identity over Model/Frame + Model/PartialCodec; tied to proxy.go by the bytes e2e stream with every class of unsupported list x override level x request kind x header flags x version x compression x prepared SELECT/non-SELECT",
    "note": "trusted: Lean kernel, hand-written models + e2e; the custom-payload / tracing prefix of a re-encoded body is compared as a map by the stream, not modelled; isSelect for EXECUTE comes from the PREPARE-time classification (C09's SELECT detection)",
    "rule": BYTES_RULE, "trusted_base": [KERNEL, DRIVER, HARNESS, "Model/Frame.lean, Model/PartialCodec.lean hand-written"],
    "assumptions": ["valid bodies as in C11"],
}

PROPS["C10"] = {
    "module": "CqlVerif.Props.C10",
    "gens": ["lexer"],
    "streams": [{"name": "ring", "quick": 700, "thorough": 30000}],
    "shrink": False,
    "claim": "Lean theorem host_id_is_version3_uuid over Model/Md5; Lean theorems proxies_agree (two proxies given the same set of peer addresses - in any order - build the same sequence of (address, token) pairs: the address order is a strict total order, insertion by it sorts, a sorted list is determined by its members), tokens_ok (every ring size below 2^32, every position: range, strictly increasing in address order, first = minimum token), local_one_row, peers_rows, projection shape (row width = advertised columns for every selector list: order, aliases, *, count, now()), self_not_a_peer over Model/Ring + Model/Select; tied to proxy.go/parser by the ring e2e stream: generated configurations (0-16 IPv4/IPv6 peers, with/without self, DCs, explicit/partial tokens, DSE/non-DSE) x selector lists, rows decoded under the advertised types and compared cell by cell with the model; host ids checked against an independent version-3-UUID oracle",
    "note": "MD5 (RFC 1321) and nameBasedUUID are modelled in Model/Md5: host_id_is_version3_uuid is proved for every address text (16 bytes, version nibble 3, variant bits 10, all other bits the digest), the RFC's test suite is kernel-evaluated, and the driver computes every host id the ring stream compares. Trusted: Lean kernel, hand-written models, scanner tables, e2e harness; DNS resolution of non-literal addresses is not covered",
    "rule": "ring: per case a proxy configuration (rpc-address or none, data center or the cluster's, own tokens or computed, 0-16 peers drawn from 16 IPv4/IPv6 addresses incl. the proxy's own entry, peer DCs/tokens, peers without rpc-address / tokens) and a SELECT on system.local / system.peers / peers_v2 / schema_* (13+9 selector lists, table spelled lower/upper/quoted); compared: refusal class, column metadata, row count, every decoded cell; distinct = distinct (configuration, query)",
    "trusted_base": [KERNEL, DRIVER, HARNESS, "Model/Ring.lean, Model/Md5.lean hand-written", "Gen/LexTables.lean regenerated"],
    "assumptions": ["peer addresses are distinct IP literals", "fewer than 2^32 peers"],
}

PROPS["C17"] = {
    "module": "CqlVerif.Props.C17",
    "gens": ["panics", "locks"],
    "streams": [{"name": "hostile", "quick": 500, "thorough": 20000}],
    "shrink": False,
    "claim": "Lean theorems: sites_justified / lexer_sites / stores_typed (every partial operation - index, slice, single-value type assertion, explicit panic, integer division - in proxy, proxycore, codecs, parser, with the guards on the way to it, regenerated from the typed AST of /repo on every run, has a justification; kernel-evaluated), identifier_no_panic, queryHosts_no_panic, queryHosts_hosts_nonempty, leastBusy_no_panic, fillChildren_no_panic, countArg_no_panic, planNext_no_panic, skipPositionalValues_suffix (the guarded operations cannot panic, for every input, on explicit-panic models), malformed_closed, routed_wellformed, isolation over Model/Hostile.clientStream (header + body decoders of every request opcode); wedging: lock_order_ranked (every mutex acquisition in proxy/proxycore with another lock possibly held - may-hold analysis over typed SSA + VTA call graph, regenerated on every run - goes up in Spec/LockOrder's rank; kernel-evaluated), no_lock_deadlock (ranked acquisition excludes every cycle of goroutines waiting for each other's locks, Lemmas/Deadlock), sends_under_lock_allowed (a blocking channel send happens only under the start-up lock or the request's own lock, never under a lock other clients' requests need); nonreading_client_starves_others (Model/Fanout: the open finding C17:canary:H stated and proved about the model of the code as it is); tied to the code by the hostile stream: the real proxy in a child process facing generated client byte streams and hostile backends with a canary client, outcomes compared with the model",
    "note": "partial: nil dereferences and panics inside the pinned libraries cannot be inventoried syntactically - they are reached only through the hostile stream's generators (finding: RESULT(Void) to a topology query); the justification table's invariant / notPeerDriven entries are reviewed claims, not theorems; memory exhaustion by declared lengths above 16 MiB is out of the property's scope. Trusted: Lean kernel, extractor (go/types), hand-written models, harness",
    "rule": "hostile: each case starts the real proxy in a child process (2 backend nodes, heart-beats on) with a canary client connected; client family: hostile strings (lone quote, empty, unbalanced, NUL, non-UTF-8, long) in every string-typed field x 5 max versions x 5 client versions, generated multi-frame byte streams of every request opcode with mutated flags / lengths (0, short, +k, negative, 16 MiB) / truncated or corrupted bodies / opcodes / version bytes / direction, frames up to 16 MiB; backend family: 80 misbehaviours (wrong stream ids, duplicates, short / garbage ERROR and RESULT bodies, every flag, wrong opcodes / direction / version, negative length, truncated, unsolicited frames and events, UNPREPARED for unknown ids) and 19 malformed system.local / system.peers answers on control reconnect; a USE whose answer the backend delays or withholds (U:) and a client that pipelines requests, never reads and stays connected (H:, the open finding); verdict: process alive, canary (handled + forwarded query, before/after, plus a late joiner) answered correctly, attacker outcome sequence = model; distinct = distinct attack",
    "trusted_base": [KERNEL, DRIVER, HARNESS, "Gen/PanicSites.lean regenerated by `vh extract panics` (go/packages + go/types over /repo)", "Spec/PanicTable.lean hand-written justifications", "Model/Hostile.lean, Model/Fanout.lean hand-written", "Gen/LockOrder.lean regenerated by `vh extract locks` (may-hold locksets at every Lock/RLock and every blocking send; go/ssa + VTA); Spec/LockOrder.lean the ranks"],
    "assumptions": ["declared body lengths up to 16 MiB", "the attacker's connection has not negotiated compression (compressed bodies after negotiation are reported as unmodelled and checked for crash / canary only)"],
}


def c18_extra(tier, seed):
    """The concurrent scenario families of C01/C02/C07/C08/C14/C16 (the harness's e2e streams) run once more
    with the race detector compiled in; any report is a violation, keyed by the pair of access sites."""
    import glob, os, shutil, tempfile
    from . import core
    core.build_harness(race=True)
    sizes = {"storm": (2, 12), "core": (150, 3000), "ks": (60, 1500), "prep": (60, 1500), "events": (60, 1500), "retry": (150, 4000), "topo": (6, 60), "reconn": (6, 40)}
    out = {"violations": [], "evaluations": 0, "distinct": [], "coverage": {"race_detector_runs": {}}, "notes": []}
    for name, (q, t) in sizes.items():
        n = t if tier == "thorough" else q
        d = tempfile.mkdtemp(prefix="vhrace", dir=core.WORK)
        try:
            env = dict(os.environ, GORACE="halt_on_error=0 history_size=3 log_path=" + os.path.join(d, "r"))
            f = os.path.join(d, "out.txt")
            p = core.vh(["gen", name, "-seed", str(seed), "-n", str(n), "-tier", tier, "-out", f], race=True, env=env, timeout=7200)
            lines = len(open(f).read().splitlines()) if os.path.exists(f) else 0
            logs = glob.glob(os.path.join(d, "r.*"))
            keys = []
            if logs:
                k = core.vh(["racekeys"] + logs)
                keys = [l for l in k.stdout.splitlines() if l.strip()]
            out["evaluations"] += lines
            out["distinct"] += [("race:" + name, i) for i in range(lines)]
            out["coverage"]["race_detector_runs"][name] = {"cases": lines, "reports": len(keys), "exit": p.returncode}
            if p.returncode not in (0, 66) and lines == 0:
                raise core.Broken("race-enabled stream %s failed" % name, (p.stdout + p.stderr)[-2000:])
            for key in keys:
                keep = os.path.join(core.ROOT, "replays", "C18-race-%s-%s.log" % (name, abs(hash(key)) % 10**8))
                os.makedirs(os.path.dirname(keep), exist_ok=True)
                with open(keep, "w") as w:
                    for lf in logs:
                        w.write(open(lf).read())
                out["violations"].append({"stream": None, "op": "vh-race gen %s -seed %d -n %d -tier %s" % (name, seed, n, tier), "real": key,
                                          "key": "C18:race:" + key, "what": "data race reported by the race detector: %s (full report: %s)" % (key, keep)})
        finally:
            shutil.rmtree(d, ignore_errors=True)
    return out


PROPS["C18"] = {
    "module": "CqlVerif.Props.C18",
    "gens": ["locks"],
    "race": True,
    "streams": [{"name": "race", "quick": 2, "thorough": 60, "cache": False, "confirm": False}],
    "extra": c18_extra,
    "shrink": False,
    "claim": "Lean theorems guarded_accesses_ordered (lockset soundness over all traces admitted by mutex / RWMutex semantics) and discipline_holds, kernel-evaluated over access facts regenerated from /repo's typed SSA on every run (every read/write of a field of Proxy, client, request, ClientConn, connPool, Session, Cluster, Conn, the load balancer and the pending table, with the locks certainly held there - intra-procedural must-hold dataflow joined with the intersection over all call sites on the VTA call graph - and the goroutine roots the function runs on): each field written after initialisation has a declared discipline (guarded by a lock in the right mode / confined to one goroutine / written only at start-up) that every access obeys; tied to execution by the race detector: the race stream (16-32 clients on all cores: pipelined handshakes with compression, concurrent USE of new keyspaces, PREPARE/EXECUTE with UNPREPARED, connection loss, topology changes, schema events) and the e2e streams of C01/C02/C07/C08/C14/C16 rebuilt with -race",
    "note": "partial: guarded_accesses_ordered proves, for all executions, that two accesses made under the same lock (one in write mode) are separated by the first goroutine's unlock and the second's lock - for guarded fields; for confined / start-up / reviewed fields the ordering argument is stated, not proved; races on objects of the pinned protocol library (shared frames) are invisible to the field-level facts and are found only by the race-detector runs (three such defects were found and fixed); 'reviewed' disciplines are stated ordering arguments. Trusted: Lean kernel, extractor (go/ssa, VTA call graph), Go race detector",
    "rule": "race: each scenario = child process of the -race harness with N clients x families for 1.2 s (quick) / 4 s (thorough); every family alone, all together, random subsets; observation = set of racing access-site pairs (function names) from the detector's reports, plus process death; race_detector_runs: storm/core/ks/prep/events/retry/topo/reconn streams under -race; distinct = distinct scenario or stream case",
    "trusted_base": [KERNEL, HARNESS, "Gen/LockFacts.lean regenerated by `vh extract locks` (go/packages, go/ssa, callgraph/vta)", "Spec/LockDiscipline.lean hand-written", "Go race detector (ThreadSanitizer runtime)"],
    "assumptions": ["Proxy.Connect completes before Serve accepts clients (start-up writes)", "sync.Map, atomic and channel fields are race-free by construction and are not tracked"],
}

PROPS["C19"] = {
    "module": "CqlVerif.Props.C19",
    "gens": ["tls"],
    "streams": [{"name": "tls", "quick": 300, "thorough": 20000}],
    "shrink": False,
    "claim": "Lean theorems over Model/Tls (abstract certificates: key, signing key, names, validity, CA flag): accept_sound (accepted => the leaf names the bundle's host, is valid at handshake time and is linked to a bundle root by a path of valid CA certificates from the presented chain - for every bundle, chain and time), reject_empty / reject_wrong_name / reject_outside_validity / reject_untrusted (self-signed, other CA with or without that CA appended, missing intermediate), client_identity (SNI = node id, client certificate only to accepted servers); tls_shape_ok ties the model to astra/endpoint.go, astra/bundle.go, proxycore/conn.go through syntax-tree facts regenerated on every run (what the per-node config and the VerifyOptions contain, built inside the callback, fresh intermediate pool, handshake before start); the tls stream runs real handshakes (metadata service and node connections through contact-point and host-id endpoints) against servers presenting generated chains and compares accept/reject, application bytes reaching the server, SNI and the client certificate seen with the model",
    "note": "crypto/x509 path building and crypto/tls are trusted and abstracted (signatures, name constraints, key usages, path length are not modelled; the generator keeps to the attributes the model has); system root pool assumed not to contain the generated CAs. Trusted: Lean kernel, extractor, harness PKI generator",
    "rule": "tls: 24 named chains (valid leaf, two names, other CA leaf with/without its CA, self-signed (CA / twice), wrong / no name, expired, not yet valid, intermediate present / missing / not a CA / expired / under another CA, two intermediates in and out of order, intermediate loop, leaf signed by leaf, bundle CA as leaf, CA appended, junk appended, right name only on a second certificate) x {metadata service, contact-point endpoint, host-id endpoint}; certificates that expire / become valid between endpoint creation and connection; generated chains of depth 1-4 with random signer / validity / name / CA-flag faults and shuffled order; distinct = distinct (target, chain)",
    "trusted_base": [KERNEL, DRIVER, HARNESS, "Gen/TlsFacts.lean regenerated by `vh extract tls` (go/ast)", "Spec/TlsShape.lean, Model/Tls.lean hand-written", "Go crypto/x509 and crypto/tls"],
    "assumptions": ["the system certificate pool does not contain the test CAs", "certificates differ only in the modelled attributes"],
}

NOT_APPLICABLE = {}
