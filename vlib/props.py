"""Per-property configuration of ./check. Keep in step with MANIFEST.json and DESIGN.md §5."""

KERNEL = "Lean 4.33.0 kernel; axioms allowed: propext, Classical.choice, Quot.sound (audited by #print axioms on every theorem of the Props module)"
DRIVER = "the Lean driver (core-only lean_exe) executes exactly the model/spec definitions the theorems are about"
HARNESS = "Go harness (vh) linked against /repo's working tree with -tags verif; its generators bound what the correspondence sees"

PROPS = {
    "C15": {
        "module": "CqlVerif.Props.C15",
        "claim": "Lean theorems over Model/LB (plan_exact, plan_no_duplicates, exhausted_forever, members_exact, rotation, fair_window, snapshot_stable) for all notification histories, host counts and counter values; the model is tied to proxycore/lb.go by a differential stream on the public API and by the PlanSpec oracle evaluated on the real outputs",
        "note": "trusted: Lean kernel, hand-written model + correspondence generators, Go atomics/mutex semantics; concurrent interleavings of plan creation with notifications are not modelled",
        "streams": [{"name": "lb", "quick": 3000, "thorough": 300000}],
        "rule": "lb: notification histories over <=7 hosts with plans created/consumed at arbitrary points; exhaustive op lists over 2 hosts up to depth 5 (quick) / 7 (thorough), random histories up to 60 ops, counter jumps to the 2^32 and 2^64 wrap points through the VerifSetLBIndex hook; distinct = distinct op lists; non-trivial = contains at least one Next() call (all emitted cases do)",
        "trusted_base": [KERNEL, DRIVER, HARNESS,
                         "Model/LB.lean is hand-written; tied to proxycore/lb.go by the lb stream (public API differential) and by PlanSpec evaluated on the real outputs",
                         "atomic.Value / atomic.AddUint64 / sync.Mutex semantics (Go memory model) are assumed; concurrent interleavings are not modelled"],
        "assumptions": ["host lists shorter than 2^63", "fewer than 2^64 plans per process (rotation theorem); exactly-once holds without this bound",
                        "the cluster announces Add only for keys that are not members (wfFrom)"],
    },
    "C20": {
        "module": "CqlVerif.Props.C20",
        "claim": "theorems by kernel evaluation over behaviour tables regenerated from the real option parsers on every run (every letter-case variant of every documented spelling + near-misses): names select what they denote, are injective, unknown names rejected; Model/Config mirrors the start-up validation order",
        "note": "trusted: Lean kernel, the tabulator (calls the real functions through verif hooks), documented-name table in Spec/Names.lean; kong/yaml parsing and the Run-level refusal are exercised by the cfg stream, not proved",
        "technique": "Lean 4 kernel-checked table theorems over regenerated behaviour tables + differential",
        "gens": ["config"],
        "streams": [{"name": "names", "quick": 2000, "thorough": 100000}],
        "shrink": False,
        "rule": "names: every letter-case variant of every documented protocol-version spelling (v3 v4 v5 DSEv1 DSEv2 3 4 5 65 66) and near-misses, consistency names in sampled (quick) / all (thorough, and always in Gen.ConfigTables) letter cases, plus mutated names; distinct = distinct byte strings; non-trivial = all (each exercises the real parser)",
        "trusted_base": [KERNEL, DRIVER, HARNESS,
                         "Gen/ConfigTables.lean is regenerated on every run by calling the real parseProtocolVersion / clWrapper.UnmarshalText (hooks VerifParseProtocolVersion, VerifUnmarshalConsistency) on a finite, exhaustively covered domain",
                         "Model/Config.lean (validation order in Run/buildNodes) is hand-written; kong/yaml parsing is library behaviour"],
        "assumptions": ["documented spellings are those of README/--help plus their numeric forms; names are ASCII (Go's Unicode case folding of non-ASCII look-alikes is outside the table)"],
    },
}

NOT_APPLICABLE = {}
