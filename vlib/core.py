"""Orchestration shared by every property check: build, regenerate, audit, run streams,
classify verdicts, match known findings, write evidence. See DESIGN.md §3."""
import fcntl, hashlib, json, os, re, subprocess, sys, time

ROOT = os.path.dirname(os.path.dirname(os.path.abspath(__file__)))
WORK = os.path.join(ROOT, ".work")
LEAN = os.path.join(ROOT, "lean")
HARNESS = os.path.join(ROOT, "harness")
REPO = os.environ.get("VERIF_REPO", "/repo")
BIN = os.path.join(WORK, "bin")
DRIVER = os.path.join(LEAN, ".lake", "build", "bin", "driver")
ALLOWED_AXIOMS = {"propext", "Classical.choice", "Quot.sound"}
FORBIDDEN = re.compile(r"\b(sorry|admit|native_decide|bv_decide|implemented_by|unsafe)\b|^\s*axiom\s|maxHeartbeats\s+0", re.M)

GOENV = dict(os.environ, GOFLAGS="-mod=mod", GOPROXY="off", CGO_ENABLED="0")
GOENV.pop("GOTOOLCHAIN", None)  # the repo's go 1.24.2 toolchain is cached and selected automatically
GOENV.pop("GOSUMDB", None)


class Broken(Exception):
    """A proof obligation, the translator or the correspondence no longer checks."""
    def __init__(self, what, detail=""):
        super().__init__(what)
        self.what, self.detail = what, detail


def sh(cmd, cwd=None, env=None, timeout=None, check=False, input=None):
    p = subprocess.run(cmd, cwd=cwd, env=env, shell=isinstance(cmd, str), capture_output=True,
                       text=True, timeout=timeout, input=input)
    if check and p.returncode != 0:
        raise Broken("command failed: %s" % (cmd if isinstance(cmd, str) else " ".join(cmd)),
                     (p.stdout + p.stderr)[-4000:])
    return p


class Lock:
    def __enter__(self):
        os.makedirs(WORK, exist_ok=True)
        self.f = open(os.path.join(WORK, "lock"), "w")
        fcntl.flock(self.f, fcntl.LOCK_EX)
        return self
    def __exit__(self, *a):
        fcntl.flock(self.f, fcntl.LOCK_UN)
        self.f.close()


def build_harness(race=False):
    """go build -tags verif against /repo's working tree (Go's build cache makes the unchanged case fast)."""
    os.makedirs(BIN, exist_ok=True)
    out = os.path.join(BIN, "vh-race" if race else "vh")
    cmd = ["go", "build", "-tags", "verif"] + (["-race"] if race else []) + ["-o", out, "./cmd/vh"]
    env = dict(GOENV)
    if race:
        env["CGO_ENABLED"] = "1"
    # the harness links /repo through a replace directive; keep go.sum in step with the repo's
    try:
        repo_sum = open(os.path.join(REPO, "go.sum")).read()
        mine = os.path.join(HARNESS, "go.sum")
        cur = open(mine).read() if os.path.exists(mine) else ""
        missing = [l for l in repo_sum.splitlines() if l and l not in cur]
        if missing:
            open(mine, "a").write("\n".join(missing) + "\n")
    except OSError:
        pass
    p = sh(cmd, cwd=HARNESS, env=env, timeout=900)
    if p.returncode != 0:
        raise Broken("harness does not build against /repo with -tags verif", (p.stdout + p.stderr)[-4000:])
    if not race:
        # the program itself (package main, without the tag): the cfg stream asks it for its exit status
        exe = os.path.join(BIN, "cql-proxy")
        p = sh(["go", "build", "-o", exe, "."], cwd=REPO, env=dict(GOENV), timeout=900)
        if p.returncode != 0:
            raise Broken("package main of /repo does not build", (p.stdout + p.stderr)[-4000:])
    return out


def vh(args, timeout=3600, race=False, env=None):
    exe = os.path.join(BIN, "vh-race" if race else "vh")
    return sh([exe] + args, cwd=ROOT, timeout=timeout, env=env)


def lake_build(targets, timeout=3600):
    p = sh(["lake", "build"] + targets, cwd=LEAN, timeout=timeout)
    if p.returncode != 0:
        raise Broken("lake build failed for " + " ".join(targets), (p.stdout + p.stderr)[-6000:])
    return p


def theorem_names(props_file):
    src = open(props_file).read()
    ns = re.findall(r"^namespace\s+(\S+)", src, re.M)
    prefix = ns[0] + "." if ns else ""
    names = re.findall(r"^(?:protected\s+)?theorem\s+([A-Za-z_][\w'.]*)", src, re.M)
    n_examples = len(re.findall(r"^example\b", src, re.M))
    return [prefix + n for n in names], n_examples


def strip_comments(src):
    src = re.sub(r"/-.*?-/", "", src, flags=re.S)
    return re.sub(r"--.*", "", src)


def forbidden_tokens(files):
    hits = []
    for f in files:
        body = strip_comments(open(f).read())
        for m in FORBIDDEN.finditer(body):
            hits.append("%s: %s" % (os.path.relpath(f, ROOT), m.group(0).strip()))
    return hits


def lean_closure(module):
    """Project-local source files in the import closure of a module."""
    seen, todo = {}, [module]
    while todo:
        m = todo.pop()
        if m in seen:
            continue
        path = os.path.join(LEAN, *m.split(".")) + ".lean"
        if not os.path.exists(path):
            continue
        seen[m] = path
        for imp in re.findall(r"^import\s+(CqlVerif\.\S+)", open(path).read(), re.M):
            todo.append(imp)
    return seen


def audit(prop_id, module):
    """#print axioms for every theorem of Props/<id>; returns (theorems, discharged, report)."""
    props_file = os.path.join(LEAN, *module.split(".")) + ".lean"
    names, n_examples = theorem_names(props_file)
    if not names:
        raise Broken("no theorems found in " + module)
    os.makedirs(os.path.join(LEAN, "CqlVerif", "Audit"), exist_ok=True)
    audit_file = os.path.join(LEAN, "CqlVerif", "Audit", prop_id + ".lean")
    with open(audit_file, "w") as f:
        f.write("import %s\n" % module)
        for n in names:
            f.write("#print axioms %s\n" % n)
    p = sh(["lake", "env", "lean", audit_file], cwd=LEAN, timeout=1800)
    out = p.stdout + p.stderr
    if p.returncode != 0:
        raise Broken("axiom audit failed for " + module, out[-4000:])
    report, bad = {}, []
    for m in re.finditer(r"'([^']+)' (does not depend on any axioms|depends on axioms: \[([^\]]*)\])", out):
        axs = set(a.strip() for a in (m.group(3) or "").replace("\n", " ").split(",") if a.strip())
        report[m.group(1)] = sorted(axs)
        if not axs <= ALLOWED_AXIOMS:
            bad.append("%s depends on %s" % (m.group(1), sorted(axs - ALLOWED_AXIOMS)))
    missing = [n for n in names if n not in report]
    if missing:
        bad.append("no axiom report for: " + ", ".join(missing))
    hits = forbidden_tokens(lean_closure(module).values())
    if hits:
        bad.append("forbidden tokens: " + "; ".join(hits))
    if bad:
        raise Broken("axiom/forbidden-token audit of %s" % module, "\n".join(bad))
    return names, n_examples, report


def run_driver(lines_file, timeout=3600):
    with open(lines_file) as f:
        p = subprocess.run([DRIVER], stdin=f, capture_output=True, text=True, timeout=timeout)
    if p.returncode != 0:
        raise Broken("Lean driver crashed", (p.stdout[-2000:] + p.stderr[-2000:]))
    return p.stdout.splitlines()


def load_known():
    path = os.path.join(ROOT, "known_findings.json")
    if not os.path.exists(path):
        return []
    return json.load(open(path))


def write_evidence(prop_id, ev):
    os.makedirs(os.path.join(ROOT, "evidence"), exist_ok=True)
    path = os.path.join(ROOT, "evidence", prop_id + ".json")
    tmp = path + ".tmp"
    json.dump(ev, open(tmp, "w"), indent=1, sort_keys=True)
    os.replace(tmp, path)


def write_replay(prop_id, obj):
    d = os.path.join(ROOT, "replays")
    os.makedirs(d, exist_ok=True)
    h = hashlib.sha1(json.dumps(obj, sort_keys=True).encode()).hexdigest()[:10]
    path = os.path.join(d, "%s-%s.json" % (prop_id, h))
    json.dump(obj, open(path, "w"), indent=1, sort_keys=True)
    return path


def state_stamp(parts):
    """identifies (repo working tree, harness binary, args): a cached stream run is reused only if all are unchanged"""
    h = hashlib.sha1()
    h.update(sh(["git", "-C", REPO, "rev-parse", "HEAD"]).stdout.encode())
    h.update(sh(["git", "-C", REPO, "status", "--porcelain"]).stdout.encode())
    h.update(sh(["git", "-C", REPO, "diff"]).stdout.encode())
    try:
        st = os.stat(os.path.join(BIN, "vh"))
        h.update(("%d %d" % (st.st_size, int(st.st_mtime))).encode())
    except OSError:
        pass
    h.update("|".join(parts).encode())
    return h.hexdigest()[:16]
