import json, sys, random, subprocess, re
T=json.load(open('lex.json'))
table={int(k):v for k,v in T['table'].items()}
edges=T['edges']
eof={int(k):v for k,v in T['eof'].items()}
# token name -> number from lexer.go const order
names="tkInvalid tkEOF tkSelect tkInsert tkUpdate tkDelete tkBegin tkApply tkBatch tkCreate tkAlter tkDrop tkInto tkFrom tkUse tkUsing tkIf tkWhere tkAnd tkToken tkIs tkIn tkNot tkIdentifier tkStar tkComma tkDot tkColon tkQMark tkEqual tkAdd tkSub tkAddEqual tkSubEqual tkNotEqual tkGt tkLt tkLtEqual tkGtEqual tkLparen tkRparen tkLsquare tkRsquare tkLcurly tkRcurly tkInteger tkFloat tkBool tkNull tkStringLiteral tkHexNumber tkUuid tkDuration tkNan tkInfinity tkEOS".split()
num={n:i for i,n in enumerate(names)}

def apply(acts, st):
    # st: dict p, te, ts, act, tk, id, data ; returns override-next or None
    for a in (acts or []):
        op=a['op']
        if op=='te=p+1': st['te']=st['p']+1
        elif op=='te=p': st['te']=st['p']
        elif op=='p=te-1': st['p']=st['te']-1
        elif op=='p++': st['p']+=1
        elif op=='p--': st['p']-=1
        elif op=='ts=p': st['ts']=st['p']
        elif op=='ts=0': st['ts']=0
        elif op=='act': st['act']=a['k']
        elif op=='cs': pass
        elif op=='tk': st['tk']=num[a['tk']]
        elif op=='id': st['id']=st['data'][st['ts']:st['te']]
        elif op=='byact':
            k=str(st['act'])
            if k in a['alt']:
                r=apply(a['alt'][k], st)
                nx=a['altnext'][k]
                if nx!='fall':
                    assert nx=='goto:_out', nx
                    return 'out'
        else: raise Exception(op)
    return None

def nxt(data,p):
    pe=len(data)
    if p==pe: return (1,p,b'')
    st=dict(p=p,te=0,ts=0,act=0,tk=0,id=b'',data=data)
    cs=89
    enter=False
    while True:
        if enter:
            st['p']+=1
            if st['p']==pe:
                e=eof.get(cs)
                if e is None: break
                r=apply(e['acts'],st)
                if r=='out' or e['next']=='out': break
                m=re.match(r'st(\d+)',e['next']); cs=int(m.group(1)); enter=True
                continue
        e=edges[table[cs][data[st['p']]]]
        r=apply(e['acts'],st)
        if r=='out' or e['next']=='out': break
        m=re.match(r'(st|case)(\d+)',e['next']); cs=int(m.group(2)); enter=(m.group(1)=='st')
    p=st['p']
    tk=st['tk']
    if tk==0 and p==pe: return (1,p,st['id'] if False else b'')
    return (tk,p,st['id'] if tk==num['tkIdentifier'] else b'')

def lexall(data):
    out=[];p=0
    for _ in range(len(data)+2):
        tk,p,idv=nxt(data,p)
        out.append((tk,p,idv))
        if tk==1: break
    return out

def fmt(toks): return ''.join('%d:%d:%s '%(k,p,i.hex()) for k,p,i in toks)

# corpus: strings from parser tests + random
corpus=[]
for fn in subprocess.check_output("ls /repo/parser/*_test.go",shell=True).decode().split():
    src=open(fn).read()
    for m in re.finditer(r'"((?:[^"\\]|\\.)*)"',src):
        try: corpus.append(bytes(m.group(1),'utf-8').decode('unicode_escape').encode('latin-1','ignore'))
        except Exception: pass
    for m in re.finditer(r'`([^`]*)`',src): corpus.append(m.group(1).encode())
random.seed(int(sys.argv[1]) if len(sys.argv)>1 else 1)
alpha=b"abcdefxyzPTYMDHSW0123456789 \t\r\n'\"$-+.,;:?()[]{}<>=!*_eEnNaAiIfFtTuUsS\xc2\xb5\x00\xff"
for _ in range(int(sys.argv[2]) if len(sys.argv)>2 else 3000):
    n=random.randint(0,24)
    corpus.append(bytes(random.choice(alpha) for _ in range(n)))
# mutations of corpus strings
base=[c for c in corpus if len(c)>5][:400]
for c in base:
    for _ in range(3):
        b=bytearray(c); i=random.randrange(len(b)); b[i]=random.choice(alpha); corpus.append(bytes(b))
        corpus.append(c[:random.randrange(len(c))])
inp='\n'.join(c.hex() for c in corpus)+'\n'
real=subprocess.run(['/tmp/proto/real/reallex'],input=inp.encode(),capture_output=True).stdout.decode().split('\n')
bad=0
for c,r in zip(corpus,real):
    m=fmt(lexall(c))
    if m.strip()!=r.strip():
        bad+=1
        if bad<6: print('MISMATCH',c,'\n model',m,'\n real ',r)
print('cases',len(corpus),'mismatches',bad)
