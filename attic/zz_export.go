package parser

type VTok struct {
	Kind int
	P    int
	Id   string
}

func VerifLex(s string) []VTok {
	var l lexer
	l.init(s)
	var out []VTok
	for i := 0; i < len(s)+2; i++ {
		t := l.next()
		id := ""
		if t == tkIdentifier {
			id = l.id
		}
		out = append(out, VTok{int(t), l.p, id})
		if t == tkEOF {
			break
		}
	}
	return out
}
