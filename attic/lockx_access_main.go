package main

// Prototype 2: shared-field access facts with static locksets (must-hold in function ∪ entry lockset).
import (
	"fmt"
	"go/token"
	"go/types"
	"os"
	"sort"
	"strings"

	"golang.org/x/tools/go/callgraph"
	"golang.org/x/tools/go/callgraph/cha"
	"golang.org/x/tools/go/callgraph/vta"
	"golang.org/x/tools/go/packages"
	"golang.org/x/tools/go/ssa"
	"golang.org/x/tools/go/ssa/ssautil"
)

var tracked = map[string]bool{
	"proxy.Proxy": true, "proxy.client": true, "proxy.request": true,
	"proxycore.ClientConn": true, "proxycore.connPool": true, "proxycore.Session": true,
	"proxycore.Cluster": true, "proxycore.roundRobinLoadBalancer": true, "proxycore.Conn": true,
	"proxycore.pendingRequests": true,
}

func structName(t types.Type) string {
	if p, ok := t.Underlying().(*types.Pointer); ok {
		t = p.Elem()
	}
	if n, ok := t.(*types.Named); ok && n.Obj().Pkg() != nil {
		return n.Obj().Pkg().Name() + "." + n.Obj().Name()
	}
	return ""
}

func lockClass(v ssa.Value) string {
	switch x := v.(type) {
	case *ssa.UnOp:
		return lockClass(x.X)
	case *ssa.FieldAddr:
		st := x.X.Type().Underlying().(*types.Pointer).Elem()
		return structName(st) + "." + st.Underlying().(*types.Struct).Field(x.Field).Name()
	}
	return fmt.Sprintf("?%T", v)
}

type lockOp struct {
	key string
	acq bool
}

func asLockOp(c *ssa.CallCommon) (lockOp, bool) {
	callee := c.StaticCallee()
	if callee == nil || callee.Pkg == nil || callee.Pkg.Pkg.Path() != "sync" || callee.Signature.Recv() == nil {
		return lockOp{}, false
	}
	if !strings.Contains(callee.Signature.Recv().Type().String(), "Mutex") {
		return lockOp{}, false
	}
	m := map[string]lockOp{"Lock": {"/W", true}, "RLock": {"/R", true}, "Unlock": {"/W", false}, "RUnlock": {"/R", false}}
	op, ok := m[callee.Name()]
	if !ok {
		return lockOp{}, false
	}
	op.key = lockClass(c.Args[0]) + op.key
	return op, true
}

type set map[string]bool

func (s set) clone() set {
	r := set{}
	for k := range s {
		r[k] = true
	}
	return r
}
func (s set) keys() []string {
	var r []string
	for k := range s {
		r = append(r, k)
	}
	sort.Strings(r)
	return r
}
func inter(a, b set) set {
	r := set{}
	for k := range a {
		if b[k] {
			r[k] = true
		}
	}
	return r
}

func main() {
	cfg := &packages.Config{Mode: packages.LoadAllSyntax, Dir: "/repo"}
	pkgs, err := packages.Load(cfg, "./proxy", "./proxycore")
	if err != nil {
		panic(err)
	}
	if packages.PrintErrors(pkgs) > 0 {
		os.Exit(1)
	}
	prog, spkgs := ssautil.AllPackages(pkgs, ssa.InstantiateGenerics)
	prog.Build()
	mine := map[*ssa.Package]bool{}
	for _, p := range spkgs {
		if p != nil {
			mine[p] = true
		}
	}
	inMine := func(f *ssa.Function) bool {
		for f != nil && f.Parent() != nil {
			f = f.Parent()
		}
		return f != nil && f.Pkg != nil && mine[f.Pkg]
	}
	cg := vta.CallGraph(ssautil.AllFunctions(prog), cha.CallGraph(prog))

	// 1. per-instruction held sets (intra-procedural must-hold)
	heldAt := map[ssa.Instruction]set{}
	var funcs []*ssa.Function
	for f := range ssautil.AllFunctions(prog) {
		if !inMine(f) || f.Blocks == nil || strings.HasSuffix(prog.Fset.Position(f.Pos()).Filename, "_test.go") || strings.Contains(prog.Fset.Position(f.Pos()).Filename, "mockcluster") {
			continue
		}
		funcs = append(funcs, f)
		out := map[*ssa.BasicBlock]set{}
		in := map[*ssa.BasicBlock]set{}
		universe := set{}
		for _, b := range f.Blocks {
			for _, ins := range b.Instrs {
				if x, ok := ins.(ssa.CallInstruction); ok {
					if op, ok := asLockOp(x.Common()); ok {
						universe[op.key] = true
					}
				}
			}
		}
		for i, b := range f.Blocks {
			if i > 0 {
				out[b] = universe.clone() // TOP for a must-analysis
			}
		}
		for iter, changed := 0, true; changed && iter < 30; iter++ {
			changed = false
			for _, b := range f.Blocks {
				var cur set
				for _, p := range b.Preds {
					if o, ok := out[p]; ok {
						if cur == nil {
							cur = o.clone()
						} else {
							cur = inter(cur, o)
						}
					}
				}
				if cur == nil {
					cur = set{}
				}
				in[b] = cur
				h := cur.clone()
				for _, ins := range b.Instrs {
					if _, isDefer := ins.(*ssa.Defer); isDefer {
						continue
					}
					if x, ok := ins.(ssa.CallInstruction); ok {
						if op, ok := asLockOp(x.Common()); ok {
							if op.acq {
								h[op.key] = true
							} else {
								delete(h, op.key)
							}
						}
					}
				}
				if out[b] == nil || fmt.Sprint(out[b].keys()) != fmt.Sprint(h.keys()) {
					out[b] = h
					changed = true
				}
			}
		}
		for _, b := range f.Blocks {
			h := in[b].clone()
			for _, ins := range b.Instrs {
				heldAt[ins] = h.clone()
				if _, isDefer := ins.(*ssa.Defer); isDefer {
					continue
				}
				if x, ok := ins.(ssa.CallInstruction); ok {
					if op, ok := asLockOp(x.Common()); ok {
						if op.acq {
							h[op.key] = true
						} else {
							delete(h, op.key)
						}
					}
				}
			}
		}
	}
	// 2. entry locksets: intersection over call sites (non-go) of (held at site ∪ entry(caller)); roots (no callers in mine, or go targets) = {}
	entry := map[*ssa.Function]set{}
	isRoot := map[*ssa.Function]bool{}
	callers := map[*ssa.Function][]*callgraph.Edge{}
	for _, f := range funcs {
		if n := cg.Nodes[f]; n != nil {
			for _, e := range n.In {
				if inMine(e.Caller.Func) {
					callers[f] = append(callers[f], e)
				}
			}
		}
		// closures: treat the enclosing function's MakeClosure site as the call site when passed as an argument
	}
	closureSite := map[*ssa.Function]ssa.Instruction{}
	for _, f := range funcs {
		for _, b := range f.Blocks {
			for _, ins := range b.Instrs {
				if mc, ok := ins.(*ssa.MakeClosure); ok {
					closureSite[mc.Fn.(*ssa.Function)] = ins
				}
			}
		}
	}
	for _, f := range funcs {
		entry[f] = nil // top = unknown yet
	}
	for changed := true; changed; {
		changed = false
		for _, f := range funcs {
			var acc set
			root := len(callers[f]) == 0
			for _, e := range callers[f] {
				if e.Site == nil {
					root = true
					continue
				}
				if _, isGo := e.Site.(*ssa.Go); isGo {
					root = true
					continue
				}
				if _, isDefer := e.Site.(*ssa.Defer); isDefer {
					root = true // conservative
					continue
				}
				ce := entry[e.Caller.Func]
				if ce == nil && !isRoot[e.Caller.Func] {
					continue // caller not computed yet
				}
				h := heldAt[e.Site].clone()
				for k := range ce {
					h[k] = true
				}
				if acc == nil {
					acc = h
				} else {
					acc = inter(acc, h)
				}
			}
			if site, ok := closureSite[f]; ok && len(callers[f]) == 0 {
				// closure only passed as value: assume called where created (e.g. Range callbacks); SenderFunc closures run on the writer goroutine -> root
				_ = site
				root = true
			}
			if root {
				acc = set{}
				isRoot[f] = true
			}
			if acc != nil && fmt.Sprint(acc.keys()) != fmt.Sprint(entry[f].keys()) || (acc != nil && entry[f] == nil) {
				entry[f] = acc
				changed = true
			}
		}
	}
	// 3. accesses to tracked struct fields
	type fact struct{ field, kind, locks, fn, pos string }
	var facts []fact
	for _, f := range funcs {
		for _, b := range f.Blocks {
			for _, ins := range b.Instrs {
				fa, ok := ins.(*ssa.FieldAddr)
				if !ok {
					continue
				}
				sn := structName(fa.X.Type())
				if !tracked[sn] {
					continue
				}
				st := fa.X.Type().Underlying().(*types.Pointer).Elem().Underlying().(*types.Struct)
				fld := st.Field(fa.Field)
				ft := fld.Type().String()
				if strings.Contains(ft, "sync.") || strings.Contains(ft, "atomic.") || strings.HasPrefix(ft, "chan ") {
					continue
				}
				kind := "?"
				for _, u := range *fa.Referrers() {
					switch x := u.(type) {
					case *ssa.Store:
						if x.Addr == fa {
							kind = "W"
						}
					case *ssa.UnOp:
						if x.Op == token.MUL && kind != "W" {
							kind = "R"
							// map ops on the loaded value
							for _, u2 := range *x.Referrers() {
								switch u2.(type) {
								case *ssa.MapUpdate:
									kind = "W(map)"
								}
								if c, ok := u2.(*ssa.Call); ok {
									if bi, ok := c.Call.Value.(*ssa.Builtin); ok && bi.Name() == "delete" {
										kind = "W(map)"
									}
								}
							}
						}
					case *ssa.IndexAddr:
						kind = "idx"
					}
				}
				h := heldAt[ins].clone()
				for k := range entry[f] {
					h[k] = true
				}
				pos := prog.Fset.Position(fa.Pos())
				facts = append(facts, fact{sn + "." + fld.Name(), kind, strings.Join(h.keys(), ","), f.String(), fmt.Sprintf("%s:%d", pos.Filename[strings.LastIndex(pos.Filename, "/")+1:], pos.Line)})
			}
		}
	}
	// summarise per field: writes and reads with distinct locksets
	byField := map[string]map[string][]string{}
	for _, ft := range facts {
		if byField[ft.field] == nil {
			byField[ft.field] = map[string][]string{}
		}
		k := ft.kind + " {" + ft.locks + "}"
		byField[ft.field][k] = append(byField[ft.field][k], ft.pos)
	}
	var fields []string
	for k := range byField {
		fields = append(fields, k)
	}
	sort.Strings(fields)
	fmt.Println("facts:", len(facts), "fields:", len(fields))
	for _, fl := range fields {
		hasW := false
		for k := range byField[fl] {
			if strings.HasPrefix(k, "W") || strings.HasPrefix(k, "idx") {
				hasW = true
			}
		}
		if !hasW {
			continue
		}
		fmt.Println(fl)
		var ks []string
		for k := range byField[fl] {
			ks = append(ks, k)
		}
		sort.Strings(ks)
		for _, k := range ks {
			p := byField[fl][k]
			if len(p) > 4 {
				p = append(p[:4], "…")
			}
			fmt.Printf("    %-55s %s\n", k, strings.Join(p, " "))
		}
	}
}
