import Term

-- Reduced AST for calibration: int, prim, positional bind, list, tuple, unqualified function call with term args.
mutual
inductive Tm where
  | int | prim | bind
  | list (ts : Tms)
  | tuple (ts : Tms)
  | fn (name : String) (args : Tms)
inductive Tms where
  | nil
  | cons (t : Tm) (ts : Tms)
end

mutual
def Tm.good : Tm → Bool
  | .int | .prim | .bind => true
  | .list ts => ts.good
  | .tuple ts => ts.good
  | .fn n as => !(isNonIdemFunc n false) && as.good
def Tms.good : Tms → Bool
  | .nil => true
  | .cons t ts => t.good && ts.good
end

mutual
def Tm.size : Tm → Nat
  | .int | .prim | .bind => 1
  | .list ts => ts.size + 2
  | .tuple ts => ts.size + 2
  | .fn _ as => as.size + 2
def Tms.size : Tms → Nat
  | .nil => 1
  | .cons t ts => t.size + ts.size + 1
end

def Tm.typ : Tm → TT
  | .int => .int | .prim => .prim | .bind => .bind
  | .list _ => .list | .tuple _ => .tuple | .fn _ _ => .fn

-- render: head token and tail tokens
mutual
def Tm.hd : Tm → Tok
  | .int => .integer | .prim => .prim | .bind => .qmark
  | .list _ => .lsq | .tuple _ => .lparen | .fn n _ => .ident n false
def Tm.tl : Tm → List Tok
  | .int | .prim | .bind => []
  | .list ts => ts.render ++ [.rsq]
  | .tuple ts => ts.render ++ [.rparen]
  | .fn _ as => .lparen :: as.render ++ [.rparen]
def Tms.render : Tms → List Tok
  | .nil => []
  | .cons t .nil => t.hd :: t.tl
  | .cons t ts => t.hd :: t.tl ++ .comma :: ts.render
end

-- does a tuple start with an identifier (function call)? then Go takes the cast path.
def Tms.startsWithIdent : Tms → Bool
  | .cons (.fn _ _) _ => true
  | _ => false

mutual
def Tm.regular : Tm → Bool
  | .int | .prim | .bind => true
  | .list ts => ts.regular
  | .tuple ts => !ts.startsWithIdent && ts.regular
  | .fn _ as => as.regular
def Tms.regular : Tms → Bool
  | .nil => true
  | .cons t ts => t.regular && ts.regular
end

@[simp] theorem next_cons (t : Tok) (r m : List Tok) : (L.next ⟨t :: r, m⟩) = (t, ⟨r, m⟩) := rfl
@[simp] theorem next_nil (m : List Tok) : (L.next ⟨[], m⟩) = (.eof, ⟨[], m⟩) := rfl

theorem Tm.hd_ne_close (t : Tm) : t.hd ≠ .rsq ∧ t.hd ≠ .rparen ∧ t.hd ≠ .eof ∧ t.hd ≠ .comma := by
  cases t <;> simp [Tm.hd]


theorem L.eta (l : L) : l = ⟨l.rest, l.mark⟩ := by cases l; rfl

theorem Tms.render_cons_cons (t t' : Tm) (ts : Tms) :
    (Tms.cons t (.cons t' ts)).render = t.hd :: t.tl ++ .comma :: (Tms.cons t' ts).render := by
  simp [Tms.render]

-- what follows an element inside a sequence closed by `close`
def after (ts : Tms) (close : Tok) (rest : List Tok) : List Tok :=
  match ts with
  | .nil => close :: rest
  | .cons t ts => .comma :: (Tms.cons t ts).render ++ close :: rest

theorem render_cons_after (t : Tm) (ts : Tms) (close : Tok) (rest : List Tok) :
    (Tms.cons t ts).render ++ close :: rest = t.hd :: (t.tl ++ after ts close rest) := by
  cases ts <;> simp [Tms.render, after]

theorem Tm.size_pos (t : Tm) : 0 < t.size := by cases t <;> simp [Tm.size]

mutual
theorem parseTerm_spec : ∀ (t : Tm) (n : Nat) (rest mk : List Tok), t.size ≤ n →
    ((parseTerm n t.hd ⟨t.tl ++ rest, mk⟩).idem = true →
        t.good = true ∧ (parseTerm n t.hd ⟨t.tl ++ rest, mk⟩).l.rest = rest ∧ (parseTerm n t.hd ⟨t.tl ++ rest, mk⟩).typ = t.typ) ∧
    (t.good = true → t.regular = true → (parseTerm n t.hd ⟨t.tl ++ rest, mk⟩).idem = true)
  | .int, n, rest, mk, hn => by
    cases n with
    | zero => simp [Tm.size] at hn
    | succ n => simp [parseTerm, Tm.hd, Tm.tl, Tm.good, Tm.typ]
  | .prim, n, rest, mk, hn => by
    cases n with
    | zero => simp [Tm.size] at hn
    | succ n => simp [parseTerm, Tm.hd, Tm.tl, Tm.good, Tm.typ]
  | .bind, n, rest, mk, hn => by
    cases n with
    | zero => simp [Tm.size] at hn
    | succ n => simp [parseTerm, Tm.hd, Tm.tl, Tm.good, Tm.typ]
  | .list ts, n, rest, mk, hn => by
    cases n with
    | zero => simp [Tm.size] at hn
    | succ n =>
      simp only [Tm.size] at hn
      have h := parseListLoop_spec ts n rest mk (by omega)
      simp only [parseTerm, Tm.hd, Tm.tl, Tm.good, Tm.typ, Tm.regular, List.append_assoc, List.singleton_append]
      exact h
  | .tuple ts, n, rest, mk, hn => by
    sorry
  | .fn name as, n, rest, mk, hn => by
    sorry

theorem parseListLoop_spec : ∀ (ts : Tms) (n : Nat) (rest mk : List Tok), ts.size ≤ n →
    ((parseListLoop n (L.next ⟨ts.render ++ .rsq :: rest, mk⟩).1 (L.next ⟨ts.render ++ .rsq :: rest, mk⟩).2).idem = true →
        ts.good = true ∧
        (parseListLoop n (L.next ⟨ts.render ++ .rsq :: rest, mk⟩).1 (L.next ⟨ts.render ++ .rsq :: rest, mk⟩).2).l.rest = rest ∧
        (parseListLoop n (L.next ⟨ts.render ++ .rsq :: rest, mk⟩).1 (L.next ⟨ts.render ++ .rsq :: rest, mk⟩).2).typ = .list) ∧
    (ts.good = true → ts.regular = true →
        (parseListLoop n (L.next ⟨ts.render ++ .rsq :: rest, mk⟩).1 (L.next ⟨ts.render ++ .rsq :: rest, mk⟩).2).idem = true)
  | .nil, n, rest, mk, hn => by
    cases n with
    | zero => simp [Tms.size] at hn
    | succ n => simp [Tms.render, parseListLoop, Tms.good]
  | .cons t ts, n, rest, mk, hn => by
    cases n with
    | zero => simp [Tms.size] at hn
    | succ n =>
      simp only [Tms.size] at hn
      rw [render_cons_after]
      simp only [next_cons]
      have hd := t.hd_ne_close
      have ht := parseTerm_spec t n (after ts .rsq rest) mk (by omega)
      -- unfold one loop iteration
      unfold parseListLoop
      simp only [hd.1, hd.2.2.1, if_false]
      generalize hr : parseTerm n t.hd ⟨t.tl ++ after ts .rsq rest, mk⟩ = r at ht
      by_cases hi : r.idem = true
      · obtain ⟨hg, hrest, _⟩ := ht.1 hi
        have hl : r.l = ⟨after ts .rsq rest, r.l.mark⟩ := by rw [← hrest]
        simp only [hi, Bool.not_true, Bool.false_eq_true, if_false]
        rw [hl]
        cases ts with
        | nil =>
          simp only [after, next_cons, skipToken]
          cases n with
          | zero => have := t.size_pos; simp only [Tms.size] at hn; omega
          | succ n => simp [parseListLoop, Tms.good, hg, Tms.regular]
        | cons t' ts' =>
          simp only [after, next_cons, skipToken, if_true, List.append_assoc, List.cons_append]
          have ih := parseListLoop_spec (.cons t' ts') n rest r.l.mark (by simp only [Tms.size] at hn ⊢; omega)
          simp only [Tms.good, Tms.regular, hg, Bool.true_and] at ih ⊢
          refine ⟨ih.1, ?_⟩
          intro h1 h2
          have : t.regular = true := by
            simp only [Bool.and_eq_true] at h2; exact h2.1
          simp only [this, Bool.true_and] at h2
          exact ih.2 h1 h2
      · have hf : r.idem = false := by simpa using hi
        simp only [hf, Bool.not_false, if_true]
        refine ⟨by intro h; simp at h, ?_⟩
        intro h1 h2
        simp only [Tms.good, Tms.regular, Bool.and_eq_true] at h1 h2
        have := ht.2 h1.1 h2.1
        rw [hf] at this; cases this
end
