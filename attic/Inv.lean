import Core

def cnt (l : List ReqId) (r : ReqId) : Nat := l.count r

/-- I1: every existing request has been answered exactly once iff it is done; nothing else is in the log. -/
def Inv1 (s : St) : Prop :=
  ∀ r, cnt s.out r = (if r < s.nreq ∧ (s.req r).done = true then 1 else 0)

/-- I0: handles stored in pending maps refer to existing requests. -/
def Inv0 (s : St) : Prop :=
  ∀ c e, e ∈ (s.conn c).pending → e.2.rid < s.nreq

theorem sendTo_req (s : St) (c hd w) : (sendTo s c hd w).1.req = s.req ∧ (sendTo s c hd w).1.out = s.out ∧ (sendTo s c hd w).1.nreq = s.nreq := by
  unfold sendTo
  dsimp only
  split
  · simp
  · split
    · simp
    · split <;> simp [St.setConn]

theorem Inv1_setConn (s : St) (c k) : Inv1 (s.setConn c k) ↔ Inv1 s := by
  simp only [Inv1, St.setConn]; exact Iff.rfl

theorem Inv1_of_eq (s t : St) (h1 : t.req = s.req) (h2 : t.out = s.out) (h3 : t.nreq = s.nreq) : Inv1 s → Inv1 t := by
  intro h r; simp only [h1, h2, h3]; exact h r

/-- marking request r done and logging one reply preserves I1 when r was not done -/
theorem Inv1_finish (s : St) (r : ReqId) (q : Req) (hr : r < s.nreq) (hnd : (s.req r).done = false) (hq : q.done = true)
    (h : Inv1 s) : Inv1 { (s.setReq r q) with out := r :: s.out } := by
  intro x
  have hx := h x
  by_cases hxr : x = r
  · subst hxr
    simp only [cnt, St.setReq, upd_same, List.count_cons_self, hq, hr, and_self, if_true]
    simp only [cnt, hnd, Bool.false_eq_true, and_false, if_false] at hx
    omega
  · simp only [cnt, St.setReq, upd_other _ _ _ _ hxr]
    rw [List.count_cons_of_ne (by simpa using fun h => hxr h.symm)]
    simpa [cnt] using hx

/-- changing a not-done request into another not-done request preserves I1 -/
theorem Inv1_setReq_notdone (s : St) (r : ReqId) (q : Req) (hnd : (s.req r).done = false) (hq : q.done = false)
    (h : Inv1 s) : Inv1 (s.setReq r q) := by
  intro x
  have hx := h x
  by_cases hxr : x = r
  · subst hxr
    simp only [St.setReq, upd_same, hq] 
    simpa [hnd] using hx
  · simpa [St.setReq, upd_other _ _ _ _ hxr] using hx

theorem execNext_inv1 (plan : List Host) : ∀ (s : St) (r : ReqId) (ws : List Bool), r < s.nreq → (s.req r).done = false →
    Inv1 s → Inv1 (execNext s r ws plan) ∧ (execNext s r ws plan).nreq = s.nreq := by
  induction plan with
  | nil =>
    intro s r ws hr hnd h
    simp only [execNext]
    exact ⟨Inv1_finish s r _ hr hnd rfl h, rfl⟩
  | cons hst rest ih =>
    intro s r ws hr hnd h
    simp only [execNext]
    have h1 : Inv1 (s.setReq r { s.req r with plan := rest, host := some hst }) :=
      Inv1_setReq_notdone s r _ hnd (by simp [hnd]) h
    generalize hs1 : (s.setReq r { s.req r with plan := rest, host := some hst }) = s1 at h1 ⊢
    have hr1 : r < s1.nreq := by rw [← hs1]; simpa [St.setReq] using hr
    have hnd1 : (s1.req r).done = false := by rw [← hs1]; simp [St.setReq, hnd]
    have hn1 : s1.nreq = s.nreq := by rw [← hs1]; simp [St.setReq]
    split
    · have := ih s1 r ws.tail hr1 hnd1 h1
      exact ⟨this.1, by rw [this.2, hn1]⟩
    · rename_i c _
      have hsend := sendTo_req s1 c (.req r) (ws.headD true)
      generalize sendTo s1 c (.req r) (ws.headD true) = p at hsend ⊢
      obtain ⟨s', ok⟩ := p
      simp only at hsend ⊢
      have hs' : Inv1 s' := Inv1_of_eq s1 _ hsend.1 hsend.2.1 hsend.2.2 h1
      have hn' : s'.nreq = s.nreq := by rw [hsend.2.2, hn1]
      split
      · exact ⟨hs', hn'⟩
      · have hr' : r < s'.nreq := by rw [hn']; exact hr
        have hnd' : (s'.req r).done = false := by rw [hsend.1]; exact hnd1
        have := ih s' r ws.tail hr' hnd' hs'
        exact ⟨this.1, by rw [this.2, hn']⟩
