package main

import (
	"fmt"
	"go/types"
	"os"
	"sort"
	"strings"

	"golang.org/x/tools/go/callgraph"
	"golang.org/x/tools/go/callgraph/cha"
	"golang.org/x/tools/go/callgraph/vta"
	"golang.org/x/tools/go/packages"
	"golang.org/x/tools/go/ssa"
	"golang.org/x/tools/go/ssa/ssautil"
)

// lock class = "pkg.Type.field" + mode
type lockOp struct {
	class string
	mode  string // W or R
	acq   bool
}

func lockClass(v ssa.Value) string {
	// receiver of Lock(): typically a load of a *sync.Mutex field (pointer field) or FieldAddr
	switch x := v.(type) {
	case *ssa.UnOp: // *p.mu  (field holds *sync.Mutex)
		return lockClass(x.X)
	case *ssa.FieldAddr:
		st := x.X.Type().Underlying().(*types.Pointer).Elem()
		name := st.String()
		if n, ok := st.(*types.Named); ok {
			name = n.Obj().Pkg().Name() + "." + n.Obj().Name()
		}
		f := st.Underlying().(*types.Struct).Field(x.Field)
		return name + "." + f.Name()
	case *ssa.Field:
		return "field?"
	}
	return fmt.Sprintf("?%T", v)
}

func asLockOp(c *ssa.CallCommon) (lockOp, bool) {
	callee := c.StaticCallee()
	if callee == nil || callee.Pkg == nil || callee.Pkg.Pkg.Path() != "sync" {
		return lockOp{}, false
	}
	recv := callee.Signature.Recv()
	if recv == nil {
		return lockOp{}, false
	}
	rt := recv.Type().String()
	if !strings.Contains(rt, "Mutex") {
		return lockOp{}, false
	}
	var op lockOp
	switch callee.Name() {
	case "Lock":
		op = lockOp{mode: "W", acq: true}
	case "RLock":
		op = lockOp{mode: "R", acq: true}
	case "Unlock":
		op = lockOp{mode: "W", acq: false}
	case "RUnlock":
		op = lockOp{mode: "R", acq: false}
	default:
		return lockOp{}, false
	}
	op.class = lockClass(c.Args[0])
	return op, true
}

func main() {
	cfg := &packages.Config{Mode: packages.LoadAllSyntax, Dir: "/repo"}
	pkgs, err := packages.Load(cfg, "./proxy", "./proxycore", "./astra")
	if err != nil {
		panic(err)
	}
	if packages.PrintErrors(pkgs) > 0 {
		os.Exit(1)
	}
	prog, spkgs := ssautil.AllPackages(pkgs, ssa.InstantiateGenerics)
	prog.Build()
	mine := map[*ssa.Package]bool{}
	for _, p := range spkgs {
		if p != nil {
			mine[p] = true
		}
	}
	cg := vta.CallGraph(ssautil.AllFunctions(prog), cha.CallGraph(prog))
	inMine := func(f *ssa.Function) bool {
		if f == nil {
			return false
		}
		if f.Pkg != nil {
			return mine[f.Pkg]
		}
		if f.Parent() != nil {
			return mine[f.Parent().Pkg]
		}
		return false
	}
	// per function: direct acquisitions, and for each instruction the held set (flow-insensitive within block order: simple forward dataflow)
	type site struct {
		held []string
		pos  string
	}
	direct := map[*ssa.Function]map[string]bool{}
	callsHeld := map[*ssa.Function][]struct {
		instr ssa.CallInstruction
		held  map[string]bool
	}{}
	edges := map[string]map[string]string{} // held -> acquired -> example
	addEdge := func(h, a, where string) {
		if edges[h] == nil {
			edges[h] = map[string]string{}
		}
		if _, ok := edges[h][a]; !ok {
			edges[h][a] = where
		}
	}
	for f := range ssautil.AllFunctions(prog) {
		if !inMine(f) || f.Blocks == nil {
			continue
		}
		direct[f] = map[string]bool{}
		// forward dataflow over blocks: in[b] = intersection of out[preds]; iterate to fixpoint
		in := map[*ssa.BasicBlock]map[string]bool{}
		out := map[*ssa.BasicBlock]map[string]bool{}
		deferred := map[string]bool{} // locks released only at function exit (defer Unlock)
		changed := true
		for iter := 0; changed && iter < 20; iter++ {
			changed = false
			for _, b := range f.Blocks {
				var cur map[string]bool
				if len(b.Preds) == 0 {
					cur = map[string]bool{}
				} else {
					first := true
					for _, p := range b.Preds {
						o, ok := out[p]
						if !ok {
							continue
						}
						if first {
							cur = map[string]bool{}
							for k := range o {
								cur[k] = true
							}
							first = false
						} else {
							for k := range cur {
								if !o[k] {
									delete(cur, k)
								}
							}
						}
					}
					if cur == nil {
						cur = map[string]bool{}
					}
				}
				in[b] = cur
				h := map[string]bool{}
				for k := range cur {
					h[k] = true
				}
				for _, ins := range b.Instrs {
					switch x := ins.(type) {
					case *ssa.Defer:
						if op, ok := asLockOp(&x.Call); ok && !op.acq {
							deferred[op.class+"/"+op.mode] = true
						}
					case ssa.CallInstruction:
						c := x.Common()
						if op, ok := asLockOp(c); ok {
							key := op.class + "/" + op.mode
							if op.acq {
								direct[f][key] = true
								for hk := range h {
									addEdge(hk, key, f.String())
								}
								h[key] = true
							} else {
								delete(h, key)
							}
						}
					}
				}
				if fmt.Sprint(keys(out[b])) != fmt.Sprint(keys(h)) {
					out[b] = h
					changed = true
				}
			}
		}
		// second pass: record held sets at call sites
		for _, b := range f.Blocks {
			h := map[string]bool{}
			for k := range in[b] {
				h[k] = true
			}
			for _, ins := range b.Instrs {
				if x, ok := ins.(ssa.CallInstruction); ok {
					if _, isDefer := ins.(*ssa.Defer); isDefer {
						continue
					}
					c := x.Common()
					if op, ok := asLockOp(c); ok {
						key := op.class + "/" + op.mode
						if op.acq {
							h[key] = true
						} else {
							delete(h, key)
						}
						continue
					}
					if len(h) > 0 {
						cp := map[string]bool{}
						for k := range h {
							cp[k] = true
						}
						callsHeld[f] = append(callsHeld[f], struct {
							instr ssa.CallInstruction
							held  map[string]bool
						}{x, cp})
					}
				}
			}
		}
	}
	// transitive acquisitions per function via call graph (only through functions in my packages + closures)
	acq := map[*ssa.Function]map[string]bool{}
	for f, d := range direct {
		acq[f] = map[string]bool{}
		for k := range d {
			acq[f][k] = true
		}
	}
	callees := func(site ssa.CallInstruction, f *ssa.Function) []*ssa.Function {
		var res []*ssa.Function
		if n := cg.Nodes[f]; n != nil {
			for _, e := range n.Out {
				if e.Site == site && inMine(e.Callee.Func) {
					res = append(res, e.Callee.Func)
				}
			}
		}
		// closures passed as arguments (e.g. sync.Map.Range(func...)): treat as called
		for _, a := range site.Common().Args {
			if mc, ok := a.(*ssa.MakeClosure); ok {
				res = append(res, mc.Fn.(*ssa.Function))
			}
			if fn, ok := a.(*ssa.Function); ok && inMine(fn) {
				res = append(res, fn)
			}
		}
		return res
	}
	allCalls := map[*ssa.Function][]ssa.CallInstruction{}
	for f := range direct {
		for _, b := range f.Blocks {
			for _, ins := range b.Instrs {
				if x, ok := ins.(ssa.CallInstruction); ok {
					if _, isGo := ins.(*ssa.Go); isGo {
						continue // new goroutine: locks not inherited
					}
					allCalls[f] = append(allCalls[f], x)
				}
			}
		}
	}
	for changed := true; changed; {
		changed = false
		for f, calls := range allCalls {
			for _, c := range calls {
				for _, g := range callees(c, f) {
					for k := range acq[g] {
						if !acq[f][k] {
							acq[f][k] = true
							changed = true
						}
					}
				}
			}
		}
	}
	for f, sites := range callsHeld {
		for _, s := range sites {
			if _, isGo := s.instr.(*ssa.Go); isGo {
				continue
			}
			for _, g := range callees(s.instr, f) {
				for k := range acq[g] {
					for h := range s.held {
						addEdge(h, k, f.String()+" -> "+g.String())
					}
				}
			}
		}
	}
	var hs []string
	for h := range edges {
		hs = append(hs, h)
	}
	sort.Strings(hs)
	for _, h := range hs {
		var as []string
		for a := range edges[h] {
			as = append(as, a)
		}
		sort.Strings(as)
		for _, a := range as {
			fmt.Printf("%-40s -> %-40s  via %s\n", h, a, edges[h][a])
		}
	}
	_ = callgraph.Node{}
}

func keys(m map[string]bool) []string {
	var r []string
	for k := range m {
		r = append(r, k)
	}
	sort.Strings(r)
	return r
}
