package main

// Prototype: partial evaluation of the ragel -G2 goto program in parser/lexer.go into tables.
// For each state N and byte c: run from st_case_N with data[p]=c until the next state-entry
// ("stM: if p++; p == pe {goto _test_eofM}") or _out, recording primitive actions.

import (
	"encoding/json"
	"fmt"
	"go/ast"
	"go/parser"
	"go/printer"
	"go/token"
	"os"
	"sort"
	"strconv"
	"strings"
)

type Act struct {
	Op  string `json:"op"`            // te=p+1 | p=te-1 | act=K | tk=NAME | ts=p | ts=0 | id | p++ | byact
	K   int    `json:"k,omitempty"`
	Tk  string `json:"tk,omitempty"`
	Alt map[int][]Act `json:"alt,omitempty"` // for byact
	AltNext map[int]string `json:"altnext,omitempty"`
}

type Edge struct {
	Acts []Act  `json:"acts"`
	Next string `json:"next"` // "stN" (enter state N: p++ then check eof) | "out" | "case N" (enter state N without p++)
}

var fset = token.NewFileSet()
var stmts []ast.Stmt
var labelIdx = map[string]int{}

func src(n ast.Node) string {
	var sb strings.Builder
	printer.Fprint(&sb, fset, n)
	return sb.String()
}

type env struct {
	c    int // data[p]
	acts []Act
}

func evalInt(e ast.Expr, en *env) (int, bool) {
	switch x := e.(type) {
	case *ast.BasicLit:
		v, err := strconv.Atoi(x.Value)
		return v, err == nil
	case *ast.IndexExpr: // data[p]
		if src(x) == "data[p]" {
			return en.c, true
		}
	case *ast.ParenExpr:
		return evalInt(x.X, en)
	}
	return 0, false
}

func evalCond(e ast.Expr, en *env) bool {
	switch x := e.(type) {
	case *ast.BinaryExpr:
		switch x.Op {
		case token.LAND:
			return evalCond(x.X, en) && evalCond(x.Y, en)
		case token.LOR:
			return evalCond(x.X, en) || evalCond(x.Y, en)
		}
		a, ok1 := evalInt(x.X, en)
		b, ok2 := evalInt(x.Y, en)
		if !ok1 || !ok2 {
			panic("cond: " + src(e))
		}
		switch x.Op {
		case token.EQL:
			return a == b
		case token.NEQ:
			return a != b
		case token.LSS:
			return a < b
		case token.LEQ:
			return a <= b
		case token.GTR:
			return a > b
		case token.GEQ:
			return a >= b
		}
	case *ast.ParenExpr:
		return evalCond(x.X, en)
	}
	panic("cond: " + src(e))
}

// exec returns (jump label or "", done)
// result kinds: "goto:L", "fall"
func execStmt(s ast.Stmt, en *env) string {
	switch x := s.(type) {
	case *ast.LabeledStmt:
		return execStmt(x.Stmt, en)
	case *ast.BranchStmt:
		if x.Tok == token.GOTO {
			return "goto:" + x.Label.Name
		}
		panic("branch " + src(s))
	case *ast.BlockStmt:
		for _, t := range x.List {
			if r := execStmt(t, en); r != "fall" {
				return r
			}
		}
		return "fall"
	case *ast.EmptyStmt:
		return "fall"
	case *ast.IncDecStmt:
		if src(x) == "p++" {
			en.acts = append(en.acts, Act{Op: "p++"})
			return "fall"
		}
		if src(x) == "p--" {
			en.acts = append(en.acts, Act{Op: "p--"})
			return "fall"
		}
		panic(src(s))
	case *ast.AssignStmt:
		t := src(x)
		switch {
		case t == "te = p":
			en.acts = append(en.acts, Act{Op: "te=p"})
		case t == "te = p + 1":
			en.acts = append(en.acts, Act{Op: "te=p+1"})
		case t == "p = (te) - 1":
			en.acts = append(en.acts, Act{Op: "p=te-1"})
		case t == "ts = p":
			en.acts = append(en.acts, Act{Op: "ts=p"})
		case t == "ts = 0":
			en.acts = append(en.acts, Act{Op: "ts=0"})
		case strings.HasPrefix(t, "act = "):
			k, _ := strconv.Atoi(strings.TrimPrefix(t, "act = "))
			en.acts = append(en.acts, Act{Op: "act", K: k})
		case strings.HasPrefix(t, "cs = "):
			k, _ := strconv.Atoi(strings.TrimPrefix(t, "cs = "))
			en.acts = append(en.acts, Act{Op: "cs", K: k})
		case strings.HasPrefix(t, "tk = "):
			en.acts = append(en.acts, Act{Op: "tk", Tk: strings.TrimPrefix(t, "tk = ")})
		case t == "l.id = l.data[ts:te]":
			en.acts = append(en.acts, Act{Op: "id"})
		default:
			panic("assign " + t)
		}
		return "fall"
	case *ast.IfStmt:
		if x.Init != nil {
			panic("if-init reached inside edge: " + src(s))
		}
		if evalCond(x.Cond, en) {
			return execStmt(x.Body, en)
		} else if x.Else != nil {
			return execStmt(x.Else, en)
		}
		return "fall"
	case *ast.SwitchStmt:
		if x.Tag != nil && src(x.Tag) == "act" {
			return "byact"
		}
		var tag int
		hasTag := x.Tag != nil
		if hasTag {
			v, ok := evalInt(x.Tag, en)
			if !ok {
				panic("switch tag " + src(x.Tag))
			}
			tag = v
		}
		var def *ast.CaseClause
		for _, cc := range x.Body.List {
			c := cc.(*ast.CaseClause)
			if c.List == nil {
				def = c
				continue
			}
			match := false
			for _, e := range c.List {
				if hasTag {
					v, ok := evalInt(e, en)
					if !ok {
						panic("case " + src(e))
					}
					if v == tag {
						match = true
					}
				} else if evalCond(e, en) {
					match = true
				}
			}
			if match {
				for _, t := range c.Body {
					if r := execStmt(t, en); r != "fall" {
						return r
					}
				}
				return "fall"
			}
		}
		if def != nil {
			for _, t := range def.Body {
				if r := execStmt(t, en); r != "fall" {
					return r
				}
			}
		}
		return "fall"
	}
	panic(fmt.Sprintf("stmt %T %s", s, src(s)))
}

// isStateEntry: "stN: if p++; p == pe { goto _test_eofN }"
func stateEntry(s ast.Stmt) (int, bool) {
	ls, ok := s.(*ast.LabeledStmt)
	if !ok || !strings.HasPrefix(ls.Label.Name, "st") || strings.HasPrefix(ls.Label.Name, "st_") {
		return 0, false
	}
	n, err := strconv.Atoi(strings.TrimPrefix(ls.Label.Name, "st"))
	if err != nil {
		return 0, false
	}
	return n, true
}

func run(start int, en *env) Edge {
	i := start
	steps := 0
	for {
		steps++
		if steps > 10000 {
			panic("loop")
		}
		if i >= len(stmts) {
			panic("fell off")
		}
		s := stmts[i]
		if i != start {
			if n, ok := stateEntry(s); ok {
				return Edge{Acts: en.acts, Next: "st" + strconv.Itoa(n)}
			}
		}
		// stN labelled statement at start: skip the "if p++; p==pe" (we model entry separately)
		if ls, ok := s.(*ast.LabeledStmt); ok {
			if ls.Label.Name == "_out" {
				return Edge{Acts: en.acts, Next: "out"}
			}
			if _, ok := stateEntry(s); ok && i == start {
				i++
				continue
			}
		}
		r := execStmt(s, en)
		switch {
		case r == "fall":
			i++
		case r == "byact":
			// dispatch on runtime act: evaluate each case
			sw := s.(*ast.LabeledStmt).Stmt.(*ast.SwitchStmt)
			alt := map[int][]Act{}
			altn := map[int]string{}
			for _, cc := range sw.Body.List {
				c := cc.(*ast.CaseClause)
				for _, e := range c.List {
					k, _ := strconv.Atoi(src(e))
					sub := &env{c: en.c}
					res := "fall"
					for _, t := range c.Body {
						if res = execStmt(t, sub); res != "fall" {
							break
						}
					}
					alt[k] = sub.acts
					altn[k] = res
				}
			}
			en.acts = append(en.acts, Act{Op: "byact", Alt: alt, AltNext: altn})
			// after the switch (no case matched / fallthrough) continue with next stmt; record as default path
			i++
		case strings.HasPrefix(r, "goto:"):
			l := strings.TrimPrefix(r, "goto:")
			if l == "_out" {
				return Edge{Acts: en.acts, Next: "out"}
			}
			if strings.HasPrefix(l, "st_case_") {
				return Edge{Acts: en.acts, Next: "case" + strings.TrimPrefix(l, "st_case_")}
			}
			if n, err := strconv.Atoi(strings.TrimPrefix(l, "st")); err == nil && strings.HasPrefix(l, "st") {
				return Edge{Acts: en.acts, Next: "st" + strconv.Itoa(n)}
			}
			j, ok := labelIdx[l]
			if !ok {
				panic("label " + l)
			}
			i = j
		}
	}
}

func main() {
	f, err := parser.ParseFile(fset, "/repo/parser/lexer.go", nil, 0)
	if err != nil {
		panic(err)
	}
	var next *ast.FuncDecl
	for _, d := range f.Decls {
		if fd, ok := d.(*ast.FuncDecl); ok && fd.Name.Name == "next" {
			next = fd
		}
	}
	var blk *ast.BlockStmt
	ast.Inspect(next, func(n ast.Node) bool {
		if b, ok := n.(*ast.BlockStmt); ok {
			for _, s := range b.List {
				if ls, ok := s.(*ast.LabeledStmt); ok && ls.Label.Name == "st_case_89" {
					blk = b
				}
			}
		}
		return true
	})
	stmts = blk.List
	for i, s := range stmts {
		if ls, ok := s.(*ast.LabeledStmt); ok {
			labelIdx[ls.Label.Name] = i
			// nested label (labeled:LabeledStmt)
			if in, ok := ls.Stmt.(*ast.LabeledStmt); ok {
				labelIdx[in.Label.Name] = i
			}
		}
	}
	states := []int{}
	for l := range labelIdx {
		if strings.HasPrefix(l, "st_case_") {
			n, _ := strconv.Atoi(strings.TrimPrefix(l, "st_case_"))
			states = append(states, n)
		}
	}
	sort.Ints(states)
	type StateTab struct {
		State int            `json:"state"`
		Entry []Act          `json:"entry"` // actions at st_case_N before reading byte (from-state actions)
		Edges map[string]int `json:"-"`
	}
	edgeKey := map[string]int{}
	edges := []Edge{}
	table := map[int][]int{}
	for _, st := range states {
		row := make([]int, 256)
		for c := 0; c < 256; c++ {
			en := &env{c: c}
			e := run(labelIdx["st_case_"+strconv.Itoa(st)], en)
			b, _ := json.Marshal(e)
			k := string(b)
			id, ok := edgeKey[k]
			if !ok {
				id = len(edges)
				edgeKey[k] = id
				edges = append(edges, e)
			}
			row[c] = id
		}
		table[st] = row
	}
	fmt.Fprintln(os.Stderr, "states", len(states), "distinct edges", len(edges))
	// EOF actions: find "_test_eof" label, then the "if p == eof { switch cs {...} }"
	eofIdx := labelIdx["_test_eof"]
	eof := map[int]Edge{}
	for i := eofIdx; i < len(stmts) && i < eofIdx+4; i++ {
		var ifs *ast.IfStmt
		switch x := stmts[i].(type) {
		case *ast.IfStmt:
			ifs = x
		case *ast.LabeledStmt:
			if y, ok := x.Stmt.(*ast.IfStmt); ok {
				ifs = y
			}
		}
		if ifs != nil && src(ifs.Cond) == "p == eof" {
			sw := ifs.Body.List[0].(*ast.SwitchStmt)
			for _, cc := range sw.Body.List {
				c := cc.(*ast.CaseClause)
				for _, e := range c.List {
					k, _ := strconv.Atoi(src(e))
					l := c.Body[0].(*ast.BranchStmt).Label.Name
					en := &env{c: -1}
					eof[k] = run(labelIdx[l], en)
				}
			}
		}
	}
	fmt.Fprintln(os.Stderr, "eof actions for", len(eof), "states")
	out := map[string]interface{}{"states": states, "table": table, "edges": edges, "eof": eof}
	b, _ := json.Marshal(out)
	os.WriteFile("/tmp/proto/lex.json", b, 0644)
	// range statistics
	total := 0
	for _, st := range states {
		row := table[st]
		r := 1
		for c := 1; c < 256; c++ {
			if row[c] != row[c-1] {
				r++
			}
		}
		total += r
	}
	fmt.Fprintln(os.Stderr, "total ranges", total)
}
