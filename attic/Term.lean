-- Prototype: faithful token-level model of parser/parse_term.go and soundness/completeness over an AST.

inductive Tok where
  | eof | invalid
  | ident (s : String) (quoted : Bool)
  | integer | prim            -- prim: float,bool,null,string,hex,uuid,duration,nan,infinity
  | colon | qmark | comma | dot
  | lparen | rparen | lsq | rsq | lcurly | rcurly | lt | gt
  | other (n : Nat)           -- any other token kind (keywords, operators…)
  deriving DecidableEq, Repr

structure L where
  rest : List Tok
  mark : List Tok := []

def L.next (l : L) : Tok × L :=
  match l.rest with
  | [] => (.eof, l)
  | t :: r => (t, { l with rest := r })
def L.setMark (l : L) : L := { l with mark := l.rest }
def L.rewind (l : L) : L := { l with rest := l.mark }

inductive TT where | invalid | int | prim | list | setMapUdt | tuple | bind | fn | cast
  deriving DecidableEq, Repr

structure R where
  idem : Bool
  typ : TT
  err : Bool
  l : L

def isIdent : Tok → Bool
  | .ident _ _ => true
  | _ => false

def lower (s : String) : String := s.map Char.toLower
-- Identifier.equal: unquoted → EqualFold (ASCII here), quoted → exact
def identEq (s : String) (q : Bool) (k : String) : Bool := if q then s == k else lower s == k
def isNonIdemFunc (s : String) (q : Bool) : Bool := identEq s q "uuid" || identEq s q "now"

def skipToken (l : L) (t : Tok) (skip : Tok) : Tok × L := if t = skip then l.next else (t, l)

-- parseQualifiedIdentifier: current token is an identifier (name, quoted) already read.
-- returns (ks?, target, nextTok, l, err)
def parseQI (name : String) (q : Bool) (l : L) : (Option (String × Bool)) × (String × Bool) × Tok × L × Bool :=
  let (t, l) := l.next
  if t = .dot then
    let (t2, l) := l.next
    match t2 with
    | .ident s2 q2 => let (t3, l) := l.next; (some (name, q), (s2, q2), t3, l, false)
    | _ => (none, ("", false), .invalid, l, true)
  else (none, (name, q), t, l, false)

-- parseType: returns (tok, l, err)
def parseTypeArgs : Nat → Tok → L → Tok × L × Bool
  | 0, t, l => (t, l, true)
  | n+1, t, l =>
    if t = .gt ∨ t = .eof then (t, l, false)
    else if !isIdent t then (.invalid, l, true)
    else let (t1, l) := l.next; let (t2, l) := skipToken l t1 .comma; parseTypeArgs n t2 l

def parseType (fuel : Nat) (l : L) : Tok × L × Bool :=
  let (t, l) := l.next
  if t = .lt then
    let (t, l) := l.next
    let (t, l, e) := parseTypeArgs fuel t l
    if e then (.invalid, l, true)
    else if t ≠ .gt then (.invalid, l, true)
    else let (t, l) := l.next; (t, l, false)
  else (t, l, false)

mutual
def parseTerm : Nat → Tok → L → R
  | 0, _, l => ⟨false, .invalid, true, l⟩
  | n+1, t, l =>
    match t with
    | .integer => ⟨true, .int, false, l⟩
    | .prim => ⟨true, .prim, false, l⟩
    | .colon =>
      let (t, l) := l.next
      if isIdent t then ⟨true, .bind, false, l⟩ else ⟨false, .bind, true, l⟩
    | .qmark => ⟨true, .bind, false, l⟩
    | .lsq => let (t, l) := l.next; parseListLoop n t l
    | .lcurly =>
      let (t, l) := l.next
      match t with
      | .ident s q =>
        let l := l.setMark
        let (_, _, maybeColon, l, e) := parseQI s q l
        if e then ⟨false, .setMapUdt, true, l⟩ else
        let l := l.rewind
        if maybeColon = .colon then parseUDTLoop n t l else parseSetMapLoop n t l
      | _ => parseSetMapLoop n t l
    | .lparen =>
      let (t, l) := l.next
      if isIdent t then
        let (t, l, e) := parseType n l
        if e then ⟨false, .cast, true, l⟩
        else if t ≠ .rparen then ⟨false, .cast, true, l⟩
        else
          let (t, l) := l.next
          let r := parseTerm n t l
          if !r.idem then ⟨false, .cast, r.err, r.l⟩ else ⟨true, .cast, r.err, r.l⟩
      else parseTupleLoop n t l
    | .ident s q =>
      let (ks, tgt, t, l, e) := parseQI s q l
      if e then ⟨false, .fn, true, l⟩
      else if t ≠ .lparen then ⟨false, .fn, true, l⟩
      else
        let (t, l) := l.next
        let r := parseFnArgs n t l
        if !r.idem then r
        else
          let ksOk := match ks with
            | none => true
            | some (k, kq) => identEq k kq "system"
          ⟨!(isNonIdemFunc tgt.1 tgt.2 && ksOk), .fn, false, r.l⟩
    | _ => ⟨false, .invalid, true, l⟩

-- for t = l.next(); t != ']' && t != EOF; t = skipToken(l, l.next(), ',') { parseTerm }
def parseListLoop : Nat → Tok → L → R
  | 0, _, l => ⟨false, .list, true, l⟩
  | n+1, t, l =>
    if t = .rsq then ⟨true, .list, false, l⟩
    else if t = .eof then ⟨false, .list, true, l⟩
    else
      let r := parseTerm n t l
      if !r.idem then ⟨false, .list, r.err, r.l⟩
      else let (t1, l) := r.l.next; let (t2, l) := skipToken l t1 .comma; parseListLoop n t2 l

def parseTupleLoop : Nat → Tok → L → R
  | 0, _, l => ⟨false, .tuple, true, l⟩
  | n+1, t, l =>
    if t = .rparen then ⟨true, .tuple, false, l⟩
    else if t = .eof then ⟨false, .tuple, true, l⟩
    else
      let r := parseTerm n t l
      if !r.idem then ⟨false, .tuple, r.err, r.l⟩
      else let (t1, l) := r.l.next; let (t2, l) := skipToken l t1 .comma; parseTupleLoop n t2 l

def parseUDTLoop : Nat → Tok → L → R
  | 0, _, l => ⟨false, .setMapUdt, true, l⟩
  | n+1, t, l =>
    if t = .rcurly then ⟨true, .setMapUdt, false, l⟩
    else if t = .eof then ⟨false, .setMapUdt, true, l⟩
    else match t with
      | .ident s q =>
        let (_, _, _t, l, e) := parseQI s q l    -- note: result token is discarded by the Go code
        if e then ⟨false, .setMapUdt, true, l⟩ else
        let (t1, l) := l.next
        let (t2, l) := skipToken l t1 .colon
        let r := parseTerm n t2 l
        if !r.idem then ⟨false, .setMapUdt, r.err, r.l⟩
        else let (t3, l) := r.l.next; let (t4, l) := skipToken l t3 .comma; parseUDTLoop n t4 l
      | _ => ⟨false, .setMapUdt, true, l⟩

def parseSetMapLoop : Nat → Tok → L → R
  | 0, _, l => ⟨false, .setMapUdt, true, l⟩
  | n+1, t, l =>
    if t = .rcurly then ⟨true, .setMapUdt, false, l⟩
    else if t = .eof then ⟨false, .setMapUdt, true, l⟩
    else
      let r := parseTerm n t l
      if !r.idem then ⟨false, .setMapUdt, r.err, r.l⟩
      else
        let (t1, l) := r.l.next
        if t1 = .colon then
          let (t2, l) := l.next
          let r2 := parseTerm n t2 l
          if !r2.idem then ⟨false, .setMapUdt, r2.err, r2.l⟩
          else
            let (t3, l) := r2.l.next
            let (t4, l) := skipToken l t3 .comma
            parseSetMapLoop n t4 l
        else
          let (t4, l) := skipToken l t1 .comma
          parseSetMapLoop n t4 l

-- for t = l.next(); t != ')' && t != EOF; t = skipToken(l, l.next(), ',') { mark; peek; ... }
def parseFnArgs : Nat → Tok → L → R
  | 0, _, l => ⟨false, .fn, true, l⟩
  | n+1, t, l =>
    if t = .rparen then ⟨true, .fn, false, l⟩
    else if t = .eof then ⟨false, .fn, true, l⟩
    else
      let l := l.setMark
      let (peek, l) := l.next
      let l := l.rewind
      if isIdent t && (peek = .comma || peek = .rparen) then
        let (t1, l) := l.next; let (t2, l) := skipToken l t1 .comma; parseFnArgs n t2 l
      else
        let r := parseTerm n t l
        if !r.idem then ⟨false, .fn, r.err, r.l⟩
        else let (t1, l) := r.l.next; let (t2, l) := skipToken l t1 .comma; parseFnArgs n t2 l
end
