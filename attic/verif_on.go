package proxycore

var VerifYieldHook func(point string)

func verifYield(point string) {
	if h := VerifYieldHook; h != nil {
		h(point)
	}
}

func VerifYield(point string) { verifYield(point) }
