package main

import (
	"fmt"
	"go/ast"
	"go/parser"
	"go/printer"
	"go/token"
	"os"
	"strings"
)

func main() {
	files := []string{"proxy/proxy.go", "proxy/request.go", "proxycore/clientconn.go", "proxycore/conn.go", "codecs/partial_codecs.go", "codecs/reader.go", "parser/identifier.go", "parser/parser.go", "parser/parse_select.go", "parser/parser_utils.go", "proxycore/requests.go", "proxycore/cluster.go", "proxycore/session.go", "proxycore/connpool.go", "proxycore/lb.go", "proxycore/resultset.go", "proxycore/endpoint.go"}
	fset := token.NewFileSet()
	total := map[string]int{}
	for _, fn := range files {
		f, err := parser.ParseFile(fset, "/repo/"+fn, nil, 0)
		if err != nil {
			panic(err)
		}
		commaOK := map[ast.Expr]bool{}
		ast.Inspect(f, func(n ast.Node) bool {
			switch x := n.(type) {
			case *ast.AssignStmt:
				if len(x.Lhs) == 2 && len(x.Rhs) == 1 {
					commaOK[x.Rhs[0]] = true
				}
			case *ast.ValueSpec:
				if len(x.Names) == 2 && len(x.Values) == 1 {
					commaOK[x.Values[0]] = true
				}
			case *ast.TypeSwitchStmt:
				ast.Inspect(x.Assign, func(m ast.Node) bool {
					if ta, ok := m.(*ast.TypeAssertExpr); ok {
						commaOK[ta] = true
					}
					return true
				})
			}
			return true
		})
		var fnName string
		ast.Inspect(f, func(n ast.Node) bool {
			if fd, ok := n.(*ast.FuncDecl); ok {
				fnName = fd.Name.Name
			}
			show := func(kind string, e ast.Node) {
				var sb strings.Builder
				printer.Fprint(&sb, fset, e)
				total[kind]++
				fmt.Printf("%-10s %-28s %-26s %s\n", kind, fn, fnName, strings.ReplaceAll(sb.String(), "\n", " "))
			}
			switch x := n.(type) {
			case *ast.IndexExpr:
				show("index", x)
			case *ast.SliceExpr:
				show("slice", x)
			case *ast.TypeAssertExpr:
				if x.Type != nil && !commaOK[x] {
					show("assert", x)
				}
			case *ast.CallExpr:
				if id, ok := x.Fun.(*ast.Ident); ok && id.Name == "panic" {
					show("panic", x)
				}
			}
			return true
		})
	}
	fmt.Fprintln(os.Stderr, total)
}
