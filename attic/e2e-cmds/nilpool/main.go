package main

import (
	"context"
	"fmt"
	"net"
	"strings"
	"time"

	"github.com/datastax/cql-proxy/proxy"
	"github.com/datastax/cql-proxy/proxycore"
	"github.com/datastax/go-cassandra-native-protocol/frame"
	"github.com/datastax/go-cassandra-native-protocol/message"
	"github.com/datastax/go-cassandra-native-protocol/primitive"
)

func main() {
	ctx, cancel := context.WithCancel(context.Background())
	defer cancel()
	const port = 9591
	cluster := proxycore.NewMockCluster(net.ParseIP("127.0.12.1"), port)
	cluster.Handlers = proxycore.NewMockRequestHandlers(proxycore.MockRequestHandlers{
		primitive.OpCodeQuery: func(cl *proxycore.MockClient, frm *frame.Frame) message.Message {
			q := frm.Body.Message.(*message.Query).Query
			if strings.HasPrefix(strings.ToUpper(q), "USE NOSUCH") {
				return &message.Invalid{ErrorMessage: "Keyspace 'nosuch' does not exist"}
			}
			if msg := cl.InterceptQuery(frm.Header, frm.Body.Message.(*message.Query)); msg != nil {
				return msg
			}
			return &message.RowsResult{Metadata: &message.RowsMetadata{ColumnCount: 0}, Data: message.RowSet{}}
		},
	})
	for i := 1; i <= 2; i++ {
		if err := cluster.Add(ctx, i); err != nil {
			panic(err)
		}
	}
	p := proxy.NewProxy(ctx, proxy.Config{
		Version:           primitive.ProtocolVersion4,
		Resolver:          proxycore.NewResolverWithDefaultPort([]string{"127.0.12.2"}, port),
		ReconnectPolicy:   proxycore.NewReconnectPolicyWithDelays(1*time.Second, 2*time.Second),
		NumConns:          1,
		HeartBeatInterval: 300 * time.Second,
		ConnectTimeout:    10 * time.Second,
		IdleTimeout:       600 * time.Second,
	})
	if err := p.Connect(); err != nil {
		panic(err)
	}
	l, err := net.Listen("tcp", "127.0.12.100:9592")
	if err != nil {
		panic(err)
	}
	go p.Serve(l)
	cl, err := proxycore.ConnectClient(ctx, proxycore.NewEndpoint("127.0.12.100:9592"), proxycore.ClientConnConfig{})
	if err != nil {
		panic(err)
	}
	if _, err := cl.Handshake(ctx, primitive.ProtocolVersion4, nil); err != nil {
		panic(err)
	}
	r, err := cl.SendAndReceive(ctx, frame.NewFrame(primitive.ProtocolVersion4, 0, &message.Query{Query: "USE nosuch"}))
	fmt.Println("USE nosuch ->", r.Body.Message, err)
	fmt.Println("removing node 2 from the backend topology; refresh window is 10 s")
	cluster.Remove(2)
	time.Sleep(13 * time.Second)
	r, err = cl.SendAndReceive(ctx, frame.NewFrame(primitive.ProtocolVersion4, 0, &message.Query{Query: "SELECT * FROM system.local"}))
	fmt.Println("still alive:", r != nil, err)
}
