package main

import (
	"context"
	"fmt"
	"net"
	"os"
	"runtime/pprof"
	"sync"
	"time"

	"github.com/datastax/cql-proxy/proxy"
	"github.com/datastax/cql-proxy/proxycore"
	"github.com/datastax/go-cassandra-native-protocol/frame"
	"github.com/datastax/go-cassandra-native-protocol/message"
	"github.com/datastax/go-cassandra-native-protocol/primitive"
)

func main() {
	ctx, cancel := context.WithCancel(context.Background())
	defer cancel()
	const port = 9391
	cluster := proxycore.NewMockCluster(net.ParseIP("127.0.10.1"), port)
	block := make(chan struct{})
	var got sync.WaitGroup
	got.Add(2)
	cluster.Handlers = proxycore.NewMockRequestHandlers(proxycore.MockRequestHandlers{
		primitive.OpCodeQuery: func(cl *proxycore.MockClient, frm *frame.Frame) message.Message {
			if msg := cl.InterceptQuery(frm.Header, frm.Body.Message.(*message.Query)); msg != nil {
				return msg
			}
			fmt.Println("backend", cl.Local().IP, "got", frm.Body.Message.(*message.Query).Query, "-> blocking")
			got.Done()
			<-block
			return &message.RowsResult{Metadata: &message.RowsMetadata{ColumnCount: 0}, Data: message.RowSet{}}
		},
	})
	for i := 1; i <= 2; i++ {
		if err := cluster.Add(ctx, i); err != nil {
			panic(err)
		}
	}
	p := proxy.NewProxy(ctx, proxy.Config{
		Version:           primitive.ProtocolVersion4,
		Resolver:          proxycore.NewResolverWithDefaultPort([]string{"127.0.10.2"}, port),
		ReconnectPolicy:   proxycore.NewReconnectPolicyWithDelays(5*time.Second, 10*time.Second),
		NumConns:          1,
		HeartBeatInterval: 300 * time.Second,
		ConnectTimeout:    10 * time.Second,
		IdleTimeout:       600 * time.Second,
	})
	if err := p.Connect(); err != nil {
		panic(err)
	}
	l, err := net.Listen("tcp", "127.0.10.100:9392")
	if err != nil {
		panic(err)
	}
	go p.Serve(l)

	// barrier hooks
	var mu sync.Mutex
	arrived := 0
	release := make(chan struct{})
	holdPool := make(chan struct{})
	proxycore.VerifYieldHook = func(point string) {
		switch point {
		case "closing.locked":
			mu.Lock()
			arrived++
			n := arrived
			mu.Unlock()
			fmt.Println("yield closing.locked #", n)
			if n == 3 {
				close(release)
			}
			select {
			case <-release:
			case <-time.After(3 * time.Second):
				fmt.Println("closing.locked: barrier timeout (only", n, "arrived)")
			}
		case "pool.before-clear":
			<-holdPool
		}
	}

	cl, err := proxycore.ConnectClient(ctx, proxycore.NewEndpoint("127.0.10.100:9392"), proxycore.ClientConnConfig{})
	if err != nil {
		panic(err)
	}
	if _, err := cl.Handshake(ctx, primitive.ProtocolVersion4, nil); err != nil {
		panic(err)
	}
	res := make(chan string, 2)
	for i := 0; i < 2; i++ {
		go func(i int) {
			c2, cancel2 := context.WithTimeout(ctx, 8*time.Second)
			defer cancel2()
			r, err := cl.SendAndReceive(c2, frame.NewFrame(primitive.ProtocolVersion4, 0, &message.Query{Query: fmt.Sprintf("SELECT * FROM test.t%d", i)}))
			if err != nil {
				res <- fmt.Sprintf("req%d: NO REPLY (%v)", i, err)
			} else {
				res <- fmt.Sprintf("req%d: reply %v", i, r.Body.Message)
			}
		}(i)
		time.Sleep(50 * time.Millisecond)
	}
	got.Wait()
	fmt.Println("both requests are in flight on different hosts; killing both backends")
	cluster.Stop(1)
	cluster.Stop(2)
	for i := 0; i < 2; i++ {
		fmt.Println(<-res)
	}
	close(holdPool)
	close(block)
	if len(os.Args) > 1 {
		pprof.Lookup("goroutine").WriteTo(os.Stdout, 2)
	}
}
