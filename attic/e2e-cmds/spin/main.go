package main

import (
	"context"
	"fmt"
	"net"
	"os"
	"runtime/pprof"
	"strings"
	"time"

	"github.com/datastax/cql-proxy/proxy"
	"github.com/datastax/cql-proxy/proxycore"
	"github.com/datastax/go-cassandra-native-protocol/frame"
	"github.com/datastax/go-cassandra-native-protocol/message"
	"github.com/datastax/go-cassandra-native-protocol/primitive"
)

func main() {
	ctx, cancel := context.WithCancel(context.Background())
	defer cancel()
	const port = 9491
	cluster := proxycore.NewMockCluster(net.ParseIP("127.0.11.1"), port)
	cluster.Handlers = proxycore.NewMockRequestHandlers(proxycore.MockRequestHandlers{
		primitive.OpCodeQuery: func(cl *proxycore.MockClient, frm *frame.Frame) message.Message {
			if msg := cl.InterceptQuery(frm.Header, frm.Body.Message.(*message.Query)); msg != nil {
				return msg
			}
			fmt.Println("backend", cl.Local().IP, "answers read timeout (enough responses, no data)")
			return &message.ReadTimeout{ErrorMessage: "rt", Consistency: primitive.ConsistencyLevelOne, Received: 1, BlockFor: 1, DataPresent: false}
		},
	})
	for i := 1; i <= 2; i++ {
		if err := cluster.Add(ctx, i); err != nil {
			panic(err)
		}
	}
	p := proxy.NewProxy(ctx, proxy.Config{
		Version:           primitive.ProtocolVersion4,
		Resolver:          proxycore.NewResolverWithDefaultPort([]string{"127.0.11.2"}, port),
		ReconnectPolicy:   proxycore.NewReconnectPolicyWithDelays(30*time.Second, 60*time.Second),
		NumConns:          1,
		HeartBeatInterval: 300 * time.Second,
		ConnectTimeout:    10 * time.Second,
		IdleTimeout:       600 * time.Second,
	})
	if err := p.Connect(); err != nil {
		panic(err)
	}
	l, err := net.Listen("tcp", "127.0.11.100:9492")
	if err != nil {
		panic(err)
	}
	go p.Serve(l)

	// warm-up request so that the next plan starts at node 2
	{
		cl0, err := proxycore.ConnectClient(ctx, proxycore.NewEndpoint("127.0.11.100:9492"), proxycore.ClientConnConfig{})
		if err != nil {
			panic(err)
		}
		if _, err := cl0.Handshake(ctx, primitive.ProtocolVersion4, nil); err != nil {
			panic(err)
		}
		r, err := cl0.SendAndReceive(ctx, frame.NewFrame(primitive.ProtocolVersion4, 0, &message.Query{Query: "SELECT * FROM test.warm"}))
		fmt.Println("warm-up:", r.Body.Message, err)
	}
	paused := make(chan struct{}, 1)
	resume := make(chan struct{})
	proxycore.VerifYieldHook = func(point string) {
		if point == "retry.before-execute" {
			select {
			case paused <- struct{}{}:
				<-resume
			default:
			}
		}
	}
	cl, err := proxycore.ConnectClient(ctx, proxycore.NewEndpoint("127.0.11.100:9492"), proxycore.ClientConnConfig{})
	if err != nil {
		panic(err)
	}
	if _, err := cl.Handshake(ctx, primitive.ProtocolVersion4, nil); err != nil {
		panic(err)
	}
	res := make(chan string, 1)
	go func() {
		c2, cancel2 := context.WithTimeout(ctx, 6*time.Second)
		defer cancel2()
		r, err := cl.SendAndReceive(c2, frame.NewFrame(primitive.ProtocolVersion4, 0, &message.Query{Query: "SELECT * FROM test.t"}))
		if err != nil {
			res <- fmt.Sprintf("NO REPLY (%v)", err)
		} else {
			res <- fmt.Sprintf("reply %v", r.Body.Message)
		}
	}()
	<-paused
	fmt.Println("proxy decided to retry on the same host; now that host goes away")
	cluster.Remove(2)
	time.Sleep(12 * time.Second) // topology refresh window is 10 s
	close(resume)
	fmt.Println(<-res)
	var sb strings.Builder
	pprof.Lookup("goroutine").WriteTo(&sb, 2)
	for _, g := range strings.Split(sb.String(), "\n\n") {
		if strings.Contains(g, "executeInternal") {
			lines := strings.Split(g, "\n")
			for _, ln := range lines {
				if !strings.HasPrefix(ln, "\t") {
					fmt.Println(ln)
				}
			}
		}
	}
	_ = os.Stdout
}
