import Lexer
open Gen.Lex

def allLt (n : Nat) (p : Nat → Bool) : Bool := match n with
  | 0 => true
  | k+1 => p k && allLt k p

def isIdentByte (b : Nat) : Bool :=
  (Nat.ble 48 b && Nat.ble b 57) || (Nat.ble 65 b && Nat.ble b 90) || (Nat.ble 97 b && Nat.ble b 122) || b == 95

-- every non-identifier trailing byte after "SeLeCt" yields tkSelect consuming 6 bytes
theorem select_mixed_case_any_follow :
    (allLt 256 fun b => isIdentByte b || ((next (#[83,101,76,101,67,116, b]) 0).1 == 2 && (next (#[83,101,76,101,67,116, b]) 0).2.1 == 6)) = true := by
  decide +kernel

-- all 64 case masks of "select" followed by '(' 
def caseWord (w : List Nat) (mask : Nat) : List Nat :=
  match w with
  | [] => []
  | c :: cs => (if mask % 2 == 1 then c - 32 else c) :: caseWord cs (mask / 2)

theorem select_all_masks :
    (allLt 64 fun m => (next ((caseWord [115,101,108,101,99,116] m ++ [40]).toArray) 0).1 == 2) = true := by
  decide +kernel

-- start state skips whitespace bytes and stays in start
theorem ws_skip : (allLt 256 fun b => !(b == 32 || b == 9 || b == 10) ||
    (match edges.getD (findRng (rows.getD start []) b) ⟨[], .out⟩ with
     | ⟨_, .st n⟩ => n == start
     | _ => false)) = true := by
  decide +kernel
