import LexTables
open Gen.Lex

structure LS where
  p : Nat
  te : Nat := 0
  ts : Nat := 0
  act : Nat := 0
  tk : Nat := 0
  idLo : Nat := 0
  idHi : Nat := 0
  deriving Repr

def findRng (rs : List Rng) (b : Nat) : Nat :=
  match rs with
  | [] => 0
  | r :: rs => if (Nat.ble r.lo b && Nat.ble b r.hi) = true then r.e else findRng rs b

mutual
def applyA (a : A) (s : LS) : LS × Bool :=   -- Bool: forced out
  match a with
  | .teP1 => ({ s with te := s.p + 1 }, false)
  | .teP => ({ s with te := s.p }, false)
  | .pTeM1 => ({ s with p := s.te - 1 }, false)
  | .pInc => ({ s with p := s.p + 1 }, false)
  | .pDec => ({ s with p := s.p - 1 }, false)
  | .tsP => ({ s with ts := s.p }, false)
  | .ts0 => ({ s with ts := 0 }, false)
  | .setId => ({ s with idLo := s.ts, idHi := s.te }, false)
  | .nop => (s, false)
  | .setAct k => ({ s with act := k }, false)
  | .setTk k => ({ s with tk := k }, false)
  | .byAct alts => applyAlts alts s
def applyAlts (alts : List (Nat × List A)) (s : LS) : LS × Bool :=
  match alts with
  | [] => (s, false)
  | (k, as) :: rest => if k = s.act then ((applyAs as s).1, true) else applyAlts rest s
def applyAs (as : List A) (s : LS) : LS × Bool :=
  match as with
  | [] => (s, false)
  | a :: as => let (s', o) := applyA a s; if o then (s', true) else applyAs as s'
end

-- one scanner call; fuel bounds the number of DFA steps
def scan (data : Array Nat) : Nat → Nat → Bool → LS → LS
  | 0, _, _, s => s
  | fuel+1, cs, enter, s =>
    let s := if enter then { s with p := s.p + 1 } else s
    if enter && s.p == data.size then
      match eofs.getD cs none with
      | none => s
      | some e =>
        let (s', o) := applyAs e.acts s
        if o then s' else
        match e.next with
        | .out => s'
        | .st n => scan data fuel n true s'
        | .caseSt n => scan data fuel n false s'
    else
      let e := edges.getD (findRng (rows.getD cs []) (data.getD s.p 0)) ⟨[], .out⟩
      let (s', o) := applyAs e.acts s
      if o then s' else
      match e.next with
      | .out => s'
      | .st n => scan data fuel n true s'
      | .caseSt n => scan data fuel n false s'

def next (data : Array Nat) (p : Nat) : Nat × Nat × Nat × Nat :=  -- tok, newp, idLo, idHi
  if p == data.size then (1, p, 0, 0) else
  let s := scan data (2 * data.size + 4) start false { p := p }
  if s.tk == 0 && s.p == data.size then (1, s.p, 0, 0) else (s.tk, s.p, s.idLo, s.idHi)

def lexAll (data : Array Nat) : Nat → Nat → List (Nat × Nat) 
  | 0, _ => []
  | fuel+1, p =>
    let (t, p', _, _) := next data p
    (t, p') :: (if t == 1 then [] else lexAll data fuel p')

def bytes (s : String) : Array Nat := s.toUTF8.data.map (·.toNat)

#eval lexAll (bytes "SELECT * FROM system.local WHERE a = now() AND b = 'x' ;") 100 0
#eval lexAll (bytes "P 1h2m 0xAB abcdef12-1234-1234-1234-123456789012 'unterminated") 100 0
