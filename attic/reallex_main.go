package main

import (
	"bufio"
	"encoding/hex"
	"fmt"
	"os"

	"github.com/datastax/cql-proxy/parser"
)

func main() {
	sc := bufio.NewScanner(os.Stdin)
	sc.Buffer(make([]byte, 1<<20), 1<<20)
	for sc.Scan() {
		b, _ := hex.DecodeString(sc.Text())
		toks := parser.VerifLex(string(b))
		for _, t := range toks {
			fmt.Printf("%d:%d:%s ", t.Kind, t.P, hex.EncodeToString([]byte(t.Id)))
		}
		fmt.Println()
	}
}
