-- Prototype of Model.Core (atomic handlers) and its two central invariants.
abbrev Host := Nat
abbrev ConnId := Nat
abbrev ReqId := Nat
abbrev BS := Nat

inductive Handle where
  | req (r : ReqId) | prep (r : ReqId)
  deriving DecidableEq, Repr

def Handle.rid : Handle → ReqId
  | .req r => r | .prep r => r

inductive Decision where | same | next | ret deriving DecidableEq
inductive Outcome where
  | success | readTimeoutRetry | unavailable | bootstrapping | serverErr | writeTimeoutBatchLog | fatal | unprepared
  deriving DecidableEq

def decide' (o : Outcome) (idem : Bool) (rc : Nat) : Decision :=
  match o with
  | .success => .ret
  | .readTimeoutRetry => if rc = 0 then .same else .ret
  | .unavailable => if rc = 0 then .next else .ret
  | .bootstrapping => .next
  | .serverErr => if idem then .next else .ret
  | .writeTimeoutBatchLog => if idem ∧ rc = 0 then .same else .ret
  | .fatal => .ret
  | .unprepared => .ret

structure Req where
  idem : Bool
  plan : List Host
  host : Option Host
  rc : Nat
  done : Bool

structure Conn where
  host : Host
  closing : Bool
  dead : Bool
  notified : Bool
  cleared : Bool
  pending : List (BS × Handle)
  free : List BS

structure St where
  req : ReqId → Req
  nreq : Nat
  conn : ConnId → Conn
  nconn : Nat
  out : List ReqId
  diverged : Bool

def upd {α} (f : Nat → α) (i : Nat) (v : α) : Nat → α := fun j => if j = i then v else f j
@[simp] theorem upd_same {α} (f : Nat → α) (i : Nat) (v : α) : upd f i v i = v := by simp [upd]
@[simp] theorem upd_other {α} (f : Nat → α) (i j : Nat) (v : α) (h : j ≠ i) : upd f i v j = f j := by simp [upd, h]

def St.setReq (s : St) (r : ReqId) (q : Req) : St := { s with req := upd s.req r q }
def St.setConn (s : St) (c : ConnId) (k : Conn) : St := { s with conn := upd s.conn c k }

-- first usable connection slot of host h among conn ids < n
def pickConn (s : St) (h : Host) : Nat → Option ConnId
  | 0 => none
  | n+1 => match pickConn s h n with
    | some c => some c
    | none => if (s.conn n).host = h ∧ (s.conn n).cleared = false then some n else none

-- ClientConn.Send: register in pending, then enqueue the write (w = the write succeeds when the conn is dead? no: w is only consulted for dead conns)
def sendTo (s : St) (c : ConnId) (hd : Handle) (w : Bool) : St × Bool :=
  let k := s.conn c
  if k.closing then (s, false) else
  match k.free with
  | [] => (s, false)
  | b :: fr =>
    let k' := { k with free := fr, pending := (b, hd) :: k.pending }
    let s' := s.setConn c k'
    if k.dead && !w then (s', false) else (s', true)

-- executeInternal(next = true): walk the remaining plan
def execNext (s : St) (r : ReqId) (ws : List Bool) : List Host → St
  | [] =>
    let q := s.req r
    { (s.setReq r { q with plan := [], host := none, done := true }) with out := r :: s.out }
  | h :: rest =>
    let q := s.req r
    let s := s.setReq r { q with plan := rest, host := some h }
    match pickConn s h s.nconn with
    | none => execNext s r ws.tail rest
    | some c =>
      let (s', ok) := sendTo s c (.req r) (ws.headD true)
      if ok then s' else execNext s' r ws.tail rest

-- executeInternal(next = false): same host; a failing send never terminates in the code
def execSame (s : St) (r : ReqId) (w : Bool) : St :=
  match (s.req r).host with
  | none => let q := s.req r; { (s.setReq r { q with done := true }) with out := r :: s.out }
  | some h =>
    match pickConn s h s.nconn with
    | none => { s with diverged := true }
    | some c =>
      let (s', ok) := sendTo s c (.req r) w
      if ok then s' else { s' with diverged := true }

def finish (s : St) (r : ReqId) : St :=
  let q := s.req r
  { (s.setReq r { q with done := true }) with out := r :: s.out }

def onResult (s : St) (r : ReqId) (o : Outcome) (ws : List Bool) : St :=
  let q := s.req r
  if q.done then s else
  match decide' o q.idem q.rc with
  | .ret => finish s r
  | .same => execSame (s.setReq r { q with rc := q.rc + 1 }) r (ws.headD true)
  | .next => let s := s.setReq r { q with rc := q.rc + 1 }; execNext s r ws (s.req r).plan

def onClose (s : St) (r : ReqId) (ws : List Bool) : St :=
  let q := s.req r
  if q.idem then (if q.done then s else execNext s r ws q.plan)
  else if q.done then s else finish s r

def execute (s : St) (r : ReqId) (next : Bool) (ws : List Bool) : St :=
  if (s.req r).done then s
  else if next then execNext s r ws (s.req r).plan else execSame s r (ws.headD true)

inductive Act where
  | clientReq (idem : Bool) (plan : List Host) (ws : List Bool)
  | backendReply (c : ConnId) (b : BS) (o : Outcome) (cached : Bool) (ws : List Bool)
  | connDead (c : ConnId)
  | closing (c : ConnId) (ws : List Bool)
  | slotCleared (c : ConnId)
  | addConn (h : Host) (streams : List BS)

def removeEntry (p : List (BS × Handle)) (b : BS) : List (BS × Handle) := p.filter (fun e => e.1 ≠ b)

def closeAll (s : St) (ws : List Bool) : List (BS × Handle) → St
  | [] => s
  | e :: es => closeAll (onClose s e.2.rid ws) ws es

def step (s : St) : Act → St
  | .clientReq idem plan ws =>
    let r := s.nreq
    let s := { s with nreq := r + 1, req := upd s.req r ⟨idem, plan, none, 0, false⟩ }
    execNext s r ws plan
  | .backendReply c b o cached ws =>
    let k := s.conn c
    if k.notified ∨ c ≥ s.nconn then s else
    match k.pending.find? (fun e => e.1 = b) with
    | none => s      -- "invalid stream": the code closes the connection; modelled as a separate connDead/closing
    | some e =>
      let s := s.setConn c { k with pending := removeEntry k.pending b, free := k.free ++ [b] }
      match e.2 with
      | .req r =>
        if o = .unprepared ∧ cached then
          let (s', ok) := sendTo s c (.prep r) (ws.headD true)
          if ok then s' else onResult s' r o ws.tail
        else onResult s r o ws
      | .prep r => execute s r (o ≠ .success) ws
  | .connDead c => s.setConn c { s.conn c with dead := true }
  | .closing c ws =>
    let k := s.conn c
    if k.notified ∨ c ≥ s.nconn then s else
    let s := s.setConn c { k with closing := true }
    let s := closeAll s ws k.pending
    s.setConn c { s.conn c with notified := true }
  | .slotCleared c => s.setConn c { s.conn c with cleared := true }
  | .addConn h streams =>
    { s with nconn := s.nconn + 1, conn := upd s.conn s.nconn ⟨h, false, false, false, false, [], streams⟩ }

def init : St := ⟨fun _ => ⟨false, [], none, 0, true⟩, 0, fun _ => ⟨0, true, true, true, true, [], []⟩, 0, [], false⟩

def run (as : List Act) : St := as.foldl step init

-- quick sanity run: 2 hosts, one conn each, idempotent request, host 0 dies -> fails over to host 1
#eval
  let s := run [.addConn 0 [0,1], .addConn 1 [0,1], .clientReq true [0,1] [], .connDead 0, .closing 0 []]
  (s.out, (s.req 0).done, (s.conn 1).pending, s.diverged)
#eval
  let s := run [.addConn 0 [0,1], .addConn 1 [0,1], .clientReq true [0,1] [], .connDead 0, .closing 0 [], .backendReply 1 0 .success false []]
  (s.out, (s.req 0).done, (s.conn 1).pending, s.diverged)
