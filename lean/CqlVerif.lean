import CqlVerif.Model.LB
