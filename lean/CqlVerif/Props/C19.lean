import CqlVerif.Model.Tls
import CqlVerif.Spec.TlsShape
import CqlVerif.Gen.TlsFacts
/-!
# C19 — Astra bundle connections authenticate the server and identify the client
-/
namespace CqlVerif.C19
open CqlVerif.Tls

/-- **tls_shape_ok** — the facts read off /repo's current astra/endpoint.go, astra/bundle.go and
proxycore/conn.go are the ones Model/Tls.lean models (regenerated on every run) -/
theorem tls_shape_ok : Gen.TlsFacts.facts = TlsShape.expected := by decide

/-- a verified path: every certificate valid at `t`, each signed by the next one's key, every
issuer a CA, ending at a trusted root -/
inductive Path (roots inters : List Cert) (t : Int) : Cert → Prop where
  | root (c r : Cert) : c.validAt t = true → r ∈ roots → r.id = c.signer → r.isCA = true → r.validAt t = true → Path roots inters t c
  | step (c i : Cert) : c.validAt t = true → i ∈ inters → i.id = c.signer → i.isCA = true → Path roots inters t i → Path roots inters t c

theorem chainOk_sound (roots inters : List Cert) (t : Int) (fuel : Nat) (c : Cert)
    (h : chainOk roots inters t fuel c = true) : Path roots inters t c := by
  induction fuel generalizing c with
  | zero => simp [chainOk] at h
  | succ n ih =>
    simp only [chainOk, Bool.and_eq_true, Bool.or_eq_true, List.any_eq_true, beq_iff_eq] at h
    obtain ⟨hv, hr | hi⟩ := h
    · obtain ⟨r, hr, ⟨hid, hca⟩, hrv⟩ := hr
      exact .root c r hv hr hid hca hrv
    · obtain ⟨i, hi, ⟨hid, hca⟩, hrec⟩ := hi
      exact .step c i hv hi hid hca (ih i hrec)

/-- **accept_sound** — for every bundle, every presented chain and every time: a server is
accepted only if its leaf names the bundle's host, and either is itself one of the bundle's roots
(and valid) or is linked to a bundle root by a path of valid CA certificates taken from the chain
it presented -/
theorem accept_sound (b : Bundle) (chain : List Cert) (t : Int) (h : accept b chain t = true) :
    ∃ leaf rest, chain = leaf :: rest ∧ b.host ∈ leaf.names ∧ leaf.validAt t = true ∧
      (leaf ∈ b.roots ∨ Path b.roots rest t leaf) := by
  cases chain with
  | nil => simp [accept] at h
  | cons leaf rest =>
    simp only [accept, Bool.and_eq_true, Bool.or_eq_true, List.contains_iff_mem] at h
    obtain ⟨hn, h⟩ := h
    refine ⟨leaf, rest, rfl, hn, ?_⟩
    rcases h with ⟨hr, hv⟩ | hc
    · exact ⟨hv, Or.inl hr⟩
    · have hp := chainOk_sound _ _ _ _ _ hc
      have hv : leaf.validAt t = true := by cases hp <;> assumption
      exact ⟨hv, Or.inr hp⟩

theorem reject_empty (b : Bundle) (t : Int) : accept b [] t = false := rfl

/-- **reject_wrong_name** — a leaf that does not name the bundle's host is rejected whatever else
the server sends along (a second certificate with the right name does not help) -/
theorem reject_wrong_name (b : Bundle) (leaf : Cert) (rest : List Cert) (t : Int) (h : b.host ∉ leaf.names) :
    accept b (leaf :: rest) t = false := by
  have : leaf.names.contains b.host = false := by simpa using h
  simp only [accept, this, Bool.false_and]

/-- **reject_outside_validity** — expired and not-yet-valid leaves are rejected, judged at the
time of the handshake -/
theorem reject_outside_validity (b : Bundle) (leaf : Cert) (rest : List Cert) (t : Int) (h : leaf.validAt t = false) :
    accept b (leaf :: rest) t = false := by
  have hc : chainOk b.roots rest t (rest.length + 1) leaf = false := by simp [chainOk, h]
  simp [accept, h, hc]

theorem path_needs_root_signature (roots inters : List Cert) (t : Int) (c : Cert) (h : Path roots inters t c) :
    ∃ c', (c' = c ∨ c' ∈ inters) ∧ ∃ r ∈ roots, r.id = c'.signer := by
  induction h with
  | root c r _ hr hid _ _ => exact ⟨c, Or.inl rfl, r, hr, hid⟩
  | step c i _ hi _ _ _ ih =>
    obtain ⟨c', hc', hr⟩ := ih
    rcases hc' with rfl | hm
    · exact ⟨c', Or.inr hi, hr⟩
    · exact ⟨c', Or.inr hm, hr⟩

/-- **reject_untrusted** — if no certificate the server presents is signed by a key of one of the
bundle's roots (self-signed, issued under another CA with or without that CA appended, issued by
an intermediate that is missing) and the leaf is not itself a root, the server is rejected -/
theorem reject_untrusted (b : Bundle) (leaf : Cert) (rest : List Cert) (t : Int)
    (hroot : leaf ∉ b.roots) (hsig : ∀ c ∈ leaf :: rest, ∀ r ∈ b.roots, r.id ≠ c.signer) :
    accept b (leaf :: rest) t = false := by
  cases hacc : accept b (leaf :: rest) t with
  | false => rfl
  | true =>
    obtain ⟨l, r, hc, _, _, hor⟩ := accept_sound b _ t hacc
    cases hc
    rcases hor with hr | hp
    · exact absurd hr hroot
    · obtain ⟨c', hc', r', hr', hid⟩ := path_needs_root_signature _ _ _ _ hp
      have hm : c' ∈ leaf :: rest := by
        rcases hc' with rfl | hm
        · exact List.mem_cons_self
        · exact List.mem_cons_of_mem _ hm
      exact absurd hid (hsig c' hm r' hr')

/-- **client_identity** — the proxy names the node (host id or contact point) as SNI on every
attempt, and presents the bundle's client certificate exactly to servers it has accepted -/
theorem client_identity (b : Bundle) (node : Nat) (chain : List Cert) (t : Int) :
    (connectNode b node chain t).sni = node ∧
    ((connectNode b node chain t).presents = some b.clientCert ↔ accept b chain t = true) ∧
    ((connectNode b node chain t).connected = accept b chain t) := by
  unfold connectNode
  cases accept b chain t <;> simp

/-- non-vacuity: a leaf under an intermediate under the bundle's CA is accepted while everything
is valid, and rejected once the intermediate has expired -/
example : accept { roots := [⟨1, 1, [], -10, 100, true⟩], host := 7, clientCert := 9 }
    [⟨10, 20, [7], -10, 100, false⟩, ⟨20, 1, [], -10, 5, true⟩] 0 = true := by decide
example : accept { roots := [⟨1, 1, [], -10, 100, true⟩], host := 7, clientCert := 9 }
    [⟨10, 20, [7], -10, 100, false⟩, ⟨20, 1, [], -10, 5, true⟩] 6 = false := by decide

end CqlVerif.C19
