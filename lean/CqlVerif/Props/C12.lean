import CqlVerif.Model.Frame
import CqlVerif.Props.C11
/-!
# C12 — Write-consistency override rewrites exactly the consistency of matching writes
-/
namespace CqlVerif.C12
open CqlVerif.Wire CqlVerif.PartialCodec CqlVerif.Frame CqlVerif.C11

theorem overrideQuery_of (o : Override) (body : Bytes) (p : PQuery) (h : decodeQuery body = some p)
    (hin : o.unsupported.contains p.consistency = true) :
    overrideQuery o false body = some (encodeQuery { p with consistency := o.override }) := by
  unfold overrideQuery; rw [h]; simp only [Bool.not_false, Bool.true_and, hin, ↓reduceIte]

theorem overrideExecute_of (o : Override) (rmid : Bool) (body : Bytes) (p : PExecute) (h : decodeExecute rmid body = some p)
    (hin : o.unsupported.contains p.consistency = true) :
    overrideExecute o rmid false body = some (encodeExecute rmid { p with consistency := o.override }) := by
  unfold overrideExecute; rw [h]; simp only [Bool.not_false, Bool.true_and, hin, ↓reduceIte]

theorem overrideBatch_of (o : Override) (body : Bytes) (p : PBatch) (h : decodeBatch body = some p)
    (hin : o.unsupported.contains p.consistency = true) :
    overrideBatch o body = some (encodeBatch { p with consistency := o.override }) := by
  unfold overrideBatch; rw [h]; simp only [hin, ↓reduceIte]

/-- **override_body (QUERY)** — on every valid body whose consistency is in the list the result
is the same body with exactly the two consistency bytes replaced: same query string before, same
parameter bytes (flags, values, serial consistency, timestamp, paging, keyspace …) after; the
length is unchanged, so the frame stays well-formed. -/
theorem override_query (o : Override) (p : PQuery) (hq : p.query.length < 2147483648) (hc : p.consistency < 65536)
    (hin : o.unsupported.contains p.consistency = true) :
    overrideQuery o false (encodeQuery p) = some (writeLongString p.query ++ writeShort o.override ++ p.params) ∧
    (writeLongString p.query ++ writeShort o.override ++ p.params).length = (encodeQuery p).length := by
  refine ⟨overrideQuery_of o _ p (agree_query p hq hc) hin, ?_⟩
  simp [encodeQuery, writeShort]

theorem override_execute (o : Override) (rmid : Bool) (p : PExecute) (hid : p.id ≠ []) (hil : p.id.length < 65536)
    (hrm : if rmid then p.resultMetadataId ≠ [] ∧ p.resultMetadataId.length < 65536 else p.resultMetadataId = [])
    (hc : p.consistency < 65536) (hin : o.unsupported.contains p.consistency = true) :
    overrideExecute o rmid false (encodeExecute rmid p) = some (encodeExecute rmid { p with consistency := o.override }) ∧
    (encodeExecute rmid { p with consistency := o.override }).length = (encodeExecute rmid p).length := by
  refine ⟨overrideExecute_of o rmid _ p (agree_execute rmid p hid hil hrm hc) hin, ?_⟩
  simp [encodeExecute, writeShort]

theorem override_batch (o : Override) (p : PBatch) (ht : p.type ≤ 2) (hn : p.children.length < 65536)
    (hch : ∀ c ∈ p.children, ChildOK c) (hc : p.consistency < 65536) (hin : o.unsupported.contains p.consistency = true) :
    overrideBatch o (encodeBatch p) = some (encodeBatch { p with consistency := o.override }) ∧
    (encodeBatch { p with consistency := o.override }).length = (encodeBatch p).length := by
  refine ⟨overrideBatch_of o _ p (agree_batch p ht hn hch hc) hin, ?_⟩
  simp [encodeBatch, writeShort]

/-- **select_untouched** — SELECTs (direct or prepared) are forwarded unmodified, whatever their consistency -/
theorem select_untouched (o : Override) (body : Bytes) (p : PQuery) (h : decodeQuery body = some p) :
    overrideQuery o true body = some body := by
  simp [overrideQuery, h]

theorem select_execute_untouched (o : Override) (rmid : Bool) (body : Bytes) (p : PExecute) (h : decodeExecute rmid body = some p) :
    overrideExecute o rmid true body = some body := by
  simp [overrideExecute, h]

/-- **other_consistency_untouched** — a consistency that is not in the list leaves the bytes alone -/
theorem other_consistency_untouched (o : Override) (isSelect : Bool) (body : Bytes) (p : PQuery)
    (h : decodeQuery body = some p) (hn : o.unsupported.contains p.consistency = false) :
    overrideQuery o isSelect body = some body := by
  unfold overrideQuery; rw [h]; simp only [hn, Bool.and_false, Bool.false_eq_true, ↓reduceIte]

/-- **no_config_identity** — with no list configured nothing is ever modified -/
theorem no_config_identity (ov : Nat) (isSelect rmid : Bool) (body : Bytes) :
    (∀ p, decodeQuery body = some p → overrideQuery ⟨[], ov⟩ isSelect body = some body) ∧
    (∀ p, decodeExecute rmid body = some p → overrideExecute ⟨[], ov⟩ rmid isSelect body = some body) ∧
    (∀ p, decodeBatch body = some p → overrideBatch ⟨[], ov⟩ body = some body) := by
  refine ⟨?_, ?_, ?_⟩ <;> intro p h <;> simp [overrideQuery, overrideExecute, overrideBatch, h]

/-- non-vacuity: `INSERT…` at consistency ANY (0) with list [0, 1] and override LOCAL_QUORUM (6) -/
example : overrideQuery ⟨[0, 1], 6⟩ false [0, 0, 0, 2, 73, 78, 0, 0, 5, 9] = some [0, 0, 0, 2, 73, 78, 0, 6, 5, 9] := by decide

end CqlVerif.C12
