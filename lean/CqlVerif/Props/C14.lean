import CqlVerif.Model.Events
import CqlVerif.Model.Handshake
/-!
# C14 — Schema-change events reach every registered client exactly once, and only those
-/
namespace CqlVerif.C14
open CqlVerif.Events

structure Inv (s : St) : Prop where
  regNodup : s.registered.Nodup
  conNodup : s.connected.Nodup
  regSub : ∀ c ∈ s.registered, c ∈ s.connected

theorem step_inv (s : St) (a : Act) (h : Inv s) : Inv (step s a) := by
  cases a with
  | connect c =>
    simp only [step]
    split
    · exact h
    · rename_i hc
      exact ⟨h.regNodup, List.nodup_cons.mpr ⟨by simpa using hc, h.conNodup⟩,
        fun x hx => List.mem_cons_of_mem _ (h.regSub x hx)⟩
  | register c types =>
    simp only [step]
    split
    · rename_i hc
      refine ⟨List.nodup_cons.mpr ⟨by simpa using hc.2.2, h.regNodup⟩, h.conNodup, ?_⟩
      intro x hx
      rcases List.mem_cons.mp hx with rfl | hx
      · simpa using hc.1
      · exact h.regSub x hx
    · exact h
  | disconnect c =>
    simp only [step]
    refine ⟨h.regNodup.erase c, h.conNodup.erase c, ?_⟩
    intro x hx
    have hx' := (List.Nodup.mem_erase_iff h.regNodup).mp hx
    exact (List.Nodup.mem_erase_iff h.conNodup).mpr ⟨hx'.1, h.regSub x hx'.2⟩
  | backendEvent id t => cases t <;> exact ⟨h.regNodup, h.conNodup, h.regSub⟩
  | controlFailover => exact h

theorem reachable_inv (as : List Act) : Inv (run as) := by
  unfold run
  suffices ∀ s, Inv s → Inv (as.foldl step s) from this {} ⟨List.nodup_nil, List.nodup_nil, by simp⟩
  induction as with
  | nil => intro s h; exact h
  | cons a as ih => intro s h; exact ih _ (step_inv s a h)

/-- **registry_inv** — in every reachable state the registry holds each client at most once and
only connected clients -/
theorem registry_inv (as : List Act) : (run as).registered.Nodup ∧ ∀ c ∈ (run as).registered, c ∈ (run as).connected :=
  ⟨(reachable_inv as).regNodup, (reachable_inv as).regSub⟩

theorem nodup_map_pair (l : List Nat) (id : Nat) (h : l.Nodup) : (l.map (fun c => (c, id))).Nodup := by
  induction l with
  | nil => simp
  | cons a t ih =>
    simp only [List.nodup_cons, List.map_cons, List.mem_map, Prod.mk.injEq, and_true, exists_eq_right] at h ⊢
    exact ⟨h.1, ih h.2⟩

/-- **fanout_exact** — a schema-change event is written exactly once to every registered (hence
connected) client and to nobody else, after any history -/
theorem fanout_exact (as : List Act) (id : Nat) :
    let s := run as
    let s' := step s (.backendEvent id .schema)
    ∃ extra, s'.delivered = s.delivered ++ extra ∧ extra.Nodup ∧
      (∀ c, (c, id) ∈ extra ↔ c ∈ s.registered) ∧ ∀ e ∈ extra, e.2 = id := by
  refine ⟨(run as).registered.reverse.map (fun c => (c, id)), rfl, ?_, ?_, ?_⟩
  · have hn : (run as).registered.reverse.Nodup := ((List.reverse_perm _).nodup_iff).mpr (reachable_inv as).regNodup
    exact nodup_map_pair _ id hn
  · intro c; simp
  · intro e he; simp at he; obtain ⟨c, _, rfl⟩ := he; rfl

/-- **no_topology_forward** — topology and status events are never forwarded -/
theorem no_topology_forward (s : St) (id : Nat) (t : EvType) (ht : t ≠ .schema) :
    (step s (.backendEvent id t)).delivered = s.delivered := by
  cases t <;> simp_all [step]

/-- **disconnect_isolated** — a disconnecting client stops being a target and nobody else is touched -/
theorem disconnect_isolated (as : List Act) (c : Client) :
    let s := step (run as) (.disconnect c)
    c ∉ s.registered ∧ ∀ d, d ≠ c → (d ∈ s.registered ↔ d ∈ (run as).registered) := by
  have h := reachable_inv as
  refine ⟨fun hm => ((List.Nodup.mem_erase_iff h.regNodup).mp hm).1 rfl, ?_⟩
  intro d hd
  simp only [step]
  rw [List.Nodup.mem_erase_iff h.regNodup]
  exact ⟨fun x => x.2, fun x => ⟨hd, x⟩⟩

/-- a REGISTER that does not name SCHEMA_CHANGE registers nothing -/
theorem register_other_types (s : St) (c : Client) (types : List EvType) (h : types.contains .schema = false) :
    step s (.register c types) = s := by
  have h' : EvType.schema ∉ types := by simpa using h
  simp [step, h']

/-- non-vacuity -/
example : (run [.connect 0, .connect 1, .connect 2, .register 0 [.schema], .register 1 [.topology, .status],
    .backendEvent 1 .schema, .backendEvent 9 .topology, .register 2 [.status, .schema], .disconnect 0,
    .backendEvent 2 .schema]).delivered = [(0, 1), (2, 2)] := by decide

/-- **hand_over_conserves** — whatever the interleaving of the backend emitting events, the control
connection's reader handing them over and the event loop taking them, and however small the
channel: what the loop has handled followed by what waits in the channel is exactly the events read
so far, in the order the backend emitted them — a full channel delays, it never drops or reorders -/
theorem hand_over_conserves (cap : Nat) (as : List QAct) :
    (qrun cap as).handled ++ (qrun cap as).queue = (qrun cap as).emitted.take (qrun cap as).accepted ∧
    (qrun cap as).accepted ≤ (qrun cap as).emitted.length ∧ (qrun cap as).queue.length ≤ max cap 0 := by
  unfold qrun
  suffices h : ∀ s : EvQ, (s.handled ++ s.queue = s.emitted.take s.accepted ∧ s.accepted ≤ s.emitted.length ∧ s.queue.length ≤ s.cap) →
      ((as.foldl qstep s).handled ++ (as.foldl qstep s).queue = (as.foldl qstep s).emitted.take (as.foldl qstep s).accepted ∧
       (as.foldl qstep s).accepted ≤ (as.foldl qstep s).emitted.length ∧ (as.foldl qstep s).queue.length ≤ (as.foldl qstep s).cap) by
    have hc : ∀ (l : List QAct) (s : EvQ), (l.foldl qstep s).cap = s.cap := by
      intro l
      induction l with
      | nil => intro s; rfl
      | cons a t ih =>
        intro s
        rw [List.foldl_cons, ih]
        cases a <;> simp [qstep] <;> (try split) <;> (try split) <;> rfl
    have := h { cap := cap } (by simp)
    simpa [hc] using this
  induction as with
  | nil => intro s h; exact h
  | cons a t ih =>
    intro s h
    apply ih
    obtain ⟨h1, h2, h3⟩ := h
    cases a with
    | emit id =>
      simp only [qstep]
      refine ⟨?_, by simp; omega, h3⟩
      rw [List.take_append_of_le_length h2]; exact h1
    | put =>
      simp only [qstep]
      split
      · exact ⟨h1, h2, h3⟩
      · rename_i e he
        split
        · rename_i hlt
          have hacc : s.accepted < s.emitted.length := by
            rcases Nat.lt_or_ge s.accepted s.emitted.length with h | h
            · exact h
            · rw [List.getElem?_eq_none h] at he; cases he
          refine ⟨?_, hacc, by simp; omega⟩
          have : s.emitted.take (s.accepted + 1) = s.emitted.take s.accepted ++ [e] := by
            rw [List.take_add_one, he]; rfl
          simp only [this, ← h1, List.append_assoc]
        · exact ⟨h1, h2, h3⟩
    | get =>
      simp only [qstep]
      split
      · exact ⟨h1, h2, h3⟩
      · rename_i e rest hq
        refine ⟨?_, h2, ?_⟩
        · rw [← h1, hq]; simp
        · rw [hq] at h3; simp at h3 ⊢; omega

/-- non-vacuity: a channel of capacity 1, three events, the loop slow: all three come out, in order -/
example : (qrun 1 [.emit 1, .emit 2, .emit 3, .put, .put, .put, .get, .put, .get, .put, .get]).handled = [1, 2, 3] := by decide

end CqlVerif.C14

/-! ### The control connection registers for events, however the backend's handshake goes -/
namespace CqlVerif.C14
open CqlVerif.Handshake

/-- a successful outcome came with REGISTER as the last frame sent -/
def EndsRegistered (r : List Sent × Outcome) : Prop := ∀ v, r.2 = .ok v → r.1.getLast? = some .register

theorem register_ends (v : Nat) (sent : List Sent) (rest : List Srv) : EndsRegistered (register v sent rest) := by
  intro w _
  cases rest with
  | nil => simp [register]
  | cons h t => cases h <;> simp [register]

theorem finish_ends (v : Nat) (sent : List Sent) (rest : List Srv) : EndsRegistered (finish v true sent rest) := by
  simp only [finish, ↓reduceIte]; exact register_ends v sent rest

theorem challenge_ends (v : Nat) (sent : List Sent) (ps : Bool) (rest : List Srv) : EndsRegistered (challenge v true sent ps rest) := by
  intro w hw
  unfold challenge at hw ⊢
  cases ps with
  | false => simp at hw
  | true =>
    simp only [Bool.not_true, Bool.false_eq_true, ↓reduceIte] at hw ⊢
    cases rest with
    | nil => simp at hw
    | cons h t => cases h <;> first | (simp at hw; done) | exact finish_ends v _ t w hw

theorem initialResponse_ends (v : Nat) (sent : List Sent) (dse : Bool) (rest : List Srv) :
    EndsRegistered (initialResponse v true sent dse rest) := by
  intro w hw
  unfold initialResponse at hw ⊢
  cases rest with
  | nil => simp at hw
  | cons h t =>
    cases h with
    | authChallenge ps => exact challenge_ends v _ ps t w hw
    | authSuccess => exact finish_ends v _ t w hw
    | _ => simp at hw

theorem startup_ends (fuel : Nat) : ∀ (v : Nat) (hasAuth : Bool) (sent : List Sent) (srv : List Srv),
    EndsRegistered (startup fuel v true hasAuth sent srv) := by
  induction fuel with
  | zero => intro v a sent srv w hw; simp [startup] at hw
  | succ n ih =>
    intro v a sent srv w hw
    unfold startup at hw ⊢
    cases srv with
    | nil => simp at hw
    | cons h t =>
      cases h with
      | ready => exact finish_ends v _ t w hw
      | authenticate dse =>
        cases a with
        | true => exact initialResponse_ends v _ dse t w hw
        | false => simp at hw
      | versionError =>
        simp only at hw ⊢
        cases hs : stepDown v with
        | none => simp [hs] at hw
        | some v' => simp only [hs] at hw ⊢; exact ih v' a _ t w hw
      | _ => simp at hw

/-- **control_handshake_registers** — for every server script (READY at once, any authenticator,
with or without a challenge round trip, any number of version refusals first, errors, silence) and
every wanted version: if the handshake of a connection that has an event handler succeeds, the last
frame the proxy sent on it is REGISTER - there is no way through the handshake that skips it -/
theorem control_handshake_registers (version : Nat) (hasAuth : Bool) (srv : List Srv) :
    EndsRegistered (handshake version true hasAuth srv) := startup_ends 6 version hasAuth [] srv

/-- non-vacuity: DSE authentication with a challenge, after two version refusals; and a pooled
connection (no handler) never registers -/
example : handshake 66 true true [.versionError, .versionError, .authenticate true, .authChallenge true, .authSuccess, .ready]
    = ([.startup 66, .startup 65, .startup 4, .authResponse true, .authResponse false, .register], .ok 4) := by decide
example : handshake 4 false true [.authenticate false, .authSuccess] = ([.startup 4, .authResponse false], .ok 4) := by decide

/-- **pooled_handshake_never_registers** — a connection without an event handler (every pooled
connection) never sends REGISTER, whatever the server does -/
theorem pooled_handshake_never_registers (version : Nat) (hasAuth : Bool) (srv : List Srv) :
    Sent.register ∉ (handshake version false hasAuth srv).1 := by
  have hfin : ∀ v (sent : List Sent) rest, Sent.register ∉ sent → Sent.register ∉ (finish v false sent rest).1 := by
    intro v sent rest h; simpa [finish] using h
  have hch : ∀ v (sent : List Sent) ps rest, Sent.register ∉ sent → Sent.register ∉ (challenge v false sent ps rest).1 := by
    intro v sent ps rest h
    unfold challenge
    cases ps with
    | false => simpa using h
    | true =>
      simp only [Bool.not_true, Bool.false_eq_true, ↓reduceIte]
      have h' : Sent.register ∉ sent ++ [Sent.authResponse false] := by simp [h]
      cases rest with
      | nil => exact h'
      | cons x t => cases x <;> first | exact h' | exact hfin v _ t h'
  have hin : ∀ v (sent : List Sent) dse rest, Sent.register ∉ sent → Sent.register ∉ (initialResponse v false sent dse rest).1 := by
    intro v sent dse rest h
    unfold initialResponse
    have h' : Sent.register ∉ sent ++ [Sent.authResponse dse] := by simp [h]
    cases rest with
    | nil => exact h'
    | cons x t =>
      cases x with
      | authChallenge ps => exact hch v _ ps t h'
      | authSuccess => exact hfin v _ t h'
      | _ => exact h'
  have hst : ∀ fuel v (sent : List Sent) srv, Sent.register ∉ sent → Sent.register ∉ (startup fuel v false hasAuth sent srv).1 := by
    intro fuel
    induction fuel with
    | zero => intro v sent srv h; simpa [startup] using h
    | succ n ih =>
      intro v sent srv h
      unfold startup
      have h' : Sent.register ∉ sent ++ [Sent.startup v] := by simp [h]
      cases srv with
      | nil => exact h'
      | cons x t =>
        cases x with
        | ready => exact hfin v _ t h'
        | authenticate dse =>
          cases hasAuth with
          | true => exact hin v _ dse t h'
          | false => exact h'
        | versionError =>
          simp only
          cases hs : stepDown v with
          | none => exact h'
          | some v' => exact ih v' _ t h'
        | _ => exact h'
  exact hst 6 version [] srv (by simp)

/-- the version reported is one the proxy proposed, and it never goes below v2 -/
theorem stepDown_floor (v w : Nat) (h : stepDown v = some w) (hv : 2 ≤ v) : 2 ≤ w := by
  unfold stepDown at h
  split at h
  · cases h; omega
  · cases h; omega
  · cases h
  · rename_i h66 h65 h2
    cases h
    have : v ≠ 2 := fun e => h2 e
    omega

end CqlVerif.C14
