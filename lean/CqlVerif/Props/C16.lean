import CqlVerif.Model.Reconnect
import CqlVerif.Model.Cluster
import CqlVerif.Model.Slot
import CqlVerif.Spec.SlotShape
import CqlVerif.Gen.SlotFacts
/-!
# C16 — The proxy tracks backend topology and heals lost backend connections
(part 1: the reconnection back-off calculator)
-/
namespace CqlVerif.C16
open CqlVerif.Reconnect

theorem wrap_id (x : Int) (h1 : -two63 ≤ x) (h2 : x < two63) : wrap x = x := by
  unfold wrap two64 two63 at *
  omega

theorem pow_le_of_lt_log2 (b : Nat) (k : Nat) (hk : k < Nat.log2 b) (hb : b ≠ 0) : 2 ^ (k + 1) ≤ b := by
  have h1 : 2 ^ (k + 1) ≤ 2 ^ Nat.log2 b := Nat.pow_le_pow_right (by omega) hk
  exact Nat.le_trans h1 (Nat.log2_self_le hb)

/-- **delay_bounds** — for every base/max configuration with `0 < base ≤ max` and `base < 2^44` ns
(≈ 4.9 h), every attempt count and every jitter the library can draw, the delay lies within
`[base, max]`; nothing wraps around. -/
theorem delay_bounds (base max : Int) (h0 : 0 < base) (h1 : base ≤ max) (h2 : base < 17592186044416)
    (hmax : max < two63) (attempts : Nat) (jitterMs : Int) (hj : 85 ≤ jitterMs ∧ jitterMs < 115) :
    let p : Policy := { (new base max) with attempts := attempts }
    base ≤ (nextDelay p jitterMs).1 ∧ (nextDelay p jitterMs).1 ≤ max := by
  intro p
  simp only [nextDelay, p, new]
  by_cases hge : (attempts : Int) ≥ calcMaxAttempts base
  · simp only [hge, ↓reduceIte]; exact ⟨h1, Int.le_refl _⟩
  · simp only [hge, ↓reduceIte]
    have hlt := hge
    have hb0 : base ≠ 0 := by omega
    have hbn : ¬ base < 0 := by omega
    simp only [calcMaxAttempts, hb0, hbn, ↓reduceIte] at hlt
    have hlt' : attempts < Nat.log2 base.toNat := by omega
    have hbnat : base.toNat ≠ 0 := by omega
    have hpow := pow_le_of_lt_log2 base.toNat attempts hlt' hbnat
    have hpow' : (2 : Int) ^ attempts * 2 ≤ base := by
      have : ((2 ^ (attempts + 1) : Nat) : Int) ≤ (base.toNat : Int) := by exact_mod_cast hpow
      rw [Int.toNat_of_nonneg (by omega)] at this
      simpa [Nat.pow_succ] using this
    have hp0 : (0 : Int) < 2 ^ attempts := Int.pow_pos (by omega)
    have hexp : wrap (millisecond * 2 ^ attempts) = millisecond * 2 ^ attempts := by
      apply wrap_id <;> unfold millisecond two63 <;> omega
    have hjit : wrap (jitterMs * millisecond) = jitterMs * millisecond := by
      apply wrap_id <;> unfold millisecond two63 <;> omega
    have hsum : wrap (base + millisecond * 2 ^ attempts) = base + millisecond * 2 ^ attempts := by
      apply wrap_id <;> unfold millisecond two63 <;> omega
    have htot : wrap (base + millisecond * 2 ^ attempts + jitterMs * millisecond) =
        base + millisecond * 2 ^ attempts + jitterMs * millisecond := by
      apply wrap_id <;> unfold millisecond two63 <;> omega
    simp only [hexp, hjit, hsum, htot]
    by_cases hcap : base + millisecond * 2 ^ attempts + jitterMs * millisecond > max
    · simp only [hcap, ↓reduceIte]; exact ⟨h1, Int.le_refl _⟩
    · simp only [hcap, ↓reduceIte]
      unfold millisecond at *
      constructor <;> omega

/-- after a success the back-off restarts from the base -/
theorem reset_restarts (p : Policy) : (reset p).attempts = 0 ∧ (reset p).base = p.base ∧ (reset p).max = p.max := ⟨rfl, rfl, rfl⟩

/-- `base ≤ 0` is answered with the maximum (zero) or is outside the property (negative) -/
theorem zero_base_gives_max (max : Int) (attempts : Nat) (j : Int) :
    (nextDelay { (new 0 max) with attempts := attempts } j).1 = max := by
  simp [nextDelay, new, calcMaxAttempts]

/-- the guard is needed: at `base = 2^45` ns (≈ 9.8 h) `time.Millisecond << attempts` overflows
and a *negative* delay comes out (library API only; the binary uses 2 s / 10 min) -/
theorem overflow_witness :
    (nextDelay { (new 35184372088832 9223372036854775807) with attempts := 44 } 100).1 < 0 := by
  decide

/-- non-vacuity: the binary's own configuration, 2 s / 10 min -/
example : (nextDelay (new 2000000000 600000000000) 100).1 = 2101000000 ∧
    (nextDelay { (new 2000000000 600000000000) with attempts := 29 } 100).1 = 600000000000 := by decide

end CqlVerif.C16

namespace CqlVerif.C16
open CqlVerif.Cluster

theorem mem_foldl_erase (r : List Host) : ∀ (l : List Host), l.Nodup → ∀ x,
    (x ∈ r.foldl (fun l h => l.erase h) l ↔ x ∈ l ∧ x ∉ r) ∧ (r.foldl (fun l h => l.erase h) l).Nodup := by
  induction r with
  | nil => intro l hl x; simp [hl]
  | cons a t ih =>
    intro l hl x
    simp only [List.foldl_cons]
    have := ih (l.erase a) (hl.erase a) x
    refine ⟨?_, this.2⟩
    rw [this.1, List.Nodup.mem_erase_iff hl]
    simp only [List.mem_cons, not_or]
    constructor
    · rintro ⟨⟨h1, h2⟩, h3⟩; exact ⟨h2, h1, h3⟩
    · rintro ⟨h2, h1, h3⟩; exact ⟨⟨h1, h2⟩, h3⟩

/-- a view (the load balancer's list, the session's pool keys) that agreed with the cluster's
host list before a refresh agrees with it afterwards: same members, no duplicates -/
theorem applyLB_agrees (view old new : List Host) (hv : view.Nodup) (hn : new.Nodup)
    (hagree : ∀ x, x ∈ view ↔ x ∈ old) :
    (applyLB view (adds old new) (removes old new)).Nodup ∧
    ∀ x, x ∈ applyLB view (adds old new) (removes old new) ↔ x ∈ new := by
  have hnd : (view ++ adds old new).Nodup := by
    rw [List.nodup_append]
    refine ⟨hv, hn.filter _, ?_⟩
    intro a ha b hb e
    subst e
    simp only [adds, List.mem_filter, Bool.not_eq_true', List.contains_eq_mem, decide_eq_false_iff_not] at hb
    exact hb.2 ((hagree a).mp ha)
  have key := fun x => mem_foldl_erase (removes old new) (view ++ adds old new) hnd x
  refine ⟨(key 0).2, ?_⟩
  intro x
  unfold applyLB
  rw [(key x).1]
  simp only [List.mem_append, adds, removes, List.mem_filter, Bool.not_eq_true', List.contains_eq_mem,
    decide_eq_false_iff_not, not_and, Classical.not_not, hagree]
  constructor
  · rintro ⟨h1 | h1, h2⟩
    · exact h2 h1
    · exact h1.1
  · intro hx
    by_cases ho : x ∈ old
    · exact ⟨Or.inl ho, fun _ => hx⟩
    · exact ⟨Or.inr ⟨hx, ho⟩, fun _ => hx⟩

structure Agree (s : St) : Prop where
  lbNodup : s.lb.Nodup
  poolsNodup : s.pools.Nodup
  lb : ∀ x, x ∈ s.lb ↔ x ∈ s.hosts
  pools : ∀ x, x ∈ s.pools ↔ x ∈ s.hosts

/-- **views_agree** — for every history of refreshes (any peers tables, nodes added, removed,
restarted), control-connection losses and fail-overs, the hosts eligible for routing are exactly
the hosts of the last peers table read — in the cluster view, the load balancer and the
session's pools alike. -/
theorem views_agree (s : St) (e : Ev) (h : Agree s)
    (hpeers : ∀ c peers, (e = .refresh c peers ∨ e = .controlRestored c peers) → peers.Nodup) :
    Agree (step s e) := by
  have hm : ∀ (s : St) c peers, Agree s → peers.Nodup → Agree (mergeHosts s c peers) := by
    intro s c peers h hn
    unfold mergeHosts
    split
    · exact ⟨h.lbNodup, h.poolsNodup, h.lb, h.pools⟩
    · have h1 := applyLB_agrees s.lb s.hosts peers h.lbNodup hn h.lb
      have h2 := applyLB_agrees s.pools s.hosts peers h.poolsNodup hn h.pools
      exact ⟨h1.1, h2.1, h1.2, h2.2⟩
  cases e with
  | refresh c peers =>
    simp only [step]
    split
    · exact hm s c peers h (hpeers c peers (Or.inl rfl))
    · exact h
  | controlLost => exact ⟨h.lbNodup, h.poolsNodup, h.lb, h.pools⟩
  | controlRestored c peers =>
    exact hm _ c peers ⟨h.lbNodup, h.poolsNodup, h.lb, h.pools⟩ (hpeers c peers (Or.inr rfl))

/-- after a successful refresh the routing view is the peers table just read -/
theorem refresh_follows_peers (s : St) (c : Host) (peers : List Host) (h : Agree s) (hn : peers.Nodup)
    (hc : peers.contains c = true) (hconn : s.connected = true) :
    ∀ x, x ∈ (step s (.refresh c peers)).lb ↔ x ∈ peers := by
  simp only [step, hconn, ↓reduceIte, mergeHosts, hc, Bool.not_true, Bool.false_eq_true]
  exact (applyLB_agrees s.lb s.hosts peers h.lbNodup hn h.lb).2

/-- **outage_zero_iff_connected** — an outage is reported exactly while no control connection exists -/
theorem outage_iff_not_connected (s : St) (e : Ev) (h : outage s = !s.connected) :
    outage (step s e) = !(step s e).connected := by
  cases e with
  | refresh c peers =>
    simp only [step]
    split
    · rename_i hc
      unfold mergeHosts
      split
      · rfl
      · simpa [outage] using h
    · exact h
  | controlLost => rfl
  | controlRestored c peers =>
    simp only [step, mergeHosts]
    split <;> rfl

/-- non-vacuity -/
example : (step (step { hosts := [0, 1], lb := [0, 1], pools := [0, 1] } (.refresh 0 [0, 1, 2])) (.refresh 0 [0, 2])).lb = [0, 2] := by
  decide

end CqlVerif.C16

/-! (part 3: keeping pooled connections and the control connection alive) -/
namespace CqlVerif.C16
open CqlVerif.Reconnect CqlVerif.Slot

/-- **slot_shape_ok** — the facts read off /repo's current `connPool.stayConnected` and
`Cluster.stayConnected` are the ones Model/Slot.lean models (regenerated on every run) -/
theorem slot_shape_ok : Gen.SlotFacts.facts = SlotShape.expected := by decide +kernel

/-- the loop is looking after its connection: it has one, or a connect timer is armed, or it was told to stop -/
def Tended (s : Slot.St) : Prop := s.done = true ∨ s.connected = true ∨ s.pending = true

/-- the private policy clone keeps the configured delays -/
def Configured (base max : Int) (s : Slot.St) : Prop :=
  s.pol.base = base ∧ s.pol.max = max ∧ s.pol.maxAttempts = calcMaxAttempts base

theorem nextDelay_configured (base max : Int) (p : Policy) (j : Int)
    (h : p.base = base ∧ p.max = max ∧ p.maxAttempts = calcMaxAttempts base) :
    (nextDelay p j).2.base = base ∧ (nextDelay p j).2.max = max ∧ (nextDelay p j).2.maxAttempts = calcMaxAttempts base := by
  unfold nextDelay
  split <;> exact h

theorem settle_tended (j1 j2 : Int) (s : Slot.St) : Tended (settle j1 j2 s) := by
  unfold settle Tended
  by_cases hd : s.done = true
  · simp [hd]
  · by_cases hc : s.connected = true
    · simp [hc]
    · by_cases hp : s.pending = true
      · simp [hp]
      · simp only [Bool.not_eq_true] at hd hc hp
        simp only [hd, hc, hp, Bool.or_self, Bool.false_eq_true, ↓reduceIte]
        split <;> simp

/-- **never_abandoned** — for every history of lost connections, failed and successful connection
attempts and jitters, the loop of a pool slot and the loop of the control connection are, after
every turn, either connected, or waiting for an armed connect timer, or stopped by the proxy's own
shutdown: a lost connection is never left without a reconnect scheduled. -/
theorem never_abandoned (js : Nat → Int × Int) (s0 : Slot.St) (h0 : Tended s0) (i : Nat) (es : List Slot.Ev) :
    Tended (Slot.run js s0 i es) := by
  induction es generalizing s0 i with
  | nil => exact h0
  | cons e es ih => exact ih _ (settle_tended _ _ _) _

theorem poolInit_tended (base max : Int) : Tended (poolInit base max) := Or.inr (Or.inr rfl)
theorem ctlInit_tended (base max : Int) : Tended (ctlInit base max) := Or.inr (Or.inl rfl)

/-- **heals** — whenever the loop is without a connection (and not stopped), the next connection
attempt that succeeds gives it one; and a connection reported closed is replaced by an armed timer
in the same turn -/
theorem heals (j1 j2 : Int) (s : Slot.St) (ht : Tended s) (hd : s.done = false) (hc : s.connected = false) :
    (Slot.step j1 j2 s (.timer true)).connected = true ∧ (Slot.step j1 j2 s (.timer true)).pol.attempts = 0 := by
  have hp : s.pending = true := by
    rcases ht with h | h | h
    · rw [hd] at h; cases h
    · rw [hc] at h; cases h
    · exact h
  simp [Slot.step, react, settle, hd, hc, hp, reset]

theorem loss_rearms (j1 j2 : Int) (s : Slot.St) (hd : s.done = false) (hc : s.connected = true) :
    let t := Slot.step j1 j2 s .closed
    t.connected = false ∧ t.pending = true ∧ t.armed.length = s.armed.length + 1 := by
  simp only [Slot.step, react, hd, hc, Bool.not_true, Bool.or_self, Bool.false_eq_true, ↓reduceIte, settle]
  split <;> simp

/-- **backoff_restarts_after_success** — the delay armed after a connection that had been
re-established is lost again depends only on the configured delays, not on how many attempts the
previous outage took: it is what a fresh policy yields (the pool's loop draws twice). -/
theorem backoff_restarts_after_success (j1 j2 k1 k2 : Int) (s : Slot.St) (ht : Tended s) (hd : s.done = false)
    (hc : s.connected = false) :
    (Slot.step k1 k2 (Slot.step j1 j2 s (.timer true)) .closed).armed =
      s.armed ++ [if s.double then (nextDelay (nextDelay (reset s.pol) k1).2 k2).1 else (nextDelay (reset s.pol) k1).1] := by
  have hp : s.pending = true := by
    rcases ht with h | h | h
    · rw [hd] at h; cases h
    · rw [hc] at h; cases h
    · exact h
  simp only [Slot.step, react, settle, hd, hc, hp, Bool.or_false, Bool.or_true, Bool.not_true, Bool.false_eq_true,
    ↓reduceIte, Bool.or_self]
  cases hdb : s.double <;> simp

theorem step_configured (base max : Int) (j1 j2 : Int) (s : Slot.St) (e : Slot.Ev) (h : Configured base max s) :
    Configured base max (Slot.step j1 j2 s e) := by
  have hr : Configured base max (react s e) := by
    cases e with
    | ctxDone => exact h
    | timer ok =>
      simp only [react]
      split
      · exact h
      · split
        · exact h
        · exact h
    | closed => simp only [react]; split <;> exact h
  unfold Slot.step settle
  generalize react s e = t at hr ⊢
  split
  · exact hr
  · have h1 := nextDelay_configured base max t.pol j1 hr
    split
    · exact nextDelay_configured base max _ j2 h1
    · exact h1

/-- **armed_within_bounds** — every delay a connect timer is ever armed with lies within the
configured `[base, max]` (for the configurations `delay_bounds` covers), whatever the history -/
theorem armed_within_bounds (base max : Int) (h0 : 0 < base) (h1 : base ≤ max) (h2 : base < 17592186044416)
    (hmax : max < two63) (js : Nat → Int × Int)
    (hj : ∀ i, (85 ≤ (js i).1 ∧ (js i).1 < 115) ∧ (85 ≤ (js i).2 ∧ (js i).2 < 115))
    (s0 : Slot.St) (hcfg : Configured base max s0) (harm : ∀ d ∈ s0.armed, base ≤ d ∧ d ≤ max) (i : Nat) (es : List Slot.Ev) :
    ∀ d ∈ (Slot.run js s0 i es).armed, base ≤ d ∧ d ≤ max := by
  have hb : ∀ (p : Policy) (j : Int), (p.base = base ∧ p.max = max ∧ p.maxAttempts = calcMaxAttempts base) →
      (85 ≤ j ∧ j < 115) → base ≤ (nextDelay p j).1 ∧ (nextDelay p j).1 ≤ max := by
    intro p j hp hj
    have := delay_bounds base max h0 h1 h2 hmax p.attempts j hj
    have hpe : p = { (new base max) with attempts := p.attempts } := by
      cases p; simp only [new] at *; obtain ⟨a, b, c⟩ := hp; subst a; subst b; subst c; rfl
    rw [← hpe] at this
    exact this
  induction es generalizing s0 i with
  | nil => exact harm
  | cons e es ih =>
    apply ih _ (step_configured base max _ _ s0 e hcfg)
    have hr : Configured base max (react s0 e) ∧ (react s0 e).armed = s0.armed := by
      cases e with
      | ctxDone => exact ⟨hcfg, rfl⟩
      | timer ok =>
        simp only [react]
        split
        · exact ⟨hcfg, rfl⟩
        · split <;> exact ⟨hcfg, rfl⟩
      | closed => simp only [react]; split <;> exact ⟨hcfg, rfl⟩
    unfold Slot.step settle
    generalize react s0 e = t at hr ⊢
    split
    · rw [hr.2]; exact harm
    · intro d hd
      have hc1 := nextDelay_configured base max t.pol (js i).1 hr.1
      split at hd
      · simp only [List.mem_append, List.mem_singleton] at hd
        rcases hd with hd | rfl
        · rw [hr.2] at hd; exact harm d hd
        · exact hb _ _ hc1 (hj i).2
      · simp only [List.mem_append, List.mem_singleton] at hd
        rcases hd with hd | rfl
        · rw [hr.2] at hd; exact harm d hd
        · exact hb _ _ hr.1 (hj i).1

/-- non-vacuity: a pool slot (1 ms / 3 s): connected, lost, two failed attempts, success, lost again -
the timers were armed with the 2nd, 4th, 6th delay of the sequence and, after the success, the 2nd again -/
example :
    (Slot.run (fun _ => (100, 100)) (poolInit 1000000 3000000000) 0
      [.timer true, .closed, .timer false, .timer false, .timer true, .closed]).armed
      = [103000000, 109000000, 133000000, 103000000] := by decide
/-- … and the control connection's loop steps through every delay -/
example :
    (Slot.run (fun _ => (100, 100)) (ctlInit 1000000 3000000000) 0
      [.closed, .timer false, .timer false, .timer true, .closed]).armed
      = [102000000, 103000000, 105000000, 102000000] := by decide

end CqlVerif.C16
