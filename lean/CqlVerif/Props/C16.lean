import CqlVerif.Model.Reconnect
import CqlVerif.Model.Cluster
/-!
# C16 — The proxy tracks backend topology and heals lost backend connections
(part 1: the reconnection back-off calculator)
-/
namespace CqlVerif.C16
open CqlVerif.Reconnect

theorem wrap_id (x : Int) (h1 : -two63 ≤ x) (h2 : x < two63) : wrap x = x := by
  unfold wrap two64 two63 at *
  omega

theorem pow_le_of_lt_log2 (b : Nat) (k : Nat) (hk : k < Nat.log2 b) (hb : b ≠ 0) : 2 ^ (k + 1) ≤ b := by
  have h1 : 2 ^ (k + 1) ≤ 2 ^ Nat.log2 b := Nat.pow_le_pow_right (by omega) hk
  exact Nat.le_trans h1 (Nat.log2_self_le hb)

/-- **delay_bounds** — for every base/max configuration with `0 < base ≤ max` and `base < 2^44` ns
(≈ 4.9 h), every attempt count and every jitter the library can draw, the delay lies within
`[base, max]`; nothing wraps around. -/
theorem delay_bounds (base max : Int) (h0 : 0 < base) (h1 : base ≤ max) (h2 : base < 17592186044416)
    (hmax : max < two63) (attempts : Nat) (jitterMs : Int) (hj : 85 ≤ jitterMs ∧ jitterMs < 115) :
    let p : Policy := { (new base max) with attempts := attempts }
    base ≤ (nextDelay p jitterMs).1 ∧ (nextDelay p jitterMs).1 ≤ max := by
  intro p
  simp only [nextDelay, p, new]
  by_cases hge : (attempts : Int) ≥ calcMaxAttempts base
  · simp only [hge, ↓reduceIte]; exact ⟨h1, Int.le_refl _⟩
  · simp only [hge, ↓reduceIte]
    have hlt := hge
    have hb0 : base ≠ 0 := by omega
    have hbn : ¬ base < 0 := by omega
    simp only [calcMaxAttempts, hb0, hbn, ↓reduceIte] at hlt
    have hlt' : attempts < Nat.log2 base.toNat := by omega
    have hbnat : base.toNat ≠ 0 := by omega
    have hpow := pow_le_of_lt_log2 base.toNat attempts hlt' hbnat
    have hpow' : (2 : Int) ^ attempts * 2 ≤ base := by
      have : ((2 ^ (attempts + 1) : Nat) : Int) ≤ (base.toNat : Int) := by exact_mod_cast hpow
      rw [Int.toNat_of_nonneg (by omega)] at this
      simpa [Nat.pow_succ] using this
    have hp0 : (0 : Int) < 2 ^ attempts := Int.pow_pos (by omega)
    have hexp : wrap (millisecond * 2 ^ attempts) = millisecond * 2 ^ attempts := by
      apply wrap_id <;> unfold millisecond two63 <;> omega
    have hjit : wrap (jitterMs * millisecond) = jitterMs * millisecond := by
      apply wrap_id <;> unfold millisecond two63 <;> omega
    have hsum : wrap (base + millisecond * 2 ^ attempts) = base + millisecond * 2 ^ attempts := by
      apply wrap_id <;> unfold millisecond two63 <;> omega
    have htot : wrap (base + millisecond * 2 ^ attempts + jitterMs * millisecond) =
        base + millisecond * 2 ^ attempts + jitterMs * millisecond := by
      apply wrap_id <;> unfold millisecond two63 <;> omega
    simp only [hexp, hjit, hsum, htot]
    by_cases hcap : base + millisecond * 2 ^ attempts + jitterMs * millisecond > max
    · simp only [hcap, ↓reduceIte]; exact ⟨h1, Int.le_refl _⟩
    · simp only [hcap, ↓reduceIte]
      unfold millisecond at *
      constructor <;> omega

/-- after a success the back-off restarts from the base -/
theorem reset_restarts (p : Policy) : (reset p).attempts = 0 ∧ (reset p).base = p.base ∧ (reset p).max = p.max := ⟨rfl, rfl, rfl⟩

/-- `base ≤ 0` is answered with the maximum (zero) or is outside the property (negative) -/
theorem zero_base_gives_max (max : Int) (attempts : Nat) (j : Int) :
    (nextDelay { (new 0 max) with attempts := attempts } j).1 = max := by
  simp [nextDelay, new, calcMaxAttempts]

/-- the guard is needed: at `base = 2^45` ns (≈ 9.8 h) `time.Millisecond << attempts` overflows
and a *negative* delay comes out (library API only; the binary uses 2 s / 10 min) -/
theorem overflow_witness :
    (nextDelay { (new 35184372088832 9223372036854775807) with attempts := 44 } 100).1 < 0 := by
  decide

/-- non-vacuity: the binary's own configuration, 2 s / 10 min -/
example : (nextDelay (new 2000000000 600000000000) 100).1 = 2101000000 ∧
    (nextDelay { (new 2000000000 600000000000) with attempts := 29 } 100).1 = 600000000000 := by decide

end CqlVerif.C16

namespace CqlVerif.C16
open CqlVerif.Cluster

theorem mem_foldl_erase (r : List Host) : ∀ (l : List Host), l.Nodup → ∀ x,
    (x ∈ r.foldl (fun l h => l.erase h) l ↔ x ∈ l ∧ x ∉ r) ∧ (r.foldl (fun l h => l.erase h) l).Nodup := by
  induction r with
  | nil => intro l hl x; simp [hl]
  | cons a t ih =>
    intro l hl x
    simp only [List.foldl_cons]
    have := ih (l.erase a) (hl.erase a) x
    refine ⟨?_, this.2⟩
    rw [this.1, List.Nodup.mem_erase_iff hl]
    simp only [List.mem_cons, not_or]
    constructor
    · rintro ⟨⟨h1, h2⟩, h3⟩; exact ⟨h2, h1, h3⟩
    · rintro ⟨h2, h1, h3⟩; exact ⟨⟨h1, h2⟩, h3⟩

/-- a view (the load balancer's list, the session's pool keys) that agreed with the cluster's
host list before a refresh agrees with it afterwards: same members, no duplicates -/
theorem applyLB_agrees (view old new : List Host) (hv : view.Nodup) (hn : new.Nodup)
    (hagree : ∀ x, x ∈ view ↔ x ∈ old) :
    (applyLB view (adds old new) (removes old new)).Nodup ∧
    ∀ x, x ∈ applyLB view (adds old new) (removes old new) ↔ x ∈ new := by
  have hnd : (view ++ adds old new).Nodup := by
    rw [List.nodup_append]
    refine ⟨hv, hn.filter _, ?_⟩
    intro a ha b hb e
    subst e
    simp only [adds, List.mem_filter, Bool.not_eq_true', List.contains_eq_mem, decide_eq_false_iff_not] at hb
    exact hb.2 ((hagree a).mp ha)
  have key := fun x => mem_foldl_erase (removes old new) (view ++ adds old new) hnd x
  refine ⟨(key 0).2, ?_⟩
  intro x
  unfold applyLB
  rw [(key x).1]
  simp only [List.mem_append, adds, removes, List.mem_filter, Bool.not_eq_true', List.contains_eq_mem,
    decide_eq_false_iff_not, not_and, Classical.not_not, hagree]
  constructor
  · rintro ⟨h1 | h1, h2⟩
    · exact h2 h1
    · exact h1.1
  · intro hx
    by_cases ho : x ∈ old
    · exact ⟨Or.inl ho, fun _ => hx⟩
    · exact ⟨Or.inr ⟨hx, ho⟩, fun _ => hx⟩

structure Agree (s : St) : Prop where
  lbNodup : s.lb.Nodup
  poolsNodup : s.pools.Nodup
  lb : ∀ x, x ∈ s.lb ↔ x ∈ s.hosts
  pools : ∀ x, x ∈ s.pools ↔ x ∈ s.hosts

/-- **views_agree** — for every history of refreshes (any peers tables, nodes added, removed,
restarted), control-connection losses and fail-overs, the hosts eligible for routing are exactly
the hosts of the last peers table read — in the cluster view, the load balancer and the
session's pools alike. -/
theorem views_agree (s : St) (e : Ev) (h : Agree s)
    (hpeers : ∀ c peers, (e = .refresh c peers ∨ e = .controlRestored c peers) → peers.Nodup) :
    Agree (step s e) := by
  have hm : ∀ (s : St) c peers, Agree s → peers.Nodup → Agree (mergeHosts s c peers) := by
    intro s c peers h hn
    unfold mergeHosts
    split
    · exact ⟨h.lbNodup, h.poolsNodup, h.lb, h.pools⟩
    · have h1 := applyLB_agrees s.lb s.hosts peers h.lbNodup hn h.lb
      have h2 := applyLB_agrees s.pools s.hosts peers h.poolsNodup hn h.pools
      exact ⟨h1.1, h2.1, h1.2, h2.2⟩
  cases e with
  | refresh c peers =>
    simp only [step]
    split
    · exact hm s c peers h (hpeers c peers (Or.inl rfl))
    · exact h
  | controlLost => exact ⟨h.lbNodup, h.poolsNodup, h.lb, h.pools⟩
  | controlRestored c peers =>
    exact hm _ c peers ⟨h.lbNodup, h.poolsNodup, h.lb, h.pools⟩ (hpeers c peers (Or.inr rfl))

/-- after a successful refresh the routing view is the peers table just read -/
theorem refresh_follows_peers (s : St) (c : Host) (peers : List Host) (h : Agree s) (hn : peers.Nodup)
    (hc : peers.contains c = true) (hconn : s.connected = true) :
    ∀ x, x ∈ (step s (.refresh c peers)).lb ↔ x ∈ peers := by
  simp only [step, hconn, ↓reduceIte, mergeHosts, hc, Bool.not_true, Bool.false_eq_true]
  exact (applyLB_agrees s.lb s.hosts peers h.lbNodup hn h.lb).2

/-- **outage_zero_iff_connected** — an outage is reported exactly while no control connection exists -/
theorem outage_iff_not_connected (s : St) (e : Ev) (h : outage s = !s.connected) :
    outage (step s e) = !(step s e).connected := by
  cases e with
  | refresh c peers =>
    simp only [step]
    split
    · rename_i hc
      unfold mergeHosts
      split
      · rfl
      · simpa [outage] using h
    · exact h
  | controlLost => rfl
  | controlRestored c peers =>
    simp only [step, mergeHosts]
    split <;> rfl

/-- non-vacuity -/
example : (step (step { hosts := [0, 1], lb := [0, 1], pools := [0, 1] } (.refresh 0 [0, 1, 2])) (.refresh 0 [0, 2])).lb = [0, 2] := by
  decide

end CqlVerif.C16
