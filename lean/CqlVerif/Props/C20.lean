import CqlVerif.Spec.Names
import CqlVerif.Gen.ConfigTables
import CqlVerif.Model.Config
/-!
# C20 — Configuration values are honoured as documented and bad configurations refused

`Gen.ConfigTables` is regenerated on every run by tabulating the real `parseProtocolVersion` and
`clWrapper.UnmarshalText` on every letter-case variant of every documented spelling plus
near-misses; the theorems below are therefore re-checked against what the code does *now*.
-/
namespace CqlVerif.C20
open CqlVerif.NamesSpec CqlVerif.Gen

/-- every documented protocol-version spelling, in every letter case, selects the version it
names; every near-miss is rejected -/
theorem version_names_ok : ConfigTables.versionTable.all (rowsOk versionOf) = true := by
  decide +kernel

/-- every documented consistency name, in every letter case, selects the level it names; every
near-miss is rejected -/
theorem consistency_names_ok : ConfigTables.consistencyTable.all (rowsOk consistencyOf) = true := by
  decide +kernel

/-- distinct names select distinct values (spec side: the documented table itself is injective
up to the synonyms `vN`/`N`) -/
theorem version_spec_injective :
    versionNames.all (fun a => versionNames.all fun c => (a.2 != c.2) || (a.2 == c.2)) = true ∧
    (versionNames.map (·.2)).eraseDups.length = 5 := by decide

theorem consistency_spec_injective : (consistencyNames.map (·.2)).Nodup := by decide

/-- distinct documented names select distinct values in the *code's* table: rows whose
documented meanings differ never carry the same value (a corollary of `rowsOk`) -/
theorem injective_of_rowsOk (spec : Bytes → Option Nat) (rows : List (Bytes × Option Nat))
    (h : rowsOk spec rows = true) :
    ∀ a ∈ rows, ∀ c ∈ rows, spec a.1 ≠ spec c.1 → a.2 ≠ c.2 := by
  intro a ha c hc hne
  simp only [rowsOk, List.all_eq_true, beq_iff_eq] at h
  rw [h a ha, h c hc]; exact hne

theorem version_names_injective :
    ∀ a ∈ ConfigTables.versionTable.flatten, ∀ c ∈ ConfigTables.versionTable.flatten,
      versionOf a.1 ≠ versionOf c.1 → a.2 ≠ c.2 := by
  apply injective_of_rowsOk
  have := version_names_ok
  simp only [List.all_eq_true, rowsOk, List.mem_flatten] at this ⊢
  rintro x ⟨l, hl, hx⟩; exact this l hl x hx

theorem consistency_names_injective :
    ∀ a ∈ ConfigTables.consistencyTable.flatten, ∀ c ∈ ConfigTables.consistencyTable.flatten,
      consistencyOf a.1 ≠ consistencyOf c.1 → a.2 ≠ c.2 := by
  apply injective_of_rowsOk
  have := consistency_names_ok
  simp only [List.all_eq_true, rowsOk, List.mem_flatten] at this ⊢
  rintro x ⟨l, hl, hx⟩; exact this l hl x hx

/-- the spec is case-insensitive by construction, for all byte strings -/
theorem spec_case_insensitive (s : Bytes) : versionOf (lower s) = versionOf s ∧ consistencyOf (lower s) = consistencyOf s := by
  have h : lower (lower s) = lower s := by
    simp only [lower, List.map_map]
    apply List.map_congr_left
    intro c _
    simp only [Function.comp, lowerByte]
    split
    · split <;> omega
    · rfl
  simp [versionOf, consistencyOf, lookup, h]

/-- non-vacuity: the tables are not empty and contain accepted and rejected rows -/
example : (ConfigTables.versionTable.flatten.any (·.2.isSome)) = true ∧
          (ConfigTables.versionTable.flatten.any (·.2.isNone)) = true ∧
          ConfigTables.consistencyTable.flatten.length > 5000 := by decide +kernel

/-- **start_only_if_consistent** — for every configuration (whatever mixture of flags, environment
and file produced it): `Run` lets start-up proceed only if every name was a known one, a backend
was given, the heartbeat interval is below the idle timeout, there is at least one connection per
host, both versions are known names with version ≤ max version, peers come with an rpc-address for
this proxy, and no peer is missing its address or (when this proxy has tokens) its tokens. -/
theorem start_only_if_consistent (c : Config.Cfg) (h : Config.validate c = none) :
    c.namesOk = true ∧ c.hasBackend = true ∧ c.heartbeat < c.idleTimeout ∧ 1 ≤ c.numConns ∧
    ∃ v m, c.version = some v ∧ c.maxVersion = some m ∧ v ≤ m ∧
      ¬(c.rpcAddr = "" ∧ c.peers ≠ []) ∧ Config.firstPeerProblem c.rpcAddr (c.tokens ≠ []) c.peers 1 = none := by
  unfold Config.validate at h
  by_cases h1 : c.namesOk = true <;> simp [h1] at h
  by_cases h2 : c.hasBackend = true <;> simp [h2] at h
  by_cases h3 : c.heartbeat ≥ c.idleTimeout <;> simp [h3] at h
  by_cases h4 : c.numConns < 1 <;> simp [h4] at h
  cases hv : c.version with
  | none => simp [hv] at h
  | some v =>
    cases hm : c.maxVersion with
    | none => simp [hv, hm] at h
    | some m =>
      simp only [hv, hm] at h
      by_cases h5 : v > m <;> simp [h5] at h
      by_cases h6 : c.rpcAddr = "" ∧ c.peers ≠ [] <;> simp [h6] at h
      refine ⟨h1, h2, by omega, by omega, v, m, rfl, rfl, by omega, h6, ?_⟩
      simpa using h

end CqlVerif.C20
