import CqlVerif.Lemmas.Codec
/-!
# C11 — Partial QUERY/EXECUTE/BATCH codecs agree with the reference protocol codecs

A *valid* body is what the reference encoder writes: the head fields the proxy looks at, in the
reference layout, followed by whatever the reference writes after the consistency level
(`params`, opaque here) — i.e. `encodeX p` for a partial message `p` with in-range sizes. The
differential `codec` stream checks on every run that the reference encoder's bodies are of that
form (same fields extracted by the real partial codec and by the reference decoder).
-/
namespace CqlVerif.C11
open CqlVerif.Wire CqlVerif.PartialCodec

theorem decodeQuery_of (bs q r r' : Bytes) (c : Nat) (h1 : readLongString bs = some (q, r)) (h2 : readShort r = some (c, r')) :
    decodeQuery bs = some ⟨q, c, r'⟩ := by
  unfold decodeQuery; rw [h1]; dsimp only; rw [h2]

/-- **agree_query** — partial decoding of a valid QUERY body succeeds and returns exactly the
query string, consistency and remaining bytes that were written; hence re-encoding gives the
body back. For all query strings (any length below 2^31), consistencies and parameter bytes. -/
theorem agree_query (p : PQuery) (hq : p.query.length < 2147483648) (hc : p.consistency < 65536) :
    decodeQuery (encodeQuery p) = some p := by
  unfold encodeQuery
  apply decodeQuery_of _ _ (writeShort p.consistency ++ p.params)
  · rw [List.append_assoc]; exact write_readLongString _ _ hq
  · exact write_readShort _ _ hc

theorem reencode_query (p : PQuery) (hq : p.query.length < 2147483648) (hc : p.consistency < 65536) :
    (decodeQuery (encodeQuery p)).map encodeQuery = some (encodeQuery p) := by
  rw [agree_query p hq hc]; rfl

theorem decodeExecute_of_plain (bs id r r' : Bytes) (c : Nat) (h1 : readShortBytes bs = some (id, r)) (hid : id ≠ [])
    (h2 : readShort r = some (c, r')) : decodeExecute false bs = some { id, consistency := c, params := r' } := by
  unfold decodeExecute; rw [h1]; simp only [hid, ↓reduceIte, Bool.false_eq_true]; rw [h2]

theorem decodeExecute_of_rmid (bs id r rm r' r'' : Bytes) (c : Nat) (h1 : readShortBytes bs = some (id, r)) (hid : id ≠ [])
    (h2 : readShortBytes r = some (rm, r')) (hrm : rm ≠ []) (h3 : readShort r' = some (c, r'')) :
    decodeExecute true bs = some { id, resultMetadataId := rm, consistency := c, params := r'' } := by
  unfold decodeExecute; rw [h1]; simp only [hid, ↓reduceIte]; rw [h2]; simp only [hrm, ↓reduceIte]; rw [h3]

/-- **agree_execute** — for versions with and without a result-metadata id -/
theorem agree_execute (rmid : Bool) (p : PExecute) (hid : p.id ≠ []) (hil : p.id.length < 65536)
    (hrm : if rmid then p.resultMetadataId ≠ [] ∧ p.resultMetadataId.length < 65536 else p.resultMetadataId = [])
    (hc : p.consistency < 65536) :
    decodeExecute rmid (encodeExecute rmid p) = some p := by
  cases rmid
  · simp only [Bool.false_eq_true, ↓reduceIte] at hrm
    have : encodeExecute false p = writeShortBytes p.id ++ (writeShort p.consistency ++ p.params) := by
      simp [encodeExecute]
    rw [this, decodeExecute_of_plain _ p.id _ p.params p.consistency (write_readShortBytes _ _ hil) hid (write_readShort _ _ hc)]
    cases p; simp_all
  · simp only [↓reduceIte] at hrm
    have : encodeExecute true p = writeShortBytes p.id ++ (writeShortBytes p.resultMetadataId ++ (writeShort p.consistency ++ p.params)) := by
      simp [encodeExecute]
    rw [this, decodeExecute_of_rmid _ p.id _ p.resultMetadataId _ p.params p.consistency (write_readShortBytes _ _ hil) hid
      (write_readShortBytes _ _ hrm.2) hrm.1 (write_readShort _ _ hc)]

/-- **reencode_execute (every body)** — whatever bytes arrive: if the partial decoder accepts an
EXECUTE body, re-encoding the decoded message reproduces the body exactly -/
theorem reencode_execute (rmid : Bool) (bs : Bytes) (p : PExecute) (hb : IsBytes bs)
    (h : decodeExecute rmid bs = some p) : encodeExecute rmid p = bs := by
  unfold decodeExecute at h
  split at h
  · cases h
  · rename_i id r hid
    have h1 := readShortBytes_write bs id r hid hb
    have hbr : IsBytes r := by
      intro b hbm; apply hb; rw [← h1]; exact List.mem_append_right _ hbm
    split at h
    · cases h
    · cases rmid
      · simp only [Bool.false_eq_true, ↓reduceIte] at h
        split at h
        · cases h
        · rename_i c r' hc
          have h2 := readShort_write r c r' hc hbr
          simp only [Option.some.injEq] at h
          subst h
          simp only [encodeExecute, Bool.false_eq_true, ↓reduceIte, List.append_nil]
          simp only [List.append_assoc]
          rw [h2, h1]
      · simp only [↓reduceIte] at h
        split at h
        · cases h
        · rename_i rm r' hrm
          have h2 := readShortBytes_write r rm r' hrm hbr
          have hbr' : IsBytes r' := by
            intro b hbm; apply hbr; rw [← h2]; exact List.mem_append_right _ hbm
          split at h
          · cases h
          · split at h
            · cases h
            · rename_i c r'' hc
              have h3 := readShort_write r' c r'' hc hbr'
              simp only [Option.some.injEq] at h
              subst h
              simp only [encodeExecute, ↓reduceIte]
              simp only [List.append_assoc]
              rw [h3, h2, h1]

/-- a value list the skipper consumes exactly -/
def ValuesOK (v : Bytes) : Prop := ∀ rest, skipPositionalValues (v ++ rest) = some (v, rest)

def ChildOK : Child → Prop
  | .query q v => q.length < 2147483648 ∧ ValuesOK v
  | .prepared id v => id.length < 65536 ∧ ValuesOK v

theorem decodeChild_query_of (bs r q r1 v r2 : Bytes) (h0 : readByte bs = some (0, r)) (h1 : readLongString r = some (q, r1))
    (h2 : skipPositionalValues r1 = some (v, r2)) : decodeChild bs = some (.query q v, r2) := by
  unfold decodeChild; rw [h0]; simp only [↓reduceIte]; rw [h1]; dsimp only; rw [h2]

theorem decodeChild_prepared_of (bs r id r1 v r2 : Bytes) (h0 : readByte bs = some (1, r)) (h1 : readShortBytes r = some (id, r1))
    (h2 : skipPositionalValues r1 = some (v, r2)) : decodeChild bs = some (.prepared id v, r2) := by
  unfold decodeChild; rw [h0]; simp only [show ((1 : Nat) = 0) = False by simp, ↓reduceIte]; rw [h1]; dsimp only; rw [h2]

theorem decode_encode_child (c : Child) (r : Bytes) (h : ChildOK c) : decodeChild (encodeChild c ++ r) = some (c, r) := by
  cases c with
  | query q v =>
    simp only [ChildOK] at h
    apply decodeChild_query_of _ (writeLongString q ++ (v ++ r)) q (v ++ r) v r
    · simp [encodeChild, readByte]
    · exact write_readLongString _ _ h.1
    · exact h.2 r
  | prepared id v =>
    simp only [ChildOK] at h
    apply decodeChild_prepared_of _ (writeShortBytes id ++ (v ++ r)) id (v ++ r) v r
    · simp [encodeChild, readByte]
    · exact write_readShortBytes _ _ h.1
    · exact h.2 r

theorem decodeChildren_cons (n : Nat) (bs : Bytes) (c : Child) (r : Bytes) (cs : List Child) (r' : Bytes)
    (h1 : decodeChild bs = some (c, r)) (h2 : decodeChildren n r = some (cs, r')) :
    decodeChildren (n + 1) bs = some (c :: cs, r') := by
  simp only [decodeChildren]; rw [h1]; dsimp only; rw [h2]

theorem decode_encode_children (cs : List Child) (r : Bytes) (h : ∀ c ∈ cs, ChildOK c) :
    decodeChildren cs.length ((cs.map encodeChild).flatten ++ r) = some (cs, r) := by
  induction cs with
  | nil => simp [decodeChildren]
  | cons c t ih =>
    simp only [List.length_cons, List.map_cons, List.flatten_cons, List.append_assoc]
    exact decodeChildren_cons _ _ c _ t r (decode_encode_child c _ (h c (by simp)))
      (ih (fun c' hc' => h c' (List.mem_cons_of_mem _ hc')))

theorem decodeBatch_of (bs r r1 r2 r3 : Bytes) (t n c : Nat) (cs : List Child) (h0 : readByte bs = some (t, r)) (ht : t ≤ 2)
    (h1 : readShort r = some (n, r1)) (h2 : decodeChildren n r1 = some (cs, r2)) (h3 : readShort r2 = some (c, r3)) :
    decodeBatch bs = some { type := t, children := cs, consistency := c, params := r3 } := by
  unfold decodeBatch; rw [h0]
  have : ¬ t > 2 := by omega
  simp only [this, ↓reduceIte]; rw [h1]; dsimp only; rw [h2]; dsimp only; rw [h3]

/-- **agree_batch** — any number of children (< 2^16), string and prepared children with any
positional values, every batch type -/
theorem agree_batch (p : PBatch) (ht : p.type ≤ 2) (hn : p.children.length < 65536)
    (hch : ∀ c ∈ p.children, ChildOK c) (hc : p.consistency < 65536) :
    decodeBatch (encodeBatch p) = some p := by
  have he : encodeBatch p = p.type :: (writeShort p.children.length ++ ((p.children.map encodeChild).flatten ++ (writeShort p.consistency ++ p.params))) := by
    simp [encodeBatch]
  rw [he]
  exact decodeBatch_of _ _ _ _ p.params p.type p.children.length p.consistency p.children rfl ht
    (write_readShort _ _ hn) (decode_encode_children _ _ hch) (write_readShort _ _ hc)

/-- **decode_total** — the decoders are total functions of the byte string: every input yields a
message or an error, never a crash, and nothing is read beyond the bytes given (the model reads
from a finite list). -/
theorem decode_total (bs : Bytes) (rmid : Bool) :
    (∃ r, decodeQuery bs = r) ∧ (∃ r, decodeExecute rmid bs = r) ∧ (∃ r, decodeBatch bs = r) := ⟨⟨_, rfl⟩, ⟨_, rfl⟩, ⟨_, rfl⟩⟩

/-- truncated bodies are rejected: an empty body is an error for all three -/
example : decodeQuery [] = none ∧ decodeExecute true [] = none ∧ decodeBatch [] = none := by decide

/-- non-vacuity: a v4 EXECUTE `id=ab, consistency QUORUM, flags 0` and a two-child batch -/
example : decodeExecute false [0, 1, 0xab, 0, 4, 0] = some { id := [0xab], consistency := 4, params := [0] } ∧
    (decodeBatch [1, 0, 2, 0, 0, 0, 0, 1, 0x41, 0, 0, 1, 0, 2, 7, 8, 0, 1, 0, 0, 0, 1, 9, 0, 6, 0]).map (·.children.length) = some 2 := by
  decide

end CqlVerif.C11
