import CqlVerif.Model.Frame
import CqlVerif.Lemmas.Codec
/-!
# C03 — Forwarded requests and responses are byte-transparent except for stream ids
-/
namespace CqlVerif.C03
open CqlVerif.Wire CqlVerif.Frame

/-- **header_roundtrip** — for every nine header bytes (every version byte, direction, flag
combination, stream, opcode, declared length) re-encoding the decoded header gives the bytes back -/
theorem header_roundtrip (bs : Bytes) (h : Header) (r : Bytes) (hb : IsBytes bs)
    (hd : decodeHeader bs = some (h, r)) : encodeHeader h ++ r = bs := by
  match bs, hd with
  | v :: f :: s1 :: s2 :: o :: l1 :: l2 :: l3 :: l4 :: r', hd =>
    simp only [decodeHeader, Option.some.injEq, Prod.mk.injEq] at hd
    obtain ⟨rfl, rfl⟩ := hd
    have b1 : s1 < 256 := hb s1 (by simp)
    have b2 : s2 < 256 := hb s2 (by simp)
    have c1 : l1 < 256 := hb l1 (by simp)
    have c2 : l2 < 256 := hb l2 (by simp)
    have c3 : l3 < 256 := hb l3 (by simp)
    have c4 : l4 < 256 := hb l4 (by simp)
    simp only [encodeHeader, writeShort, writeInt, List.cons_append, List.nil_append, List.cons.injEq, true_and, and_true]
    refine ⟨?_, ?_, ?_, ?_, ?_, ?_⟩ <;> omega

/-- **forward_transparent** / **restore_transparent** — for every raw frame (any version byte,
flags incl. tracing / custom payload / warnings / compression, opcode, body of any length and
content) and every stream id: what is written is the frame received with only the two stream
bytes replaced. -/
theorem forward_transparent (bs : Bytes) (h : Header) (body rest : Bytes) (stream : Nat) (hb : IsBytes bs)
    (hd : decodeRaw bs = some (h, body, rest)) (hr : rest = []) :
    transparent bs (restream h body stream) stream := by
  unfold decodeRaw at hd
  split at hd
  · cases hd
  · rename_i h' r hh
    split at hd
    · cases hd
    · rename_i body' rest' ht
      simp only [Option.some.injEq, Prod.mk.injEq] at hd
      obtain ⟨rfl, rfl, rfl⟩ := hd
      have hsp := takeN_spec _ _ _ _ ht
      subst hr
      have hbody : body' = r := by simpa using hsp.1
      match bs, hh, hb with
      | v :: f :: s1 :: s2 :: o :: l1 :: l2 :: l3 :: l4 :: r', hh, hb =>
        simp only [decodeHeader, Option.some.injEq, Prod.mk.injEq] at hh
        obtain ⟨rfl, rfl⟩ := hh
        have c1 : l1 < 256 := hb l1 (by simp)
        have c2 : l2 < 256 := hb l2 (by simp)
        have c3 : l3 < 256 := hb l3 (by simp)
        have c4 : l4 < 256 := hb l4 (by simp)
        have hlen : writeInt (l1 * 16777216 + l2 * 65536 + l3 * 256 + l4) = [l1, l2, l3, l4] := by
          simp only [writeInt, List.cons.injEq, and_true]
          refine ⟨?_, ?_, ?_, ?_⟩ <;> omega
        simp only [transparent, restream, encodeHeader, hlen, hbody, List.cons_append, List.nil_append,
          List.take_succ_cons, List.take_zero, List.drop_succ_cons, List.drop_zero, List.append_assoc]

/-- the declared length is never touched by forwarding -/
theorem forward_length (h : Header) (body : Bytes) (stream : Nat) :
    (decodeHeader (restream h body stream)).map (·.1.length) = (decodeHeader (encodeHeader h ++ body)).map (·.1.length) := by
  simp [restream, encodeHeader, decodeHeader, writeShort, writeInt]

/-- non-vacuity: a v4 QUERY frame with the tracing flag, stream 0x1234 forwarded on stream 7 -/
example : restream { vbyte := 4, flags := 2, stream := 0x1234, opcode := 7, length := 3 } [1, 2, 3] 7 =
    [4, 2, 0, 7, 7, 0, 0, 0, 3, 1, 2, 3] := by decide

end CqlVerif.C03
