import CqlVerif.Model.Keyspace
/-!
# C07 — Requests run in the client's current keyspace, protocol version and compression
-/
namespace CqlVerif.C07
open CqlVerif.Keyspace

/-- every cached session was created with exactly its key: its connections are in the keyspace the
key's text denotes, and that keyspace exists -/
def SessInv (missing : String → Bool) (s : St) : Prop :=
  ∀ sess ∈ s.sessions, sess.connKeyspace = (if sess.key.keyspace = "" then "" else canon sess.key.keyspace) ∧
    (sess.key.keyspace ≠ "" → missing (canon sess.key.keyspace) = false)

/-- every client's current keyspace exists on the backend (only successful USEs change it) -/
def ClientInv (missing : String → Bool) (s : St) : Prop :=
  ∀ c ∈ s.clients, c.keyspace ≠ "" → missing (canon c.keyspace) = false

theorem getSession_spec (missing : String → Bool) (s : St) (k : Key) (h : SessInv missing s) :
    SessInv missing (getSession missing s k).2 ∧ (getSession missing s k).2.clients = s.clients ∧
    (∀ sess, (getSession missing s k).1 = some sess →
        sess.key = k ∧ sess.connKeyspace = (if k.keyspace = "" then "" else canon k.keyspace)) ∧
    ((getSession missing s k).1 = none → k.keyspace ≠ "" ∧ missing (canon k.keyspace) = true) := by
  unfold getSession
  split
  · rename_i sess hf
    have hm := List.mem_of_find?_eq_some hf
    have hk : sess.key = k := by simpa using List.find?_some hf
    refine ⟨h, rfl, ?_, by simp⟩
    intro sess' e; cases e
    exact ⟨hk, by rw [← hk]; exact (h sess hm).1⟩
  · split
    · rename_i hc
      exact ⟨h, rfl, by simp, fun _ => hc⟩
    · rename_i hc
      refine ⟨?_, rfl, ?_, by simp⟩
      · intro sess hs
        rcases List.mem_cons.mp hs with rfl | hs
        · refine ⟨rfl, ?_⟩
          intro hne
          simp only [ne_eq, not_and, Bool.not_eq_true] at hc
          exact hc hne
        · exact h sess hs
      · intro sess e; cases e; exact ⟨rfl, rfl⟩

/-- **forward_uses_current** — whatever happened before (any interleaving of USEs and requests of
any clients): a forwarded request of client `i` runs on a backend connection whose keyspace is what
the client's current keyspace text denotes, speaking the client's version and compression. -/
theorem forward_uses_current (missing : String → Bool) (s : St) (i : Nat) (c : Client)
    (hs : SessInv missing s) (hc : ClientInv missing s) (hi : s.clients[i]? = some c) :
    (forward missing s i).1 =
      some (.forwarded (if c.keyspace = "" then "" else canon c.keyspace) c.version c.compression) := by
  unfold forward
  simp only [hi]
  have h := getSession_spec missing s ⟨c.version, c.keyspace, c.compression⟩ hs
  generalize getSession missing s ⟨c.version, c.keyspace, c.compression⟩ = r at h
  obtain ⟨o, s'⟩ := r
  cases o with
  | none =>
    have := h.2.2.2 rfl
    have hm : c ∈ s.clients := List.mem_of_getElem? hi
    have := hc c hm this.1
    simp_all
  | some sess =>
    have := h.2.2.1 sess rfl
    simp [this.1, this.2]

theorem getSession_clients (missing : String → Bool) (s : St) (k : Key) : (getSession missing s k).2.clients = s.clients := by
  unfold getSession
  split
  · rfl
  · split <;> rfl

/-- **use_failure_frame** — a failed USE changes nothing for the client (nor for anybody else) -/
theorem use_failure_frame (missing : String → Bool) (s : St) (i : Nat) (raw : String)
    (h : (useKs missing s i raw).1 = some .backendError) : (useKs missing s i raw).2.clients = s.clients := by
  unfold useKs at h ⊢
  split
  · rfl
  · rename_i c hc
    simp only [hc] at h
    have hcl := getSession_clients missing s ⟨c.version, raw, c.compression⟩
    generalize getSession missing s ⟨c.version, raw, c.compression⟩ = r at h hcl ⊢
    obtain ⟨o, s'⟩ := r
    cases o with
    | none => exact hcl
    | some sess => simp at h

/-- **use_reply_id** / **client_frame** — a successful USE names the keyspace as the backend
would, changes only this client's keyspace, and nobody else's state -/
theorem use_success (missing : String → Bool) (s : St) (i : Nat) (raw : String) (name : String)
    (h : (useKs missing s i raw).1 = some (.setKeyspace name)) :
    name = canon raw ∧ ∀ j, j ≠ i → (useKs missing s i raw).2.clients[j]? = s.clients[j]? := by
  unfold useKs at h ⊢
  split
  · rename_i hn; simp [hn] at h
  · rename_i c hc
    simp only [hc] at h
    have hcl := getSession_clients missing s ⟨c.version, raw, c.compression⟩
    generalize getSession missing s ⟨c.version, raw, c.compression⟩ = r at h hcl ⊢
    obtain ⟨o, s'⟩ := r
    cases o with
    | none => simp at h
    | some sess =>
      simp only [Option.some.injEq, Reply.setKeyspace.injEq] at h
      refine ⟨h.symm, ?_⟩
      intro j hj
      simp only [setClient]
      simp only at hcl
      rw [hcl, List.getElem?_set_ne (Ne.symm hj)]

/-- non-vacuity: quoted names keep their case and unescape doubled quotes, unquoted ones fold -/
example : canonChars ['"', 'M', 'i', ' ', 'X', '"'] = ['M', 'i', ' ', 'X'] ∧ canonChars ['A', 'p', 'P'] = ['a', 'p', 'p'] ∧
    canonChars ['"', 'w', '"', '"', 'e', '"'] = ['w', '"', 'e'] := by decide

end CqlVerif.C07
