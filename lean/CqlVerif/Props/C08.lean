import CqlVerif.Model.Prepared
import CqlVerif.Lemmas.Retry
/-!
# C08 — Prepared statements execute on every backend host without client involvement
-/
namespace CqlVerif.C08
open CqlVerif.Prepared

/-- **unprepared_recovered** — for every plan and every backend/proxy state (hosts that never saw
the PREPARE, restarted hosts, hosts added later, failing or dropped re-prepares): while the
statement is in the proxy's cache the client never sees UNPREPARED. -/
theorem unprepared_recovered (s : PState) (k : Stmt) (pl : List Host) (hc : s.cache k = true) :
    (execPlan s k pl).1 ≠ .unprepared := by
  induction pl generalizing s with
  | nil => simp [execPlan]
  | cons h rest ih =>
    unfold execPlan
    split
    · exact ih s hc
    · split
      · simp
      · simp only [hc, Bool.not_true, Bool.false_eq_true, ↓reduceIte]
        split
        · simp
        · exact ih _ hc
        · exact ih _ hc
        · split
          · simp
          · exact ih _ hc

/-- the cache is never emptied by the recovery itself -/
theorem execPlan_cache (s : PState) (k : Stmt) (pl : List Host) : (execPlan s k pl).2.1.cache = s.cache := by
  induction pl generalizing s with
  | nil => rfl
  | cons h rest ih =>
    unfold execPlan
    split
    · exact ih s
    · split
      · rfl
      · split
        · rfl
        · split
          · rfl
          · rw [ih]
          · rw [ih]
          · split
            · rfl
            · rw [ih]

/-- **cache_filled** — a successfully answered PREPARE has put the statement into the cache, on
whichever host it ended up -/
theorem cache_filled (s : PState) (k : Stmt) (pl : List Host) (h : (prepPlan s k pl).1 = .prepared) :
    (prepPlan s k pl).2.cache k = true := by
  induction pl generalizing s with
  | nil => simp [prepPlan] at h
  | cons a rest ih =>
    unfold prepPlan at h ⊢
    split
    · rename_i hd; simp only [hd, ↓reduceIte] at h; exact ih s h
    · rename_i hd
      simp only [hd, Bool.false_eq_true, ↓reduceIte] at h
      split
      · simp
      · rename_i hf; simp only [hf] at h; exact ih _ h
      · rename_i hf; simp only [hf] at h; cases h
      · rename_i hf; simp only [hf] at h; exact ih _ h

theorem execPlan_not_prepared (s : PState) (k : Stmt) (pl : List Host) : (execPlan s k pl).1 ≠ .prepared := by
  induction pl generalizing s with
  | nil => simp [execPlan]
  | cons h rest ih =>
    unfold execPlan
    split
    · exact ih s
    · split
      · simp
      · split
        · simp
        · split
          · simp
          · exact ih _
          · exact ih _
          · split
            · simp
            · exact ih _

theorem execPlan_not_err (s : PState) (k : Stmt) (pl : List Host) : (execPlan s k pl).1 ≠ .err := by
  induction pl generalizing s with
  | nil => simp [execPlan]
  | cons h rest ih =>
    unfold execPlan
    split
    · exact ih s
    · split
      · simp
      · split
        · simp
        · split
          · simp
          · exact ih _
          · exact ih _
          · split
            · simp
            · exact ih _

/-- **reprepare_failure_next_host** — the request is always answered: success, or "no more hosts"
once every host was tried; a failed re-prepare moves on instead of hanging -/
theorem execute_answered (s : PState) (k : Stmt) (pl : List Host) (hc : s.cache k = true) :
    (execPlan s k pl).1 = .ok ∨ (execPlan s k pl).1 = .proxyerr := by
  have h1 := unprepared_recovered s k pl hc
  have h2 := execPlan_not_prepared s k pl
  have h3 := execPlan_not_err s k pl
  generalize (execPlan s k pl).1 = r at h1 h2 h3
  cases r <;> simp_all

/-- a host that holds the statement, or on which the re-prepare succeeds, answers the request:
if some live host of the plan has no scripted PREPARE failure the client gets a result -/
theorem execute_succeeds (s : PState) (k : Stmt) (pl : List Host) (hc : s.cache k = true) (hk : idem k = true)
    (hgood : ∃ h ∈ pl, s.down h = false ∧ s.failNext h = none) : (execPlan s k pl).1 = .ok := by
  induction pl generalizing s with
  | nil => obtain ⟨h, hm, _⟩ := hgood; cases hm
  | cons a rest ih =>
    unfold execPlan
    split
    · rename_i hd
      apply ih s hc
      obtain ⟨h, hm, h1, h2⟩ := hgood
      rcases List.mem_cons.mp hm with rfl | hm'
      · simp [hd] at h1
      · exact ⟨h, hm', h1, h2⟩
    · split
      · rfl
      · simp only [hc, Bool.not_true, Bool.false_eq_true, ↓reduceIte]
        split
        · rfl
        · rename_i hf
          show (execPlan { s with failNext := fun h' => if h' = a then none else s.failNext h' } k rest).1 = .ok
          apply ih { s with failNext := fun h' => if h' = a then none else s.failNext h' } hc
          obtain ⟨h, hm, h1, h2⟩ := hgood
          rcases List.mem_cons.mp hm with rfl | hm'
          · simp [hf] at h2
          · refine ⟨h, hm', h1, ?_⟩
            simp only; split <;> simp_all
        · rename_i hf
          show (execPlan { s with failNext := fun h' => if h' = a then none else s.failNext h' } k rest).1 = .ok
          apply ih { s with failNext := fun h' => if h' = a then none else s.failNext h' } hc
          obtain ⟨h, hm, h1, h2⟩ := hgood
          rcases List.mem_cons.mp hm with rfl | hm'
          · simp [hf] at h2
          · refine ⟨h, hm', h1, ?_⟩
            simp only; split <;> simp_all
        · rename_i hf
          simp only [hk, Bool.not_true, Bool.false_eq_true, ↓reduceIte]
          show (execPlan { s with failNext := (fun h' => if h' = a then none else s.failNext h'),
                                  down := fun h' => h' = a ∨ s.down h' } k rest).1 = .ok
          apply ih { s with failNext := (fun h' => if h' = a then none else s.failNext h'),
                            down := fun h' => h' = a ∨ s.down h' } hc
          obtain ⟨h, hm, h1, h2⟩ := hgood
          rcases List.mem_cons.mp hm with rfl | hm'
          · simp [hf] at h2
          · have hne : h ≠ a := by intro e; subst e; simp [hf] at h2
            refine ⟨h, hm', ?_, ?_⟩
            · simp [hne, h1]
            · simp [hne, h2]

/-- **reprepare_error_moves_on** — when the re-PREPARE on the first live host of the plan is
answered with an error (retryable or not), the request - idempotent or not: it has not run
anywhere - continues with the rest of the plan; the PREPARE's error is not what the client gets -/
theorem reprepare_error_moves_on (s : PState) (k : Stmt) (h : Host) (rest : List Host) (f : Fail)
    (hd : s.down h = false) (hh : s.has h k = false) (hc : s.cache k = true) (hf : s.failNext h = some f) (hne : f ≠ .drop) :
    (execPlan s k (h :: rest)).1 = (execPlan { s with failNext := fun h' => if h' = h then none else s.failNext h' } k rest).1 := by
  cases f with
  | err => simp [execPlan, hd, hh, hc, hf]
  | inv => simp [execPlan, hd, hh, hc, hf]
  | drop => exact absurd rfl hne

/-- non-vacuity: three hosts, the statement cached, the first host's re-prepare refused as INVALID:
the second host answers -/
example : (execPlan { (init 3) with cache := fun _ => true, failNext := fun h => if h = 0 then some .inv else none } 3 [0, 1, 2]).1 = .ok := by
  decide

end CqlVerif.C08
