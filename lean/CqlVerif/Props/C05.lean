import CqlVerif.Lemmas.Retry
/-!
# C05 — Retries follow the documented policy, terminate, and fail over to healthy hosts

Model: `Model/Retry.lean` (`go`/`run`), whose decisions are the *generated* `Gen.RetryPolicy`
functions (translated from proxy/retrypolicy.go on every run). Tie: the `retry` stream drives the
real proxy end-to-end against scripted backends and compares attempts and reply with `run`.
-/
namespace CqlVerif.C05
open CqlVerif.Retry CqlVerif.RetrySpec CqlVerif.Gen.RetryPolicy

/-- the generated policy is the documented one — for every retry count and every field value -/
theorem policy_closed_form (idem : Bool) (rc : Nat) (o : Outcome) :
    Retry.decide idem rc o = docDecision idem rc o := decide_eq_doc idem rc o

theorem onReadTimeout_iff (received blockFor : Int) (dataPresent : Bool) (rc : Nat) :
    onReadTimeout received blockFor dataPresent rc = .retrySame ↔ rc = 0 ∧ received ≥ blockFor ∧ dataPresent = false := by
  have := decide_eq_doc true rc (.readTimeout received blockFor dataPresent)
  simp only [Retry.decide, docDecision] at this
  rw [this]; split <;> simp_all

theorem onWriteTimeout_iff (writeType : String) (rc : Nat) :
    onWriteTimeout writeType rc = .retrySame ↔ rc = 0 ∧ writeType = "WriteTypeBatchLog" := by
  have := decide_eq_doc true rc (.writeTimeout writeType)
  simp only [Retry.decide, docDecision, ↓reduceIte, true_and] at this
  rw [this]; split <;> simp_all

theorem onUnavailable_iff (rc : Nat) : onUnavailable rc = .retryNext ↔ rc = 0 := by
  have := decide_eq_doc true rc .unavailable
  simp only [Retry.decide, docDecision] at this
  rw [this]; split <;> simp_all

theorem onErrorResponse_iff (code : String) (rc : Nat) :
    onErrorResponse code rc = .retryNext ↔ code ≠ "ErrorCodeReadFailure" ∧ code ≠ "ErrorCodeWriteFailure" := by
  have := decide_eq_doc true rc (.errResp code)
  simp only [Retry.decide, docDecision, ↓reduceIte, true_and] at this
  rw [this]; split <;> simp_all

/-- **attempts_bounded** — for every outcome script, plan, idempotency class and every way hosts
go down between attempts: the number of attempts is at most the number of hosts plus one, plus
one per re-execution after a successful re-prepare (which the code does not count as a retry). -/
theorem attempts_bounded (down : Nat → Host → Bool) (idem : Bool) (plan : List Host) (script : List Outcome) :
    (run down idem plan script).attempts.length ≤ plan.length + 1 + countReprepOk script := by
  have := go_attempts_bounded down script .next { plan := plan, idem := idem }
  simpa [run] using this

/-- the bound the property states, for scripts without UNPREPARED -/
theorem attempts_bounded_plain (down : Nat → Host → Bool) (idem : Bool) (plan : List Host) (script : List Outcome)
    (h : countReprepOk script = 0) :
    (run down idem plan script).attempts.length ≤ plan.length + 1 := by
  have := attempts_bounded down idem plan script; omega

/-- **failover_success** — an idempotent request succeeds whenever a host of its plan answers
successfully after any number of next-host-class failures (connection loss, bootstrapping,
server/overloaded/truncate errors, failed re-prepare), hosts that are down being skipped. -/
theorem failover_success (down : Host → Bool) (plan : List Host) (pre rest : List Outcome)
    (hpre : ∀ o ∈ pre, nextHostClass o = true) (hup : pre.length < upCount down plan) :
    (run (fun _ => down) true plan (pre ++ .success :: rest)).reply = some (.result pre.length) := by
  have := go_failover_success down pre rest { plan := plan, idem := true } rfl rfl hpre hup
  simpa [run] using this.1

/-- **terminates** — a request cannot stay unanswered: for every way hosts go down between
attempts, once `plan + 1` outcomes (+ one per re-execution after a re-prepare) have arrived, none
of them "silent", the request is done. (Before the repair recorded in known_findings.json the
same-host resend looped forever when its Send failed; the model then had a `diverged` state.) -/
theorem terminates (down : Nat → Host → Bool) (idem : Bool) (plan : List Host) (script : List Outcome)
    (hns : noSilent script = true) (hlen : plan.length + 1 + countReprepOk script ≤ script.length) :
    (run down idem plan script).done = true := by
  apply go_terminates down script .next _ hns
  simpa using hlen

/-- the once-failing schedule: read timeout retried on the same host while that host has been
removed in between — the request now moves on to the next host and is answered -/
theorem samehost_removed_moves_on :
    let r := run (fun n h => n = 1 ∧ h = 0) true [0, 1] [.readTimeout 2 2 false, .success]
    r.attempts = [0, 1] ∧ r.reply = some (.result 1) := by
  simp [run, go, pick, pickNext, skipDown, react, Retry.decide, onReadTimeout]

/-- non-vacuity: three hosts, the middle one down, overloaded then connection loss then success -/
example : (run (fun _ h => h = 1) true [0, 1, 2, 3] [.errResp "ErrorCodeOverloaded", .connLost, .success]).attempts = [0, 2, 3] := by
  simp [run, go, pick, pickNext, skipDown, react, Retry.decide, onErrorResponse]

end CqlVerif.C05
