import CqlVerif.Lemmas.Parser
import CqlVerif.Lemmas.ParserSound
import CqlVerif.Model.Lexer
import CqlVerif.Lemmas.Grammar
import CqlVerif.Lemmas.GrammarStmt
import CqlVerif.Lemmas.GrammarUpdate
import CqlVerif.Lemmas.GrammarBatch
import CqlVerif.Lemmas.GrammarPlain
import CqlVerif.Lemmas.GrammarPlainStmt
import CqlVerif.Lemmas.GrammarWhere
import CqlVerif.Lemmas.GrammarPlainUpdate
/-!
# C06 — The idempotency classifier is sound, case/whitespace-stable and total

Model: `Gen/LexTables.lean` (the scanner of parser/lexer.go, regenerated on every run) run by
`Model/Lexer.lean`, and `Model/Parser.lean` (the classifier over an abstract token stream).
The theorems below hold for *every* token stream (`L : Lexer` is universally quantified) — i.e.
for arbitrary input bytes — and for every amount of fuel.
-/
namespace CqlVerif.C06
open CqlVerif.Parser CqlVerif.Gen.Lex

/-- **unparseable_false** — whatever the input: if the classifier reports an error (or the model
runs out of fuel) the verdict is "not idempotent". -/
theorem unparseable_false (L : Lexer) (fuel : Nat) (h : (classify L fuel).err = true) :
    (classify L fuel).idem = false := (classify_wf L fuel).h h

/-- **total** — classification is a total function of the input: `classify` is defined by
structural recursion on fuel and returns a verdict for every token stream (no crash, no hang). -/
theorem total (L : Lexer) (fuel : Nat) : ∃ r : R, classify L fuel = r := ⟨_, rfl⟩

/-- a SELECT is idempotent, DDL and USE are not — whatever follows the first token -/
theorem select_idempotent (L : Lexer) (fuel : Nat) (h : (L 0).kind = tkSelect) : (classify L fuel).idem = true := by
  simp [classify, nextT, h]

theorem ddl_use_not_idempotent (L : Lexer) (fuel : Nat)
    (h : (L 0).kind = tkUse ∨ (L 0).kind = tkCreate ∨ (L 0).kind = tkAlter ∨ (L 0).kind = tkDrop) :
    (classify L fuel).idem = false := by
  rcases h with h | h | h | h <;> simp [classify, nextT, h] <;> decide

/-- a counter batch is never idempotent -/
theorem counter_batch_not_idempotent (L : Lexer) (fuel : Nat) (s : LS)
    (h : isUnreservedKeyword (nextT L s).2 (nextT L s).1 "counter" = true)
    (hu : isUnreservedKeyword (nextT L s).2 (nextT L s).1 "unlogged" = false) :
    (batchStmt L fuel s).1.idem = false := by
  simp [batchStmt, h, hu]

/-- a lightweight-transaction `IF` after the mutation's body always yields "not idempotent" -/
theorem if_clause_not_idempotent (L : Lexer) (fuel : Nat) (s : LS) (t : Nat) (h : t = tkIf) :
    (scanForIf L (fuel + 1) s t).1.idem = false := by
  subst h
  have hne : ¬(((((tkIf = tkEOF ∨ tkIf = tkEOS) ∨ tkIf = tkInsert) ∨ tkIf = tkUpdate) ∨ tkIf = tkDelete) ∨ tkIf = tkApply) := by decide
  simp [scanForIf, isDMLTerminator, hne]

/-- the system's non-deterministic functions are recognised in any letter case, unqualified or
qualified by `system` (quoted or not); a user keyspace's function of the same name is not -/
example : isNonIdempotentFunc { text := [78, 111, 87] } = true ∧ isNonIdempotentFunc { text := [117, 117, 105, 100], ignoreCase := false } = true ∧
    isNonIdempotentFunc { text := [110, 111, 119, 120] } = false := by decide

/-- **no_verdict_dropped** — for every token stream (i.e. every input) and every amount of fuel: if
the classifier answers "idempotent", then no function term it parsed anywhere in the statement —
VALUES, list / set / map / UDT / tuple literals at any depth (map keys *and* values), casts,
function arguments, WHERE relations, IN lists, SET operations, DELETE selectors, and every child of
a batch — was a call of the system's `now()` / `uuid()`.  (`sawNonIdem` is a ghost flag of the model
that `termFunc` raises on such a call and nothing reads; `classifyS` is `classify` with the final
scanner state exposed, `classifyS_fst`.) -/
theorem no_verdict_dropped (L : Lexer) (fuel : Nat) (h : (classify L fuel).idem = true) :
    (classifyS L fuel).2.sawNonIdem = false := classify_sound_flag L fuel h

/-- a token stream given explicitly (kind, identifier text) -/
def lexerOfTokens (ts : List (Nat × List Nat)) : Lexer := fun p =>
  match ts[p]? with
  | some (k, txt) => { kind := k, stop := p + 1, id := { text := txt } }
  | none => { kind := tkEOF, stop := p, id := {} }

/-- non-vacuity: `INSERT INTO t (a) VALUES (1, {'k': NoW()})` raises the flag and is classified
"not idempotent"; the same statement with `f()` is idempotent and leaves the flag down -/
example :
    let stmt (fn : List Nat) : List (Nat × List Nat) :=
      [(tkInsert, []), (tkInto, []), (tkIdentifier, [116]), (tkLparen, []), (tkIdentifier, [97]), (tkRparen, []),
       (tkIdentifier, [118, 97, 108, 117, 101, 115]), (tkLparen, []), (tkInteger, []), (tkComma, []), (tkLcurly, []),
       (tkStringLiteral, []), (tkColon, []), (tkIdentifier, fn), (tkLparen, []), (tkRparen, []), (tkRcurly, []), (tkRparen, [])]
    (classifyS (lexerOfTokens (stmt [78, 111, 87])) 60).2.sawNonIdem = true ∧ (classify (lexerOfTokens (stmt [78, 111, 87])) 60).idem = false ∧
    (classifyS (lexerOfTokens (stmt [102])) 60).2.sawNonIdem = false ∧ (classify (lexerOfTokens (stmt [102])) 60).idem = true := by
  decide +kernel

/-! ### the grammar side (`Model/CqlAst.lean`): terms as syntax trees -/
open CqlVerif.Ast in
/-- **term_grammar_sound** — for every term of the CQL term grammar (literals, bind markers, list / set / map /
UDT / tuple literals nested to any depth, type casts with parameterised type names, function calls - qualified or
not - whose arguments are terms or column names), rendered as tokens in *any* context (`rest` is arbitrary, and so
is everything the lexer yields before position `p`), with any amount of fuel: if `parseTerm`, entered as the code
enters it (first token consumed), does not answer "not idempotent", then it has read exactly the term's tokens -
what follows is `rest` - and the term contains **no** call of `now()` / `uuid()` (unqualified or in keyspace
`system`, in any letter case) at any depth.  Together with `no_verdict_dropped` (which is about what the parser
*parsed*), this is the statement about what was *written*: the look-ahead / rewind paths (`{ f(…`, `{ ks.f(…`,
`{ field : …`, `( type ) …` versus `( f(…), …`, `f(col, …)`) cannot make a non-deterministic call disappear. -/
theorem term_grammar_sound (t : Term) (L : Lexer) (fuel : Nat) (s : LS) (p : Nat) (rest : List Tok)
    (hA : At L p (t.render rest)) (hF : Fed s p t.head)
    (hi : (parseTerm L fuel s t.head.kind).1.idem = true) :
    t.nonIdem = false ∧ At L (parseTerm L fuel s t.head.kind).2.2.p rest :=
  (term_sound t L fuel s p rest hA hF hi).symm

open CqlVerif.Ast in
/-- the same for the concrete lexer that yields a given token list: whatever precedes and follows the term -/
theorem term_grammar_sound_tokens (t : Term) (pre post : List Tok) (fuel : Nat) (s : LS) (hF : Fed s pre.length t.head)
    (hi : (parseTerm (lexOf (pre ++ t.render post)) fuel s t.head.kind).1.idem = true) : t.nonIdem = false :=
  (term_sound t _ fuel s pre.length post (At_lexOf pre (t.render post)) hF hi).2

open CqlVerif.Ast in
/-- non-vacuity: `[1, {f : (frozen<a, b>) ks.g(c, ?)}, {system.NoW(): :x}]` is a term of the grammar whose rendering
the parser rejects as not idempotent, and with `h()` in place of `system.NoW()` the hypotheses of the theorem are
met: the verdict is "idempotent" -/
example :
    let tm (ks : Option Ident) (fn : List Nat) : Term :=
      .list (.cons .int (.cons (.udt (.cons { text := [102] } (.cast { text := [102, 114] } [{ text := [97] }, { text := [98] }]
        (.call (some { text := [107, 115] }) { text := [103] } (.col { text := [99] } (.term .bindQ .nil)))) .nil))
        (.cons (.map (.cons (.call ks { text := fn } .nil) (.bindNamed { text := [120] }) .nil)) .nil)))
    let s0 : LS := { p := 1 }
    (tm (some { text := [115, 121, 115, 116, 101, 109] }) [78, 111, 87]).nonIdem = true ∧
    (parseTerm (lexOf ((tm (some { text := [115, 121, 115, 116, 101, 109] }) [78, 111, 87]).render [])) 40 s0 tkLsquare).1.idem = false ∧
    (tm none [104]).nonIdem = false ∧
    (parseTerm (lexOf ((tm none [104]).render [])) 40 s0 tkLsquare).1.idem = true := by
  decide +kernel

open CqlVerif.Ast in
/-- **insert_grammar_sound** — a whole statement: for every `INSERT INTO [ks.]table (columns) VALUES (terms) <tail>`
(any table and keyspace names - `json`, `values` included -, any number of columns, VALUES in any letter case, any
terms of the grammar above, and any tokens whatever behind the closing parenthesis: IF NOT EXISTS, USING …, `;`,
garbage), scanned into tokens from the start of the input, and every amount of fuel: if the classifier's verdict is
"idempotent" then none of the inserted values contains a call of `now()` / `uuid()` at any depth. -/
theorem insert_grammar_sound (i : Insert) (hkw : i.valuesKw.equal "values" = true) (L : Lexer) (fuel : Nat)
    (hA : At L 0 i.render) (hi : (classify L fuel).idem = true) : i.vals.nonIdem = false :=
  insert_sound i hkw L fuel hA hi

open CqlVerif.Ast in
/-- the same for the lexer that yields exactly the statement's tokens and end of input behind them -/
theorem insert_grammar_sound_tokens (i : Insert) (hkw : i.valuesKw.equal "values" = true) (fuel : Nat)
    (hi : (classify (lexOf i.render) fuel).idem = true) : i.vals.nonIdem = false :=
  insert_sound i hkw _ fuel (by simpa using At_lexOf [] i.render) hi

open CqlVerif.Ast in
/-- non-vacuity: `INSERT INTO ks.json (a, b) VaLuEs (?, [1, f(x)])` meets the hypotheses (the verdict is "idempotent"),
and with `uuid()` for `f(x)` the verdict is "not idempotent" -/
example :
    let ins (fn : List Nat) (args : Args) : Insert :=
      { ks := some { text := [107, 115] }, table := { text := [106, 115, 111, 110] }, cols := [{ text := [97] }, { text := [98] }],
        valuesKw := { text := [86, 97, 76, 117, 69, 115] },
        vals := .cons .bindQ (.cons (.list (.cons .int (.cons (.call none { text := fn } args) .nil))) .nil), tail := [] }
    (ins [102] (.col { text := [120] } .nil)).valuesKw.equal "values" = true ∧
    (classify (lexOf (ins [102] (.col { text := [120] } .nil)).render) 60).idem = true ∧
    (ins [117, 117, 105, 100] .nil).vals.nonIdem = true ∧
    (classify (lexOf (ins [117, 117, 105, 100] .nil).render) 60).idem = false := by
  decide +kernel

open CqlVerif.Ast in
/-- **update_grammar_sound** — for every `UPDATE [ks.]table SET c₁ = term₁, …, cₙ = termₙ <tail>` (any names, SET in
any letter case, any number of assignments, any terms of the grammar, and any tail - WHERE …, IF …, `;`, end of
input, garbage - that does not begin with `+`, which would make the last assignment a list prepend), scanned from
the start of the input, with any fuel: if the verdict is "idempotent" then no assigned value contains a call of
`now()` / `uuid()` at any depth.  The look-ahead for `column = column ± term` and the one for `term + column`
(mark, two tokens, rewind) cannot make such a call disappear. -/
theorem update_grammar_sound (u : Update) (hkw : u.setKw.equal "set" = true) (b0 : Tok) (r0 : List Tok)
    (htail : u.tail = b0 :: r0) (hb0 : b0.kind ≠ tkAdd) (L : Lexer) (fuel : Nat)
    (hA : At L 0 u.render) (hi : (classify L fuel).idem = true) : u.ops.nonIdem = false :=
  update_sound u hkw b0 r0 htail hb0 L fuel hA hi

open CqlVerif.Ast in
/-- non-vacuity: `UPDATE ks.t SeT a = {1, f(x)}, b = :v WHERE k = 1 <end>` meets the hypotheses (verdict "idempotent");
with `now()` for `f(x)` the verdict is "not idempotent" -/
example :
    let upd (fn : List Nat) (args : Args) : Update :=
      { ks := some { text := [107, 115] }, table := { text := [116] }, setKw := { text := [83, 101, 84] },
        ops := .cons { text := [97] } (.set (.cons .int (.cons (.call none { text := fn } args) .nil)))
                (.cons { text := [98] } (.bindNamed { text := [118] }) .nil),
        tail := [k tkWhere, idt { text := [107] }, k tkEqual, k tkInteger, k tkEOF] }
    (upd [102] (.col { text := [120] } .nil)).setKw.equal "set" = true ∧
    (classify (lexOf (upd [102] (.col { text := [120] } .nil)).render) 80).idem = true ∧
    (upd [110, 111, 119] .nil).ops.nonIdem = true ∧
    (classify (lexOf (upd [110, 111, 119] .nil).render) 80).idem = false := by
  decide +kernel

open CqlVerif.Ast in
/-- **batch_grammar_sound** — every child of a batch: for every `BEGIN BATCH insert [;] insert [;] … APPLY BATCH <anything>`
with any number of INSERT children (each as in `insert_grammar_sound`, followed by any tokens that end no statement -
IF NOT EXISTS, USING … - and optionally a `;`), scanned from the start of the input, with any fuel: if the verdict is
"idempotent" then no child inserts a value that contains a call of `now()` / `uuid()` at any depth.  (A child behind
an `IF` is answered "not idempotent" by the scan that `scanForIf_run` follows; the hand-over from one child to the
next - the token that ended the scan is the next child's first token, unless it was the `;` - is part of the proof.) -/
theorem batch_grammar_sound (children : List (Insert × Bool)) (rest : List Tok)
    (hall : ∀ c ∈ children, c.1.valuesKw.equal "values" = true ∧ ∀ x ∈ c.1.tail, isDMLTerminator x.kind = false)
    (L : Lexer) (fuel : Nat) (hA : At L 0 (renderBatch children rest)) (hi : (classify L fuel).idem = true) :
    childrenNonIdem children = false :=
  batch_sound children rest hall L fuel hA hi

open CqlVerif.Ast in
/-- non-vacuity: `BEGIN BATCH INSERT INTO t (a) VALUES (1) USING TTL 5; INSERT INTO ks.t (a) values (f()) APPLY BATCH`
meets the hypotheses (verdict "idempotent"); with `uuid()` for `f()` in the second child the verdict is "not idempotent" -/
example :
    let child (ks : Option Ident) (kw : List Nat) (v : Term) (tail : List Tok) : Insert :=
      { ks, table := { text := [116] }, cols := [{ text := [97] }], valuesKw := { text := kw }, vals := .cons v .nil, tail }
    let batch (fn : List Nat) : List (Insert × Bool) :=
      [(child none [86, 65, 76, 85, 69, 83] .int [k tkUsing, idt { text := [116, 116, 108] }, k tkInteger], true),
       (child (some { text := [107, 115] }) [118, 97, 108, 117, 101, 115] (.call none { text := fn } .nil) [], false)]
    (∀ c ∈ batch [102], c.1.valuesKw.equal "values" = true ∧ ∀ x ∈ c.1.tail, isDMLTerminator x.kind = false) ∧
    (classify (lexOf (renderBatch (batch [102]) [])) 120).idem = true ∧
    childrenNonIdem (batch [117, 117, 105, 100]) = true ∧
    (classify (lexOf (renderBatch (batch [117, 117, 105, 100]) [])) 120).idem = false := by
  decide +kernel

open CqlVerif.Ast in
/-- **plain_term_accepted** — the other direction, for the values the property calls plain: every term built only
from literals, bind markers (`?`, `:name`) and list / set / map / tuple literals of such terms, nested to any depth
and rendered in any token context, is read to its last token and answered "idempotent" without an error, as soon as
the fuel covers the term's size (the code itself has no fuel: its loops end with the input). -/
theorem plain_term_accepted (t : Term) (hp : t.plain = true) (L : Lexer) (fuel : Nat) (s : LS) (p : Nat) (rest : List Tok)
    (hf : t.size ≤ fuel) (hA : At L p (t.render rest)) (hF : Fed s p t.head) :
    (parseTerm L fuel s t.head.kind).1 = { idem := true } ∧ At L (parseTerm L fuel s t.head.kind).2.2.p rest :=
  term_complete t hp L fuel s p rest hf hA hF

open CqlVerif.Ast in
/-- non-vacuity: `{1: [?, :x], 'a': ({}, 2)}` is plain, of size 25 -/
example :
    let t : Term := .map (.cons .int (.list (.cons .bindQ (.cons (.bindNamed { text := [120] }) .nil)))
      (.cons (.prim .str) (.tuple (.cons (.set .nil) (.cons .int .nil))) .nil))
    t.plain = true ∧ t.size = 25 ∧ (parseTerm (lexOf (t.render [])) 25 { p := 1 } tkLcurly).1 = { idem := true } := by
  decide +kernel

open CqlVerif.Ast in
/-- **plain_insert_accepted** — a plain mutation is reported idempotent: every `INSERT INTO [ks.]table (columns) VALUES
(plain terms)` with or without a trailing `;` - any names, any number of columns and values, VALUES in any letter
case - scanned from the start of the input up to its end, is classified "idempotent" with no error, as soon as the
fuel covers its size. -/
theorem plain_insert_accepted (i : Insert) (semi : Bool) (hkw : i.valuesKw.equal "values" = true) (hpl : i.vals.plain = true)
    (htail : i.tail = endToks semi) (L : Lexer) (fuel : Nat) (hf : i.cols.length + i.vals.size + 2 ≤ fuel)
    (hA : At L 0 i.render) : classify L fuel = { idem := true } :=
  plain_insert i semi hkw hpl htail L fuel hf hA

open CqlVerif.Ast in
/-- non-vacuity: `INSERT INTO ks.values (a, b) VALUES (?, {1, 'x'});` meets the hypotheses with fuel 14 -/
example :
    let i : Insert :=
      { ks := some { text := [107, 115] }, table := { text := [118, 97, 108, 117, 101, 115] },
        cols := [{ text := [97] }, { text := [98] }], valuesKw := { text := [86, 65, 76, 85, 69, 83] },
        vals := .cons .bindQ (.cons (.set (.cons .int (.cons (.prim .str) .nil))) .nil), tail := endToks true }
    i.valuesKw.equal "values" = true ∧ i.vals.plain = true ∧ i.cols.length + i.vals.size + 2 ≤ 14 ∧
    classify (lexOf i.render) 14 = { idem := true } := by
  decide +kernel

open CqlVerif.Ast in
/-- **insert_if_not_idempotent** — a conditional insert is never reported idempotent: for every
`INSERT … VALUES (…) <tokens that end no statement> IF <anything>` (IF NOT EXISTS, with or without USING … before
it), whatever the inserted values, scanned from the start of the input, with any fuel: the verdict is "not
idempotent". -/
theorem insert_if_not_idempotent (i : Insert) (pre post : List Tok) (hkw : i.valuesKw.equal "values" = true)
    (hpre : ∀ x ∈ pre, isDMLTerminator x.kind = false) (htail : i.tail = pre ++ k tkIf :: post)
    (L : Lexer) (fuel : Nat) (hA : At L 0 i.render) : (classify L fuel).idem = false :=
  insert_if i pre post hkw hpre htail L fuel hA

open CqlVerif.Ast in
/-- **counter_update_not_idempotent** — counter updates and the ambiguous `column = column ± bind-marker` form: every
`UPDATE [ks.]table SET c = c2 + n` / `c = c2 - n` / `c = c2 + ?` / `c = c2 - ?` followed by anything at all, for any
names, scanned from the start of the input, with any fuel, is answered "not idempotent". -/
theorem counter_update_not_idempotent (ks : Option Ident) (table kw c c2 : Ident) (op : Nat) (arg : Tok) (rest : List Tok)
    (hkw : kw.equal "set" = true) (hop : op = tkAdd ∨ op = tkSub) (harg : arg.kind = tkInteger ∨ arg.kind = tkQMark)
    (L : Lexer) (fuel : Nat)
    (hA : At L 0 (k tkUpdate :: renderName ks table (idt kw :: idt c :: k tkEqual :: idt c2 :: k op :: arg :: rest))) :
    (classify L fuel).idem = false :=
  counter_update ks table kw c c2 op arg rest hkw hop harg L fuel hA

open CqlVerif.Ast in
/-- **update_where_grammar_sound** — the WHERE clause too: for every `UPDATE [ks.]table SET c = term, … WHERE rel AND rel
… <tail>` with at least one assignment, relations of the forms `column <op> term` (`= < <= > >= !=`) and `column IN
(terms)`, any terms of the grammar and any tail, scanned from the start of the input, with any fuel: if the verdict
is "idempotent" then neither an assigned value nor a term of the WHERE clause contains a call of `now()` / `uuid()`
at any depth. -/
theorem update_where_grammar_sound (u : UpdateW) (c : Ident) (t : Term) (as : Assigns) (hops : u.ops = .cons c t as)
    (hkw : u.setKw.equal "set" = true) (hwf : ∀ r ∈ u.rels, r.wf) (L : Lexer) (fuel : Nat)
    (hA : At L 0 u.render) (hi : (classify L fuel).idem = true) :
    u.ops.nonIdem = false ∧ relsNonIdem u.rels = false :=
  updateW_sound u c t as hops hkw hwf L fuel hA hi

open CqlVerif.Ast in
/-- non-vacuity: `UPDATE t SET v = ? WHERE k = 1 AND j IN (2, f(x)) <end>` meets the hypotheses (verdict "idempotent");
with `now()` for `f(x)` in the IN list the verdict is "not idempotent" -/
example :
    let upd (fn : List Nat) (args : Args) : UpdateW :=
      { ks := none, table := { text := [116] }, setKw := { text := [115, 101, 116] },
        ops := .cons { text := [118] } .bindQ .nil,
        rels := [.cmp { text := [107] } tkEqual .int,
                 .inList { text := [106] } (.cons .int (.cons (.call none { text := fn } args) .nil))],
        tail := [k tkEOF] }
    (upd [102] (.col { text := [120] } .nil)).setKw.equal "set" = true ∧
    (classify (lexOf (upd [102] (.col { text := [120] } .nil)).render) 80).idem = true ∧
    relsNonIdem (upd [110, 111, 119] .nil).rels = true ∧
    (classify (lexOf (upd [110, 111, 119] .nil).render) 80).idem = false := by
  decide +kernel

open CqlVerif.Ast in
/-- **delete_where_grammar_sound** — for every `DELETE FROM [ks.]table WHERE rel AND rel … <tail>` (relations as in
`update_where_grammar_sound`), scanned from the start of the input, with any fuel: if the verdict is "idempotent" no
term of the WHERE clause contains a call of `now()` / `uuid()` at any depth. -/
theorem delete_where_grammar_sound (d : DeleteW) (hwf : ∀ r ∈ d.rels, r.wf) (L : Lexer) (fuel : Nat)
    (hA : At L 0 d.render) (hi : (classify L fuel).idem = true) : relsNonIdem d.rels = false :=
  deleteW_sound d hwf L fuel hA hi

open CqlVerif.Ast in
/-- non-vacuity: `DELETE FROM ks.t WHERE k >= [1, ?] <end>` meets the hypotheses; with `uuid()` in the list it is "not idempotent" -/
example :
    let del (x : Term) : DeleteW :=
      { ks := some { text := [107, 115] }, table := { text := [116] },
        rels := [.cmp { text := [107] } tkGtEqual (.list (.cons .int (.cons x .nil)))], tail := [k tkEOF] }
    (classify (lexOf (del .bindQ).render) 60).idem = true ∧
    relsNonIdem (del (.call none { text := [117, 117, 105, 100] } .nil)).rels = true ∧
    (classify (lexOf (del (.call none { text := [117, 117, 105, 100] } .nil)).render) 60).idem = false := by
  decide +kernel

open CqlVerif.Ast in
/-- **plain_update_accepted** — every `UPDATE [ks.]table SET c = plain term, … [;]` (at least one assignment, any names,
SET in any letter case), scanned from the start of the input up to its end, is classified "idempotent" with no
error, as soon as the fuel covers its size. -/
theorem plain_update_accepted (u : Update) (c : Ident) (t : Term) (as : Assigns) (semi : Bool) (hops : u.ops = .cons c t as)
    (hkw : u.setKw.equal "set" = true) (hpl : u.ops.plain = true) (htail : u.tail = endToks semi)
    (L : Lexer) (fuel : Nat) (hf : 1 + u.ops.size ≤ fuel) (hA : At L 0 u.render) : classify L fuel = { idem := true } :=
  plain_update u c t as semi hops hkw hpl htail L fuel hf hA

open CqlVerif.Ast in
/-- non-vacuity: `UPDATE t SET a = [1, ?], b = {'x': :v}` meets the hypotheses with fuel 17 -/
example :
    let u : Update :=
      { ks := none, table := { text := [116] }, setKw := { text := [83, 69, 84] },
        ops := .cons { text := [97] } (.list (.cons .int (.cons .bindQ .nil)))
                 (.cons { text := [98] } (.map (.cons (.prim .str) (.bindNamed { text := [118] }) .nil)) .nil),
        tail := endToks false }
    u.setKw.equal "set" = true ∧ u.ops.plain = true ∧ 1 + u.ops.size ≤ 17 ∧ classify (lexOf u.render) 17 = { idem := true } := by
  decide +kernel

end CqlVerif.C06
