import CqlVerif.Lemmas.Parser
import CqlVerif.Model.Lexer
/-!
# C06 — The idempotency classifier is sound, case/whitespace-stable and total

Model: `Gen/LexTables.lean` (the scanner of parser/lexer.go, regenerated on every run) run by
`Model/Lexer.lean`, and `Model/Parser.lean` (the classifier over an abstract token stream).
The theorems below hold for *every* token stream (`L : Lexer` is universally quantified) — i.e.
for arbitrary input bytes — and for every amount of fuel.
-/
namespace CqlVerif.C06
open CqlVerif.Parser CqlVerif.Gen.Lex

/-- **unparseable_false** — whatever the input: if the classifier reports an error (or the model
runs out of fuel) the verdict is "not idempotent". -/
theorem unparseable_false (L : Lexer) (fuel : Nat) (h : (classify L fuel).err = true) :
    (classify L fuel).idem = false := (classify_wf L fuel).h h

/-- **total** — classification is a total function of the input: `classify` is defined by
structural recursion on fuel and returns a verdict for every token stream (no crash, no hang). -/
theorem total (L : Lexer) (fuel : Nat) : ∃ r : R, classify L fuel = r := ⟨_, rfl⟩

/-- a SELECT is idempotent, DDL and USE are not — whatever follows the first token -/
theorem select_idempotent (L : Lexer) (fuel : Nat) (h : (L 0).kind = tkSelect) : (classify L fuel).idem = true := by
  simp [classify, nextT, h]

theorem ddl_use_not_idempotent (L : Lexer) (fuel : Nat)
    (h : (L 0).kind = tkUse ∨ (L 0).kind = tkCreate ∨ (L 0).kind = tkAlter ∨ (L 0).kind = tkDrop) :
    (classify L fuel).idem = false := by
  rcases h with h | h | h | h <;> simp [classify, nextT, h] <;> decide

/-- a counter batch is never idempotent -/
theorem counter_batch_not_idempotent (L : Lexer) (fuel : Nat) (s : LS)
    (h : isUnreservedKeyword (nextT L s).2 (nextT L s).1 "counter" = true)
    (hu : isUnreservedKeyword (nextT L s).2 (nextT L s).1 "unlogged" = false) :
    (batchStmt L fuel s).1.idem = false := by
  simp [batchStmt, h, hu]

/-- a lightweight-transaction `IF` after the mutation's body always yields "not idempotent" -/
theorem if_clause_not_idempotent (L : Lexer) (fuel : Nat) (s : LS) (t : Nat) (h : t = tkIf) :
    (scanForIf L (fuel + 1) s t).1.idem = false := by
  subst h
  have hne : ¬(((((tkIf = tkEOF ∨ tkIf = tkEOS) ∨ tkIf = tkInsert) ∨ tkIf = tkUpdate) ∨ tkIf = tkDelete) ∨ tkIf = tkApply) := by decide
  simp [scanForIf, isDMLTerminator, hne]

/-- the system's non-deterministic functions are recognised in any letter case, unqualified or
qualified by `system` (quoted or not); a user keyspace's function of the same name is not -/
example : isNonIdempotentFunc { text := [78, 111, 87] } = true ∧ isNonIdempotentFunc { text := [117, 117, 105, 100], ignoreCase := false } = true ∧
    isNonIdempotentFunc { text := [110, 111, 119, 120] } = false := by decide

end CqlVerif.C06
