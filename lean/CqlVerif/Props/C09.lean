import CqlVerif.Model.Select
/-!
# C09 — Only USE and genuine system-table SELECTs are answered by the proxy itself

`Select.isQueryHandled` over an arbitrary token stream `L` (i.e. arbitrary statement bytes) and an
arbitrary current keyspace.
-/
namespace CqlVerif.C09
open CqlVerif.Parser CqlVerif.Select CqlVerif.Gen.Lex

/-- **non_select_forwarded** — anything that does not start with SELECT or USE (INSERT, UPDATE,
DELETE, BATCH, DDL, garbage …) is never answered by the proxy, whatever the current keyspace -/
theorem non_select_forwarded (L : Lexer) (fuel : Nat) (ks : Ident)
    (h1 : (L 0).kind ≠ tkSelect) (h2 : (L 0).kind ≠ tkUse) : (isQueryHandled L fuel ks).handled = false := by
  simp [isQueryHandled, nextT, h1, h2]

/-- a USE followed by an identifier is the proxy's -/
theorem use_handled (L : Lexer) (fuel : Nat) (ks : Ident) (h : (L 0).kind = tkUse)
    (h2 : (L (L 0).stop).kind = tkIdentifier) : (isQueryHandled L fuel ks).handled = true := by
  have hne : tkUse ≠ tkSelect := by decide
  simp [isQueryHandled, nextT, h, hne, h2]

/-- **handled_iff (SELECT)** — a SELECT whose FROM clause names `[q.]t` is answered by the proxy
exactly when the table's keyspace — the qualifier if present, else the connection's current
keyspace — is `system` and `t` is one of the virtualised tables, under CQL identifier rules
(`Ident.equal`: unquoted case-insensitive, quoted exact). -/
theorem handled_select_iff (L : Lexer) (fuel : Nat) (s : LS) (ks : Ident)
    (hfrom : (untilFrom L fuel (mark s)).1 = tkFrom)
    (hid : (nextT L (untilFrom L fuel (mark s)).2).1 = tkIdentifier)
    (hq : (parseQualifiedIdentifier L (nextT L (untilFrom L fuel (mark s)).2).2).2.2.2.1 = false) :
    let r := parseQualifiedIdentifier L (nextT L (untilFrom L fuel (mark s)).2).2
    (handledSelect L fuel s ks).handled =
      ((if r.1.isEmpty then ks else r.1).equal "system" && isSystemTable r.2.1) := by
  simp only [handledSelect, hfrom, hid, hq]
  generalize parseQualifiedIdentifier L (nextT L (untilFrom L fuel (mark s)).2).2 = r
  simp only [ne_eq, not_true_eq_false, ↓reduceIte, Bool.false_eq_true]
  by_cases h1 : (if r.1.isEmpty = true then ks else r.1).equal "system" = true <;>
    by_cases h2 : isSystemTable r.2.1 = true
  · simp only [h1, h2, Bool.not_true, Bool.or_self, Bool.false_eq_true, ↓reduceIte, Bool.and_self]
    split <;> rfl
  · simp [h1, h2]
  · simp [h1, h2]
  · simp [h1, h2]

/-- **qualifier decides** — a table qualified with another keyspace is never the proxy's, even
while the connection's keyspace is `system` (the repaired defect) -/
theorem foreign_qualifier_forwarded (L : Lexer) (fuel : Nat) (s : LS) (ks : Ident)
    (hfrom : (untilFrom L fuel (mark s)).1 = tkFrom)
    (hid : (nextT L (untilFrom L fuel (mark s)).2).1 = tkIdentifier)
    (hq : (parseQualifiedIdentifier L (nextT L (untilFrom L fuel (mark s)).2).2).2.2.2.1 = false)
    (hne : (parseQualifiedIdentifier L (nextT L (untilFrom L fuel (mark s)).2).2).1.isEmpty = false)
    (hns : (parseQualifiedIdentifier L (nextT L (untilFrom L fuel (mark s)).2).2).1.equal "system" = false) :
    (handledSelect L fuel s ks).handled = false := by
  have := handled_select_iff L fuel s ks hfrom hid hq
  simp only at this
  rw [this]; simp [hne, hns]

/-- CQL identifier rules of `Ident.equal`: unquoted names fold case, quoted ones are exact -/
example : (Ident.equal { text := [83, 89, 83, 116, 101, 109] } "system" = true) ∧
    (Ident.equal { text := [83, 121, 115, 116, 101, 109], ignoreCase := false } "system" = false) ∧
    (Ident.equal { text := [115, 121, 115, 116, 101, 109], ignoreCase := false } "system" = true) ∧
    isSystemTable { text := [80, 69, 69, 82, 83] } = true ∧ isSystemTable { text := [108, 111, 99, 97, 108, 115] } = false := by
  decide

end CqlVerif.C09
