import CqlVerif.Model.Hostile
import CqlVerif.Spec.PanicTable
import CqlVerif.Gen.PanicSites
import CqlVerif.Gen.LockOrder
import CqlVerif.Spec.LockOrder
import CqlVerif.Lemmas.Deadlock
import CqlVerif.Model.Fanout
/-!
# C17 — Hostile or malformed peers cannot crash or wedge the proxy
-/
namespace CqlVerif.C17
open CqlVerif.Hostile CqlVerif.Wire CqlVerif.PartialCodec CqlVerif.Front

/-! ## every operation that can panic is accounted for -/

/-- **sites_justified** — every partial operation found in /repo's proxy, proxycore, codecs and
parser packages by the extractor (with the guards found on the way to it) has an entry in the
hand-written table. -/
theorem sites_justified :
    Gen.PanicSites.sites.all (fun s => PanicTable.table.any (fun e => e.1 == s)) = true := by decide

theorem lexer_sites :
    Gen.PanicSites.lexerNext.all (fun e => PanicTable.lexerAllowed.contains e.1) = true := by decide

/-- **stores_typed** — every write into a sync.Map / atomic.Value / lru.Cache found in /repo stores
values of the one type declared for that container: the type assertions on loaded values (the
`invariant` entries of the table that name a container) cannot fail. -/
theorem stores_typed :
    Gen.PanicSites.stores.all (fun s => PanicTable.containerTypes.contains (s.2.1, s.2.2.2)) = true := by decide

/-! ## the guarded operations cannot panic, for any input -/

/-- **identifier_no_panic** — `IdentifierFromString` returns for every byte string (a lone `"`,
the empty string, unbalanced quotes …) -/
theorem identifier_no_panic (id : Bytes) : (identifierFromString id).ok = true := by
  unfold identifierFromString
  by_cases h : (id.length : Int) > 1
  · have h0 : (0 : Int) ≤ 0 ∧ (0 : Int) < id.length := ⟨by omega, by omega⟩
    simp only [h, ↓reduceIte, goIndex, h0, and_self, bind, Go.bind, pure]
    split
    · have hs : (0 : Int) ≤ 1 ∧ (1 : Int) ≤ (id.length : Int) - 1 ∧ (id.length : Int) - 1 ≤ id.length := ⟨by omega, by omega, by omega⟩
      simp [goSlice, hs, Go.ok]
    · simp [Go.ok]
  · simp [h, bind, Go.bind, pure, Go.ok]

/-- the quoted form strips exactly the first and last byte -/
theorem identifier_quoted (s : Bytes) : identifierFromString (34 :: s ++ [34]) = .ret ⟨s, false⟩ := by
  unfold identifierFromString
  have h : ((34 :: s ++ [34]).length : Int) > 1 := by simp; omega
  have h0 : (0 : Int) ≤ 0 ∧ (0 : Int) < (34 :: s ++ [34]).length := ⟨by omega, by omega⟩
  simp only [h, ↓reduceIte, goIndex, h0, and_self, bind, Go.bind, pure]
  have hs : (0 : Int) ≤ 1 ∧ (1 : Int) ≤ ((34 :: s ++ [34]).length : Int) - 1 ∧ ((34 :: s ++ [34]).length : Int) - 1 ≤ (34 :: s ++ [34]).length := by
    simp; omega
  simp only [List.getD_cons_zero, Int.toNat_zero, beq_self_eq_true, ↓reduceIte, goSlice, hs, and_self]
  simp

theorem addHosts_nonempty_index (rows : List SysRow) (h : (addHosts rows).length ≠ 0) :
    (goIndex (addHosts rows) 0 0 "hosts[0]").ok = true := by
  have : 0 < (addHosts rows).length := by omega
  simp [goIndex, this, Go.ok]

/-- **queryHosts_no_panic** — whatever rows a backend returns for `system.local` (none, rows
without a usable address or data centre, several rows) the host list is never indexed when empty -/
theorem queryHosts_no_panic (rows : List SysRow) : (queryHostsLocal rows).ok = true := by
  unfold queryHostsLocal
  by_cases h1 : rows.length = 0
  · simp [h1, pure, Go.ok]
  · by_cases h2 : (addHosts rows).length = 0
    · simp [h1, h2, pure, Go.ok, bind, Go.bind]
    · have := addHosts_nonempty_index rows h2
      simp only [h1, h2, ↓reduceIte, bind, Go.bind, pure]
      revert this
      cases goIndex (addHosts rows) 0 0 "hosts[0]" <;> simp [Go.ok]

/-- **queryHosts_hosts_nonempty** — a successful topology query yields at least one host, so
`Cluster.reconnect`'s `% len(c.hosts)` and `c.hosts[…]` are safe -/
theorem queryHosts_hosts_nonempty (rows : List SysRow) (dc : Nat) (h : queryHostsLocal rows = .ret (some dc)) :
    (addHosts rows).length ≠ 0 := by
  unfold queryHostsLocal at h
  by_cases h1 : rows.length = 0
  · simp [h1, pure] at h
  · by_cases h2 : (addHosts rows).length = 0
    · simp [h1, h2, pure, bind, Go.bind] at h
    · exact h2

theorem leastBusyIdx_lt (l : List (Option Int)) (i idx : Nat) (m : Int) (h : idx < i + l.length) (hl : 0 < l.length) :
    leastBusyIdx l i idx m < i + l.length := by
  induction l generalizing i idx m with
  | nil => simp at hl
  | cons a t ih =>
    cases t with
    | nil => cases a <;> simp [leastBusyIdx] <;> (try split) <;> simp_all <;> omega
    | cons b t' =>
      cases a with
      | none =>
        simp only [leastBusyIdx]
        have := ih (i + 1) idx m (by simp at h ⊢; omega) (by simp)
        simp at this ⊢; omega
      | some f =>
        simp only [leastBusyIdx]
        split
        · have := ih (i + 1) i f (by simp; omega) (by simp)
          simp at this ⊢; omega
        · have := ih (i + 1) idx m (by simp at h ⊢; omega) (by simp)
          simp at this ⊢; omega

/-- **leastBusy_no_panic** — for every pool (any number of slots, empty slots anywhere) -/
theorem leastBusy_no_panic (conns : List (Option Int)) : (leastBusyConn conns).ok = true := by
  unfold leastBusyConn
  by_cases h0 : conns.length = 0
  · simp [h0, pure, Go.ok]
  · by_cases h1 : conns.length = 1
    · have : (0 : Int) ≤ 0 ∧ (0 : Int) < conns.length := ⟨by omega, by omega⟩
      simp [h1, goIndex, bind, Go.bind, pure, Go.ok]
    · have hlt := leastBusyIdx_lt conns 0 0 2147483647 (by omega) (by omega)
      have : (0 : Int) ≤ (leastBusyIdx conns 0 0 2147483647 : Nat) ∧ ((leastBusyIdx conns 0 0 2147483647 : Nat) : Int) < conns.length := ⟨by omega, by omega⟩
      simp [h0, h1, goIndex, this, bind, Go.bind, pure, Go.ok]

/-- **fillChildren_no_panic** — the BATCH child loop writes inside `make([]…, count)` for every
count and every body -/
theorem fillChildren_no_panic (count fuel : Nat) (bs : Bytes) (acc : List (Option Child))
    (hacc : acc.length = count) (hf : fuel ≤ count) : (fillChildren count fuel bs acc).ok = true := by
  induction fuel generalizing bs acc with
  | zero => simp [fillChildren, Go.ok]
  | succ n ih =>
    simp only [fillChildren]
    split
    · simp [Go.ok]
    · rename_i c r _
      have : ((count - (n + 1) : Nat) : Int) < acc.length := by omega
      simp only [this, ↓reduceIte]
      exact ih r _ (by simp [hacc]) (by omega)

theorem countArg_no_panic (args : List Bytes) : (countArg args).ok = true := by
  unfold countArg
  by_cases h : args.length = 0
  · simp [h, pure, Go.ok]
  · have : 0 < args.length := by omega
    simp [h, goIndex, this, bind, Go.bind, pure, Go.ok]

/-- **planNext_no_panic** — for every host list (the empty one included), offset and index -/
theorem planNext_no_panic (hosts : List Nat) (offset index : Nat) : (planNext hosts offset index).ok = true := by
  unfold planNext
  by_cases h : index ≥ hosts.length
  · simp [h, pure, Go.ok]
  · have hl : (hosts.length : Int) ≠ 0 := by omega
    have hpos : (0 : Int) < hosts.length := by omega
    have hb : ∀ a : Int, 0 ≤ a % (hosts.length : Int) ∧ a % (hosts.length : Int) < hosts.length :=
      fun a => ⟨Int.emod_nonneg _ hl, Int.emod_lt_of_pos _ hpos⟩
    simp only [h, ↓reduceIte, goMod, hl, bind, Go.bind, goIndex, hb, and_self, pure, Go.ok]

/-- the remainder a partial decoder hands back is a suffix of what it was given:
`BytesSince(pos)` / `RemainingBytes()` slice within the body -/
theorem takeN_length (n : Nat) (bs a b : Bytes) (h : takeN n bs = some (a, b)) : b.length ≤ bs.length := by
  unfold takeN at h; split at h <;> simp at h; obtain ⟨_, rfl⟩ := h; simp

theorem readInt_length (bs r : Bytes) (l : Int) (h : readInt bs = some (l, r)) : r.length ≤ bs.length := by
  unfold readInt at h
  split at h
  · simp at h; obtain ⟨_, rfl⟩ := h; simp; omega
  · cases h

theorem readShort_length (bs r : Bytes) (l : Nat) (h : readShort bs = some (l, r)) : r.length ≤ bs.length := by
  unfold readShort at h
  split at h
  · simp at h; obtain ⟨_, rfl⟩ := h; simp; omega
  · cases h

theorem skipValue_length (bs v r : Bytes) (h : skipValue bs = some (v, r)) : r.length ≤ bs.length := by
  unfold skipValue at h
  split at h
  · cases h
  · rename_i l r0 hr
    have h0 := readInt_length _ _ _ hr
    split at h
    · simp at h; obtain ⟨_, rfl⟩ := h; exact h0
    · split at h
      · cases h
      · rename_i v' r' ht
        simp at h; obtain ⟨_, rfl⟩ := h
        have := takeN_length _ _ _ _ ht; omega

theorem skipValues_length (n : Nat) (bs v r : Bytes) (h : skipValues n bs = some (v, r)) : r.length ≤ bs.length := by
  induction n generalizing bs v r with
  | zero => simp [skipValues] at h; obtain ⟨_, rfl⟩ := h; exact Nat.le_refl _
  | succ k ih =>
    simp only [skipValues] at h
    split at h
    · cases h
    · rename_i v0 r0 h0
      split at h
      · cases h
      · rename_i vs r' h1
        simp at h; obtain ⟨_, rfl⟩ := h
        have := skipValue_length _ _ _ h0
        have := ih _ _ _ h1
        omega

/-- **skipPositionalValues_suffix** -/
theorem skipPositionalValues_suffix (bs v r : Bytes) (h : skipPositionalValues bs = some (v, r)) : r.length ≤ bs.length := by
  unfold skipPositionalValues at h
  split at h
  · cases h
  · rename_i n r0 h0
    split at h
    · cases h
    · rename_i vs r' h1
      simp at h; obtain ⟨_, rfl⟩ := h
      have := readShort_length _ _ _ h0
      have := skipValues_length _ _ _ _ h1
      omega

/-! ## the client byte stream -/

/-- **malformed_closed** — a request frame whose body the decoders reject is never routed or
answered as if it were valid: the connection is closed (or, for a version outside the accepted
range, answered with the version error) -/
theorem malformed_closed (max vbyte flags opcode : Nat) (body : Bytes) (c : Bool)
    (hbad : bodyMsg (vbyte % 128) flags opcode body = none) (hc : c = false) :
    (receive max c vbyte flags opcode body).1 = .out .closed ∨ (receive max c vbyte flags opcode body).1 = .out .perrVersion := by
  subst hc
  unfold receive
  by_cases h : (vclass max vbyte).outOfRange = true
  · simp [h]
  · simp [h, hbad]

/-- **routed_wellformed** — only a frame inside the accepted version range whose body decodes as
PREPARE / QUERY / EXECUTE / BATCH reaches the request path -/
theorem routed_wellformed (max vbyte flags opcode : Nat) (body : Bytes) (c : Bool)
    (h : (receive max c vbyte flags opcode body).1 = .out .routed) :
    (vclass max vbyte).outOfRange = false ∧
    ∃ m, bodyMsg (vbyte % 128) flags opcode body = some m ∧ (m = .query ∨ m = .execute ∨ m = .batch ∨ ∃ q k, m = .prepare q k) := by
  unfold receive at h
  by_cases ho : (vclass max vbyte).outOfRange = true
  · simp [ho] at h
  · simp only [ho, Bool.false_eq_true, ↓reduceIte] at h
    refine ⟨by simpa using ho, ?_⟩
    split at h
    · cases h
    · split at h
      · cases h
      · rename_i m hm
        refine ⟨m, hm, ?_⟩
        cases m with
        | startup opts =>
          simp only at h
          split at h
          · cases h
          · split at h <;> cases h
        | options => cases h
        | register _ => cases h
        | prepare q k => exact Or.inr (Or.inr (Or.inr ⟨q, k, rfl⟩))
        | query => exact Or.inl rfl
        | execute => exact Or.inr (Or.inl rfl)
        | batch => exact Or.inr (Or.inr (Or.inl rfl))
        | other => cases h

/-- **isolation** — what a connection observes is a function of the configured maximum version
and of the bytes received on that connection alone: nothing another (hostile) connection sends
appears among the arguments of `clientStream`.  Stated as a congruence so that it is checked. -/
theorem isolation (max : Nat) (mine theirs1 theirs2 : Bytes) :
    (fun (_ : Bytes) => clientStream max (mine.length + 1) false mine) theirs1 =
    (fun (_ : Bytes) => clientStream max (mine.length + 1) false mine) theirs2 := rfl

/-- non-vacuity: the frames of the failing input found on the unrepaired tree (STARTUP, then a v5
PREPARE whose keyspace is a lone double quote) are accepted and routed, and the keyspace is exactly
the string `IdentifierFromString` used to panic on -/
example : bodyMsg 5 0 9 ([0,0,0,15] ++ [83,69,76,69,67,84,32,118,32,70,82,79,77,32,116] ++ [0,0,0,1] ++ [0,1,34]) =
    some (.prepare [83,69,76,69,67,84,32,118,32,70,82,79,77,32,116] [34]) := by decide
example : identifierFromString [34] = .ret ⟨[34], true⟩ := by decide
example : queryHostsLocal [⟨true, none⟩, ⟨false, some 1⟩] = .ret none := by decide

/-! ### Wedging: lock order and blocking sends (regenerated from /repo on every run) -/

/-- **lock_order_ranked** — every place in proxy/ and proxycore/ where a mutex is acquired while
another may be held (any path through the function, any caller: may-hold analysis over the typed
SSA and the VTA call graph of the current source) goes strictly up in `LockOrder.rank`: in particular
no two locks of the same class are ever nested and no leaf lock is held while another is taken -/
theorem lock_order_ranked :
    Gen.LockOrder.edges.all (fun e => decide (LockOrder.rank e.1 < LockOrder.rank e.2.1)) = true := by decide +kernel

/-- **sends_under_lock_allowed** — a goroutine blocks on a channel send only while holding nothing,
the start-up lock or its own request's lock: never while holding a lock that the requests of other
clients need (the session table's lock, a pool's, a connection's) -/
theorem sends_under_lock_allowed :
    Gen.LockOrder.sends.all (fun e => LockOrder.sendHolders.contains e.1) = true := by decide +kernel

/-- **no_lock_deadlock** — with locks acquired in rank order (what `lock_order_ranked` establishes
class by class; two locks of one class are never nested, so the class rank is a rank of instances)
there is no cycle of goroutines each waiting for a lock the next one holds, in any state -/
theorem no_lock_deadlock (rank : Deadlock.Lock → Nat) (s : Deadlock.St) (hr : Deadlock.Ranked rank s)
    (t : Deadlock.Thread) (ts : List Deadlock.Thread) (hc : Deadlock.WaitChain s t ts) :
    ¬ ∃ l, s.waits ((t :: ts).getLast (by simp)) = some l ∧ l ∈ s.holds t :=
  fun h => Deadlock.no_deadlock_of_ranked rank s hr t ts hc h

/-- non-vacuity: the extracted tables are not empty, and the nesting the order exists for is there -/
example : Gen.LockOrder.edges.length > 5 ∧ Gen.LockOrder.sends.length > 2 ∧
    Gen.LockOrder.edges.any (fun e => e.1 == "proxy.request.mu" && e.2.1 == "proxycore.ClientConn.closingMu") = true := by decide +kernel

/-! ### A known finding, stated about the model of the code as it is (known_findings.json, `C17:canary:H`) -/

open Fanout in
/-- what keeps the other client waiting: its answer is behind answers for client 0 that do not fit -/
def Starved (t1 : Nat) (rest : List (Nat × Nat)) (s : Fanout.St) : Prop :=
  ∃ pre : List (Nat × Nat), s.inbox = pre ++ (1, t1) :: rest ∧ (∀ e ∈ pre, e.1 = 0) ∧ 1 ≤ pre.length ∧
    (s.queue 0).length + pre.length = s.cap + 1 ∧ s.queue 1 = [] ∧ s.delivered 1 = []

open Fanout in
theorem starved_step (t1 : Nat) (rest : List (Nat × Nat)) (s : Fanout.St) (a : Fanout.Act) (ha : a ≠ .drain 0)
    (h : Starved t1 rest s) : Starved t1 rest (Fanout.step s a) := by
  obtain ⟨pre, hin, hpre, hlen, hsum, hq1, hd1⟩ := h
  cases a with
  | deliver =>
    cases pre with
    | nil => simp at hlen
    | cons e pre' =>
      obtain ⟨c, t⟩ := e
      have hc : c = 0 := hpre (c, t) (by simp)
      subst hc
      simp only [Fanout.step, hin, List.cons_append]
      split
      · rename_i hlt
        refine ⟨pre', rfl, fun e he => hpre e (by simp [he]), ?_, ?_, ?_, hd1⟩
        · simp only [List.length_cons] at hsum; omega
        · simp only [Fanout.set, List.length_cons, ↓reduceIte, List.length_append, List.length_nil] at hsum ⊢; omega
        · simpa [Fanout.set] using hq1
      · exact ⟨(0, t) :: pre', by simp [hin], hpre, hlen, hsum, hq1, hd1⟩
  | drain c =>
    have hc0 : c ≠ 0 := fun e => ha (by rw [e])
    simp only [Fanout.step]
    split
    · exact ⟨pre, hin, hpre, hlen, hsum, hq1, hd1⟩
    · rename_i t tl hq
      have hc1 : c ≠ 1 := by intro e; rw [e, hq1] at hq; cases hq
      refine ⟨pre, hin, hpre, hlen, ?_, ?_, ?_⟩
      · have : ¬ (0 = c) := fun e => hc0 e.symm
        simp only [Fanout.set, this, ↓reduceIte]; exact hsum
      · have : ¬ (1 = c) := fun e => hc1 e.symm
        simp only [Fanout.set, this, ↓reduceIte]; exact hq1
      · have : ¬ (1 = c) := fun e => hc1 e.symm
        simp only [Fanout.set, this, ↓reduceIte]; exact hd1

/-- **nonreading_client_starves_others** (the negation of what C17 asks, for the code as it stands) —
whatever the queue capacity: once a backend connection carries one answer more for a client that
does not read than that client's queue holds, the answer behind them for another client is never
delivered, however long the other client keeps reading and whatever else happens - until the first
client reads or goes away.  Replayed on the real proxy by the hostile stream's `H:` attack. -/
theorem nonreading_client_starves_others (cap : Nat) (tags : List Nat) (htags : tags.length = cap + 1) (t1 : Nat)
    (as : List Fanout.Act) (hno : ∀ a ∈ as, a ≠ Fanout.Act.drain 0) :
    (Fanout.run { cap := cap, inbox := tags.map (fun t => (0, t)) ++ [(1, t1)] } as).delivered 1 = [] := by
  suffices h : ∀ s, Starved t1 [] s → Starved t1 [] (Fanout.run s as) by
    have h0 : Starved t1 [] ({ cap := cap, inbox := tags.map (fun t => (0, t)) ++ [(1, t1)] } : Fanout.St) :=
      ⟨tags.map (fun t => (0, t)), rfl, by simp, by simp [htags], by simp [htags], rfl, rfl⟩
    obtain ⟨_, _, _, _, _, _, hd⟩ := h _ h0
    exact hd
  induction as with
  | nil => intro s h; exact h
  | cons a t ih =>
    intro s h
    exact ih (fun b hb => hno b (List.mem_cons_of_mem _ hb)) _ (starved_step t1 [] s a (hno a List.mem_cons_self) h)

/-- … and as soon as that client does read, the other one is served (the model is not stuck for good) -/
example : (Fanout.run { cap := 2, inbox := [(0, 10), (0, 11), (0, 12), (1, 77)] }
    [.deliver, .deliver, .deliver, .drain 0, .deliver, .deliver, .drain 1]).delivered 1 = [77] := by decide

end CqlVerif.C17
