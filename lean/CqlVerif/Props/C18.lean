import CqlVerif.Spec.LockDiscipline
import CqlVerif.Gen.LockFacts
import CqlVerif.Lemmas.Lockset
/-!
# C18 — Concurrent operation is free of data races
-/
namespace CqlVerif.C18
open CqlVerif.LockDiscipline

/-- **discipline_holds** — every access to a shared field of the tracked structs that the
extractor finds in /repo's current source obeys the field's declared discipline: a guarded field
is written with its lock held in write mode and read with it held (or on its single writer's
goroutine), a confined field is touched by one goroutine only, a start-up field is not written once
serving has begun; a field written anywhere without a declared discipline fails the theorem. -/
theorem discipline_holds :
    (fields Gen.LockFacts.facts).all (fieldOk Gen.LockFacts.facts) = true := by decide +kernel

/-- non-vacuity: the session table is among the checked fields, and the shape of the historical
defect (the map written with only the read lock held) is rejected -/
example : (fields Gen.LockFacts.facts).contains "proxy.Proxy.sessions" = true := by decide
example : factOk (.guarded "proxy.Proxy.sessionsMu" [] [])
    ("proxy.Proxy.sessions", "W(map)", ["proxy.Proxy.sessionsMu/R"], "(*proxy.Proxy).maybeCreateSessionUnlocked",
     ["(*proxycore.Conn).read>(*proxy.client).Receive"]) = false := by decide

/-- **guarded_accesses_ordered** — what the discipline buys, for every execution of every number
of goroutines (traces of lock operations admitted by Go's mutex semantics and plain accesses):
whenever a goroutine accesses a variable while holding the variable's lock, and another goroutine
accesses it later while holding the same lock, one of them in write mode - which is the case for
every conflicting pair when writers hold the write lock - the first goroutine's unlock and the
second one's subsequent lock lie between the two accesses: the pair is ordered by happens-before
and is not a data race. -/
theorem guarded_accesses_ordered (tr mid : List Lockset.Ev) (H H2 : Lockset.Held)
    (t1 t2 : Nat) (l : Nat) (m1 m2 : Bool)
    (hreach : Lockset.steps [] tr = some H)                 -- the state at the first access
    (h1 : (t1, l, m1) ∈ H)                                   -- … made while holding l
    (hmid : Lockset.steps H mid = some H2)                   -- what happens until the second access
    (h2 : (t2, l, m2) ∈ H2)                                  -- … made while holding l
    (hne : t1 ≠ t2) (hw : m1 = true ∨ m2 = true) :
    ∃ a b c, mid = a ++ Lockset.Ev.rel t1 l m1 :: (b ++ Lockset.Ev.acq t2 l m2 :: c) :=
  Lockset.ordered_by_unlock_lock H H2 mid t1 t2 l m1 m2 (Lockset.reachable_inv tr H hreach) h1 hmid h2 hne hw

end CqlVerif.C18
