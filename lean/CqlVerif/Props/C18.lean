import CqlVerif.Spec.LockDiscipline
import CqlVerif.Gen.LockFacts
/-!
# C18 — Concurrent operation is free of data races
-/
namespace CqlVerif.C18
open CqlVerif.LockDiscipline

/-- **discipline_holds** — every access to a shared field of the tracked structs that the
extractor finds in /repo's current source obeys the field's declared discipline: a guarded field
is written with its lock held in write mode and read with it held (or on its single writer's
goroutine), a confined field is touched by one goroutine only, a start-up field is not written once
serving has begun; a field written anywhere without a declared discipline fails the theorem. -/
theorem discipline_holds :
    (fields Gen.LockFacts.facts).all (fieldOk Gen.LockFacts.facts) = true := by decide +kernel

/-- non-vacuity: the session table is among the checked fields, and the shape of the historical
defect (the map written with only the read lock held) is rejected -/
example : (fields Gen.LockFacts.facts).contains "proxy.Proxy.sessions" = true := by decide
example : factOk (.guarded "proxy.Proxy.sessionsMu" [] [])
    ("proxy.Proxy.sessions", "W(map)", ["proxy.Proxy.sessionsMu/R"], "(*proxy.Proxy).maybeCreateSessionUnlocked",
     ["(*proxycore.Conn).read>(*proxy.client).Receive"]) = false := by decide

end CqlVerif.C18
