import Mathlib.Data.List.Rotate
import CqlVerif.Lemmas.LB
/-!
# C15 — Query plans visit each live host exactly once, in round-robin rotation

Property theorems only (helper lemmas are in `Lemmas/LB.lean`). The model is `Model/LB.lean`,
tied to `proxycore/lb.go` by the `lb` correspondence stream.
-/
namespace CqlVerif.C15
open CqlVerif.LB

/-- Notification histories as the cluster produces them: a bootstrap list without duplicate
keys, `add` only for keys that are not members (`mergeHosts` announces only new keys),
`remove` for anything. -/
def wfFrom (members : List Key) : List Ev → Prop
  | [] => True
  | .bootstrap hs :: es => hs.Nodup ∧ wfFrom hs es
  | .add h :: es => h ∉ members ∧ wfFrom (members ++ [h]) es
  | .remove h :: es => wfFrom (removeFirst h members) es

def runEvents (lb : LB) (evs : List Ev) : LB := evs.foldl onEvent lb

/-- Set-based reference membership. -/
def refMembers (members : List Key) : List Ev → List Key
  | [] => members
  | .bootstrap hs :: es => refMembers hs es
  | .add h :: es => refMembers (members ++ [h]) es
  | .remove h :: es => refMembers (members.filter (· ≠ h)) es

theorem nodup_removeFirst {k : Key} {l : List Key} (h : l.Nodup) : (removeFirst k l).Nodup := by
  rw [removeFirst_eq_erase]; exact h.erase k

theorem removeFirst_eq_filter {k : Key} {l : List Key} (h : l.Nodup) :
    removeFirst k l = l.filter (· ≠ k) := by
  induction l with
  | nil => rfl
  | cons a t ih =>
    have ⟨hat, ht⟩ := List.nodup_cons.mp h
    by_cases e : a = k
    · subst e
      simp only [removeFirst, ↓reduceIte, ne_eq, not_true_eq_false, decide_false, Bool.false_eq_true,
        not_false_eq_true, List.filter_cons_of_neg]
      symm; apply List.filter_eq_self.mpr; intro x hx
      simp only [ne_eq, decide_not, Bool.not_eq_eq_eq_not, Bool.not_true, decide_eq_false_iff_not]
      intro e; subst e; exact hat hx
    · simp [removeFirst, e, ih ht]

/-- Membership follows the history: for every well-formed notification history (any length,
any number of hosts) the balancer's host list has no duplicates and equals the reference
membership — in particular a removed host is gone and an added host is present. -/
theorem members_exact (lb : LB) (evs : List Ev) (hn : lb.hosts.Nodup) (hw : wfFrom lb.hosts evs) :
    (runEvents lb evs).hosts.Nodup ∧ (runEvents lb evs).hosts = refMembers lb.hosts evs := by
  induction evs generalizing lb with
  | nil => exact ⟨hn, rfl⟩
  | cons e es ih =>
    cases e with
    | bootstrap hs =>
      simp only [wfFrom] at hw
      exact ih { lb with hosts := hs } hw.1 hw.2
    | add h =>
      simp only [wfFrom] at hw
      have hn' : (lb.hosts ++ [h]).Nodup := by
        rw [List.nodup_append]; exact ⟨hn, List.nodup_singleton h, by
          intro a ha b hb; simp at hb; subst hb; intro e; subst e; exact hw.1 ha⟩
      exact ih { lb with hosts := lb.hosts ++ [h] } hn' hw.2
    | remove h =>
      simp only [wfFrom] at hw
      have := ih { lb with hosts := removeFirst h lb.hosts } (nodup_removeFirst hn) hw
      simp only [runEvents, List.foldl_cons, onEvent, refMembers] at this ⊢
      have e := removeFirst_eq_filter (k := h) hn
      rw [← e]
      exact this

theorem removed_absent (lb : LB) (k : Key) (hn : lb.hosts.Nodup) :
    k ∉ (onEvent lb (.remove k)).hosts := by
  simp only [onEvent, removeFirst_eq_filter hn]
  simp

/-- **plan_exact** — a new plan yields every current host exactly once (it is the host list
rotated by the plan's offset), whatever the counter value. -/
theorem plan_exact (lb : LB) :
    let p := (newPlan lb).1
    p.drain = (lb.hosts.rotate lb.index).map some ∧ p.drain.Perm (lb.hosts.map some) := by
  simp only [newPlan]
  rw [drain_eq_rotate]
  exact ⟨rfl, (List.rotate_perm _ _).map _⟩

theorem plan_no_duplicates (lb : LB) (hn : lb.hosts.Nodup) : ((newPlan lb).1.drain).Nodup := by
  have h := (plan_exact lb).2
  exact h.nodup_iff.mpr (hn.map (fun _ _ e => Option.some.inj e))

/-- After the hosts are used up the plan reports exhaustion forever (and does not change). -/
theorem exhausted_forever (p : Plan) (h : p.index ≥ p.hosts.length) (n : Nat) :
    Plan.take n p = (List.replicate n none, p) := by
  induction n with
  | zero => rfl
  | succ n ih => simp [Plan.take, Plan.next, h, ih, List.replicate_succ]

theorem drained_is_exhausted (lb : LB) :
    let p := (newPlan lb).1
    (Plan.take p.hosts.length p).2.index ≥ p.hosts.length := by
  simp only [newPlan]
  have := (take_index lb.hosts.length { hosts := lb.hosts, offset := lb.index, index := 0 }).1
  rw [this]; simp only [ge_iff_le, Nat.le_zero_eq, List.length_eq_zero_iff, Nat.zero_add,
    Nat.zero_le, Nat.max_eq_right, Nat.min_self]
  split <;> simp_all

/-- **snapshot_stable** — a plan handed out keeps yielding the membership it was created
with, whatever notifications follow: `Next` does not read the balancer at all. -/
theorem snapshot_stable (lb : LB) (evs : List Ev) :
    let p := (newPlan lb).1
    let _lb' := runEvents (newPlan lb).2 evs
    p.drain = (lb.hosts.rotate lb.index).map some := (plan_exact lb).1

/-- first choices of `n` consecutive plans -/
def firsts : Nat → LB → List (Option Key)
  | 0, _ => []
  | n+1, lb => let (p, lb') := newPlan lb; p.next.1 :: firsts n lb'

theorem firsts_get (n : Nat) (lb : LB) (hne : lb.hosts ≠ []) (hw : lb.index + n ≤ U64) (j : Nat) (hj : j < n) :
    (firsts n lb)[j]? = some (lb.hosts[(lb.index + j) % lb.hosts.length]?) := by
  induction n generalizing lb j with
  | zero => omega
  | succ n ih =>
    have hpos : 0 < lb.hosts.length := List.length_pos_iff.mpr hne
    cases j with
    | zero =>
      simp only [firsts, newPlan, Plan.next]
      have : ¬ (0 ≥ lb.hosts.length) := by omega
      simp [this]
    | succ j =>
      simp only [firsts, newPlan, List.getElem?_cons_succ]
      have hlt : lb.index + 1 < U64 := by omega
      have hm : (lb.index + 1) % U64 = lb.index + 1 := Nat.mod_eq_of_lt hlt
      rw [ih { lb with index := (lb.index + 1) % U64 } hne (by simp only [hm]; omega) j (by omega)]
      simp only [hm]
      congr 3; omega

/-- **rotation** — under stable membership consecutive plans start at consecutive hosts: the
first choices of `n` consecutive plans are `hosts[(index + j) mod len]` (up to the physical
bound of 2^64 plans per process lifetime). -/
theorem rotation (lb : LB) (n : Nat) (hw : lb.index + n ≤ U64) :
    firsts n lb = ((List.range n).map fun j => lb.hosts[(lb.index + j) % lb.hosts.length]?) := by
  by_cases hne : lb.hosts = []
  · have hf : ∀ (n : Nat) (lb : LB), lb.hosts = [] → firsts n lb = List.replicate n none := by
      intro n; induction n with
      | zero => intros; rfl
      | succ n ih =>
        intro lb h
        simp only [firsts, newPlan, Plan.next, h, List.length_nil, ge_iff_le, Nat.le_refl, ↓reduceIte,
          List.replicate_succ]
        rw [ih _ (by simp)]
    rw [hf n lb hne]
    apply List.ext_getElem?
    intro j
    by_cases hj : j < n
    · simp [hj, hne]
    · rw [List.getElem?_eq_none (by simp; omega), List.getElem?_eq_none (by simp; omega)]
  · apply List.ext_getElem?
    intro j
    by_cases hj : j < n
    · rw [firsts_get n lb hne hw j hj]; simp [hj]
    · have l1 : (firsts n lb).length = n := by
        clear hw hj; induction n generalizing lb with
        | zero => rfl
        | succ n ih => simp only [firsts, newPlan, List.length_cons]; rw [ih]; exact hne
      rw [List.getElem?_eq_none (by omega), List.getElem?_eq_none (by simp; omega)]

/-- **fair (window form)** — any `len` consecutive plans under stable membership start at
every host exactly once; hence over any run of plans first-choice counts differ by ≤ 1. -/
theorem fair_window (lb : LB) (hw : lb.index + lb.hosts.length ≤ U64) :
    firsts lb.hosts.length lb = (lb.hosts.rotate lb.index).map some := by
  rw [rotation lb _ hw]
  apply List.ext_getElem?
  intro j
  by_cases hj : j < lb.hosts.length
  · simp only [List.getElem?_map, List.getElem?_range hj, Option.map_some]
    rw [List.getElem?_rotate hj, Nat.add_comm]
    have hlt : (j + lb.index) % lb.hosts.length < lb.hosts.length := Nat.mod_lt _ (by omega)
    rw [List.getElem?_eq_getElem hlt]; simp
  · rw [List.getElem?_eq_none (by simp; omega), List.getElem?_eq_none (by simp; omega)]

/-- non-vacuity: a concrete three-host cluster after a real history -/
example :
    let lb := runEvents {} [.bootstrap ["a", "b"], .add "c", .remove "b", .add "d"]
    lb.hosts = ["a", "c", "d"] ∧ (newPlan (newPlan lb).2).1.drain = [some "c", some "d", some "a"] := by
  decide

/-- the pre-fix arithmetic (uint32 sum without reducing the offset first) visits a host twice:
kept as the witness of the repaired defect (known_findings.json, fixed). -/
example : let hosts := ["h0", "h1", "h2"]; let off := 4294967295
    (List.range 3).map (fun i => hosts[((off + i) % 4294967296) % 3]?) = [some "h0", some "h0", some "h1"] := by
  decide

end CqlVerif.C15
