import CqlVerif.Lemmas.Core
/-!
# C02 — A response is delivered only to the request (stream, client) that caused it

Backend assumption (stated in `Core.step`): a backend answers a frame it received at most once,
on the connection and stream it arrived on.
-/
namespace CqlVerif.C02
open CqlVerif.Core

/-- **streams_partition** — on every backend connection, in every reachable state, a stream id
is either free or maps to exactly one pending request: `free ++ keys pending` has no duplicate
(ids are handed out from `0 … max-1` at connect and only move between the two). -/
theorem streams_partition (as : List Act) (c : ConnId) :
    (((run as).conn c).free ++ ((run as).conn c).pending.map (·.1)).Nodup :=
  ((reachable_inv as).2 c).nodup

/-- **wire_matches_pending** — every unanswered frame on a connection's wire with stream `b` was
sent for the handle currently stored under `b`. -/
theorem wire_matches_pending (as : List Act) (c : ConnId) :
    ∀ e ∈ ((run as).conn c).wire, e ∈ ((run as).conn c).pending :=
  ((reachable_inv as).2 c).wire

/-- **route_correct** — every backend answer that was forwarded to a client was the answer to a
frame sent for that very request (whatever the interleaving, equal stream ids on different
clients, immediate reuse, recycling of backend stream ids, exhaustion). -/
theorem route_correct (as : List Act) :
    ∀ e ∈ (run as).out, ∀ hw, e.origin = some hw → hw.rid = e.rid :=
  (reachable_inv as).1.orig

/-- `store` fails (StreamsExhausted) exactly when no stream id is free -/
theorem exhausted_iff (s : St) (c : ConnId) (hd : Handle) (w : Bool) (hc : (s.conn c).closing = false) :
    (sendTo s c hd w).2 = false → (s.conn c).free = [] ∨ ((s.conn c).dead = true ∧ w = false) := by
  unfold sendTo
  simp only [hc, Bool.false_eq_true, ↓reduceIte]
  split
  · intro _; exact Or.inl (by assumption)
  · split
    · split
      · simp
      · intro _; exact Or.inr ⟨by assumption, by simpa using ‹¬w = true›⟩
    · simp

/-- non-vacuity: three requests over two streams of one connection, answered out of order, the
third one waits for a recycled stream id -/
example :
    let s := run [.connect 0 0 2, .clientReq 1 10 true [0] [], .clientReq 2 10 true [0] [], .backendReply 0 1 .success [],
                  .clientReq 1 11 true [0] [], .backendReply 0 1 .success [], .backendReply 0 0 .success []]
    s.out.map (fun e => (e.rid, e.client, e.cstream, e.origin.map Handle.rid)) =
      [(1, 2, 10, some 1), (2, 1, 11, some 2), (0, 1, 10, some 0)] := by
  decide

end CqlVerif.C02
