import CqlVerif.Model.Ring
import CqlVerif.Lemmas.Ring
import CqlVerif.Model.Md5
/-!
# C10 — Virtual system.local / system.peers present a correct, mutually consistent ring
-/
namespace CqlVerif.C10
open CqlVerif.Ring CqlVerif.Select

/-- **tokens_ok** — for every ring size (any number of configured peers below 2^32) and every
node position: the computed token lies in `[MinInt64, MaxInt64]`, tokens strictly increase with
the address order, the first is the minimum token. -/
theorem tokens_ok (numPeers i : Nat) (hn : numPeers < 4294967296) (hi : i ≤ numPeers) :
    minInt64 ≤ token numPeers i ∧ token numPeers i ≤ 9223372036854775807 ∧
    token numPeers i < token numPeers (i + 1) ∧ token numPeers 0 = minInt64 := by
  have hq : (18446744073709551615 / (numPeers + 1)) * (numPeers + 1) ≤ 18446744073709551615 := Nat.div_mul_le_self _ _
  have hqn : numPeers ≤ 18446744073709551615 / (numPeers + 1) := by
    rw [Nat.le_div_iff_mul_le (by omega)]
    have : numPeers * (numPeers + 1) ≤ 4294967295 * 4294967296 := Nat.mul_le_mul (by omega) (by omega)
    omega
  generalize hqd : 18446744073709551615 / (numPeers + 1) = q at hq hqn
  have hmul : i * (q + 1) ≤ numPeers * (q + 1) := Nat.mul_le_mul_right _ hi
  have hexp : numPeers * (q + 1) = q * numPeers + numPeers := by rw [Nat.mul_succ, Nat.mul_comm]
  have hexp2 : q * (numPeers + 1) = q * numPeers + q := Nat.mul_succ _ _
  have hub : i * (q + 1) ≤ 18446744073709551615 := by omega
  have ht : ∀ j : Nat, token numPeers j = -9223372036854775808 + (j : Int) * ((q + 1 : Nat) : Int) := by
    intro j; unfold token tokenStep minInt64; rw [hqd]
  rw [ht i, ht (i + 1), ht 0]
  have hcast : ((i * (q + 1) : Nat) : Int) = (i : Int) * ((q + 1 : Nat) : Int) := by push_cast; rfl
  have h1 : (0 : Int) ≤ (i : Int) * ((q + 1 : Nat) : Int) := by rw [← hcast]; exact Int.natCast_nonneg _
  have h2 : (i : Int) * ((q + 1 : Nat) : Int) ≤ ((18446744073709551615 : Nat) : Int) := by rw [← hcast]; exact Int.ofNat_le.mpr hub
  have h3 : ((i + 1 : Nat) : Int) * ((q + 1 : Nat) : Int) = (i : Int) * ((q + 1 : Nat) : Int) + ((q + 1 : Nat) : Int) := by
    rw [show ((i + 1 : Nat) : Int) = (i : Int) + 1 from by push_cast; rfl, Int.add_mul, Int.one_mul]
  refine ⟨by unfold minInt64; omega, by omega, ?_, by unfold minInt64; simp⟩
  rw [h3]
  have : (0 : Int) < ((q + 1 : Nat) : Int) := Int.natCast_pos.mpr (Nat.succ_pos q)
  omega

theorem mapOpt_length {α β : Type} (f : α → Option β) (l : List α) (r : List β) (h : mapOpt f l = some r) :
    r.length = l.length := by
  induction l generalizing r with
  | nil => simp [mapOpt] at h; subst h; rfl
  | cons a t ih =>
    simp only [mapOpt] at h
    split at h
    · rename_i b bs _ hbs
      simp only [Option.some.injEq] at h; subst h
      simp [ih bs hbs]
    · cases h

theorem mapOpt_mem {α β : Type} (f : α → Option β) (l : List α) (r : List β) (h : mapOpt f l = some r) :
    ∀ y ∈ r, ∃ x ∈ l, f x = some y := by
  induction l generalizing r with
  | nil => simp [mapOpt] at h; subst h; simp
  | cons a t ih =>
    simp only [mapOpt] at h
    split at h
    · rename_i b bs hb hbs
      simp only [Option.some.injEq] at h; subst h
      intro y hy
      rcases List.mem_cons.mp hy with rfl | hy
      · exact ⟨a, by simp, hb⟩
      · obtain ⟨x, hx, hfx⟩ := ih bs hbs y hy
        exact ⟨x, List.mem_cons_of_mem _ hx, hfx⟩
    · cases h

theorem rowOf_length (names : List String) (f : String → Option Val) (r : List Val) (h : rowOf names f = some r) :
    r.length = names.length := mapOpt_length f names r h

theorem selCols_length (table : String) (cols : List Col) (s : Sel) (cs : List Col) (h : selCols table cols s = some cs) :
    cs.length = (selNames cols s).length := by
  induction s generalizing cs with
  | star => simp [selCols] at h; subst h; simp [selNames]
  | id n =>
    simp only [selCols, Option.map_eq_some_iff] at h
    obtain ⟨c, _, rfl⟩ := h; simp [selNames]
  | count a => simp [selCols] at h; subst h; simp [selNames]
  | now => simp [selCols] at h; subst h; simp [selNames]
  | alias s a ih =>
    simp only [selCols, Option.map_eq_some_iff] at h
    obtain ⟨cs', h', rfl⟩ := h
    simp [selNames, ih cs' h']

theorem filterColumns_length (table : String) (cols : List Col) (sels : List Sel) (fc : List Col)
    (h : filterColumns table cols sels = some fc) : fc.length = (sels.flatMap (selNames cols)).length := by
  induction sels generalizing fc with
  | nil => simp [filterColumns] at h; subst h; simp
  | cons s ss ih =>
    simp only [filterColumns] at h
    split at h
    · rename_i a b ha hb
      simp only [Option.some.injEq] at h; subst h
      simp [selCols_length _ _ _ _ ha, ih b hb]
    · cases h

/-- **local_one_row / projection_shape** — a read of `system.local` that is answered with rows
returns exactly one row, with exactly as many values as advertised columns (projection order,
aliases, `*`, `count`, `now()` included), for every configuration and selector list -/
theorem local_one_row (c : Cfg) (nodes : List Node) (listen : String) (sels : List Sel) (cols : List Col) (rows : List (List Val))
    (h : answer c nodes listen "local" sels = .rows cols rows) :
    rows.length = 1 ∧ ∀ r ∈ rows, r.length = cols.length := by
  simp only [answer, ↓reduceIte] at h
  split at h
  · cases h
  · rename_i fc hfc
    split at h
    · cases h
    · rename_i r hr
      simp only [Answer.rows.injEq] at h
      obtain ⟨rfl, rfl⟩ := h
      refine ⟨rfl, ?_⟩
      intro r' hr'
      simp only [List.mem_singleton] at hr'; subst hr'
      rw [rowOf_length _ _ _ hr, filterColumns_length _ _ _ _ hfc]

/-- **peers_rows** — a read of `system.peers` returns one row per node other than the proxy
itself, each of the advertised width -/
theorem peers_rows (c : Cfg) (nodes : List Node) (listen : String) (sels : List Sel) (cols : List Col) (rows : List (List Val))
    (h : answer c nodes listen "peers" sels = .rows cols rows) :
    rows.length = (nodes.filter (!·.isLocal)).length ∧ ∀ r ∈ rows, r.length = cols.length := by
  have hne : ("peers" = "local") = False := by decide
  simp only [answer, hne, ↓reduceIte] at h
  split at h
  · cases h
  · rename_i fc hfc
    split at h
    · cases h
    · rename_i rs hrs
      simp only [Answer.rows.injEq] at h
      obtain ⟨rfl, rfl⟩ := h
      refine ⟨mapOpt_length _ _ _ hrs, ?_⟩
      intro r hr
      obtain ⟨p, _, hp⟩ := mapOpt_mem _ _ _ hrs r hr
      rw [rowOf_length _ _ _ hp, filterColumns_length _ _ _ _ hfc]

/-- the proxy's own entry in the peers list is omitted: it never appears as a peer of itself -/
theorem self_not_a_peer (la : Addr) (dc : String) (own : Bool) (ps : List PeerCfg) (ns : List Node)
    (h : peerNodes (some la) dc own ps = .ok ns) : ∀ n ∈ ns, n.addr ≠ some la ∧ n.isLocal = false := by
  induction ps generalizing ns with
  | nil => simp [peerNodes] at h; subst h; simp
  | cons p ps ih =>
    simp only [peerNodes] at h
    split at h
    · cases h
    · rename_i a ha
      split at h
      · exact ih ns h
      · rename_i hne
        split at h
        · cases h
        · split at h
          · cases h
          · rename_i rest hrest
            simp only [Except.ok.injEq] at h; subst h
            intro n hn
            rcases List.mem_cons.mp hn with rfl | hn
            · exact ⟨fun e => hne (by simpa using e.symm), rfl⟩
            · exact ih rest hrest n hn

theorem keys_local_peers (S : List Addr) (a : Addr) (hnd : S.Nodup) (ha : a ∈ S) :
    (a :: S.filter (fun x => x != a)).Perm S := by
  rw [← hnd.erase_eq_filter a]
  exact (List.perm_cons_erase ha).symm

theorem buildNodes_calc (c : Cfg) (a : Addr) (ns : List Node) (hr : c.rpc = some a) (ht : c.tokens = [])
    (hp : peerNodes (some a) (if c.dc = "" then c.clusterDC else c.dc) false c.peers = .ok ns) (hne : ns ≠ []) :
    buildNodes c = .ok (assignTokens c.peers.length 0 (sortNodes
      ({ addr := some a, name := c.rpcName, dc := if c.dc = "" then c.clusterDC else c.dc,
         tokens := [toString minInt64], isLocal := true } :: ns))) := by
  have hlen : 0 < ns.length := List.length_pos_iff.mpr hne
  simp [buildNodes, hr, ht, hp, hlen]

/-- **proxies_agree** — two proxies configured with the same list of peer addresses (every entry
with an address, no address twice, each proxy's own address among them, at least two members,
neither configuring tokens by hand) build the same ring: the same addresses in the same order
with the same token each, whatever order the shared list is written in and whichever of them a
driver happens to ask. -/
theorem proxies_agree (cA cB : Cfg) (a b : Addr)
    (hA : cA.rpc = some a) (hB : cB.rpc = some b) (htA : cA.tokens = []) (htB : cB.tokens = [])
    (hshared : (cA.peers.filterMap (·.addr)).Perm (cB.peers.filterMap (·.addr)))
    (hallA : ∀ p ∈ cA.peers, p.addr.isSome = true) (hallB : ∀ p ∈ cB.peers, p.addr.isSome = true)
    (hnd : (cA.peers.filterMap (·.addr)).Nodup)
    (haIn : a ∈ cA.peers.filterMap (·.addr)) (hbIn : b ∈ cB.peers.filterMap (·.addr))
    (h2 : 2 ≤ cA.peers.length) :
    ∃ nA nB, buildNodes cA = .ok nA ∧ buildNodes cB = .ok nB ∧ nA.map view = nB.map view := by
  obtain ⟨nsA, hokA, hkA⟩ := peerNodes_ok a (if cA.dc = "" then cA.clusterDC else cA.dc) cA.peers hallA
  obtain ⟨nsB, hokB, hkB⟩ := peerNodes_ok b (if cB.dc = "" then cB.clusterDC else cB.dc) cB.peers hallB
  have hndB : (cB.peers.filterMap (·.addr)).Nodup := hshared.nodup_iff.mp hnd
  -- every entry has an address: the address lists are as long as the peer lists
  have lenS : ∀ (l : List PeerCfg), (∀ p ∈ l, p.addr.isSome = true) → (l.filterMap (·.addr)).length = l.length := by
    intro l hl
    induction l with
    | nil => rfl
    | cons p ps ih =>
      have hp := hl p List.mem_cons_self
      cases hpa : p.addr with
      | none => rw [hpa] at hp; cases hp
      | some x => simp [List.filterMap_cons, hpa, ih (fun q hq => hl q (List.mem_cons_of_mem _ hq))]
  have lenA := lenS cA.peers hallA
  have lenB := lenS cB.peers hallB
  have lenAB : cA.peers.length = cB.peers.length := by rw [← lenA, ← lenB]; exact hshared.length_eq
  have permA := keys_local_peers _ a hnd haIn
  have permB := keys_local_peers _ b hndB hbIn
  have neA : nsA ≠ [] := by
    intro e
    have : (nsA.map key).length = 0 := by rw [e]; rfl
    rw [hkA] at this
    have hl := permA.length_eq
    simp only [List.length_cons] at hl
    omega
  have neB : nsB ≠ [] := by
    intro e
    have : (nsB.map key).length = 0 := by rw [e]; rfl
    rw [hkB] at this
    have hl := permB.length_eq
    simp only [List.length_cons] at hl
    omega
  refine ⟨_, _, buildNodes_calc cA a nsA hA htA hokA neA, buildNodes_calc cB b nsB hB htB hokB neB, ?_⟩
  rw [lenAB]
  apply ring_agreement
  · show ((key _ :: nsA.map key)).Nodup
    rw [hkA]
    exact permA.nodup_iff.mpr hnd
  · show (key _ :: nsA.map key).Perm (key _ :: nsB.map key)
    rw [hkA, hkB]
    exact (permA.trans hshared).trans permB.symm

/-- non-vacuity: three proxies' shared list, the middle address is this proxy: tokens follow the
address order starting at the minimum token -/
example : (buildNodes { rpc := some [10, 0, 0, 2], rpcName := "b", peers :=
      [{ addr := some [10, 0, 0, 3], name := "c", dc := "dc2" }, { addr := some [10, 0, 0, 1], name := "a", dc := "dc1" },
       { addr := some [10, 0, 0, 2], name := "b" }] }).toOption.map (·.map fun n => (n.name, n.isLocal, n.tokens)) =
    some [("a", false, ["-9223372036854775808"]), ("b", true, ["-4611686018427387904"]), ("c", false, ["0"])] := by
  decide

/-! ### host ids: `nameBasedUUID` (Model/Md5) -/
section HostId
open CqlVerif.Md5

theorem le32_length (x : UInt32) : (le32 x).length = 4 := rfl
theorem md5_length (msg : List UInt8) : (md5 msg).length = 16 := by
  simp [md5, le32_length]

theorem v3_bits : ∀ n : Fin 256, ((UInt8.ofNat n.val &&& 0x0F) ||| 0x30).toNat / 16 = 3 := by decide +kernel
theorem var_bits : ∀ n : Fin 256, ((UInt8.ofNat n.val &&& 0x3F) ||| 0x80).toNat / 64 = 2 := by decide +kernel

theorem v3_bits_u8 (b : UInt8) : ((b &&& 0x0F) ||| 0x30).toNat / 16 = 3 := by
  have := v3_bits ⟨b.toNat, b.toNat_lt⟩
  simpa using this
theorem var_bits_u8 (b : UInt8) : ((b &&& 0x3F) ||| 0x80).toNat / 64 = 2 := by
  have := var_bits ⟨b.toNat, b.toNat_lt⟩
  simpa using this

/-- **host_id_is_version3_uuid** — for every address text: the host id the proxy presents is 16 bytes, its version
nibble is 3, its variant bits are `10` (RFC 4122), and every other bit is the MD5 digest of the text: a
deterministic function of the address and nothing else (no clock, no randomness, no dependence on which proxy
computes it). -/
theorem host_id_is_version3_uuid (name : List UInt8) :
    (nameBasedUUID name).length = 16 ∧
    ((nameBasedUUID name).getD 6 0).toNat / 16 = 3 ∧ ((nameBasedUUID name).getD 8 0).toNat / 64 = 2 ∧
    ∀ i, i ≠ 6 → i ≠ 8 → (nameBasedUUID name).getD i 0 = (md5 name).getD i 0 := by
  have hl := md5_length name
  refine ⟨by simp [nameBasedUUID, stamp, hl], ?_, ?_, ?_⟩
  · simp only [nameBasedUUID, stamp, List.getD_eq_getElem?_getD]
    rw [List.getElem?_set_ne (by decide), List.getElem?_set_self (by omega)]
    exact v3_bits_u8 _
  · simp only [nameBasedUUID, stamp, List.getD_eq_getElem?_getD]
    rw [List.getElem?_set_self (by simp [hl])]
    exact var_bits_u8 _
  · intro i h6 h8
    simp only [nameBasedUUID, stamp, List.getD_eq_getElem?_getD]
    rw [List.getElem?_set_ne (by omega), List.getElem?_set_ne (by omega)]

/-- the MD5 of Model/Md5 on the test suite of RFC 1321 (kernel-evaluated) and on an address -/
example : hex (md5 []) = "d41d8cd98f00b204e9800998ecf8427e" ∧ hex (md5 [97]) = "0cc175b9c0f1b6a831c399e269772661" ∧
    hex (md5 [97, 98, 99]) = "900150983cd24fb0d6963f7d28e17f72" ∧
    hex (md5 "message digest".toUTF8.toList) = "f96b697d7cb7938d525a2f31aaf161d0" ∧
    hex (md5 "abcdefghijklmnopqrstuvwxyz".toUTF8.toList) = "c3fcd3d76192e4007dfb496cca67e13b" ∧
    hex (md5 "12345678901234567890123456789012345678901234567890123456789012345678901234567890".toUTF8.toList) = "57edf4a22be3c955ac49da2e2107b67a" ∧
    hex (nameBasedUUID "127.0.0.1".toUTF8.toList) = "f528764d624d3129b32c21fbca0cb8d6" := by
  decide +kernel
end HostId

end CqlVerif.C10
