import CqlVerif.Lemmas.Core
import CqlVerif.Lemmas.Retry
/-!
# C01 — Exactly one response per client request, on the request's own stream

Model: `Model/Core.lean` — any number of clients, requests, hosts, connections and streams; every
interleaving of the atomic handler steps (`Act` lists of any length), every backend outcome,
connection deaths at any point, stale pending entries left behind by failed writes, duplicate
close notifications. Safety ("never two", "on its own stream") is proved outright; the liveness
half ("never none") is proved for the single-request life-cycle (`Model/Retry.lean`) and is
otherwise covered by the correspondence streams (see DESIGN.md §5 C01).
-/
namespace CqlVerif.C01
open CqlVerif.Core

/-- **replies_le_one** — in every reachable state every request has been answered at most once,
and exactly once iff it is done; nothing is ever written for a request that does not exist. -/
theorem replies_le_one (as : List Act) (r : Nat) :
    cnt (run as).out r ≤ 1 ∧ (cnt (run as).out r = 1 ↔ r < (run as).nreq ∧ ((run as).req r).done = true) := by
  have h := (reachable_inv as).1.one r
  rw [h]
  split <;> simp_all

/-- **reply_on_own_stream** — every frame written to a client is addressed to the client
connection and the stream id of the request it answers. -/
theorem reply_on_own_stream (as : List Act) :
    ∀ e ∈ (run as).out, e.client = ((run as).req e.rid).client ∧ e.cstream = ((run as).req e.rid).cstream :=
  (reachable_inv as).1.addr

/-- a request's address never changes: what `clientReq` recorded is what the reply carries -/
theorem reply_matches_request (as : List Act) (client : Nat) (cstream : Int) (idem : Bool) (plan ws) :
    let s := run (as ++ [.clientReq client cstream idem plan ws])
    ∀ e ∈ s.out, e.rid = (run as).nreq → e.client = (s.req e.rid).client ∧ e.cstream = (s.req e.rid).cstream := by
  intro s e he _
  exact (reachable_inv _).1.addr e he

/-- single-request liveness (from `Model/Retry`): once every attempt has been answered or dropped
(`plan + 1` outcomes, + one per re-execution after a re-prepare) the request is done, i.e. it has
been answered — whatever the outcomes and however hosts go down between attempts. -/
theorem answered_when_attempts_answered (down : Nat → Retry.Host → Bool) (idem : Bool) (plan : List Retry.Host)
    (script : List Retry.Outcome) (hns : Retry.noSilent script = true)
    (hlen : plan.length + 1 + RetrySpec.countReprepOk script ≤ script.length) :
    (Retry.run down idem plan script).done = true ∧ (Retry.run down idem plan script).reply.isSome = true := by
  have hd : (Retry.run down idem plan script).done = true := by
    apply Retry.go_terminates down script .next _ hns
    simpa using hlen
  exact ⟨hd, Retry.done_has_reply down script .next _ (by simp) hd⟩

/-- non-vacuity: two hosts, an idempotent request in flight on host 0 whose connection dies; it
fails over to host 1, whose answer is delivered — once. -/
example :
    let s := run [.connect 0 0 4, .connect 1 0 4, .clientReq 7 3 true [0, 1] [], .connDead 0, .closing 0, .notifyNext 0 [],
                  .backendReply 1 0 .success [], .closing 0, .notifyNext 0 []]
    s.out.map (fun e => (e.rid, e.client, e.cstream)) = [(0, 7, 3)] := by
  decide

end CqlVerif.C01
