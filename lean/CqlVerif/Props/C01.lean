import CqlVerif.Lemmas.Core
import CqlVerif.Lemmas.CoreLive
import CqlVerif.Lemmas.Retry
/-!
# C01 — Exactly one response per client request, on the request's own stream

Model: `Model/Core.lean` — any number of clients, requests, hosts, connections and streams; every
interleaving of the atomic handler steps (`Act` lists of any length), every backend outcome,
connection deaths at any point, stale pending entries left behind by failed writes, duplicate
close notifications. Safety ("never two", "on its own stream") is proved outright.  The liveness half ("never none")
is proved as a safety invariant of the same concurrent model (`unanswered_is_owned`: a request
without an answer always has a backend frame on the wire of a live connection or a close
notification still due, so `quiescent_all_answered`: once nothing is in flight every request has
its answer) and, for the single-request life-cycle, as termination (`Model/Retry.lean`).  That the
backend answers what is on a live wire, and that `Closing` and its notifications do run, are the
runtime's part; the correspondence streams exercise them (DESIGN.md §5 C01).
-/
namespace CqlVerif.C01
open CqlVerif.Core

/-- **replies_le_one** — in every reachable state every request has been answered at most once,
and exactly once iff it is done; nothing is ever written for a request that does not exist. -/
theorem replies_le_one (as : List Act) (r : Nat) :
    cnt (run as).out r ≤ 1 ∧ (cnt (run as).out r = 1 ↔ r < (run as).nreq ∧ ((run as).req r).done = true) := by
  have h := (reachable_inv as).1.one r
  rw [h]
  split <;> simp_all

/-- **reply_on_own_stream** — every frame written to a client is addressed to the client
connection and the stream id of the request it answers. -/
theorem reply_on_own_stream (as : List Act) :
    ∀ e ∈ (run as).out, e.client = ((run as).req e.rid).client ∧ e.cstream = ((run as).req e.rid).cstream :=
  (reachable_inv as).1.addr

/-- a request's address never changes: what `clientReq` recorded is what the reply carries -/
theorem reply_matches_request (as : List Act) (client : Nat) (cstream : Int) (idem : Bool) (plan ws) :
    let s := run (as ++ [.clientReq client cstream idem plan ws])
    ∀ e ∈ s.out, e.rid = (run as).nreq → e.client = (s.req e.rid).client ∧ e.cstream = (s.req e.rid).cstream := by
  intro s e he _
  exact (reachable_inv _).1.addr e he

/-- single-request liveness (from `Model/Retry`): once every attempt has been answered or dropped
(`plan + 1` outcomes, + one per re-execution after a re-prepare) the request is done, i.e. it has
been answered — whatever the outcomes and however hosts go down between attempts. -/
theorem answered_when_attempts_answered (down : Nat → Retry.Host → Bool) (idem : Bool) (plan : List Retry.Host)
    (script : List Retry.Outcome) (hns : Retry.noSilent script = true)
    (hlen : plan.length + 1 + RetrySpec.countReprepOk script ≤ script.length) :
    (Retry.run down idem plan script).done = true ∧ (Retry.run down idem plan script).reply.isSome = true := by
  have hd : (Retry.run down idem plan script).done = true := by
    apply Retry.go_terminates down script .next _ hns
    simpa using hlen
  exact ⟨hd, Retry.done_has_reply down script .next _ (by simp) hd⟩

/-- **unanswered_is_owned** — in every reachable state, whatever the interleaving, the connection
deaths, the failed writes and the recycling of stream ids: a request that has not been answered is
owned — a frame sent on its behalf (the request itself or a re-prepare for it) is on the wire of a
live backend connection, or is registered on a dead connection whose `Closing` has yet to run, or
an `OnClose` notification for it is still due.  No handler lets a request slip out of all three. -/
theorem unanswered_is_owned (as : List Act) (r : Nat) (hr : r < (run as).nreq) :
    ((run as).req r).done = true ∨ Owned (run as) r :=
  (reachable_live as).1 r hr (by simp)

/-- what "nothing is in flight" means: every connection ever opened has an empty wire, has run
`Closing` if it is dead, and has delivered all its close notifications -/
def Quiescent (s : St) : Prop :=
  ∀ c, c < s.nconn → (s.conn c).wire = [] ∧ ((s.conn c).dead = true → (s.conn c).notified = true) ∧ (s.conn c).toNotify = []

/-- **quiescent_all_answered** — once nothing is in flight, every request the proxy accepted has
been answered, exactly once -/
theorem quiescent_all_answered (as : List Act) (hq : Quiescent (run as)) (r : Nat) (hr : r < (run as).nreq) :
    cnt (run as).out r = 1 := by
  have hl := reachable_live as
  rcases unanswered_is_owned as r hr with hd | ⟨c, e, _, hc⟩
  · exact (replies_le_one as r).2.mpr ⟨hr, hd⟩
  · exfalso
    by_cases hcn : c < (run as).nconn
    · obtain ⟨h1, h2, h3⟩ := hq c hcn
      rcases hc with hc | ⟨_, hd, hn⟩ | hc
      · rw [h1] at hc; cases hc
      · rw [h2 hd] at hn; cases hn
      · rw [h3] at hc; cases hc
    · have hu := (hl.2 c).unused (Nat.le_of_not_lt hcn)
      rcases hc with hc | ⟨hp, _, _⟩ | hc
      · rw [hu.2.1] at hc; cases hc
      · rw [hu.1] at hp; cases hp
      · rw [hu.2.2.1] at hc; cases hc

/-- the registration guard matters: a send accepted on a connection leaves the request owned only
because `closing` (set together with the hand-over to the notifier) refuses late registrations -/
theorem accepted_send_is_owned (as : List Act) (c : ConnId) (hd : Handle) (w : Bool)
    (hok : (sendTo (run as) c hd w).2 = true) : Owned (sendTo (run as) c hd w).1 hd.rid :=
  (sendTo_good (run as) c hd w (reachable_live as).2).2.2 hok

/-- non-vacuity: two hosts, an idempotent request in flight on host 0 whose connection dies; it
fails over to host 1, whose answer is delivered — once. -/
example :
    let s := run [.connect 0 0 4, .connect 1 0 4, .clientReq 7 3 true [0, 1] [], .connDead 0, .closing 0, .notifyNext 0 [],
                  .backendReply 1 0 .success [], .closing 0, .notifyNext 0 []]
    s.out.map (fun e => (e.rid, e.client, e.cstream)) = [(0, 7, 3)] := by
  decide

/-- non-vacuity of `Quiescent`: that final state is quiescent (and has a request); the state just
before host 1 answers is not -/
example :
    let s := run [.connect 0 0 4, .connect 1 0 4, .clientReq 7 3 true [0, 1] [], .connDead 0, .closing 0, .notifyNext 0 [],
                  .backendReply 1 0 .success [], .closing 0, .notifyNext 0 []]
    s.nreq = 1 ∧ s.nconn = 2 ∧ ∀ c, c < 2 → (s.conn c).wire = [] ∧ ((s.conn c).dead = true → (s.conn c).notified = true) ∧ (s.conn c).toNotify = [] := by
  decide
example :
    let s := run [.connect 0 0 4, .connect 1 0 4, .clientReq 7 3 true [0, 1] [], .connDead 0, .closing 0, .notifyNext 0 []]
    (s.conn 1).wire ≠ [] ∧ (s.req 0).done = false := by
  decide

end CqlVerif.C01
