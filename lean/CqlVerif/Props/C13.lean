import CqlVerif.Spec.GateSpec
import CqlVerif.Spec.GateShape
import CqlVerif.Gen.GateFacts
/-!
# C13 — Handshake, version negotiation and compression selection are answered locally

Model: `Model/Front.lean`. Tie: the `gate` stream probes the real proxy with one fresh
connection per (version byte, opcode, configured maximum) — all 256 opcodes for every known
version in both directions and every unknown version byte in the thorough tier — and with
handshake sequences, and compares with `Front.gate` / `Front.startup`; the `gate` translator reads the shape of
`client.Receive` off /repo's current source (`Gen/GateFacts.lean`, regenerated on every run).
-/
namespace CqlVerif.C13
open CqlVerif.Front CqlVerif.GateSpec

theorem classOf_eq_vclass (max vbyte : Nat) : classOf max vbyte = vclass max vbyte := rfl

/-- every class of version byte × every opcode byte × decodable or not (a finite table, checked
by the kernel) -/
theorem gateC_ok :
    ([true, false].all fun k => [true, false].all fun o => [true, false].all fun r => [true, false].all fun b =>
      (List.range 256).all fun op => allowedC ⟨k, o, r⟩ op b (gateC ⟨k, o, r⟩ op b)) = true := by
  decide +kernel

/-- **gate_ok** — for every version byte the wire format can carry, every opcode byte, every body
(decodable or not) and every configured maximum, the model's outcome is one the property allows. -/
theorem gate_ok (max vbyte opcode : Nat) (ho : opcode < 256) (bodyOk : Bool) :
    allowed max ⟨vbyte, opcode, bodyOk⟩ (gate max ⟨vbyte, opcode, bodyOk⟩) = true := by
  have h := gateC_ok
  simp only [List.all_eq_true] at h
  have hb : ∀ x : Bool, x ∈ [true, false] := by intro x; cases x <;> simp
  unfold allowed gate
  rw [classOf_eq_vclass]
  exact h _ (hb _) _ (hb _) _ (hb _) _ (hb bodyOk) opcode (List.mem_range.mpr ho)

/-- **gate_closed_form** — a known version outside `[3, max]` on a request frame always yields the
version error, never anything else, in particular nothing is routed -/
theorem gate_closed_form (max : Nat) (p : Probe) (hk : knownVersions.contains (p.vbyte % 128) = true)
    (hreq : p.vbyte < 128) (hop : requestOps.contains p.opcode = true)
    (hout : p.vbyte % 128 > max ∨ p.vbyte % 128 < 3) : gate max p = .perrVersion := by
  have hnr : ¬ (p.vbyte ≥ 128) := by omega
  have hk' : p.vbyte % 128 ∈ knownVersions := by simpa using hk
  have hop' : p.opcode ∈ requestOps := by simpa using hop
  simp [gate, gateC, vclass, hk', hop', hnr, hout]

/-- nothing below v3 or above the maximum is ever routed, whatever the frame -/
theorem out_of_range_never_routed (max : Nat) (p : Probe) (hout : p.vbyte % 128 > max ∨ p.vbyte % 128 < 3) :
    gate max p ≠ .routed := by
  unfold gate gateC
  simp only [vclass, hout, decide_true]
  repeat' split
  all_goals simp_all

/-- **handshake_one_frame** — STARTUP is answered by exactly one frame, for every option map -/
theorem startup_one_frame (c : Conn) (comp : Option String) : (startup c comp).1.length = 1 := by
  unfold startup; split <;> (try split) <;> rfl

/-- an unsupported compression gets only an error and leaves the connection's codec unchanged -/
theorem unsupported_compression_only_error (c : Conn) (v : String)
    (h : supportedCompressions.contains (lowerAscii v) = false) :
    startup c (some v) = ([.perrCompression], c) := by
  simp only [startup, h]; rfl

/-- a supported one (any letter case) switches this connection to that algorithm -/
theorem supported_compression_switches (c : Conn) (v : String)
    (h : supportedCompressions.contains (lowerAscii v) = true) :
    startup c (some v) = ([.ready], { c with compression := lowerAscii v }) := by
  simp only [startup, h]; rfl

/-- non-vacuity -/
example : gate 4 ⟨5, 1, true⟩ = .perrVersion ∧ gate 4 ⟨65, 5, true⟩ = .perrVersion ∧ gate 66 ⟨65, 5, true⟩ = .supported ∧
    gate 4 ⟨2, 1, true⟩ = .perrVersion ∧ gate 4 ⟨6, 1, true⟩ = .closed ∧ gate 4 ⟨4, 7, true⟩ = .routed := by decide

/-- **gate_shape_ok** — the facts read off /repo's current `client.Receive` (order of the steps, the gate's condition
and body, what every case of the dispatch does) are the ones Model/Front.lean models (regenerated on every run) -/
theorem gate_shape_ok : Gen.GateFacts.facts = GateShape.expected := by decide +kernel

end CqlVerif.C13
