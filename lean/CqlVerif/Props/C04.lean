import CqlVerif.Spec.RetryGateShape
import CqlVerif.Gen.RetryGateFacts
import CqlVerif.Lemmas.Retry
/-!
# C04 — Non-idempotent requests are never re-executed once they may have been applied

`Retry.run` with `idem = false` stands for every request the proxy does not positively classify
as idempotent (the classification itself is C06 + the prepared-metadata rules below).
-/
namespace CqlVerif.C04
open CqlVerif.Retry CqlVerif.RetrySpec

/-- **no_unsafe_reexec** — for every plan, every outcome script (including connection loss at any
point and every re-prepare outcome) and every way hosts go down: a request not classified
idempotent is sent again only after an outcome that guarantees the previous attempt was not
applied (unavailable, bootstrapping, read timeout, unprepared). -/
theorem no_unsafe_reexec (down : Nat → Host → Bool) (plan : List Host) (script : List Outcome) :
    ∀ k, k + 1 < (run down false plan script).attempts.length →
      ∃ o, script[k]? = some o ∧ safeToResend o = true := by
  obtain ⟨extra, he, hk⟩ := go_attempts_safe down script .next { plan := plan, idem := false } rfl
  intro k hlt
  have : (run down false plan script).attempts = extra := by simpa [run] using he
  rw [this] at hlt
  exact hk k hlt

/-- the executable form used as oracle on observed traces agrees with the theorem -/
theorem no_unsafe_reexec_oracle (down : Nat → Host → Bool) (plan : List Host) (script : List Outcome) :
    noUnsafeReexec false script (run down false plan script).attempts.length = true := by
  simp only [noUnsafeReexec, Bool.false_or, List.all_eq_true, List.mem_range]
  intro k hk
  obtain ⟨o, ho, hs⟩ := no_unsafe_reexec down plan script k (by omega)
  simp [ho, hs]

/-- after a write timeout, server/overloaded/truncate error, read/write failure or connection
loss the non-idempotent request is finished with that error (or the connection-lost error) -/
theorem unsafe_outcome_is_final (rc : Nat) (o : Outcome) (h : safeToResend o = false) (hs : o ≠ .silent)
    (hok : o ≠ .success) :
    ∃ r p, react false rc o = .finish r p := by
  cases o <;> simp [safeToResend] at h <;> simp [react, Retry.decide] at hs hok ⊢

/-- non-vacuity: a non-idempotent request, unavailable (safe) then write timeout (final) -/
example : let r := run (fun _ _ => false) false [0, 1, 2] [.unavailable, .writeTimeout "WriteTypeBatchLog", .success]
    r.attempts = [0, 1] ∧ r.reply = some (.forwarded 1) := by
  simp [run, go, pick, pickNext, skipDown, react, Retry.decide, Gen.RetryPolicy.onUnavailable]

/-- **retry_gate_shape_ok** — `checkIdempotent`, `OnClose`, `OnResult` and `handleErrorResult` as read off /repo's
current proxy/request.go (logging left out) are the ones Model/Retry.lean models: which outcomes consult the policy
whatever the request, which only for idempotent requests, which never (regenerated on every run) -/
theorem retry_gate_shape_ok : Gen.RetryGateFacts.facts = RetryGateShape.expected := by decide +kernel

end CqlVerif.C04
