/-
C15 spec: a set-based reference for query plans, evaluated on *observed* outputs.
It mentions no internal identifier of the code: only the notification history and what
`Next()` returned.
-/
namespace CqlVerif.PlanSpec

abbrev Key := String

inductive Op where
  | bootstrap (hs : List Key)
  | add (h : Key)
  | remove (h : Key)
  | newPlan
  | next (i : Nat)          -- call Next() on the i-th plan created
  deriving Repr, DecidableEq

structure PlanObs where
  snapshot : List Key        -- membership when the plan was created
  epoch : Nat                -- number of membership notifications seen before creation
  yielded : List Key := []
  exhausted : Bool := false
  deriving Repr

structure St where
  members : List Key := []
  epoch : Nat := 0
  plans : Array PlanObs := #[]
  ok : Bool := true
  key : String := ""      -- which clause of the property failed
  why : String := ""

def fail (s : St) (k : String) (w : String) : St := if s.ok then { s with ok := false, key := k, why := w } else s

def removeFirst (k : Key) : List Key → List Key
  | [] => []
  | h :: t => if h = k then t else h :: removeFirst k t

/-- successor of `k` in the cyclic order of `l` -/
def succIn (l : List Key) (k : Key) : Option Key :=
  match l.idxOf? k with
  | none => none
  | some i => l[(i + 1) % l.length]?

def step (s : St) (op : Op) (out : Option (Option Key)) : St :=
  match op with
  | .bootstrap hs => { s with members := hs, epoch := s.epoch + 1 }
  | .add h => { s with members := s.members ++ [h], epoch := s.epoch + 1 }
  | .remove h => { s with members := removeFirst h s.members, epoch := s.epoch + 1 }
  | .newPlan => { s with plans := s.plans.push { snapshot := s.members, epoch := s.epoch } }
  | .next i =>
    match s.plans[i]?, out with
    | none, _ => fail s "harness" s!"next on unknown plan {i}"
    | _, none => fail s "harness" "missing output"
    | some p, some none =>
      -- exhaustion may be reported only after every host of the snapshot was yielded
      if p.yielded.length = p.snapshot.length then { s with plans := s.plans.set! i { p with exhausted := true } }
      else fail s "early-exhaustion" s!"plan {i} exhausted after {p.yielded.length} of {p.snapshot.length} hosts"
    | some p, some (some k) =>
      if p.exhausted then fail s "yield-after-exhaustion" s!"plan {i} yields {k} after exhaustion"
      else if !(p.snapshot.contains k) then fail s "not-a-member" s!"plan {i} yields {k} which was not a member at creation"
      else if p.yielded.contains k then fail s "duplicate-host" s!"plan {i} yields {k} twice"
      else
        let s' := { s with plans := s.plans.set! i { p with yielded := p.yielded ++ [k] } }
        -- rotation: first choice of consecutive plans with unchanged membership
        if p.yielded.isEmpty then
          let chkPrev :=
            if i = 0 then true else
            match s.plans[i-1]? with
            | some q => if q.epoch = p.epoch then
                          match q.yielded.head? with
                          | some f => succIn p.snapshot f == some k
                          | none => true
                        else true
            | none => true
          let chkNext :=
            match s.plans[i+1]? with
            | some q => if q.epoch = p.epoch then
                          match q.yielded.head? with
                          | some f => succIn p.snapshot k == some f
                          | none => true
                        else true
            | none => true
          if chkPrev && chkNext then s' else fail s' "rotation" s!"plan {i} does not start at the host after its predecessor's start"
        else s'

def hasOut : Op → Bool
  | .next _ => true
  | _ => false

def run : St → List Op → List (Option Key) → St
  | s, [], [] => s
  | s, [], _ :: _ => fail s "harness" "extra outputs"
  | s, op :: ops, outs =>
    if hasOut op then
      match outs with
      | [] => fail s "harness" "missing output"
      | o :: outs' => run (step s op (some o)) ops outs'
    else run (step s op none) ops outs

/-- `PlanOK history outputs` -/
def planOK (ops : List Op) (outs : List (Option Key)) : Bool × String × String :=
  let s := run {} ops outs
  (s.ok, s.key, s.why)

end CqlVerif.PlanSpec
