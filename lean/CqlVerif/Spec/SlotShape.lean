/-
Spec.SlotShape — what `connPool.stayConnected` and `Cluster.stayConnected` have to look like for
Model/Slot.lean to be their model (logging left out): a private clone of the configured policy; with
no connection and no timer pending the loop arms a timer from `NextDelay()` (the pool asks twice and
uses the second answer, `double := true`; the cluster once) and sets `pendingConnect`; when the timer
fires it makes one attempt, calls `Reset()` only if that succeeded, and clears `pendingConnect` either
way; a connection reported closed is forgotten (the pool also clears `pendingConnect`, the cluster's
is already clear), so the next turn re-arms; `ctx.Done()` ends the loop.  The pool starts with a zero
timer pending, the cluster's loop starts after `Connect` has established the control connection.
-/
namespace CqlVerif.SlotShape

def expected : List (String × String) := [
  ("ctl.calls", "NextDelay=1 Reset=1"),
  ("ctl.have[<-c.controlConn.IsClosed()]", "c.setOutageTime(time.Now()) ; c.controlConn = nil"),
  ("ctl.have[<-c.ctx.Done()]", "done = true ; _ = c.controlConn.Close()"),
  ("ctl.loop", "!done"),
  ("ctl.noConnCond", "c.controlConn == nil"),
  ("ctl.pendingInit", "false"),
  ("ctl.policy", "c.config.ReconnectPolicy.Clone()"),
  ("ctl.rearm", "delay := reconnectPolicy.NextDelay() ; connectTimer = time.NewTimer(delay) ; pendingConnect = true"),
  ("ctl.rearmCond", "!pendingConnect"),
  ("ctl.wait[<-c.ctx.Done()]", "done = true"),
  ("ctl.wait[<-connectTimer.C]", "if c.reconnect() {reconnectPolicy.Reset()} ; pendingConnect = false"),
  ("pool.calls", "NextDelay=2 Reset=1"),
  ("pool.firstTimer", "time.NewTimer(0)"),
  ("pool.have[<-conn.IsClosed()]", "p.connsMu.Lock() ; conn, p.conns[idx] = nil, nil ; p.connsMu.Unlock() ; pendingConnect = false"),
  ("pool.have[<-p.ctx.Done()]", "done = true ; _ = conn.Close()"),
  ("pool.loop", "!done"),
  ("pool.noConnCond", "conn == nil"),
  ("pool.pendingInit", "true"),
  ("pool.policy", "p.config.ReconnectPolicy.Clone()"),
  ("pool.rearm", "delay := reconnectPolicy.NextDelay() ; connectTimer = time.NewTimer(reconnectPolicy.NextDelay()) ; pendingConnect = true"),
  ("pool.rearmCond", "!pendingConnect"),
  ("pool.wait[<-connectTimer.C]", "c, err := p.connect() ; if err != nil {} else {p.connsMu.Lock() ; conn, p.conns[idx] = c, c ; p.connsMu.Unlock() ; reconnectPolicy.Reset()} ; pendingConnect = false"),
  ("pool.wait[<-p.ctx.Done()]", "done = true")
]

end CqlVerif.SlotShape
