import CqlVerif.Model.Retry
/-
C04 / C05 specs evaluated on *observed* traces of one request: the per-attempt outcomes the
backends produced (known to the harness, which scripted them), the hosts that received the
attempts, and the reply the client got. They mention nothing of the proxy's internals.
-/
namespace CqlVerif.RetrySpec
open CqlVerif.Retry CqlVerif.Gen.RetryPolicy

/-- outcomes after which the previous attempt is known not to have been applied (C04) -/
def safeToResend : Outcome → Bool
  | .unavailable | .bootstrapping | .readTimeout .. => true
  | .unprepared .. => true
  | _ => false

/-- **NoUnsafeReexec**: for a request not positively idempotent, attempt i+1 exists only if
outcome i is in the safe set. `outs` are the outcomes of the attempts that reached a backend. -/
def noUnsafeReexec (idem : Bool) (outs : List Outcome) (nAttempts : Nat) : Bool :=
  idem || (List.range (nAttempts - 1)).all fun i =>
    match outs[i]? with
    | some o => safeToResend o
    | none => false

/-- the documented default policy, written from the doc comments of retrypolicy.go / README -/
def docDecision (idem : Bool) (rc : Nat) : Outcome → Decision
  | .readTimeout r b d => if rc = 0 ∧ r ≥ b ∧ d = false then .retrySame else .returnError
  | .writeTimeout t => if idem ∧ rc = 0 ∧ t = "WriteTypeBatchLog" then .retrySame else .returnError
  | .unavailable => if rc = 0 then .retryNext else .returnError
  | .bootstrapping => .retryNext
  | .errResp c => if idem ∧ c ≠ "ErrorCodeReadFailure" ∧ c ≠ "ErrorCodeWriteFailure" then .retryNext else .returnError
  | _ => .returnError

/-- collapse adjacent repetitions -/
def dedupAdj : List Host → List Host
  | [] => []
  | [h] => [h]
  | h :: h' :: t => if h = h' then dedupAdj (h' :: t) else h :: dedupAdj (h' :: t)

/-- each host at most once per traversal; the only repetition allowed is an *adjacent* one
(same-host retry, or re-execution after a re-prepare): after collapsing adjacent repetitions no
host occurs twice -/
def hostOnce (l : List Host) : Bool := decide (dedupAdj l).Nodup

/-- re-executions after a successful re-prepare are not retries (they do not count) -/
def countReprepOk : List Outcome → Nat
  | [] => 0
  | .unprepared true .ok :: t => countReprepOk t + 1
  | _ :: t => countReprepOk t

end CqlVerif.RetrySpec
