/-
C20 spec: the documented option spellings and what they denote (README / --help:
"options: v3, v4, v5, DSEv1, DSEv2", their numeric spellings, and the eleven consistency names),
case-insensitively; anything else is rejected.
-/
namespace CqlVerif.NamesSpec

/-- option values are byte strings; the documented names are ASCII -/
abbrev Bytes := List Nat

def b (s : String) : Bytes := s.toList.map Char.toNat

def lowerByte (c : Nat) : Nat := if 65 ≤ c ∧ c ≤ 90 then c + 32 else c
def lower (s : Bytes) : Bytes := s.map lowerByte

/-- documented protocol-version names ↦ protocol version number -/
def versionNames : List (String × Nat) :=
  [("v3", 3), ("3", 3), ("v4", 4), ("4", 4), ("v5", 5), ("5", 5),
   ("dsev1", 65), ("65", 65), ("dsev2", 66), ("66", 66)]

/-- documented consistency names ↦ native-protocol consistency code -/
def consistencyNames : List (String × Nat) :=
  [("any", 0), ("one", 1), ("two", 2), ("three", 3), ("quorum", 4), ("all", 5),
   ("local_quorum", 6), ("each_quorum", 7), ("serial", 8), ("local_serial", 9), ("local_one", 10)]

def lookup (t : List (String × Nat)) (s : Bytes) : Option Nat :=
  (t.find? (fun e => b e.1 == lower s)).map (·.2)

def versionOf (s : Bytes) : Option Nat := lookup versionNames s
def consistencyOf (s : Bytes) : Option Nat := lookup consistencyNames s

/-- every row of a behaviour table agrees with the documented meaning -/
def rowsOk (spec : Bytes → Option Nat) (rows : List (Bytes × Option Nat)) : Bool :=
  rows.all fun e => e.2 == spec e.1

/-- names denoting different things never select the same value (checked pairwise on rows) -/
def injectiveOn (spec : Bytes → Option Nat) (rows : List (Bytes × Option Nat)) (reps : List (Bytes × Option Nat)) : Bool :=
  rows.all fun a => reps.all fun b =>
    (spec a.1 == spec b.1) || a.2.isNone || b.2.isNone || (a.2 != b.2)

end CqlVerif.NamesSpec
