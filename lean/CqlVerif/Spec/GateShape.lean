/-
Spec.GateShape — what `client.Receive` (proxy/proxy.go) has to look like for Model/Front.lean to be its model
(logging left out).  The steps come in this order: the header is decoded (`DecodeRawFrame`: the library's checks on
version byte, direction and opcode - `gateC`'s first four tests), then the version gate, then the body is decoded
(`bodyOk`), then the dispatch on the message type.  The gate's condition is `vclass.outOfRange`; its body sends one
PROTOCOL_ERROR naming the version and returns without touching anything else (`perrVersion`: nothing forwarded, the
connection stays).  OPTIONS, STARTUP and REGISTER are answered in place with exactly one `c.send` on every path
(`supported` / `ready` / `perrCompression`, `Front.startup`) and call nothing that forwards; PREPARE, EXECUTE, QUERY
and BATCH go to the handlers (`routed`); any other decodable message gets PROTOCOL_ERROR "Unsupported operation"
(`perr`).
-/
namespace CqlVerif.GateShape

def expected : List (String × String) := [
  ("case[*codecs.PartialBatch]", "c.execute(raw, notDetermined, false, c.keyspace, body)"),
  ("case[*codecs.PartialExecute]", "c.handleExecute(raw, msg, body)"),
  ("case[*codecs.PartialQuery]", "c.handleQuery(raw, msg, body)"),
  ("case[*message.Options]", "c.send(raw.Header, &message.Supported{Options: map[string][]string{ \"CQL_VERSION\": {c.proxy.cluster.Info.CQLVersion}, \"COMPRESSION\": codecs.CompressionNames, }})"),
  ("case[*message.Prepare]", "c.handlePrepare(raw, msg, body)"),
  ("case[*message.Register]", "for _, t := range msg.EventTypes {if t == primitive.EventTypeSchemaChange {c.proxy.registerForEvents(c)}} ; c.send(raw.Header, &message.Ready{})"),
  ("case[*message.Startup]", "if compression, ok := msg.Options[\"COMPRESSION\"]; ok {if codec, ok := codecs.CustomRawCodecsWithCompression[strings.ToLower(compression)]; ok {c.setCodec(codec) ; c.compression = compression} else {errMsg := fmt.Sprintf(\"Unsupported compression type: %s (supported compression types: %s)\", compression, strings.Join(codecs.CompressionNames, \", \")) ; c.send(raw.Header, &message.ProtocolError{ErrorMessage: errMsg}) ; return nil}} ; c.send(raw.Header, &message.Ready{})"),
  ("case[default]", "c.send(raw.Header, &message.ProtocolError{ErrorMessage: \"Unsupported operation\"})"),
  ("found", "true"),
  ("gate.body", "c.send(raw.Header, &message.ProtocolError{ ErrorMessage: fmt.Sprintf(\"Invalid or unsupported protocol version %d\", raw.Header.Version), }) ; return nil"),
  ("gate.cond", "raw.Header.Version > c.proxy.config.MaxVersion || raw.Header.Version < primitive.ProtocolVersion3"),
  ("order", "raw, err := c.getCodec().DecodeRawFrame(reader) ; if err != nil {if !errors.Is(err, io.EOF) {} ; return err} ; gate ; body, err := c.getCodec().DecodeBody(raw.Header, codecs.NewFrameBodyReader(raw.Body)) ; if err != nil {return err} ; switch msg := body.Message.(type) ; return nil")
]


end CqlVerif.GateShape
