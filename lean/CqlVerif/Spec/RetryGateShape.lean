/-
Spec.RetryGateShape — what the four methods of proxy/request.go that decide about sending a request again have to
look like for Model/Retry.lean to be their model (logging left out):

* `checkIdempotent` decides once (QUERY by the classifier, EXECUTE by the prepared cache, BATCH child by child; an
  error or anything else counts as not idempotent) and remembers the answer;
* `OnClose` (the backend connection was lost) sends the request to the next host only if it is idempotent, otherwise
  answers the client with a server error, once;
* `OnResult` forwards the backend's frame unless it is an error frame that `handleErrorResult` retried, once;
* `handleErrorResult` consults the policy for a read timeout and for unavailable whatever the request is, for a write
  timeout and for server / overloaded / truncate errors and read / write failures **only if the request is
  idempotent**, goes to the next host on bootstrapping, and returns every other error; `RetryNext` / `RetrySame`
  count the retry and re-execute on the next / the same host.
-/
namespace CqlVerif.RetryGateShape

def expected : List (String × String) := [
  ("OnClose", "r.mu.Lock() ; defer r.mu.Unlock() ; if r.checkIdempotent() {r.executeInternal(true)} else {if !r.done {r.done = true ; r.send(&message.ServerError{ErrorMessage: \"Proxy is unable to retry non-idempotent query after connection to backend cluster closed\"})}}"),
  ("OnResult", "r.mu.Lock() ; defer r.mu.Unlock() ; if !r.done {if raw.Header.OpCode != primitive.OpCodeError || !r.handleErrorResult(raw) {r.client.maybeStorePreparedMetadata(raw, r.isSelect, r.msg) ; r.done = true ; r.sendRaw(raw)}}"),
  ("checkIdempotent", "if notDetermined == r.state {idempotent := false ; var err error ; if r.msg != nil {switch msg := r.msg.(type) {case *codecs.PartialQuery: idempotent, err = parser.IsQueryIdempotent(msg.Query) | case *codecs.PartialExecute: idempotent = r.client.proxy.isIdempotent(msg.QueryId) | case *codecs.PartialBatch: idempotent, err = r.isBatchIdempotent(msg) | default: }} ; if idempotent {r.state = isIdempotent} else {r.state = notIdempotent}} ; return isIdempotent == r.state"),
  ("handleErrorResult", "retried = false ; decision := ReturnError ; frm, err := r.client.getCodec().ConvertFromRawFrame(raw) ; if err != nil {} else {errMsg := frm.Body.Message.(message.Error) ; switch msg := frm.Body.Message.(type) {case *message.ReadTimeout: decision = r.client.proxy.config.RetryPolicy.OnReadTimeout(msg, r.retryCount) | case *message.WriteTimeout: if r.checkIdempotent() {decision = r.client.proxy.config.RetryPolicy.OnWriteTimeout(msg, r.retryCount)} | case *message.Unavailable: decision = r.client.proxy.config.RetryPolicy.OnUnavailable(msg, r.retryCount) | case *message.IsBootstrapping: decision = RetryNext | case *message.ServerError, *message.Overloaded, *message.TruncateError, *message.ReadFailure, *message.WriteFailure: if r.checkIdempotent() {decision = r.client.proxy.config.RetryPolicy.OnErrorResponse(errMsg, r.retryCount)} | default: } ; switch decision {case RetryNext: r.retryCount++ ; r.executeInternal(true) ; retried = true | case RetrySame: r.retryCount++ ; verifYield(\"retry.before-execute\") ; r.executeInternal(false) ; retried = true | default: }} ; return retried")
]


end CqlVerif.RetryGateShape
