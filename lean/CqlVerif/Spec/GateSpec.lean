import CqlVerif.Model.Front
/-
C13 spec: what a client may observe for the first frame of a connection, as a relation between
the frame's version byte / opcode / the configured maximum and the outcome.
-/
namespace CqlVerif.GateSpec
open CqlVerif.Front

def known (v : Nat) : Bool := [2, 3, 4, 5, 65, 66].contains v

/-- the spec's own reading of the version-and-direction byte -/
def classOf (max vbyte : Nat) : VClass :=
  { known := known (vbyte % 128), outOfRange := decide (vbyte % 128 > max ∨ vbyte % 128 < 3), resp := decide (vbyte ≥ 128) }

/-- the outcomes the property permits, per class of version byte -/
def allowedC (c : VClass) (opcode : Nat) (bodyOk : Bool) (o : Out) : Bool :=
  let isRequestFrame := !c.resp && requestOps.contains opcode
  if !c.known then
    -- unknown version byte: that error or a closed connection; never routed
    o == .closed || o == .perrVersion
  else if c.outOfRange then
    -- known version outside the accepted range: a request frame gets the protocol error naming the
    -- version (so drivers can downgrade); frames that are not requests at all may also be dropped
    if isRequestFrame then o == .perrVersion else (o == .perrVersion || o == .closed)
  else
    -- accepted version: handshake opcodes answered locally by exactly their response
    match opcode with
    | 5 => if isRequestFrame && bodyOk then o == .supported else o != .routed
    | 1 | 11 => if isRequestFrame && bodyOk then o == .ready else o != .routed
    | 7 | 9 | 10 | 13 => if isRequestFrame && bodyOk then o == .routed else o == .closed
    | _ => o != .routed && o != .supported && o != .ready

/-- `allowed max probe out` -/
def allowed (max : Nat) (p : Probe) (o : Out) : Bool := allowedC (classOf max p.vbyte) p.opcode p.bodyOk o

/-- after which outcomes the connection must still be usable -/
def usableAfter : Out → Bool
  | .closed => false
  | _ => true

end CqlVerif.GateSpec
