/-
Spec.LockOrder — the order in which the proxy's mutexes may be nested, and which of them may be held
while a goroutine blocks on a channel send.

Ranks: `Proxy.mu` (held across `Connect()` and `Close()`: start-up and shut-down) is outermost; then
the session table's lock; then a request's own lock; every other mutex is a leaf - nothing is
acquired while it is held.  An unknown (new) mutex counts as a leaf, so nesting anything under it
fails the theorem until it is ranked here.

Blocking sends: only under `Proxy.mu` (start-up: no client is being served yet) and under a
request's own lock (which only that request's handlers contend for).  In particular not under the
session table's lock, which every request of every client takes.
-/
namespace CqlVerif.LockOrder

def rank (l : String) : Nat :=
  if l = "proxy.Proxy.mu" then 0
  else if l = "proxy.Proxy.sessionsMu" then 1
  else if l = "proxy.request.mu" then 2
  else 3

def sendHolders : List String := ["proxy.Proxy.mu", "proxy.request.mu"]

end CqlVerif.LockOrder
