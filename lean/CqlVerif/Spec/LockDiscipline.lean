/-
Spec.LockDiscipline — how each shared field of the proxy's structs is protected.  The access facts
(field, read/write, locks certainly held, function, goroutine roots) are regenerated from /repo's
typed SSA on every run (Gen/LockFacts.lean); `C18.discipline_holds` proves by kernel evaluation
that every extracted access obeys the discipline declared here.  Fields that are never written
after their object's initialisation need no entry.
-/
namespace CqlVerif.LockDiscipline

abbrev Fact := String × String × List String × String × List String   -- field, kind, locks, function, roots

def Fact.field (f : Fact) := f.1
def Fact.kind (f : Fact) := f.2.1
def Fact.locks (f : Fact) := f.2.2.1
def Fact.fn (f : Fact) := f.2.2.2.1
def Fact.roots (f : Fact) := f.2.2.2.2

def isWrite (k : String) : Bool := k == "W" || k == "W(map)" || k == "W(elem)" || k == "idx"
def isRead (k : String) : Bool := k == "R"

/-- the start-up thread: `proxy.Run` → `Proxy.Connect` … before `Serve` accepts the first client
and before the maintenance goroutines of the object exist -/
def startup : String := "api proxy.Run"

def subset (a b : List String) : Bool := a.all b.contains

inductive Discipline where
  /-- writes hold `lock` in write mode; reads hold it in either mode, or run on `owner` (the only
  goroutine that writes); accesses in `exemptFns` are reviewed exceptions (object not yet published) -/
  | guarded (lock : String) (owner : List String) (exemptFns : List String)
  /-- written only on the start-up thread, before any reader exists -/
  | startupOnly
  /-- every access runs on these goroutine roots only (one goroutine per object) -/
  | confined (roots : List String)
  /-- protected by an ordering argument the lockset analysis cannot see; stated, not proved -/
  | reviewed (why : String)
  deriving Repr

def factOk (d : Discipline) (f : Fact) : Bool :=
  if !(isWrite f.kind || isRead f.kind) then true else
  match d with
  | .guarded lock owner exempt =>
    if exempt.contains f.fn then true
    else if isWrite f.kind then f.locks.contains (lock ++ "/W") || f.roots == [startup]
    else f.locks.contains (lock ++ "/W") || f.locks.contains (lock ++ "/R") || (f.roots != [] && subset f.roots (startup :: owner))
  | .startupOnly => if isWrite f.kind then f.roots == [startup] else true
  | .confined roots => f.roots != [] && subset f.roots (startup :: roots)
  | .reviewed _ => true

def clientReader : String := "(*proxycore.Conn).read>(*proxy.client).Receive"
def clusterLoop : String := "go (*proxycore.Cluster).stayConnected"
def poolLoop : String := "go (*proxycore.connPool).stayConnected"

def table : List (String × Discipline) := [
  ("proxy.Proxy.clients", .guarded "proxy.Proxy.mu" [] []),
  ("proxy.Proxy.listeners", .guarded "proxy.Proxy.mu" [] []),
  ("proxy.Proxy.sessions", .guarded "proxy.Proxy.sessionsMu" [] []),
  ("proxy.Proxy.cluster", .startupOnly),
  ("proxy.Proxy.isConnected", .guarded "proxy.Proxy.mu" [] []),
  ("proxy.Proxy.lb", .startupOnly),
  ("proxy.Proxy.localNode", .startupOnly),
  ("proxy.Proxy.nodes", .startupOnly),
  ("proxy.Proxy.preparedCache", .startupOnly),
  ("proxy.Proxy.systemLocalValues", .startupOnly),
  ("proxy.client.codec", .guarded "proxy.client.codecMu" [] []),
  ("proxy.client.compression", .confined [clientReader]),
  ("proxy.client.keyspace", .confined [clientReader]),
  ("proxy.client.preparedSystemQuery", .confined [clientReader]),
  ("proxy.client.conn", .reviewed "assigned in Proxy.handle before conn.Start() creates the connection's goroutines"),
  ("proxy.request.done", .guarded "proxy.request.mu" [] []),
  ("proxy.request.host", .guarded "proxy.request.mu" [] []),
  ("proxy.request.retryCount", .guarded "proxy.request.mu" [] []),
  ("proxy.request.state", .guarded "proxy.request.mu" [] []),
  ("proxycore.ClientConn.closing", .guarded "proxycore.ClientConn.closingMu" [] []),
  ("proxycore.ClientConn.codec", .guarded "proxycore.ClientConn.codecMu" [] []),
  ("proxycore.ClientConn.conn", .reviewed "assigned when Connect returns; other goroutines reach the ClientConn only through requests registered (sync.Map) afterwards"),
  ("proxycore.Cluster.Info", .reviewed "assigned only when initial = true: ConnectCluster, before the goroutine and the listeners exist"),
  ("proxycore.Cluster.NegotiatedVersion", .reviewed "assigned only when initial = true: ConnectCluster, before the goroutine and the listeners exist"),
  ("proxycore.Cluster.controlConn", .confined [clusterLoop]),
  ("proxycore.Cluster.currentEndpoint", .confined [clusterLoop]),
  ("proxycore.Cluster.currentHostIndex", .confined [clusterLoop]),
  ("proxycore.Cluster.hosts", .confined [clusterLoop]),
  ("proxycore.Cluster.listeners", .confined [clusterLoop]),
  ("proxycore.Cluster.outageTime", .guarded "proxycore.Cluster.outageMu" [] []),
  ("proxycore.Conn.err", .guarded "proxycore.Conn.mu" [] []),
  ("proxycore.connPool.conns", .guarded "proxycore.connPool.connsMu" [poolLoop]
     ["proxycore.connectPool$1"])   -- workers fill distinct slots of a pool nobody else has yet; connectPool waits for them
]

def lookup (field : String) : Option Discipline := (table.find? (·.1 == field)).map (·.2)

/-- a field is fine if it is never written after initialisation, or has a discipline every access obeys -/
def fieldOk (facts : List Fact) (field : String) : Bool :=
  let mine := facts.filter (·.field == field)
  if mine.all (fun f => !isWrite f.kind) then true
  else match lookup field with
    | none => false
    | some d => mine.all (factOk d)

def fields (facts : List Fact) : List String := (facts.map (·.field)).eraseDups

end CqlVerif.LockDiscipline
