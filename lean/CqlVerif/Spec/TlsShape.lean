/-
Spec.TlsShape — what the trust-deciding code of astra/ and proxycore/conn.go has to look like for
Model/Tls.lean to be its model: the per-node config is a clone of the bundle config with the node as
SNI, standard verification switched off *and* replaced by a callback that verifies the presented
leaf against the config's root pool, for the bundle's host name, at the time of the handshake, with
only the rest of the presented chain as intermediates (a fresh pool), returning the verifier's error;
the bundle config has the pool (system + bundle CA), the client key pair and the host name and
nothing else; Connect finishes the handshake before the connection starts.
-/
namespace CqlVerif.TlsShape

def expected : List (String × String) := [
  ("bundle.Certificates", "[]tls.Certificate{cert}"),
  ("bundle.RootCAs", "rootCAs"),
  ("bundle.ServerName", "config.Host"),
  ("bundle.certFrom", "tls.X509KeyPair(contents[\"cert\"], contents[\"key\"])"),
  ("bundle.configKeys", "Certificates,RootCAs,ServerName"),
  ("bundle.poolAdds", "rootCAs.AppendCertsFromPEM(contents[\"ca.crt\"])"),
  ("bundle.rootCAsFrom", "createCertPool()"),
  ("connect.handshakeErrorBranch", "err != nil => return nil, err"),
  ("connect.order", "client<handshake=true handshake<start=true"),
  ("connect.tlsClientArgs", "conn,endpoint.TLSConfig()"),
  ("copy.InsecureSkipVerify", "true"),
  ("copy.ServerName", "serverName"),
  ("copy.VerifyPeerCertificate", "callback"),
  ("copy.base", "bundle.TLSConfig.Clone()"),
  ("endpoint.copyCalls", "r.bundle,cp | r.bundle,hostId.String()"),
  ("resolve.TLSClientConfig", "r.bundle.TLSConfig.Clone()"),
  ("verify.CurrentTime", "time.Now()"),
  ("verify.DNSName", "bundle.Host"),
  ("verify.Intermediates", "x509.NewCertPool()"),
  ("verify.Roots", "tlsConfig.RootCAs"),
  ("verify.calls", "certs[0].Verify(opts)"),
  ("verify.optionKeys", "CurrentTime,DNSName,Intermediates,Roots"),
  ("verify.optionsBuiltInCallback", "true"),
  ("verify.optionsOutsideCallback", "0"),
  ("verify.poolAdds", "opts.Intermediates.AddCert(cert)"),
  ("verify.ranges", "rawCerts | certs[1:]"),
  ("verify.resultTo", "verifiedChains,err"),
  ("verify.returns", "errors.New(\"tls: failed to parse certificate from server: \" + err.Error()) | err")
]

end CqlVerif.TlsShape
