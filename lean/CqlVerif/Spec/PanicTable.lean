/-
Spec.PanicTable — the hand-written justification of every operation of the proxy's own packages
that can panic at run time.  The inventory itself (function, kind of operation, expression, the
guards on the way to it) is regenerated from /repo on every run into Gen/PanicSites.lean;
`C17.sites_justified` proves that each generated entry - with exactly these guards - appears here.
A new partial operation, or one whose guard changed, breaks that theorem.
-/
namespace CqlVerif.PanicTable

inductive Why where
  | guard (lemma : String)          -- the guards establish the bounds; the named lemma of Props/C17 proves it on the explicit-panic model
  | invariant (what : String)       -- a typing / size invariant of a container with a single writer, or a library contract
  | notPeerDriven (what : String)   -- not on any path driven by bytes a peer sends
  deriving Repr, DecidableEq

def table : List ((String × String × String × Nat × String) × Why) := [
  (("codecs.FrameBodyReader.BytesSince", "slice", "r.Body[pos:r.Position()]", 0, ""), .guard "skipPositionalValues_suffix"),
  (("codecs.FrameBodyReader.RemainingBytes", "slice", "r.Body[r.Position():]", 0, ""), .guard "skipPositionalValues_suffix"),
  (("codecs.PartialBatch.DeepCopyMessage", "panic", "panic(\"not implemented\")", 0, ""), .notPeerDriven "never called: the proxy does not clone frames"),
  (("codecs.PartialExecute.DeepCopyMessage", "panic", "panic(\"not implemented\")", 0, ""), .notPeerDriven "never called: the proxy does not clone frames"),
  (("codecs.PartialQuery.DeepCopyMessage", "panic", "panic(\"not implemented\")", 0, ""), .notPeerDriven "never called: the proxy does not clone frames"),
  (("codecs.codecFromDataType", "assert", "dt.(*datatype.List)", 0, ""), .invariant "the pinned library constructs code List/Map/Set only as *datatype.List/Map/Set"),
  (("codecs.codecFromDataType", "assert", "dt.(*datatype.Map)", 0, ""), .invariant "the pinned library constructs code List/Map/Set only as *datatype.List/Map/Set"),
  (("codecs.codecFromDataType", "assert", "dt.(*datatype.Set)", 0, ""), .invariant "the pinned library constructs code List/Map/Set only as *datatype.List/Map/Set"),
  (("codecs.partialBatchCodec.Decode", "index", "queryOrIds[i]", 0, "i < int(count)"), .guard "fillChildren_no_panic"),
  (("parser.IdentifierFromString", "index", "id[0]", 0, "l > 1"), .guard "identifier_no_panic"),
  (("parser.IdentifierFromString", "slice", "id[1 : l-1]", 0, "l > 1 && id[0] == '\"'"), .guard "identifier_no_panic"),
  (("parser.parseSelector", "index", "args[0]", 0, "!len(args) == 0"), .guard "countArg_no_panic"),
  (("proxy.Proxy.OnEvent", "assert", "key.(*client)", 0, ""), .invariant "eventClients (sync.Map) has a single Store site, storing *client keys"),
  (("proxy.Proxy.buildNodes", "div", "math.MaxUint64 / uint64(numPeers+1)", 0, ""), .notPeerDriven "configuration at start-up; numPeers + 1 > 0; sort callback indices are in range (C10.tokens_ok covers the arithmetic)"),
  (("proxy.Proxy.buildNodes", "index", "nodes[i]", 0, "calculateTokens && len(nodes) > 1"), .notPeerDriven "configuration at start-up; numPeers + 1 > 0; sort callback indices are in range (C10.tokens_ok covers the arithmetic)"),
  (("proxy.Proxy.buildNodes", "index", "nodes[j]", 0, "calculateTokens && len(nodes) > 1"), .notPeerDriven "configuration at start-up; numPeers + 1 > 0; sort callback indices are in range (C10.tokens_ok covers the arithmetic)"),
  (("proxy.Proxy.isIdempotent", "assert", "val.(preparedMetadata)", 0, ""), .invariant "preparedIdempotence (sync.Map) has a single Store site, storing preparedMetadata"),
  (("proxy.Proxy.isSelect", "assert", "val.(preparedMetadata)", 0, ""), .invariant "preparedIdempotence (sync.Map) has a single Store site, storing preparedMetadata"),
  (("proxy.Run", "panic", "panic(err)", 0, "err != nil"), .notPeerDriven "start-up: listener creation"),
  (("proxy.client.localIP", "panic", "panic(\"unhandled local address type\")", 0, ""), .invariant "the proxy listens on TCP only: LocalAddr is *net.TCPAddr"),
  (("proxy.defaultPreparedCache.Load", "assert", "val.(*proxycore.PreparedEntry)", 0, ""), .invariant "the cache (sync.Map) has a single Store site, storing *PreparedEntry"),
  (("proxy.nameBasedUUID", "index", "hash[i]", 0, "i < len(uuid)"), .invariant "an MD5 sum has 16 bytes = len(uuid)"),
  (("proxy.nameBasedUUID", "index", "uuid[i]", 0, "i < len(uuid)"), .invariant "an MD5 sum has 16 bytes = len(uuid)"),
  (("proxy.request.handleErrorResult", "assert", "frm.Body.Message.(message.Error)", 0, ""), .invariant "called for opcode ERROR only; the pinned library decodes every ERROR body to a message.Error (hostile stream: B:errbody, B:shorterr)"),
  (("proxycore.AddEvent.isEvent", "panic", "panic(\"do not call\")", 0, ""), .notPeerDriven "marker method, no call site"),
  (("proxycore.BootstrapEvent.isEvent", "panic", "panic(\"do not call\")", 0, ""), .notPeerDriven "marker method, no call site"),
  (("proxycore.ClientConn.Handshake", "index", "startupKeysAndValues[i+1]", 0, "!len(startupKeysAndValues)%2 != 0 ; i < len(startupKeysAndValues)"), .notPeerDriven "the key/value list is a constant argument of the proxy's own callers"),
  (("proxycore.ClientConn.Handshake", "index", "startupKeysAndValues[i]", 0, "!len(startupKeysAndValues)%2 != 0 ; i < len(startupKeysAndValues)"), .notPeerDriven "the key/value list is a constant argument of the proxy's own callers"),
  (("proxycore.ClientConn.maybeCachePrepared", "assert", "request.Frame().(*frame.RawFrame)", 0, "request.IsPrepareRequest()"), .invariant "IsPrepareRequest holds only for client requests / re-prepares, whose Frame() is a *frame.RawFrame; internal requests never carry PREPARE"),
  (("proxycore.ClientConn.maybePrepareAndExecute", "assert", "frm.Body.Message.(*message.Unprepared)", 0, ""), .invariant "isUnprepared was established from the same frame: the library decodes error code 0x2500 to *message.Unprepared (hostile stream: B:unprepared, B:errbody)"),
  (("proxycore.Cluster.queryHosts", "index", "hosts[0]", 0, "!len(hosts) == 0"), .guard "queryHosts_no_panic"),
  (("proxycore.Cluster.queryHosts", "index", "hosts[i]", 0, "!len(hosts) == 0"), .guard "queryHosts_no_panic"),
  (("proxycore.Cluster.queryHosts", "index", "hosts[j]", 0, "!len(hosts) == 0"), .guard "queryHosts_no_panic"),
  (("proxycore.Cluster.reconnect", "div", "(c.currentHostIndex + 1) % len(c.hosts)", 0, ""), .guard "queryHosts_hosts_nonempty"),
  (("proxycore.Cluster.reconnect", "index", "c.hosts[c.currentHostIndex]", 0, ""), .guard "queryHosts_hosts_nonempty"),
  (("proxycore.LookupEndpoint", "index", "addrs[rand.Intn(len(addrs))]", 0, ""), .invariant "net.LookupHost returns at least one address when it returns no error"),
  (("proxycore.ReconnectEvent.isEvent", "panic", "panic(\"do not call\")", 0, ""), .notPeerDriven "marker method, no call site"),
  (("proxycore.RemoveEvent.isEvent", "panic", "panic(\"do not call\")", 0, ""), .notPeerDriven "marker method, no call site"),
  (("proxycore.ResultSet.Row", "index", "rs.result.Data[i]", 0, ""), .guard "callers iterate i < RowCount() = len(Data) (queryHosts_no_panic covers Row(0))"),
  (("proxycore.Row.ByPos", "index", "r.resultSet.result.Metadata.Columns[i]", 0, ""), .invariant "i comes from columnIndexes, built from Metadata.Columns; the library decodes ColumnCount values per row"),
  (("proxycore.Row.ByPos", "index", "r.row[i]", 0, ""), .invariant "i comes from columnIndexes, built from Metadata.Columns; the library decodes ColumnCount values per row"),
  (("proxycore.SchemaChangeEvent.isEvent", "panic", "panic(\"do not call\")", 0, ""), .notPeerDriven "marker method, no call site"),
  (("proxycore.Session.OnEvent", "assert", "pool.(*connPool)", 0, ""), .invariant "pools (sync.Map) has a single Store site, storing *connPool"),
  (("proxycore.Session.OnEvent", "assert", "pool.(*connPool)", 1, ""), .invariant "pools (sync.Map) has a single Store site, storing *connPool"),
  (("proxycore.Session.leastBusyConn", "assert", "p.(*connPool)", 0, ""), .invariant "pools (sync.Map) has a single Store site, storing *connPool"),
  (("proxycore.UpEvent.isEvent", "panic", "panic(\"do not call\")", 0, ""), .notPeerDriven "marker method, no call site"),
  (("proxycore.connPool.leastBusyConn", "index", "p.conns[0]", 0, "!count == 0 ; count == 1"), .guard "leastBusy_no_panic"),
  (("proxycore.connPool.leastBusyConn", "index", "p.conns[idx]", 0, "!count == 0 ; !count == 1"), .guard "leastBusy_no_panic"),
  (("proxycore.connPool.stayConnected", "index", "p.conns[idx]", 0, ""), .invariant "idx < NumConns = len(conns), fixed when the pool is created"),
  (("proxycore.connPool.stayConnected", "index", "p.conns[idx]", 1, "conn == nil"), .invariant "idx < NumConns = len(conns), fixed when the pool is created"),
  (("proxycore.connPool.stayConnected", "index", "p.conns[idx]", 2, "!conn == nil"), .invariant "idx < NumConns = len(conns), fixed when the pool is created"),
  (("proxycore.connectPool", "index", "errs[idx]", 0, ""), .invariant "idx < NumConns = len(conns) = len(errs), fixed when the pool is created"),
  (("proxycore.connectPool", "index", "pool.conns[idx]", 0, ""), .invariant "idx < NumConns = len(conns) = len(errs), fixed when the pool is created"),
  (("proxycore.internalRequest.Execute", "panic", "panic(\"not implemented\")", 0, ""), .notPeerDriven "internal requests are never re-executed (no prepared cache on their path)"),
  (("proxycore.internalRequest.OnClose", "panic", "panic(\"attempted to close request multiple times\")", 0, ""), .invariant "called once: the pending entry is removed before OnResult and Closing runs once (C01 model: Closing)"),
  (("proxycore.internalRequest.OnResult", "panic", "panic(\"attempted to set result multiple times\")", 0, ""), .invariant "called once: loadAndDelete removes the pending entry before the call (C02.wire_matches_pending)"),
  (("proxycore.pendingRequests.closing", "assert", "value.(Request)", 0, ""), .invariant "pending (sync.Map) has a single Store site, storing Request"),
  (("proxycore.pendingRequests.loadAndDelete", "assert", "request.(Request)", 0, ""), .invariant "pending (sync.Map) has a single Store site, storing Request"),
  (("proxycore.prepareRequest.Execute", "panic", "panic(\"not implemented\")", 0, ""), .notPeerDriven "re-prepares are never re-executed: OnResult / OnClose forward to the original request"),
  (("proxycore.roundRobinLoadBalancer.NewQueryPlan", "assert", "l.hosts.Load().([]*Host)", 0, ""), .invariant "hosts (atomic.Value) only ever stores []*Host"),
  (("proxycore.roundRobinLoadBalancer.OnEvent", "slice", "cpy[:i]", 0, "range cpy"), .guard "i ranges over cpy: 0 ≤ i < len(cpy) (C15 model LB.remove)"),
  (("proxycore.roundRobinLoadBalancer.OnEvent", "slice", "cpy[i+1:]", 0, "range cpy"), .guard "i ranges over cpy: 0 ≤ i < len(cpy) (C15 model LB.remove)"),
  (("proxycore.roundRobinLoadBalancer.copy", "assert", "l.hosts.Load().([]*Host)", 0, ""), .invariant "hosts (atomic.Value) only ever stores []*Host"),
  (("proxycore.roundRobinQueryPlan.Next", "div", "(p.offset%l + p.index) % l", 0, "!p.index >= l"), .guard "planNext_no_panic"),
  (("proxycore.roundRobinQueryPlan.Next", "div", "p.offset % l", 0, "!p.index >= l"), .guard "planNext_no_panic"),
  (("proxycore.roundRobinQueryPlan.Next", "index", "p.hosts[(p.offset%l+p.index)%l]", 0, "!p.index >= l"), .guard "planNext_no_panic")
]

/-- what may be written into each untyped container (sync.Map, atomic.Value, lru.Cache): the static
types of the arguments at every write site.  The single-value type assertions on what is read back
(`key.(*client)`, `val.(preparedMetadata)`, `pool.(*connPool)`, `request.(Request)`,
`l.hosts.Load().([]*Host)`, `val.(*proxycore.PreparedEntry)`) assert exactly these types. -/
def containerTypes : List (String × String) := [
  ("p.eventClients", "*proxy.client , struct{}"),
  ("c.proxy.preparedMetadata", "[16]byte , proxy.preparedMetadata"),
  ("lb.hosts", "[]*proxycore.Host"),
  ("l.hosts", "[]*proxycore.Host"),
  ("s.pools", "string , *proxycore.connPool"),
  ("p.pending", "int16 , proxycore.Request"),
  ("d.cache", "string , *proxycore.PreparedEntry")
]

/-- the scanner's generated state machine: every partial operation is `data[p]` (each dominated by
ragel's `p == pe` end-of-input test, and exercised by the `lex` stream on every prefix class) or
the token slice `l.data[ts:te]` with `0 ≤ ts ≤ te ≤ len` maintained by the scanner -/
def lexerAllowed : List String := ["index data[p]", "slice l.data[ts:te]"]

end CqlVerif.PanicTable
