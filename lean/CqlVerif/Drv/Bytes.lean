import CqlVerif.Drv.Util
namespace CqlVerif.Drv.BytesStream
open CqlVerif.Drv

/-- Transparent / OverrideOK were evaluated by the harness on the recorded bytes (client bytes vs
backend bytes, backend bytes vs client bytes, decoded override result); every token must be one
of the permitted outcomes. -/
def handle (op real : String) : Verdict :=
  let toks := splitNE real " "
  let bad := toks.filter fun t => !(t == "same/same" || t == "overridden/same" || t == "unencodable")
  let nOver := (toks.filter (· == "overridden/same")).length
  let sig := s!"{(splitNE op " ").take 3}-ov{nOver}"
  match bad with
  | [] => if toks.isEmpty then { kind := "diff", sig, detail := "no observation" } else { kind := "ok", sig }
  | b :: _ =>
    let key := if b.startsWith "panic" || b.startsWith "env" || b.startsWith "dial" then "harness:" ++ b
      else if (b.splitOn "/").head?.getD "" == "same" || (b.splitOn "/").head?.getD "" == "overridden" then "C03:response-" ++ ((b.splitOn "/").getD 1 "")
      else if b.startsWith "override" then "C12:" ++ ((b.splitOn "/").head?.getD "")
      else "C03:request-" ++ (((b.splitOn "/").head?.getD "").takeWhile (· != ':')).toString
    { kind := "spec", sig, key, detail := s!"{b}: {op} -> {real}" }

end CqlVerif.Drv.BytesStream
