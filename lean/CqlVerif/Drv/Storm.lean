import CqlVerif.Drv.Util
namespace CqlVerif.Drv.StormStream
open CqlVerif.Drv

/-- ExactlyOne / Routed evaluated on the clients' observations (no model involved) -/
def handle (op real : String) : Verdict :=
  let ws := splitNE real " "
  let field (k : String) : Nat := ((ws.find? (·.startsWith k)).map fun t => ((t.drop k.length).toString.toNat?.getD 0)).getD 0
  let sent := field "sent="
  let answered := field "answered="
  let sig := s!"sent{sent / 500}"
  let bad := ws.filter fun w => !(w.startsWith "sent=" || w.startsWith "answered=")
  match bad with
  | [] => if sent = answered ∧ sent > 0 then { kind := "ok", sig }
          else { kind := "spec", sig, key := "C01:missing-reply", detail := s!"{real} ({op})" }
  | w :: _ =>
    let key := if w.startsWith "extra-frame" then "C01:extra-frame"
               else if w.startsWith "misrouted" then "C02:misrouted"
               else if w.startsWith "missing-reply" then "C01:missing-reply"
               else "C01:" ++ (w.takeWhile (· != ':')).toString
    { kind := "spec", sig, key, detail := s!"{real} ({op})" }

end CqlVerif.Drv.StormStream
