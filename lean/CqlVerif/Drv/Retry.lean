import CqlVerif.Model.Retry
import CqlVerif.Spec.RetrySpec
import CqlVerif.Drv.Util
namespace CqlVerif.Drv.RetryStream
open CqlVerif CqlVerif.Drv CqlVerif.Retry

def parseOutcome (kind : String) (tok0 : String) : Outcome :=
  -- `+w` / `+t` / `+p`: the same answer in a frame that also carries warnings / a tracing id / a custom payload
  let tok := (tok0.splitOn "+").headD tok0
  match tok.splitOn ":" with
  | ["ok"] => .success
  | ["idle"] => .connLost        -- silence, heart-beats included: the idle timeout closes the connection
  | ["silent"] => .silent
  | ["drop"] => .connLost
  | ["rt", a, b, d] => .readTimeout (a.toInt?.getD 0) (b.toInt?.getD 0) (d == "1")
  | ["wt", t] | ["wt", t, _, _] => .writeTimeout (match t with
      | "SIMPLE" => "WriteTypeSimple" | "BATCH" => "WriteTypeBatch" | "UNLOGGED_BATCH" => "WriteTypeUnloggedBatch"
      | "COUNTER" => "WriteTypeCounter" | "BATCH_LOG" => "WriteTypeBatchLog" | "CAS" => "WriteTypeCas"
      | "VIEW" => "WriteTypeView" | "CDC" => "WriteTypeCdc" | o => o)
  | ["un"] => .unavailable
  | ["bs"] => .bootstrapping
  | ["se"] => .errResp "ErrorCodeServerError"
  | ["ov"] => .errResp "ErrorCodeOverloaded"
  | ["tr"] => .errResp "ErrorCodeTruncateError"
  | ["rf"] => .errResp "ErrorCodeReadFailure"
  | ["wf"] => .errResp "ErrorCodeWriteFailure"
  | ["up", sub] =>
    -- the executed id is in the proxy's prepared cache iff it was PREPAREd through the proxy
    let cached := kind == "ei" || kind == "en"
    .unprepared cached (match sub with | "ok" => .ok | "err" => .err | "drop" => .lost | _ => .unsent)
  | ["ue"] => .unprepared false .ok
  | _ => .otherErr

/-- ground truth attached by construction of the request kinds (harness catalogue) -/
def classOf : String → Bool
  | "qi" | "qs" | "ei" | "bi" | "bp" | "gi" => true
  | _ => false

def nPrepares : String → Nat
  | "ei" | "en" | "bp" | "ge" | "br" => 1
  | "bq" => 2
  | _ => 0

def hostName (h : Nat) : String := s!"h{h}"

def renderReply : Option Reply → String
  | none => "none"
  | some (.result _) => "ok"
  | some (.forwarded n) => s!"fwd:{n}"
  | some .noMoreHosts => "nomorehosts"
  | some .connClosed => "closed"

structure Scn where
  hosts : Nat := 1
  warm : Nat := 0
  kind : String := "qi"
  down : List Nat := []
  script : List String := []

def parseScn (op : String) : Scn := Id.run do
  let mut s : Scn := {}
  for t in splitNE op " " do
    let (k, args) := opArgs t
    let v := ":".intercalate args   -- not used for X (re-split below)
    match k with
    | "H" => s := { s with hosts := v.toNat?.getD 1 }
    | "W" => s := { s with warm := v.toNat?.getD 0 }
    | "K" => s := { s with kind := v }
    | "D" => s := { s with down := if v == "-" then [] else args.filterMap String.toNat? }
    | "X" => s := { s with script := s.script ++ [(t.drop 2).toString] }
    | _ => pure ()
  return s

def handle (op real : String) : Verdict :=
  let s := parseScn op
  let idem := classOf s.kind
  let outs := s.script.map (parseOutcome s.kind)
  let offset := max s.warm (nPrepares s.kind)
  let plan := (List.range s.hosts).map fun i => (offset + i) % s.hosts
  let st := Retry.run (fun _ h => s.down.contains h) idem plan outs
  let model := s!"att:{",".intercalate (st.attempts.map hostName)} prep:{",".intercalate (st.prepares.map hostName)} reply:{renderReply st.reply}"
  let sig := s!"{s.kind}-att{st.attempts.length}-{(renderReply st.reply).takeWhile (· != ':')}"
  -- Spec on the real observation
  let realAtt : List String := match (splitNE real " ").find? (·.startsWith "att:") with
    | some a => splitNE ((a.drop 4).toString) ","
    | none => []
  let realHosts := realAtt.map fun h => ((h.drop 1).toString.toNat?.getD 0)
  let realReply := match (splitNE real " ").find? (·.startsWith "reply:") with
    | some a => (a.drop 6).toString
    | none => "?"
  if !(RetrySpec.noUnsafeReexec idem outs realAtt.length) then
    { kind := "spec", sig, key := "C04:unsafe-reexecution", detail := s!"non-idempotent request re-sent after an outcome that may have applied it: {real}" }
  else if realReply.endsWith "+extra" then
    { kind := "spec", sig, key := "C01:two-replies", detail := s!"client received more than one frame for one request: {real}" }
  else if !(RetrySpec.hostOnce realHosts) then
    { kind := "spec", sig, key := "C05:host-twice", detail := s!"a host was tried twice in one traversal: {real}" }
  else if realAtt.length > s.hosts + 1 + RetrySpec.countReprepOk outs then
    { kind := "spec", sig, key := "C05:attempt-bound", detail := s!"more attempts than the bound: {real}" }
  else if st.reply.isSome && realReply == "none" then
    { kind := "spec", sig, key := "C01:unanswered", detail := s!"the request was never answered although every attempt was (expected {renderReply st.reply}): {op} -> {real}" }
  else if (st.attempts.map hostName != realAtt) && (splitNE real " ").any (·.startsWith "att:") then
    -- the hosts tried are a function of the documented policy (regenerated from the code's decision functions),
    -- the plan order and what each attempt was answered with
    { kind := "spec", sig, key := "C05:attempts-differ-from-policy", detail := s!"expected {model}: {op} -> {real}" }
  else if st.reply == some .noMoreHosts && realReply != "nomorehosts" && (splitNE real " ").any (·.startsWith "reply:") then
    -- "a 'no more hosts' error exactly when every host has been tried"
    { kind := "spec", sig, key := "C05:exhaustion-reply", detail := s!"every host of the plan was tried; the client must get the proxy's no-more-hosts error, it got {realReply}: {op} -> {real}" }
  else if st.reply != some .noMoreHosts && realReply == "nomorehosts" then
    { kind := "spec", sig, key := "C05:exhaustion-reply", detail := s!"the client got the no-more-hosts error although the plan was not exhausted (expected {renderReply st.reply}): {op} -> {real}" }
  else if model ≠ real then { kind := "diff", sig, detail := model }
  else { kind := "ok", sig }

end CqlVerif.Drv.RetryStream
