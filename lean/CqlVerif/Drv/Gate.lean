import CqlVerif.Spec.GateSpec
import CqlVerif.Drv.Util
namespace CqlVerif.Drv.GateStream
open CqlVerif CqlVerif.Drv CqlVerif.Front

/-- does the pinned library decode the harness's minimal body for this opcode (see minimalBody in
stream_gate.go)? STARTUP, OPTIONS, QUERY, PREPARE, EXECUTE, REGISTER, BATCH, AUTH_RESPONSE and
READY (empty) do; the other response opcodes and DSE_REVISE need fields an empty body lacks. -/
def bodyOk (opcode : Nat) : Bool := [1, 5, 7, 9, 10, 11, 13, 15, 2].contains opcode

def render : Out → String
  | .closed => "closed" | .perrVersion => "perr-version" | .perrCompression => "perr-compression"
  | .perr => "perr" | .supported => "supported" | .ready => "ready" | .routed => "result"

def handle (op real : String) : Verdict := Id.run do
  let toks := splitNE op " "
  let max := ((toks.find? (·.startsWith "M:")).map fun t => ((t.drop 2).toString.toNat?.getD 4)).getD 4
  let mut conn : Front.Conn := {}
  let mut closed := false
  let mut fwd := 0
  let mut outs : List String := []
  let mut specBad : Option String := none
  let realToks := splitNE real " "
  let mut idx := 0
  let mut v := if max < 4 then max else 4
  for t in toks do
    if t.startsWith "M:" then continue
    if t.startsWith "V:" then
      -- the client goes on in another protocol version; no frame, no answer
      v := (t.drop 2).toString.toNat?.getD 4
      continue
    let realTok := realToks.getD idx "?"
    idx := idx + 1
    if closed then
      outs := outs ++ ["closed"]
      continue
    let parts := t.splitOn ":"
    let o : List Out ← match parts with
      | ["X", vb, opc] =>
        let vbyte := vb.toNat?.getD 0
        let opcode := opc.toNat?.getD 0
        let p : Probe := ⟨vbyte, opcode, bodyOk opcode⟩
        -- Spec on the real outcome of a gate probe
        let realOut : Option Out := match realTok with
          | "closed" => some .closed | "perr-version" => some .perrVersion | "perr" => some .perr
          | "supported" => some .supported | "ready" => some .ready | "result" => some .routed | _ => none
        match realOut with
        | some ro => if !(GateSpec.allowed max p ro) then specBad := some s!"version byte {vbyte}, opcode {opcode}, max {max}: {realTok}"
        | none => if realTok != "none" then specBad := some s!"version byte {vbyte}, opcode {opcode}, max {max}: {realTok} (more than one frame or an unexpected one)"
        pure [Front.gate max p]
      | ["O"] => pure [Front.gate max ⟨v, 5, true⟩]
      | "S" :: comp :: _ =>
        -- the version gate comes first: a STARTUP in a version that is not accepted gets the version error
        let g := Front.gate max ⟨v, 1, true⟩
        let (o, c') := if g == .ready then Front.startup conn (if comp == "-" then none else some comp) else ([g], conn)
        conn := c'
        if realTok.startsWith "perr-compression+" then specBad := some s!"STARTUP with unsupported compression '{comp}' answered by {realTok}"
        pure o
      | "R" :: _ => pure [Front.gate max ⟨v, 11, true⟩]
      | ["Q"] => pure [Front.gate max ⟨v, 7, true⟩]
      | _ => pure [.closed]
    if o.contains .closed then closed := true
    if o.contains .routed then fwd := fwd + 1
    outs := outs ++ ["+".intercalate (o.map render)]
  let model := " ".intercalate outs ++ s!" fwd={fwd}"
  let sig := s!"m{max}-{(outs.take 1)}"
  let realFwd := ((realToks.find? (·.startsWith "fwd=")).map fun t => ((t.drop 4).toString.toNat?.getD 0)).getD 0
  if let some b := realToks.find? (·.startsWith "bad=") then
    return { kind := "spec", sig, key := "C13:forwarded-frame-undecodable-at-backend", detail := s!"a forwarded frame reached a backend connection that cannot decode it ({b}; wrong compression / version for that connection): {op} -> {real}" }
  match specBad with
  | some w => return { kind := "spec", sig, key := "C13:" ++ (if w.startsWith "STARTUP" then "startup-two-frames" else "gate"), detail := w }
  | none =>
    if realFwd > fwd then return { kind := "spec", sig, key := "C13:forwarded", detail := s!"a handshake / rejected frame reached the backend: {real}" }
    if model ≠ real then return { kind := "diff", sig, detail := model }
    return { kind := "ok", sig }

end CqlVerif.Drv.GateStream
