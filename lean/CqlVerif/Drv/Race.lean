import CqlVerif.Drv.Util
namespace CqlVerif.Drv.RaceStream
open CqlVerif.Drv

/-- RaceFree on one observed execution: the happens-before detector reported nothing and the process lived -/
def handle (op real : String) : Verdict :=
  let toks := splitNE real " "
  let fam := ((splitNE op " ").find? (·.startsWith "F:")).getD "F:"
  let sig := fam
  if real == "none" then { kind := "ok", sig }
  else if real == "no-race-binary" || real.startsWith "env-error" then { kind := "diff", sig, key := "harness:" ++ real, detail := real }
  else match toks.find? (·.startsWith "crash:") with
    | some c => { kind := "spec", sig, key := "C18:" ++ c, detail := s!"the process died under {op}: {real}" }
    | none => match toks.find? (fun t => t.any (· == '~')) with
      | some k => { kind := "spec", sig, key := "C18:race:" ++ k, detail := s!"data race {k} under {op} (all pairs: {real})" }
      | none => { kind := "diff", sig, detail := real }

end CqlVerif.Drv.RaceStream
