import CqlVerif.Model.Events
import CqlVerif.Drv.Util
namespace CqlVerif.Drv.EventsStream
open CqlVerif CqlVerif.Drv CqlVerif.Events

def parseType : String → Option EvType
  | "SCHEMA_CHANGE" => some .schema | "TOPOLOGY_CHANGE" => some .topology | "STATUS_CHANGE" => some .status | _ => none

def handle (op real : String) : Verdict := Id.run do
  if op.startsWith "Z:" then
    -- a flood with a slow client: back-pressure, not loss - both clients get every event
    let n := (((op.drop 2).toString.splitOn ":").headD "0").toNat?.getD 0
    let want := s!"z0={n} z1={n}"
    if real == want then return { kind := "ok", sig := "flood" }
    if real.startsWith "z0=" then return { kind := "spec", sig := "flood", key := "C14:events-lost-under-load", detail := s!"expected {want}: {op} -> {real}" }
    return { kind := "diff", sig := "flood", detail := real }
  let toks := splitNE op " "
  let n := ((toks.find? (·.startsWith "L:")).map fun t => ((t.drop 2).toString.toNat?.getD 1)).getD 1
  let mut s : St := {}
  let mut topo := 1000
  for t in toks do
    if t.startsWith "L:" then continue
    let arg := (t.drop 1).toString
    match t.front with
    | 'c' => match ((arg.splitOn ":").headD arg).toNat? with
      | some i => if i < n then s := step s (.connect i)
      | none => pure ()
    | 'r' => match arg.splitOn ":" with
      | [i, ts] => match i.toNat? with
        | some i => if i < n then s := step s (.register i ((ts.splitOn ",").filterMap parseType))
        | none => pure ()
      | _ => pure ()
    | 'd' => match arg.toNat? with
      | some i => s := step s (.disconnect i)
      | none => pure ()
    | 's' => match arg.splitOn ":" with
      | k :: _ => s := step s (.backendEvent (k.toNat?.getD 0) .schema)
      | _ => pure ()
    | 't' => topo := topo + 1; s := step s (.backendEvent topo .topology)
    | 'u' => topo := topo + 1; s := step s (.backendEvent topo .status)
    | 'x' => s := step s .controlFailover
    | 'y' => match arg.splitOn ":" with
      | k :: _ => s := step (step s .controlFailover) (.backendEvent (k.toNat?.getD 0) .schema)
      | _ => pure ()
    | _ => pure ()
  let parts := (List.range n).map fun i =>
    s!"{i}={",".intercalate ((s.delivered.filter (·.1 = i)).map fun e => toString e.2)}"
  let model := " ".intercalate parts
  let realToks := splitNE real " "
  let anomalies := realToks.filter fun t => !(t.any (· == '='))
  let sig := s!"l{n}-d{s.delivered.length}"
  -- EventsOK clauses that need no model: stream -1, same content, only schema events
  match anomalies.find? (fun a => a.startsWith "event-on-stream" || a.startsWith "content-differs" || a.startsWith "non-schema-event" || a.startsWith "undecodable") with
  | some a => return { kind := "spec", sig, key := "C14:" ++ (a.takeWhile (· != ':')).toString, detail := s!"{a}: {op} -> {real}" }
  | none =>
    if model ≠ " ".intercalate (realToks.filter fun t => t.any (· == '=')) then
      -- delivered to a wrong set of clients, twice, or not at all: the spec is exactly the model's fan-out
      return { kind := "spec", sig, key := "C14:fanout", detail := s!"expected {model}: {op} -> {real}" }
    if !anomalies.isEmpty then return { kind := "diff", sig, detail := model }
    return { kind := "ok", sig }

end CqlVerif.Drv.EventsStream
