import CqlVerif.Drv.Util
namespace CqlVerif.Drv.RouteStream
open CqlVerif.Drv

/-- C09 end to end: local ⇔ truth, consistently for QUERY, PREPARE and EXECUTE of the prepared id -/
def handle (op real : String) : Verdict :=
  let toks := splitNE op " "
  let truth := ((toks.find? (·.startsWith "T:")).map fun t => (t.drop 2).toString).getD "-"
  let want := if truth == "1" then "local" else "fwd"
  let rt := splitNE real " "
  let field (k : String) : String := ((rt.find? (·.startsWith k)).map fun t => (t.drop k.length).toString).getD "?"
  let sig := s!"t{truth}"
  let q := field "query="; let p := field "prepare="; let e := field "execute="
  if q != want then { kind := "spec", sig, key := s!"C09:query-{q}-expected-{want}", detail := s!"{op} -> {real}" }
  else if p != want then { kind := "spec", sig, key := s!"C09:prepare-{p}-expected-{want}", detail := s!"{op} -> {real}" }
  else if e != want && e != "skip" then { kind := "spec", sig, key := s!"C09:execute-{e}-expected-{want}", detail := s!"{op} -> {real}" }
  else { kind := "ok", sig }

end CqlVerif.Drv.RouteStream
