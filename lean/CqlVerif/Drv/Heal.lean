import CqlVerif.Model.Slot
import CqlVerif.Drv.Util
namespace CqlVerif.Drv.HealStream
open CqlVerif CqlVerif.Drv CqlVerif.Slot

/-- what the backend may see, in ms: the delays `Model/Slot` arms for the history of the op, once with the
smallest and once with the largest jitter the policy can draw -/
def windows (pool : Bool) (baseMs maxMs : Nat) (rounds : List Nat) : List (List (Int × Int)) := Id.run do
  let base : Int := Int.ofNat baseMs * 1000000
  let max : Int := Int.ofNat maxMs * 1000000
  let start (s : St) : St := if pool then step 85 85 s (.timer true) else s
  let mut lo := start (if pool then poolInit base max else ctlInit base max)
  let mut hi := lo
  let mut out : List (List (Int × Int)) := []
  for k in rounds do
    let evs : List Ev := [Ev.closed] ++ List.replicate k (Ev.timer false) ++ [Ev.timer true]
    let n0 := lo.armed.length
    lo := evs.foldl (step 85 85) lo
    hi := evs.foldl (step 114 114) hi
    out := out ++ [((lo.armed.drop n0).zip (hi.armed.drop n0)).map fun (a, b) => (a / 1000000, b / 1000000)]
  return out

def slackMs : Int := 300

def handle (op real : String) : Verdict := Id.run do
  let toks := splitNE op " "
  let get (k : String) : String := ((toks.find? (·.startsWith k)).map fun t => (t.drop 2).toString).getD ""
  let pool := get "K:" == "pool"
  let baseMs := (get "B:").toNat?.getD 1
  let maxMs := (get "M:").toNat?.getD 3000
  -- a suffix `e`: the attempts are turned away by an ERROR answer to STARTUP instead of a closed socket; the loop treats both alike
  -- (a suffix `s`: the attempts are accepted and never answered; the harness counts the delay from the expiry of the connect timeout)
  let rounds := (splitNE (get "R:") ",").map fun t => ((t.dropEndWhile (fun c => c == 'e' || c == 's')).toString.toNat?).getD 0
  let sig := s!"{get "K:"}-b{baseMs}-m{maxMs}-r{rounds.length}-k{rounds.foldl Nat.max 0}"
  let rt := splitNE real " "
  if let some st := rt.find? (·.startsWith "stuck:") then
    return { kind := "spec", sig, key := "C16:not-reconnected", detail := s!"a lost connection was not replaced ({st}): {op} -> {real}" }
  let gapsTok := ((rt.find? (·.startsWith "gaps=")).map fun t => (t.drop 5).toString).getD ""
  let groups : List (List Int) := (gapsTok.splitOn ";").map fun g => (splitNE g ",").map fun t => t.toInt?.getD (-1)
  let wins := windows pool baseMs maxMs rounds
  if groups.map (·.length) ≠ wins.map (·.length) then
    return { kind := "diff", sig, detail := s!"attempts per round: model {wins.map (·.length)}, real {groups.map (·.length)}: {op} -> {real}" }
  let mut diff : Option String := none
  for (g, w) in groups.zip wins do
    let mut first := true
    for (gap, (lo, hi)) in g.zip w do
      if gap < Int.ofNat baseMs - 2 then
        return { kind := "spec", sig, key := "C16:delay-below-base", detail := s!"reconnected after {gap} ms, base delay {baseMs} ms: {op} -> {real}" }
      if gap > Int.ofNat maxMs + slackMs then
        return { kind := "spec", sig, key := "C16:delay-above-max", detail := s!"reconnected after {gap} ms, maximum delay {maxMs} ms: {op} -> {real}" }
      if first && gap > hi + slackMs then
        return { kind := "spec", sig, key := "C16:backoff-not-reset", detail := s!"first attempt after a loss came after {gap} ms; after a success the back-off starts over ({lo}..{hi} ms): {op} -> {real}" }
      if (gap < lo - 2 || gap > hi + slackMs) && diff.isNone then
        diff := some s!"gap {gap} ms outside the model's {lo}..{hi} ms (+{slackMs}): {op} -> {real}"
      first := false
  -- the outage the proxy reports while the control connection is down is the time since it was lost (C16: "reports a
  -- non-zero outage only while no control connection exists"; the readiness probe compares it with its timeout)
  let outs := (((rt.find? (·.startsWith "out=")).map fun t => (t.drop 4).toString).getD "").splitOn ";"
  for o in outs do
    match o.splitOn "/" with
    | [a, b] =>
      let rep := a.toInt?.getD 0
      let el := b.toInt?.getD 0
      if pool then
        if rep ≠ 0 then
          return { kind := "spec", sig, key := "C16:outage-without-control-loss", detail := s!"an outage of {rep} ms was reported while the control connection was up: {op} -> {real}" }
      else if rep + 150 < el then
        return { kind := "spec", sig, key := "C16:outage-understated", detail := s!"the control connection had been down for {el} ms, the proxy reported {rep} ms: {op} -> {real}" }
      else if rep > el + 150 then
        return { kind := "diff", sig, detail := s!"outage {rep} ms after {el} ms: {op} -> {real}" }
    | _ => pure ()
  if let some d := diff then return { kind := "diff", sig, detail := d }
  return { kind := "ok", sig }

end CqlVerif.Drv.HealStream
