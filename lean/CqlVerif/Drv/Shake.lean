import CqlVerif.Model.Handshake
import CqlVerif.Drv.Util
namespace CqlVerif.Drv.ShakeStream
open CqlVerif CqlVerif.Drv CqlVerif.Handshake

def parseSrv : String → Srv
  | "R" => .ready | "Ap" => .authenticate false | "Ad" => .authenticate true | "Cg" => .authChallenge true | "Cb" => .authChallenge false
  | "S" => .authSuccess | "E" => .versionError | "X" => .otherError | _ => .other

def renderSent : Sent → String
  | .startup v => s!"startup:{v}"
  | .authResponse true => "auth:PLAIN"
  | .authResponse false => "auth:token"
  | .register => "register"

def renderOutcome : Outcome → String
  | .ok v => s!"ok:{v}" | .authExpected => "authExpected" | .cqlError => "cqlError" | .unexpected => "unexpected"
  | .badChallenge => "badChallenge" | .timeout => "timeout"

def handle (op real : String) : Verdict := Id.run do
  let toks := splitNE op " "
  let get (k : String) : String := ((toks.find? (·.startsWith k)).map fun t => (t.drop 2).toString).getD ""
  let version := (get "V:").toNat?.getD 4
  let handler := get "H:" == "1"
  let hasAuth := get "A:" == "1"
  let srv := (splitNE (get "S:") ",").map parseSrv
  let (sent, out) := handshake version handler hasAuth srv
  let model := s!"sent={",".intercalate (sent.map renderSent)} out={renderOutcome out}"
  let sig := s!"v{version}-h{get "H:"}-a{get "A:"}-{renderOutcome out |>.takeWhile (· != ':') |>.toString}-n{sent.length}"
  let rt := splitNE real " "
  let rsent := splitNE (((rt.find? (·.startsWith "sent=")).map fun t => (t.drop 5).toString).getD "") ","
  let rout := ((rt.find? (·.startsWith "out=")).map fun t => (t.drop 4).toString).getD ""
  -- on the observation itself: a control connection whose handshake succeeded has registered for events (C14),
  -- a pooled one has not, and credentials are sent only to a backend that asked for them
  if handler && rout.startsWith "ok:" && rsent.getLast? != some "register" then
    return { kind := "spec", sig, key := "C14:control-connection-not-registered", detail := s!"the handshake succeeded without REGISTER as its last step: {op} -> {real}" }
  if !handler && rsent.contains "register" then
    return { kind := "spec", sig, key := "C14:pooled-connection-registered", detail := s!"{op} -> {real}" }
  if model ≠ real then return { kind := "diff", sig, detail := model }
  return { kind := "ok", sig }

end CqlVerif.Drv.ShakeStream
