import CqlVerif.Model.PartialCodec
import CqlVerif.Drv.Util
namespace CqlVerif.Drv.CodecStream
open CqlVerif CqlVerif.Drv CqlVerif.PartialCodec

def hx (bs : List Nat) : String := hex (bs.map UInt8.ofNat)

def handle (op real : String) : Verdict := Id.run do
  let toks := splitNE op " "
  let v := ((toks.find? (·.startsWith "V:")).map fun t => ((t.drop 2).toString.toNat?.getD 4)).getD 4
  let o := ((toks.find? (·.startsWith "O:")).map fun t => ((t.drop 2).toString.toNat?.getD 7)).getD 7
  let bodyHex := (toks.filter fun t => !(t.startsWith "V:" || t.startsWith "O:" || t.startsWith "M:" || t.startsWith "E:")).head?.getD ""
  let body : List Nat := ((unhex bodyHex).getD []).map (·.toNat)
  let rmid := v == 5 || v == 66     -- SupportsResultMetadataId
  let (part, re) : String × String :=
    if o == 7 then match decodeQuery body with
      | some p => (s!"ok:q={hx p.query};c={p.consistency}", hx (encodeQuery p))
      | none => ("err", "-")
    else if o == 10 then match decodeExecute rmid body with
      | some p => (s!"ok:id={hx p.id};rm={hx p.resultMetadataId};c={p.consistency}", hx (encodeExecute rmid p))
      | none => ("err", "-")
    else match decodeBatch body with
      | some p =>
        let ch := ",".intercalate (p.children.map fun | .query q _ => s!"0:{hx q}" | .prepared id _ => s!"1:{hx id}")
        (s!"ok:t={p.type};n={p.children.length};ch={ch};c={p.consistency}", hx (encodeBatch p))
      | none => ("err", "-")
  let rt := splitNE real " "
  let field (k : String) : String := ((rt.find? (·.startsWith k)).map fun t => (t.drop k.length).toString).getD "?"
  let rpart := field "part="; let rre := field "re="; let rref := field "ref="
  let sig := s!"v{v}-o{o}-{if rref.startsWith "ok" then "valid" else "invalid"}-{if rpart.startsWith "ok" then "acc" else "rej"}"
  if real.startsWith "panic" then return { kind := "spec", sig, key := "C11:panic", detail := s!"partial codec crashed: {op}" }
  -- Agrees(v, body): whenever the reference decoder accepts the body
  if rref.startsWith "ok" then
    if rpart != rref then
      return { kind := "spec", sig, key := s!"C11:fields-differ-v{v}-op{o}", detail := s!"partial codec extracts {rpart}, reference {rref}: {op}" }
    -- re-encoding must reproduce the bytes (bodies whose [long string] length is negative are not reference output)
    if rre != bodyHex && !(o != 10 && rre.length < bodyHex.length + 1 && (body.take 1).all (· ≥ 128)) then
      return { kind := "spec", sig, key := s!"C11:reencode-differs-v{v}-op{o}", detail := s!"re-encoded {rre}: {op}" }
  if rre.endsWith "!len" then
    return { kind := "spec", sig, key := "C11:encoded-length", detail := s!"EncodedLength disagrees with Encode: {op}" }
  if part != rpart || (re != rre && rre != "-") then return { kind := "diff", sig, detail := s!"part={part} re={re}" }
  return { kind := "ok", sig }

end CqlVerif.Drv.CodecStream
