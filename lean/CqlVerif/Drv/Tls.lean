import CqlVerif.Model.Tls
import CqlVerif.Drv.Util
namespace CqlVerif.Drv.TlsStream
open CqlVerif CqlVerif.Drv CqlVerif.Tls

def parseInt (s : String) : Int :=
  if s.startsWith "-" then -((s.drop 1).toString.toNat?.getD 0 : Int) else (s.toNat?.getD 0 : Int)

def parseNames (s : String) : List Nat :=
  (if s.any (· == 'h') then [1] else []) ++ (if s.any (· == 'x') then [2] else [])

def parseCert (s : String) : Option Cert :=
  match s.splitOn "." with
  | [id, sg, nm, nb, na, ca] =>
    some { id := id.toNat?.getD 0, signer := sg.toNat?.getD 0, names := parseNames nm, notBefore := parseInt nb, notAfter := parseInt na, isCA := ca == "1" }
  | _ => none

def bundleCA : Cert := { id := 1, signer := 1, names := [], notBefore := -3600, notAfter := 36000, isCA := true }
def bundle : Bundle := { roots := [bundleCA], host := 1, clientCert := 900 }

def handle (op real : String) : Verdict := Id.run do
  let toks := splitNE op " "
  let get (p : String) := ((toks.find? (·.startsWith p)).map fun t => (t.drop p.length).toString).getD ""
  let target := get "T:"
  let age : Int := parseInt (get "A:")
  let chain := ((get "L:").splitOn ";").filterMap parseCert
  let o := if target == "meta" then connectMeta bundle chain age else connectNode bundle (if target == "hostid" then 11 else 10) chain age
  -- an IP literal is never sent as SNI (RFC 6066; crypto/tls omits it): the metadata service of such a bundle sees none
  let sniName := if target == "meta" then (if toks.contains "H:ip" then "-" else "host") else if target == "hostid" then "hostid" else "cp"
  let model := s!"connected={if o.connected then 1 else 0} bytes={if o.connected then 1 else 0} sni={sniName} clientcert={if o.presents.isSome then "bundle" else "none"}"
  let sig := s!"{target}-{if o.connected then "accept" else "reject"}-len{chain.length}"
  if real.startsWith "env-error" || real.startsWith "panic" || real.startsWith "bad-op" || real.startsWith "bundle-error" then
    return { kind := "diff", sig, key := "harness:" ++ real, detail := real }
  let rt := splitNE real " "
  let rget (p : String) := ((rt.find? (·.startsWith p)).map fun t => (t.drop p.length).toString).getD ""
  -- the property on the observation itself: an untrusted server is rejected before any application byte
  if !o.connected && (rget "connected=" == "1" || rget "bytes=" == "1") then
    return { kind := "spec", sig, key := s!"C19:accepted-untrusted:{target}", detail := s!"a chain the bundle does not vouch for was accepted: {op} -> {real}" }
  if !o.connected && rget "clientcert=" != "none" then
    return { kind := "spec", sig, key := s!"C19:client-cert-to-untrusted:{target}", detail := s!"{op} -> {real}" }
  if rget "sni=" != sniName then
    return { kind := "spec", sig, key := s!"C19:sni:{target}", detail := s!"expected sni={sniName}: {op} -> {real}" }
  if o.connected && rget "clientcert=" != "bundle" && rget "connected=" == "1" then
    return { kind := "spec", sig, key := s!"C19:client-cert:{target}", detail := s!"the bundle's client certificate was not presented: {op} -> {real}" }
  if model ≠ real then return { kind := "diff", sig, detail := model }
  return { kind := "ok", sig }

end CqlVerif.Drv.TlsStream
