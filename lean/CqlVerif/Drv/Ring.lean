import CqlVerif.Model.Ring
import CqlVerif.Model.Md5
import CqlVerif.Drv.Idem
namespace CqlVerif.Drv.RingStream
open CqlVerif CqlVerif.Drv CqlVerif.Ring

def hexStr (s : String) : String := hex (s.toUTF8.toList)

def parseAddr (a : String) : Option Addr × String :=
  match a.splitOn "@" with
  | n :: h :: _ => (((unhex h).map fun bs => bs.map (·.toNat)), n)   -- a third field is the spelling the proxy was given
  | _ => (none, a)

def renderVal : Val → String
  | .str s => "s" ++ hexStr s
  | .ip n => "ip" ++ n
  | .uuidSchema => "u4f2b29e659b54e2d8fd601e32e67f0d7"
  | .hostId n => "u" ++ Md5.hex (Md5.nameBasedUUID n.toUTF8.toList)   -- `nameBasedUUID(address text)`, computed by Model/Md5
  | .int n => s!"i{n}"
  | .strList l => "l[" ++ ",".intercalate (l.map hexStr) ++ "]"
  | .timeuuid => "timeuuid"

def handle (op real : String) : Verdict := Id.run do
  let toks := splitNE op " "
  let get (k : String) : String := ((toks.find? (·.startsWith k)).map fun t => (t.drop 2).toString).getD "-"
  let (rpc, rpcName) := if get "A:" == "-" then (none, "") else parseAddr (get "A:")
  let peers : List PeerCfg := if get "P:" == "-" then [] else (get "P:").splitOn ";" |>.map fun ps =>
    match ps.splitOn "/" with
    | a :: dc :: tok :: _ =>
      let (ad, n) := if a == "" then (none, "") else parseAddr a
      { addr := ad, name := n, dc, tokens := if tok == "" then [] else tok.splitOn "+" }
    | _ => { addr := none }
  let cfg : Cfg := { rpc, rpcName, dc := if get "D:" == "-" then "" else get "D:", tokens := if get "T:" == "-" then [] else (get "T:").splitOn ",",
                     peers, dse := get "X:" == "1" }
  let q : List UInt8 := (unhex (get "Q:")).getD []
  let data : Array Nat := (q.map (·.toNat)).toArray
  let sig0 := s!"p{peers.length}-{if cfg.tokens.isEmpty then "calc" else "own"}"
  if real.startsWith "panic" then return { kind := "spec", sig := sig0, key := "C10:panic", detail := s!"{op} -> {real}" }
  match buildNodes cfg with
  | .error e =>
    let want := match e with
      | .peersWithoutRpc => "connect-error:peers-without-rpc-address"
      | .peerWithoutRpc => "connect-error:peer-without-rpc-address"
      | .peerWithoutTokens => "connect-error:peer-without-tokens"
    if real == want then return { kind := "ok", sig := sig0 ++ "-err" }
    -- a configuration the documentation rules out must be refused (C20), and only those
    return { kind := "spec", sig := sig0, key := "C10:config-" ++ want, detail := s!"expected {want}: {op} -> {real}" }
  | .ok nodes =>
    let h := Select.isQueryHandled (IdemStream.lexerOf data) (4 * data.size + 16) {}
    if !h.handled || h.err || h.kind != .select then
      if real.startsWith "invalid:unsupported" || real.startsWith "none" then return { kind := "ok", sig := sig0 ++ "-unsupported" }
      return { kind := "diff", sig := sig0, detail := s!"model: not a handled select (err={h.err})" }
    let table := Ring.strOf h.table.text
    let ans := answer cfg nodes "127.0.0.1" table h.sels
    let model := match ans with
      | .invalidColumn => "invalid:column"
      | .doesntExist => "invalid:doesnt-exist"
      | .noValue => "invalid:novalue"
      | .legacyEmpty => "legacy"
      | .rows cols rows =>
        let cs := ",".intercalate (cols.map fun c => s!"system.{c.table}.{c.name}:{c.type}")
        " ".intercalate ([s!"cols={cs}", s!"n={rows.length}"] ++ rows.map fun r => "r=" ++ "|".intercalate (r.map renderVal))
    let sig := s!"{sig0}-{table}-{match ans with | .rows _ r => s!"rows{r.length}" | _ => "err"}"
    -- RingOK clauses that need no model
    if (splitNE real " ").any (fun t => t == "column-count-mismatch" || t == "row-width-mismatch") then
      return { kind := "spec", sig, key := "C10:row-shape", detail := s!"{op} -> {real}" }
    if (splitNE real " ").any (fun t => (t.splitOn "hostid-unknown").length > 1 || (t.splitOn "bad-").length > 1) then
      return { kind := "spec", sig, key := "C10:value-does-not-decode", detail := s!"{op} -> {real}" }
    if model == "legacy" then
      if (splitNE real " ").contains "n=0" then return { kind := "ok", sig } else return { kind := "diff", sig, detail := model }
    if model == "invalid:novalue" && real.startsWith "error:no_column_value" then return { kind := "ok", sig }
    if model ≠ real then return { kind := "spec", sig, key := "C10:rows-differ", detail := s!"expected {model}: {op} -> {real}" }
    return { kind := "ok", sig }

end CqlVerif.Drv.RingStream
