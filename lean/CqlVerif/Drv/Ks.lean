import CqlVerif.Model.Keyspace
import CqlVerif.Drv.Util
namespace CqlVerif.Drv.KsStream
open CqlVerif CqlVerif.Drv CqlVerif.Keyspace

def bytesToString (bs : List UInt8) : String := String.ofList (bs.map fun b => Char.ofNat b.toNat)
def hexOfString (s : String) : String := hex (s.toList.map fun c => UInt8.ofNat c.toNat)

def missing (k : String) : Bool := ["missing", "missing1", "Missing", "missing_ks"].contains k

def handle (op real : String) : Verdict := Id.run do
  let toks := splitNE op " "
  let mut s : St := { clients := [] }
  let mut outs : List String := []
  let mut specBad : Option String := none
  let mut notFwd : Option String := none
  let realToks := splitNE real " "
  for t in toks do
    if t.startsWith "C" then
      match t.splitOn ":" with
      | [_, v, comp] => s := { s with clients := s.clients ++ [{ version := v.toNat?.getD 4, compression := if comp == "-" then "" else comp }] }
      | _ => pure ()
    else
      let arg := (t.drop 1).toString
      let realTok := realToks.getD outs.length "?"
      match t.front with
      | 'u' =>
        match arg.splitOn ":" with
        | [i, hx] =>
          -- the statement may end in a terminator: `USE ks ;` names `ks` (the statement grammar is C09's subject)
          let raw0 := bytesToString ((unhex hx).getD [])
          let trimR (x : String) : String := (x.dropEndWhile (· == ' ')).toString
          let raw1 := trimR raw0
          let raw := if raw1.endsWith ";" then trimR (raw1.dropEnd 1).toString else raw1
          let (r, s') := useKs missing s (i.toNat?.getD 0) raw
          s := s'
          match r with
          | some (.setKeyspace n) => outs := outs ++ ["set:" ++ hexOfString n]
          | some .backendError => outs := outs ++ ["err:backend"]
          | _ => pure ()
        | _ => pure ()
      | 's' =>
        -- a statement on a virtual table is answered by the proxy, with exactly one frame, and nothing reaches a backend
        -- (which answer - rows, INVALID, another error - is C10's subject)
        if realTok.startsWith "local:" && !(realTok.any (· == '+')) then outs := outs ++ [realTok]
        else if (realTok.splitOn "+extra").length > 1 then
          return { kind := "spec", sig := s!"c{s.clients.length}", key := "C01:two-replies", detail := s!"a statement the proxy answers itself got more than one frame ({realTok}): {op} -> {real}" }
        else if (realTok.splitOn "+fwd").length > 1 then
          return { kind := "spec", sig := s!"c{s.clients.length}", key := "C09:answered-and-forwarded", detail := s!"a statement the proxy answered itself also reached a backend ({realTok}): {op} -> {real}" }
        else if realTok == "none" then
          return { kind := "spec", sig := s!"c{s.clients.length}", key := "C01:unanswered", detail := s!"a statement on a virtual table was not answered: {op} -> {real}" }
        else outs := outs ++ ["local:?"]
      | 'q' | 'e' =>
        let i := arg.toNat?.getD 0
        -- KeyspaceOK on the real observation, from the client's own last successful USE
        match s.clients[i]? with
        | some c =>
          let want := s!"at:{hexOfString (if c.keyspace = "" then "" else canon c.keyspace)}/{c.version}/{c.compression}"
          if realTok.startsWith "at:" && realTok != want then
            specBad := some s!"request of client {i} ran {realTok}, its session says {want}"
        | none => pure ()
        let (r, s') := forward missing s i
        s := s'
        match r with
        | some (.forwarded k v c) =>
          -- a request the client's session allows reaches a backend, whatever USE statements - accepted or rejected - came before
          -- (an exhausted query plan is what a request meets while a pooled connection that was just lost is being
          -- replaced: that is timing, not the session's keyspace)
          if realTok.startsWith "notforwarded" && (realTok.splitOn "exhausted_query_plan").length == 1 then
            notFwd := some s!"request of client {i} was not forwarded ({realTok}) although its keyspace in force is '{k}'"
          outs := outs ++ [s!"at:{hexOfString k}/{v}/{c}"]
        | some .invalidKeyspace => outs := outs ++ ["notforwarded:Attempted_to_use_invalid_keyspace"]
        | _ => pure ()
      | _ => pure ()
  let model := " ".intercalate outs
  let sig := s!"c{s.clients.length}-s{s.sessions.length}"
  if realToks.any (·.endsWith "+extra") then
    return { kind := "spec", sig, key := "C01:two-replies", detail := s!"a USE was answered with more than one frame: {op} -> {real}" }
  if let some w := specBad then
    return { kind := "spec", sig, key := "C07:wrong-session", detail := s!"{w}: {op} -> {real}" }
  if let some w := notFwd then
    return { kind := "spec", sig, key := "C07:not-forwarded", detail := s!"{w}: {op} -> {real}" }
  if model ≠ real then return { kind := "diff", sig, detail := model }
  return { kind := "ok", sig }

end CqlVerif.Drv.KsStream
