import CqlVerif.Spec.Names
import CqlVerif.Drv.Util
namespace CqlVerif.Drv.NamesStream
open CqlVerif CqlVerif.Drv

def handle (op real : String) : Verdict :=
  match op.splitOn ":" with
  | [kind, hx] =>
    match unhex hx with
    | none => { kind := "diff", detail := "bad hex" }
    | some bs =>
      let s := bs.map (·.toNat)
      let txt := String.ofList (bs.map fun c => if 32 ≤ c.toNat ∧ c.toNat < 127 then Char.ofNat c.toNat else '?')
      let spec := if kind = "version" then NamesSpec.versionOf s else NamesSpec.consistencyOf s
      let want := match spec with | some v => toString v | none => "rejected"
      let sig := s!"{kind}-{want}"
      if want = real then { kind := "ok", sig }
      else { kind := "spec", sig, key := s!"{kind} name '{NamesSpec.lower s |>.map Char.ofNat |> String.ofList}' selects {real}", detail := s!"{kind} option value '{txt}' selects {real}; documented meaning: {want}" }
  | _ => { kind := "diff", detail := "bad op" }

end CqlVerif.Drv.NamesStream
