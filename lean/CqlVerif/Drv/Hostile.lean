import CqlVerif.Model.Hostile
import CqlVerif.Drv.Util
namespace CqlVerif.Drv.HostileStream
open CqlVerif CqlVerif.Drv CqlVerif.Hostile CqlVerif.Front

def renderOut : Out → String
  | .closed => "closed" | .perrVersion => "perr-version" | .perrCompression => "perr-compression"
  | .perr => "perr" | .supported => "supported" | .ready => "ready" | .routed => "routed"

/-- model events → the tokens the harness prints; `none` at the end = stop comparing (unmodelled) -/
def renderEvs : List Ev → List String × Bool
  | [] => (["open"], true)
  | .out .closed :: _ => (["closed"], true)
  | .out o :: t => let (l, c) := renderEvs t; (renderOut o :: l, c)
  | .waiting :: _ => (["open"], true)
  | .unmodelled :: _ => ([], false)

/-- `a` is a subsequence of `b` -/
def subseq : List String → List String → Bool
  | [], _ => true
  | _ :: _, [] => false
  | x :: xs, y :: ys => if x == y then subseq xs ys else subseq (x :: xs) ys

def agrees (model real : List String) : Bool :=
  let term := model.getLast?.getD "open"
  let sync (l : List String) := l.dropLast.filter (· != "routed")
  let routed (l : List String) := (l.filter (· == "routed")).length
  if real.getLast? != some term then false
  else if term == "closed" then subseq (sync real) (sync model) && routed real ≤ routed model
  else sync real == sync model && routed real == routed model

def crashClass (t : String) : String :=
  if (t.splitOn "slice_bounds").length > 1 then "slice-bounds"
  else if (t.splitOn "index_out_of_range").length > 1 then "index-out-of-range"
  else if (t.splitOn "nil_pointer").length > 1 then "nil-dereference"
  else if (t.splitOn "concurrent_map").length > 1 then "concurrent-map"
  else if (t.splitOn "timeout").length > 1 then "wedged"
  else if (t.splitOn "out_of_memory").length > 1 then "out-of-memory"
  else "other"

def handle (op real : String) : Verdict := Id.run do
  let toks := splitNE op " "
  let max := ((toks.find? (·.startsWith "M:")).map fun t => ((t.drop 2).toString.toNat?.getD 4)).getD 4
  let attack := toks.filter fun t => !(t.startsWith "M:")
  let fam := (attack.head?.getD "").take 1 |>.toString
  let rtoks := splitNE real " "
  let kindOf (a : String) : String := ((a.splitOn ":").take 2 |> ":".intercalate)
  let sig0 := if fam == "C" then s!"C-m{max}" else kindOf (attack.head?.getD "")
  -- the property itself: the process survives and the canary is served
  match rtoks.find? (·.startsWith "crash:") with
  | some c => return { kind := "spec", sig := sig0, key := s!"C17:crash:{crashClass c}:{fam}", detail := s!"the proxy process died ({c}) on: {op}" }
  | none => pure ()
  match rtoks.find? (·.startsWith "canary=") with
  | some c =>
    if c != "canary=ok" then
      return { kind := "spec", sig := sig0, key := s!"C17:canary:{fam}", detail := s!"a well-behaved client was not served correctly ({c}) during: {op}" }
  | none => return { kind := "diff", sig := sig0, key := "harness:no-observation", detail := real }
  let att := ((rtoks.find? (·.startsWith "att=")).map fun t => splitNE (t.drop 4).toString ",").getD []
  if fam == "C" then
    let bytes : List Nat := (attack.filter (·.startsWith "C:")).flatMap fun a => ((unhex (a.drop 2).toString).getD []).map (·.toNat)
    let evs := clientStream max (bytes.length + 1) false bytes
    let (model, complete) := renderEvs evs
    let sig := s!"C-m{max}-{model.take 3}"
    if !complete then
      if model.isPrefixOf att then return { kind := "ok", sig := sig ++ "-unmodelled" }
      else return { kind := "diff", sig, detail := s!"model prefix {model} real {att}" }
    -- the offending connection is answered with an error or closed: exactly what the model says.
    -- Answers to forwarded requests arrive asynchronously (their position among the others is not
    -- fixed), and a close discards whatever the writer had not flushed yet.
    if agrees model att then return { kind := "ok", sig }
    return { kind := "diff", sig, detail := s!"model {model} real {att}" }
  else if fam == "W" || fam == "T" || fam == "U" || fam == "H" then
    return { kind := "ok", sig := sig0 }
  else if fam == "Z" then
    if att ≠ ["routed", "open"] then return { kind := "diff", sig := sig0, detail := s!"real {att}" }
    return { kind := "ok", sig := sig0 }
  else
    return { kind := "ok", sig := s!"{sig0}-{att}" }

end CqlVerif.Drv.HostileStream
