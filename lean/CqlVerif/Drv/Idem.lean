import CqlVerif.Model.Lexer
import CqlVerif.Model.Parser
import CqlVerif.Drv.Util
namespace CqlVerif.Drv.IdemStream
open CqlVerif CqlVerif.Drv

/-- `IdentifierFromString(l.id)` on the identifier bytes of a token -/
def identOf (bs : Array Nat) (lo hi : Nat) : Parser.Ident :=
  let raw := (bs.toList.drop lo).take (hi - lo)
  match raw with
  | 34 :: rest => { text := rest.dropLast, ignoreCase := false }
  | _ => { text := raw, ignoreCase := true }

/-- the real pipeline's lexer interface: Model.Lexer over the generated tables -/
def lexerOf (data : Array Nat) : Parser.Lexer := fun p =>
  let t := Lexer.next data p
  { kind := t.kind, stop := t.stop, id := if t.kind = Gen.Lex.tkIdentifier then identOf data t.idLo t.idHi else {} }

def classifyBytes (bs : List UInt8) : String :=
  let data : Array Nat := (bs.map (·.toNat)).toArray
  let r := Parser.classify (lexerOf data) (4 * data.size + 16)
  if r.oof then "oof" else if r.idem then (if r.err then "1e" else "1") else (if r.err then "0e" else "0")

def handle (op real : String) : Verdict := Id.run do
  let toks := splitNE op " "
  let truth := ((toks.find? (·.startsWith "T:")).map fun t => (t.drop 2).toString).getD "-"
  let plain := ((toks.find? (·.startsWith "P:")).map fun t => (t.drop 2).toString).getD "0"
  let texts := toks.filter fun t => !(t.startsWith "T:" || t.startsWith "P:")
  let reals := splitNE real " "
  let models := texts.map fun h => classifyBytes ((unhex h).getD [])
  let sig := s!"t{truth}p{plain}-{models.head?.getD "?"}"
  let verdictOf (s : String) : Bool := s.startsWith "1"
  -- Spec on the real verdicts
  if reals.any (· == "panic") then
    return { kind := "spec", sig, key := "C06:classifier-panic", detail := s!"the classifier crashed: {op}" }
  if truth == "0" && reals.any verdictOf then
    return { kind := "spec", sig, key := "C06:unsound", detail := s!"a statement containing a documented non-idempotent construct was classified idempotent: {op} -> {real}" }
  if plain == "1" && reals.any (fun r => !verdictOf r) then
    return { kind := "spec", sig, key := "C06:plain-rejected", detail := s!"a plain mutation was classified not idempotent: {op} -> {real}" }
  if truth != "-" && !(reals.all fun r => verdictOf r == verdictOf (reals.head?.getD "0")) then
    return { kind := "spec", sig, key := "C06:variant-changes-verdict", detail := s!"case/whitespace/terminator variants disagree: {op} -> {real}" }
  if reals.any (fun r => r == "1e") then
    return { kind := "spec", sig, key := "C06:error-but-idempotent", detail := s!"unparseable yet idempotent: {op} -> {real}" }
  if models.any (· == "oof") then return { kind := "diff", sig, detail := "model ran out of fuel" }
  if models ≠ reals then return { kind := "diff", sig, detail := " ".intercalate models }
  return { kind := "ok", sig }

end CqlVerif.Drv.IdemStream
