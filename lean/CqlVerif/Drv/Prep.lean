import CqlVerif.Model.Prepared
import CqlVerif.Drv.Util
namespace CqlVerif.Drv.PrepStream
open CqlVerif CqlVerif.Drv CqlVerif.Prepared

def render : Reply → String
  | .ok => "ok" | .prepared => "prepared" | .unprepared => "unprepared" | .proxyerr => "proxyerr" | .err => "err"

def handle (op real : String) : Verdict := Id.run do
  let toks := splitNE op " "
  let hosts := ((toks.find? (·.startsWith "H:")).map fun t => ((t.drop 2).toString.toNat?.getD 1)).getD 1
  let mut s := Prepared.init hosts
  let mut outs : List String := []
  let mut rep : List String := []
  let mut preparedViaProxy : List Nat := []
  let realToks := splitNE real " "
  let mut specBad : Option String := none
  for t in toks do
    if t.startsWith "H:" || t.startsWith "Z:" then continue
    let c := t.front
    let arg := (t.drop 1).toString
    let act : Option Act := match c with
      -- (upper case: the same from a second client on another session; the prepared cache is the proxy's, not a session's)
      | 'p' | 'P' => arg.toNat?.map .prepare
      | 'e' | 'b' | 'E' | 'B' => arg.toNat?.map .execute
      | 'f' => arg.toNat?.map .forget
      | 'x' => match arg.splitOn ":" with
        | [h, "err"] => h.toNat?.map (.failNext · .err)
        | [h, "drop"] => h.toNat?.map (.failNext · .drop)
        | [h, "hang"] => h.toNat?.map (.failNext · .drop)   -- never answered, then the node is removed: the connection is closed by the proxy
        | [h, "inv"] => h.toNat?.map (.failNext · .inv)
        | _ => none
      | 'a' => some .addHost
      | _ => none
    match act with
    | none => pure ()
    | some a =>
      -- PreparedOK on the real observation: no UNPREPARED for a statement that is in the proxy's cache
      match a with
      | .execute k =>
        if s.cache k && realToks.getD outs.length "?" == "unprepared" then
          specBad := some s!"client saw UNPREPARED for statement {k}, which it had prepared through the proxy"
        -- the only backend errors in this stream are answers to PREPAREs: one of them reaching the client in
        -- answer to an EXECUTE means the re-prepare's failure was handed over instead of trying the next host
        if s.cache k && realToks.getD outs.length "?" == "err" then
          specBad := some s!"client got the error of the proxy's own re-PREPARE in answer to EXECUTE of statement {k}"
      | _ => pure ()
      let (r, s', hs) := Prepared.step s a
      s := s'
      rep := rep ++ hs.map fun h => s!"h{h}"
      match r with
      | some r => outs := outs ++ [render r]
      | none => pure ()
      match a, r with
      | .prepare k, some .prepared => preparedViaProxy := k :: preparedViaProxy
      | _, _ => pure ()
  let model := " ".intercalate outs ++ " reprep=" ++ ",".intercalate rep
  let sig := s!"h{hosts}-n{outs.length}-rp{rep.length}"
  if let some w := specBad then
    return { kind := "spec", sig, key := (if w.startsWith "client saw" then "C08:unprepared-to-client" else "C08:reprepare-error-to-client"), detail := s!"{w}: {op} -> {real}" }
  if realToks.any (· == "none") then
    return { kind := "spec", sig, key := "C08:unanswered", detail := s!"an EXECUTE/PREPARE was never answered: {op} -> {real}" }
  if model ≠ real then return { kind := "diff", sig, detail := model }
  return { kind := "ok", sig }

end CqlVerif.Drv.PrepStream
