import CqlVerif.Model.Select
import CqlVerif.Drv.Idem
namespace CqlVerif.Drv.HandledStream
open CqlVerif CqlVerif.Drv CqlVerif.Select

def handle (op real : String) : Verdict := Id.run do
  let toks := splitNE op " "
  let truth := ((toks.find? (·.startsWith "T:")).map fun t => (t.drop 2).toString).getD "-"
  let ksHex := ((toks.find? (·.startsWith "K:")).map fun t => (t.drop 2).toString).getD "-"
  let q := (toks.filter fun t => !(t.startsWith "T:" || t.startsWith "K:")).head?.getD ""
  let ksBytes : List Nat := if ksHex == "-" then [] else ((unhex ksHex).getD []).map (·.toNat)
  -- parser.IdentifierFromString(keyspace)
  let ks : Parser.Ident := match ksBytes with
    | 34 :: rest => { text := rest.dropLast, ignoreCase := false }
    | _ => { text := ksBytes, ignoreCase := true }
  let data : Array Nat := (((unhex q).getD []).map (·.toNat)).toArray
  let h := isQueryHandled (IdemStream.lexerOf data) (4 * data.size + 16) ks
  let kind := match h.kind with | .none => "none" | .select => "select" | .use => "use"
  let realToks := splitNE real " "
  let field (k : String) : String := ((realToks.find? (·.startsWith k)).map fun t => (t.drop k.length).toString).getD "?"
  let sig := s!"t{truth}-{kind}-{h.handled}"
  if real == "panic" then return { kind := "spec", sig, key := "C09:panic", detail := s!"IsQueryHandled crashed: {op}" }
  -- Local(ks, stmt) from the generator's ground truth
  if truth == "1" && field "handled=" != "1" then
    return { kind := "spec", sig, key := "C09:system-read-forwarded", detail := s!"a USE / system-table SELECT would be forwarded to the backend: {op} -> {real}" }
  if truth == "0" && field "handled=" != "0" then
    return { kind := "spec", sig, key := "C09:intercepted-foreign-statement", detail := s!"a statement that is not a USE / system-table SELECT is answered by the proxy: {op} -> {real}" }
  if h.oof then return { kind := "diff", sig, detail := "model out of fuel" }
  let tableHex := hex (h.table.text.map UInt8.ofNat)
  let model := s!"handled={if h.handled then 1 else 0} err={if h.err then 1 else 0} kind={kind}"
  let realCmp := s!"handled={field "handled="} err={field "err="} kind={field "kind="}"
  if model ≠ realCmp then return { kind := "diff", sig, detail := model }
  if h.handled && h.kind == .select && (tableHex ≠ field "table=" || toString h.nsel ≠ field "nsel=") then
    return { kind := "diff", sig, detail := s!"{model} table={tableHex} nsel={h.nsel}" }
  return { kind := "ok", sig }

end CqlVerif.Drv.HandledStream
