import CqlVerif.Drv.Util
namespace CqlVerif.Drv.LateStream
open CqlVerif.Drv

/-- One connection's stream-id bookkeeping over a long history (Model/Core: `sendTo`, `release`; a caller
that stops waiting changes nothing in the connection's state, so its stream id stays taken until the
backend's answer arrives).  Every forwarded request must get its own answer, however late the answers to
abandoned internal requests come and however often the ids have been recycled in between. -/
def handle (op real : String) : Verdict := Id.run do
  let toks := splitNE op " "
  let mut total := 0
  let mut held := 0
  let mut answered := 0
  for t in toks do
    let n := (t.drop 1).toString.toNat?.getD 0
    match t.front with
    | 'r' => total := total + n; answered := answered + n
    | 'h' => total := total + n; held := held + n
    | 'a' => answered := answered + held; held := 0
    | _ => pure ()
  let model := s!"ok={answered}" ++ (if held > 0 then s!" unanswered={held}" else "")
  let timeouts := (toks.filter (·.startsWith "t")).length
  let sig := s!"t{timeouts}-n{if total > 4000 then "4k" else if total > 2040 then "2k" else "small"}"
  let rt := splitNE real " "
  match rt.find? (·.startsWith "misrouted:") with
  | some m => return { kind := "spec", sig, key := "C02:late-answer-misrouted", detail := s!"a request received an answer that was not its own ({m}): {op} -> {real}" }
  | none =>
    -- every backend frame in these histories answers a frame the connection sent, on the stream it was sent on:
    -- none of them may cost another request its answer
    if rt.contains "closed" || (held == 0 && rt.any (·.startsWith "unanswered=")) then
      return { kind := "spec", sig, key := "C02:late-answer-breaks-connection", detail := s!"an answer the connection had asked for was treated as unsolicited and requests lost theirs: {op} -> {real}" }
    if model ≠ real then return { kind := "diff", sig, detail := model }
    return { kind := "ok", sig }

end CqlVerif.Drv.LateStream
