import CqlVerif.Model.Cluster
import CqlVerif.Drv.Util
namespace CqlVerif.Drv.TopoStream
open CqlVerif CqlVerif.Drv CqlVerif.Cluster

def names (l : List Nat) : String := ",".intercalate ((l.mergeSort (· ≤ ·)).map fun h => s!"h{h}")

def handle (op real : String) : Verdict := Id.run do
  let toks := splitNE op " "
  let n := ((toks.find? (·.startsWith "H:")).map fun t => ((t.drop 2).toString.toNat?.getD 1)).getD 1
  let init := List.range n
  let mut listed := init          -- the backend's truth
  let mut total := n
  let mut s : St := { hosts := init, lb := init, pools := init }
  let mut outs : List String := []
  for t in toks do
    if t.startsWith "H:" then continue
    if t == "+" then
      listed := listed ++ [total]; total := total + 1
    else if t == "c" then
      -- a node joins and the announcements go on for several windows: the refresh asked for by the first has happened
      listed := listed ++ [total]; total := total + 1
      s := step s (.refresh 0 listed)
    else if t.startsWith "-" then
      let i := (t.drop 1).toString.toNat?.getD 0
      if i > 0 ∧ i < total then listed := listed.erase i
    else if t.startsWith "s:" then
      outs := outs ++ [if (t.drop 2).toString.startsWith "missing" then "sessfail" else "sessok"]
    else if t == "x" then
      s := step s .controlLost
    else if t == "w" then
      -- the refresh window has passed / the control connection has been re-established on host 0's view
      s := if s.connected then step s (.refresh 0 listed) else step s (.controlRestored 0 listed)
    else if t == "p" then
      outs := outs ++ [s!"lb={names s.lb}/sess={names s.pools}/out={if outage s then "1" else "0"}"]
  let model := " ".intercalate outs
  let sig := s!"h{n}-t{total}-p{outs.length}"
  if (splitNE real " ").any (·.startsWith "crash:") then
    return { kind := "spec", sig, key := "C16:listener-crash", detail := s!"an event history crashed the process: {op} -> {real}" }
  if model ≠ real then
    -- routing must follow the peers table after the window: the model's view *is* the peers table
    return { kind := "spec", sig, key := "C16:routing-differs-from-peers-table", detail := s!"expected {model}: {op} -> {real}" }
  return { kind := "ok", sig }

end CqlVerif.Drv.TopoStream
