import CqlVerif.Model.Config
import CqlVerif.Spec.Names
import CqlVerif.Drv.Util
namespace CqlVerif.Drv.CfgStream
open CqlVerif CqlVerif.Drv CqlVerif.Config

/-- "30s", "500ms", "2m", "1h" → nanoseconds -/
def parseDur (s : String) : Int :=
  let digits := (s.takeWhile Char.isDigit).toString
  let unit := (s.dropWhile Char.isDigit).toString
  let n : Int := digits.toNat?.getD 0
  if unit == "ms" then n * 1000000 else if unit == "s" then n * 1000000000
  else if unit == "m" then n * 60000000000 else if unit == "h" then n * 3600000000000 else n

def parseI (s : String) : Int := if s.startsWith "-" then -((s.drop 1).toString.toNat?.getD 0 : Int) else (s.toNat?.getD 0 : Int)

def bytesOf (s : String) : List Nat := s.toList.map Char.toNat

/-- the value an option ends up with: the YAML file is applied over the parsed command line, and a flag beats
the environment variable of the same option -/
def effective (toks : List String) (name : String) : Option String :=
  let find (src : String) := (toks.find? (·.startsWith (src ++ ":" ++ name ++ "="))).map fun t => (t.drop (src.length + 1 + name.length + 1)).toString
  match find "Y" with
  | some v => some v
  | none => match find "F" with
    | some v => some v
    | none => if name == "unsupported-write-consistency-override" then none else find "E"   -- that option has no environment variable

def parsePeers (s : String) : List Peer :=
  (s.splitOn ";").map fun p =>
    let f := p.splitOn "|"
    let get (i : Nat) := let v := f.getD i "-"; if v == "-" then "" else v
    { rpcAddr := get 0, dc := get 1, tokens := if get 2 == "" then [] else (get 2).splitOn "+" }

def handle (op real : String) : Verdict := Id.run do
  let toks := splitNE op " "
  let backend := ((toks.find? (·.startsWith "B:")).map fun t => (t.drop 2).toString).getD "none"
  let opt (n d : String) := (effective toks n).getD d
  -- every consistency name given anywhere must be a documented one
  let consVals := (toks.filter fun t => !(t.startsWith "E:unsupported-write-consistency-override=")).filterMap fun t =>
    let body := (t.drop 2).toString
    if body.startsWith "unsupported-write-consistencies=" then some ((body.drop 32).toString.splitOn ",")
    else if body.startsWith "unsupported-write-consistency-override=" then some [(body.drop 39).toString]
    else none
  let namesOk := consVals.flatten.all fun n => (NamesSpec.consistencyOf (bytesOf n)).isSome
  let badYaml := toks.any (·.startsWith "X:")
  let cfg : Cfg := {
    hasBackend := backend != "none"
    heartbeat := parseDur (opt "heartbeat-interval" "30s")
    idleTimeout := parseDur (opt "idle-timeout" "60s")
    numConns := parseI (opt "num-conns" "1")
    version := NamesSpec.versionOf (bytesOf (opt "protocol-version" "v4"))
    maxVersion := NamesSpec.versionOf (bytesOf (opt "max-protocol-version" "v4"))
    rpcAddr := opt "rpc-address" ""
    tokens := match effective toks "tokens" with | some t => t.splitOn "," | none => []
    peers := ((toks.find? (·.startsWith "P:")).map fun t => parsePeers (t.drop 2).toString).getD []
    namesOk := namesOk }
  let verdict := validate cfg
  let model := match verdict, badYaml with
    | _, true => "refused:1"          -- a configuration file that cannot be read as one is not a configuration to run with
    | some _, _ => "refused:1"
    | none, _ =>
      -- the override in force: the named level (default LOCAL_QUORUM); it is applied to a write whose level is listed
      let ov := match effective toks "unsupported-write-consistencies" with
        | some _ => s!",ov={(NamesSpec.consistencyOf (bytesOf (opt "unsupported-write-consistency-override" "LOCAL_QUORUM"))).getD 99}"
        | none => ""
      s!"started:ver={cfg.version.getD 0},max={cfg.maxVersion.getD 0}{ov}"
  let sig := match verdict with
    | some r => s!"{backend}-refuse-{((reprStr r).takeWhile (· != ' ')).toString}"
    | none => s!"{backend}-start{if badYaml then "-badyaml" else ""}"
  if real.startsWith "env-error" || real == "timeout" || real == "no-output" then return { kind := "diff", sig, key := "harness:" ++ real, detail := real }
  if real.startsWith "crash:" then return { kind := "spec", sig, key := "C20:crash-at-startup", detail := s!"{op} -> {real}" }
  -- ConfigOK on the observation: an inconsistent configuration must not start; a consistent one must run with
  -- exactly the named settings
  if model == "refused:1" && real.startsWith "started" then
    let why := if badYaml then "invalid-yaml" else match verdict with | some r => ((reprStr r).takeWhile (· != ' ')).toString | none => "?"
    return { kind := "spec", sig, key := s!"C20:started-despite-{why}", detail := s!"start-up went ahead: {op} -> {real}" }
  if model.startsWith "started" && real.startsWith "started" && model ≠ real then
    return { kind := "spec", sig, key := "C20:other-setting", detail := s!"expected {model}: {op} -> {real}" }
  if real.startsWith "refused:0" || (real.splitOn "exe=0").length > 1 || (real.splitOn "exe=running").length > 1 then return { kind := "spec", sig, key := "C20:refused-with-exit-0", detail := s!"{op} -> {real}" }
  if model ≠ real && !(model == "refused:1" && real.startsWith "refused:") then return { kind := "diff", sig, detail := model }
  return { kind := "ok", sig }

end CqlVerif.Drv.CfgStream
