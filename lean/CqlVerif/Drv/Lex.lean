import CqlVerif.Model.Lexer
import CqlVerif.Drv.Util
namespace CqlVerif.Drv.LexStream
open CqlVerif CqlVerif.Drv CqlVerif.Lexer

def handle (op real : String) : Verdict :=
  match unhex op with
  | none => { kind := "diff", detail := "bad hex" }
  | some bs =>
    let data : Array Nat := (bs.map (·.toNat)).toArray
    let toks := lexAll data (data.size + 2) 0
    let idKind := Gen.Lex.tkIdentifier
    let model := " ".intercalate (toks.map fun t =>
      let idBytes := if t.kind == idKind then (bs.drop t.idLo).take (t.idHi - t.idLo) else []
      s!"{t.kind}:{t.stop}:{hex idBytes}")
    let sig := s!"n{toks.length}"
    if real.startsWith "panic" then { kind := "spec", sig, key := "C06:lexer-panic", detail := s!"lexer crashed on {op}" }
    else if model ≠ real then { kind := "diff", sig, detail := model }
    else { kind := "ok", sig }

end CqlVerif.Drv.LexStream
