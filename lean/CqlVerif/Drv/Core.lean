import CqlVerif.Model.Core
import CqlVerif.Drv.Retry
namespace CqlVerif.Drv.CoreStream
open CqlVerif CqlVerif.Drv CqlVerif.Core

structure Sim where
  s : St
  hosts : Nat
  tried : Array (List Nat) := #[]       -- per request: hosts whose backend received an attempt
  cls : Array String := #[]             -- per request: reply class
  nq : Nat := 0

def wireOf (s : St) (hosts : Nat) : List (Nat × BS × Handle) :=
  (List.range hosts).flatMap fun c => (s.conn c).wire.map fun e => (c, e.1, e.2)

def findWire (s : St) (hosts : Nat) (tok : Nat) : Option (Nat × BS) :=
  ((wireOf s hosts).find? fun e => e.2.2.rid = tok).map fun e => (e.1, e.2.1)

/-- apply model actions, then record newly delivered frames and new replies -/
def apply (sim : Sim) (acts : List Act) (fwdClass : String) : Sim :=
  let before := wireOf sim.s sim.hosts
  let nout := sim.s.out.length
  let s' := acts.foldl step sim.s
  let after := wireOf s' sim.hosts
  let newW := after.filter fun e => !(before.any fun b => b.1 = e.1 ∧ b.2.1 = e.2.1 ∧ b.2.2 = e.2.2)
  let tried := newW.foldl (fun t e => t.modify e.2.2.rid (· ++ [e.1])) sim.tried
  let cls := (s'.out.drop nout).foldl (fun c e => c.set! e.rid (if e.origin.isSome then fwdClass else "proxyerr")) sim.cls
  { sim with s := s', tried, cls }

def handle (op real : String) : Verdict := Id.run do
  let toks := splitNE op " "
  let hosts := ((toks.find? (·.startsWith "H:")).map fun t => ((t.drop 2).toString.toNat?.getD 1)).getD 1
  let mut sim : Sim := { s := init, hosts }
  sim := { sim with s := (List.range hosts).foldl (fun s h => step s (.connect h 0 2048)) sim.s }
  let mut rmeta : Array (Nat × Int) := #[]   -- per request (client, stream)
  for t in toks do
    if t.startsWith "q" then
      match (t.drop 1).toString.splitOn ":" with
      | [c, st, k] =>
        let tok := sim.nq
        let plan := (List.range hosts).map fun i => (tok + i) % hosts
        let client := c.toNat?.getD 0
        let stream := st.toInt?.getD 0
        rmeta := rmeta.push (client, stream)
        sim := { sim with nq := tok + 1, tried := sim.tried.push [], cls := sim.cls.push "none" }
        sim := apply sim [.clientReq client stream (k == "i") plan []] "ok"
      | _ => pure ()
    else if t.startsWith "a" then
      match (t.drop 1).toString.splitOn ":" with
      | tokS :: rest =>
        let tok := tokS.toNat?.getD 0
        let oc := ":".intercalate rest
        match findWire sim.s hosts tok with
        | none => pure ()
        | some (c, b) =>
          let o := RetryStream.parseOutcome "qi" oc
          sim := apply sim [.backendReply c b o []] (if oc == "ok" then "ok" else "err")
      | _ => pure ()
    else if t.startsWith "k" then
      let tok := (t.drop 1).toString.toNat?.getD 0
      match findWire sim.s hosts tok with
      | none => pure ()
      | some (c, _) => sim := apply sim ([.connDead c, .closing c] ++ (List.replicate (sim.s.conn c).pending.length (.notifyNext c [])) ++ [.slotCleared c 0]) "ok"
    else pure ()
  let parts := (List.range sim.nq).map fun tok =>
    let (cl, st) := rmeta.getD tok (0, 0)
    s!"{tok}={",".intercalate ((sim.tried.getD tok []).map fun h => s!"h{h}")}/{sim.cls.getD tok "none"}@{cl}:{st}"
  let model := " ".intercalate parts
  let sig := s!"h{hosts}-q{sim.nq}-out{sim.s.out.length}"
  -- Spec oracles on the real observation: ExactlyOne / Routed
  if (splitNE real " ").any (·.startsWith "extra-frame") then
    return { kind := "spec", sig, key := "C01:extra-frame", detail := s!"a client received a frame no request accounts for: {real}" }
  if (splitNE real " ").any (·.startsWith "misrouted") then
    return { kind := "spec", sig, key := "C02:misrouted", detail := s!"a client received another request's answer: {real}" }
  if model ≠ real then return { kind := "diff", sig, detail := model }
  return { kind := "ok", sig }

end CqlVerif.Drv.CoreStream
