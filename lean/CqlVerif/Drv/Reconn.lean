import CqlVerif.Model.Reconnect
import CqlVerif.Drv.Util
namespace CqlVerif.Drv.ReconnStream
open CqlVerif CqlVerif.Drv CqlVerif.Reconnect

def handle (op real : String) : Verdict := Id.run do
  let toks := splitNE op " "
  let geti (k : String) : Int := ((toks.find? (·.startsWith k)).bind fun t => (t.drop 2).toString.toInt?).getD 0
  let base := geti "B:"
  let max := geti "M:"
  let mut p := Reconnect.new base max
  let reals := (splitNE real " ").map fun t => t.toInt?.getD (-999)
  let mut idx := 0
  let mut bad : Option String := none
  let mut specBad : Option String := none
  for t in toks do
    match t with
    | "n" =>
      let r := reals.getD idx (-999)
      idx := idx + 1
      -- the jitter is random: the real delay must be what the model yields for one of the 30 jitters
      let cands := (List.range 30).map fun (j : Nat) => (nextDelay p (85 + Int.ofNat j)).1
      if !(cands.contains r) then
        if bad.isNone then bad := some s!"delay #{idx}: real {r}, model one of {cands.head?.getD 0}..{cands.getLast?.getD 0}"
      -- C16 delay bounds on the real value
      if 0 < base ∧ base ≤ max ∧ base < 17592186044416 then
        if r < base ∨ r > max then specBad := some s!"delay {r} outside [{base}, {max}]"
      p := (nextDelay p 85).2
    | "r" => p := reset p
    | "c" => p := clone p
    | _ => pure ()
  let sig := s!"b{Nat.log2 base.toNat}-m{Nat.log2 max.toNat}"
  if let some w := specBad then
    return { kind := "spec", sig, key := "C16:delay-out-of-bounds", detail := s!"{w}: {op}" }
  if let some w := bad then return { kind := "diff", sig, detail := w }
  return { kind := "ok", sig }

end CqlVerif.Drv.ReconnStream
