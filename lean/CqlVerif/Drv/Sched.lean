import CqlVerif.Drv.Retry
namespace CqlVerif.Drv.SchedStream
open CqlVerif CqlVerif.Drv CqlVerif.Retry

def handle (op real : String) : Verdict :=
  match splitNE op " " with
  | ["samehost-removed", oc, k] =>
    let idem := k == "i"
    let o := RetryStream.parseOutcome "qi" oc
    -- the host that answered first is gone from the first resend on
    let st := Retry.run (fun n h => n ≥ 1 ∧ h = 0) idem [0, 1] [o, .success]
    let model := s!"att:{",".intercalate (st.attempts.map RetryStream.hostName)} reply:{RetryStream.renderReply st.reply}"
    let sig := s!"samehost-removed-{oc}-{k}"
    if (splitNE real " ").any (· == "reply:none") then
      { kind := "spec", sig, key := "C01:missing-reply", detail := s!"request never answered after the host it was to be retried on was removed: {op} -> {real}" }
    else if model ≠ real then { kind := "diff", sig, detail := model }
    else { kind := "ok", sig }
  | _ => { kind := "diff", detail := "bad op" }

end CqlVerif.Drv.SchedStream
