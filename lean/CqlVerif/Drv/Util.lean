/- small parsing helpers for the line protocol (core only) -/
namespace CqlVerif.Drv

def splitNE (s : String) (sep : String) : List String :=
  (s.splitOn sep).filter (· ≠ "")

/-- `"a:b,c"` ↦ `("a", ["b","c"])` -/
def opArgs (s : String) : String × List String :=
  match s.splitOn ":" with
  | [a] => (a, [])
  | a :: rest => (a, splitNE (":".intercalate rest) ",")
  | [] => ("", [])

def hexDigit (c : Char) : Option Nat :=
  if '0' ≤ c ∧ c ≤ '9' then some (c.toNat - '0'.toNat)
  else if 'a' ≤ c ∧ c ≤ 'f' then some (c.toNat - 'a'.toNat + 10)
  else if 'A' ≤ c ∧ c ≤ 'F' then some (c.toNat - 'A'.toNat + 10)
  else none

def unhexAux : List Char → List UInt8 → Option (List UInt8)
  | [], acc => some acc.reverse
  | a :: b :: rest, acc =>
    match hexDigit a, hexDigit b with
    | some x, some y => unhexAux rest (UInt8.ofNat (x * 16 + y) :: acc)
    | _, _ => none
  | _, _ => none

def unhex (s : String) : Option (List UInt8) := unhexAux s.toList []

def hexNib (n : Nat) : Char := if n < 10 then Char.ofNat (48 + n) else Char.ofNat (87 + n)

def hex (bs : List UInt8) : String :=
  String.ofList (bs.flatMap fun b => [hexNib (b.toNat / 16), hexNib (b.toNat % 16)])

structure Verdict where
  kind : String      -- ok | diff | spec
  detail : String := ""
  sig : String := "" -- class label used for distinct/non-trivial counting
  key : String := "" -- canonical cause of a failure (matched against known_findings.json)

def clean (s : String) : String := s.map fun c => if c = '\t' ∨ c = '\n' then ' ' else c

def Verdict.render (v : Verdict) : String := s!"{v.kind}\t{clean v.sig}\t{clean v.key}\t{clean v.detail}"

end CqlVerif.Drv
