import CqlVerif.Model.LB
import CqlVerif.Spec.PlanSpec
import CqlVerif.Drv.Util
namespace CqlVerif.Drv.LBStream
open CqlVerif CqlVerif.Drv

inductive Op where
  | ev (e : LB.Ev)
  | newPlan
  | next (i : Nat)
  | setIndex (n : Nat)     -- hook VerifSetLBIndex: reach the counter wrap without 2^64 calls
  | conc (g k : Nat)       -- g goroutines create k plans each at the same time and take the first host
  | toggle (g k : Nat)     -- g goroutines walk k plans each while a non-member is added and removed concurrently

def parseOp (s : String) : Option Op :=
  match opArgs s with
  | ("B", hs) => some (.ev (.bootstrap hs))
  | ("A", [h]) => some (.ev (.add h))
  | ("R", [h]) => some (.ev (.remove h))
  | ("P", []) => some .newPlan
  | ("N", [i]) => i.toNat?.map .next
  | ("S", [n]) => n.toNat?.map .setIndex
  | ("T", [g, k, _]) => match g.toNat?, k.toNat? with
    | some g, some k => some (.toggle g k)
    | _, _ => none
  | ("C", [g, k]) => match g.toNat?, k.toNat? with
    | some g, some k => some (.conc g k)
    | _, _ => none
  | _ => none

def runModel : LB.LB → Array LB.Plan → List Op → List String → List String
  | _, _, [], acc => acc.reverse
  | lb, ps, .ev e :: ops, acc => runModel (LB.onEvent lb e) ps ops acc
  | lb, ps, .newPlan :: ops, acc => let (p, lb') := LB.newPlan lb; runModel lb' (ps.push p) ops acc
  | lb, ps, .setIndex n :: ops, acc => runModel { lb with index := n % LB.U64 } ps ops acc
  | lb, ps, .toggle g k :: ops, acc =>
    -- every plan is a snapshot: no host twice, nothing crashes; afterwards the membership is what it was and the
    -- counter has moved by the number of plans created
    runModel { lb with index := (lb.index + g * k) % LB.U64 } ps ops ("t:ok" :: acc)
  | lb, ps, .conc g k :: ops, acc =>
    -- each creation is one atomic fetch-and-add: the g*k plans get g*k consecutive offsets, in some order;
    -- which host each plan starts at is then fixed, only who got which is not
    let (firsts, lb') := (List.range (g * k)).foldl (fun (st : List String × LB.LB) _ =>
      let (p, l') := LB.newPlan st.2
      (((p.next).1.getD "-") :: st.1, l')) ([], lb)
    let keys := (firsts.eraseDups).mergeSort (· ≤ ·)
    let tok := "c:" ++ ",".intercalate (keys.map fun h => s!"{h}={(firsts.filter (· == h)).length}")
    runModel lb' ps ops (tok :: acc)
  | lb, ps, .next i :: ops, acc =>
    match ps[i]? with
    | none => runModel lb ps ops ("?" :: acc)
    | some p => let (h, p') := p.next; runModel lb (ps.set! i p') ops ((h.getD "-") :: acc)

def toSpecOp : Op → Option PlanSpec.Op
  | .ev (.bootstrap hs) => some (.bootstrap hs)
  | .ev (.add h) => some (.add h)
  | .ev (.remove h) => some (.remove h)
  | .newPlan => some .newPlan
  | .next i => some (.next i)
  | .setIndex _ => none
  | .conc _ _ => none
  | .toggle _ _ => none

def handle (op real : String) : Verdict :=
  match (splitNE op " ").mapM parseOp with
  | none => { kind := "diff", detail := "unparseable op list" }
  | some ops =>
    let outs := splitNE real " "
    let model := runModel {} #[] ops []
    let nEv := (ops.filter fun | .ev _ => true | _ => false).length
    let nPl := (ops.filter fun | .newPlan => true | _ => false).length
    let sig := s!"ev{nEv}-pl{nPl}-out{outs.length}"
    let specOps := ops.filterMap toSpecOp
    -- the spec's rotation clause does not apply across a forced index jump
    let usesSet := ops.any fun | .setIndex _ => true | .conc _ _ => true | .toggle _ _ => true | _ => false
    let (ok, key, why) := PlanSpec.planOK specOps ((outs.filter fun o => !(o.startsWith "c:" || o.startsWith "t:")).map fun o => if o = "-" then none else some o)
    -- fairness under concurrent creation: first choices of simultaneously created plans differ by at most one per host
    let unfair := outs.any fun o => o.startsWith "c:" &&
      (let cs := ((o.drop 2).toString.splitOn ",").filterMap fun kv => ((kv.splitOn "=").getD 1 "").toNat?
       match cs.max?, cs.min? with
       | some mx, some mn => mx > mn + 1
       | _, _ => false)
    if outs.contains "t:panic" || outs.contains "t:dup" then { kind := "spec", sig, key := "C15:plan-under-concurrent-membership-change", detail := s!"a plan crashed or repeated a host while membership changed: {real}" }
    else if unfair then { kind := "spec", sig, key := "C15:concurrent-rotation", detail := s!"plans created at the same time did not spread evenly over the hosts: {real}" }
    else if !ok && !(usesSet && key = "rotation") then { kind := "spec", sig, key, detail := why }
    else if model ≠ outs then { kind := "diff", sig, detail := " ".intercalate model }
    else { kind := "ok", sig }

end CqlVerif.Drv.LBStream
