import CqlVerif.Model.CqlAst
import CqlVerif.Drv.Idem
namespace CqlVerif.Drv.AstStream
open CqlVerif CqlVerif.Drv CqlVerif.Ast CqlVerif.Parser

/-- an identifier as written (`"Q"` or `abc`), the way `IdentifierFromString` reads it -/
def identOfRaw (raw : List Nat) : Ident :=
  match raw with
  | 34 :: rest => { text := rest.dropLast, ignoreCase := false }
  | _ => { text := raw, ignoreCase := true }

def identOfHex (h : String) : Option Ident := (unhex h).map fun bs => identOfRaw (bs.map (·.toNat))

/-- … and back: what the scanner reports as the identifier's text -/
def rawOf (i : Ident) : List UInt8 :=
  let bs := i.text.map UInt8.ofNat
  if i.ignoreCase then bs else [34] ++ bs ++ [34]

def primOf : Nat → Option Prim
  | 0 => some .float | 1 => some .bool | 2 => some .null | 3 => some .str | 4 => some .hex
  | 5 => some .uuid | 6 => some .duration | 7 => some .nan | 8 => some .infinity | _ => none

/- the prefix encoding written by stream_ast.go, read back into the syntax trees of Model/CqlAst -/
mutual
def readTerm : Nat → List String → Option (Term × List String)
  | 0, _ => none
  | fuel+1, tok :: rest =>
    match tok.splitOn ":" with
    | ["I"] => some (.int, rest)
    | ["Q"] => some (.bindQ, rest)
    | ["N", h] => (identOfHex h).map fun i => (.bindNamed i, rest)
    | ["L", n] => (readTerms fuel (n.toNat?.getD 0) rest).map fun (xs, r) => (.list xs, r)
    | ["S", n] => (readTerms fuel (n.toNat?.getD 0) rest).map fun (xs, r) => (.set xs, r)
    | ["T", n] => (readTerms fuel (n.toNat?.getD 0) rest).map fun (xs, r) => (.tuple xs, r)
    | ["M", n] => (readPairs fuel (n.toNat?.getD 0) rest).map fun (xs, r) => (.map xs, r)
    | ["U", n] => (readFields fuel (n.toNat?.getD 0) rest).map fun (xs, r) => (.udt xs, r)
    | ["C", ty, ps] =>
      match identOfHex ty, (if ps == "-" then some [] else (ps.splitOn ",").mapM identOfHex), readTerm fuel rest with
      | some t, some params, some (x, r) => some (.cast t params x, r)
      | _, _, _ => none
    | ["K", ks, name, n] =>
      match (if ks == "-" then some none else (identOfHex ks).map some), identOfHex name, readArgs fuel (n.toNat?.getD 0) rest with
      | some q, some nm, some (as, r) => some (.call q nm as, r)
      | _, _, _ => none
    | [p] => if p.startsWith "P" then (primOf ((p.drop 1).toString.toNat?.getD 99)).map fun k => (.prim k, rest) else none
    | _ => none
  | _, [] => none
def readTerms : Nat → Nat → List String → Option (Terms × List String)
  | 0, _, _ => none
  | _, 0, r => some (.nil, r)
  | fuel+1, n+1, r =>
    match readTerm fuel r with
    | some (t, r) => (readTerms fuel n r).map fun (ts, r) => (.cons t ts, r)
    | none => none
def readPairs : Nat → Nat → List String → Option (Pairs × List String)
  | 0, _, _ => none
  | _, 0, r => some (.nil, r)
  | fuel+1, n+1, r =>
    match readTerm fuel r with
    | some (a, r) =>
      match readTerm fuel r with
      | some (b, r) => (readPairs fuel n r).map fun (ps, r) => (.cons a b ps, r)
      | none => none
    | none => none
def readFields : Nat → Nat → List String → Option (Fields × List String)
  | 0, _, _ => none
  | _, 0, r => some (.nil, r)
  | fuel+1, n+1, tok :: r =>
    match tok.splitOn ":" with
    | ["F", h] =>
      match identOfHex h, readTerm fuel r with
      | some nm, some (v, r) => (readFields fuel n r).map fun (fs, r) => (.cons nm v fs, r)
      | _, _ => none
    | _ => none
  | _, _, [] => none
def readArgs : Nat → Nat → List String → Option (Args × List String)
  | 0, _, _ => none
  | _, 0, r => some (.nil, r)
  | fuel+1, n+1, tok :: r =>
    match tok.splitOn ":" with
    | ["A", h] =>
      match identOfHex h with
      | some c => (readArgs fuel n r).map fun (as, r) => (.col c as, r)
      | none => none
    | _ =>
      match readTerm fuel (tok :: r) with
      | some (t, r) => (readArgs fuel n r).map fun (as, r) => (.term t as, r)
      | none => none
  | _, _, [] => none
end

def renderTok (t : Tok) : String :=
  s!"{t.kind}:{if t.kind = Gen.Lex.tkIdentifier then hex (rawOf t.id) else ""}"

def handle (op real : String) : Verdict := Id.run do
  let toks := splitNE op " "
  let enc := toks.filter fun t => !(t.startsWith "X:" || t.startsWith "B:")
  let tableHex := ((toks.find? (·.startsWith "B:")).map fun t => (t.drop 2).toString).getD ""
  let some (tm, leftover) := readTerm 200 enc | return { kind := "diff", sig := "unreadable", detail := s!"the driver cannot read the tree: {op}" }
  if !leftover.isEmpty then return { kind := "diff", sig := "unreadable", detail := s!"trailing tokens in the tree: {op}" }
  let rt := splitNE real " "
  let field (k : String) : String := ((rt.find? (·.startsWith k)).map fun t => (t.drop k.length).toString).getD "?"
  let realToks := field "toks="
  let realIdem := field "idem="
  let modelToks := ",".intercalate ((tm.render []).map renderTok)
  let sig := s!"{if tm.nonIdem then "nonidem" else if tm.plain then "plain" else "other"}-{realIdem}"
  if realIdem == "panic" then return { kind := "spec", sig, key := "C06:classifier-panic", detail := s!"{op}" }
  -- the grammar theorem's claim, on the real verdict
  if realIdem.startsWith "1" && tm.nonIdem then
    return { kind := "spec", sig, key := "C06:unsound-term", detail := s!"a term holding a now() / uuid() call was classified idempotent: {op} -> {real}" }
  -- plain_term_accepted / plain_insert_accepted, on the real verdict
  if tm.plain && realIdem != "1" then
    return { kind := "spec", sig, key := "C06:plain-rejected", detail := s!"an INSERT of a plain value was not classified idempotent: {op} -> {real}" }
  -- the rendering of Model/CqlAst against the real scanner
  if modelToks != realToks then return { kind := "diff", sig, key := "render", detail := s!"tokens {modelToks}" }
  -- the model's classifier on the rendered INSERT against the real classifier on the text
  let table : List Tok := match (unhex tableHex).map (fun bs => (String.fromUTF8! (ByteArray.mk bs.toArray)).splitOn ".") with
    | some [a] => [idt (identOfRaw (a.toUTF8.toList.map (·.toNat)))]
    | some [a, b] => [idt (identOfRaw (a.toUTF8.toList.map (·.toNat))), k Gen.Lex.tkDot, idt (identOfRaw (b.toUTF8.toList.map (·.toNat)))]
    | _ => [idt { text := [116] }]
  let stmt : List Tok := [k Gen.Lex.tkInsert, k Gen.Lex.tkInto] ++ table ++
    [k Gen.Lex.tkLparen, idt { text := [99] }, k Gen.Lex.tkRparen, idt { text := [86, 65, 76, 85, 69, 83] }, k Gen.Lex.tkLparen] ++
    tm.render [k Gen.Lex.tkRparen]
  let r := Parser.classify (lexOf stmt) (4 * stmt.length + 16)
  let m := if r.oof then "oof" else if r.idem then (if r.err then "1e" else "1") else (if r.err then "0e" else "0")
  if m != realIdem then return { kind := "diff", sig, key := "verdict", detail := s!"verdict {m}" }
  -- the same for `UPDATE <table> SET c = <term> WHERE k = 1`
  let realUpd := field "upd="
  if realUpd.startsWith "1" && tm.nonIdem then
    return { kind := "spec", sig, key := "C06:unsound-term", detail := s!"UPDATE … SET c = <a term holding a now() / uuid() call> was classified idempotent: {op} -> {real}" }
  let stmt2 : List Tok := [k Gen.Lex.tkUpdate] ++ table ++ [idt { text := [83, 69, 84] }, idt { text := [99] }, k Gen.Lex.tkEqual] ++
    tm.render [k Gen.Lex.tkWhere, idt { text := [107] }, k Gen.Lex.tkEqual, k Gen.Lex.tkInteger]
  let r2 := Parser.classify (lexOf stmt2) (4 * stmt2.length + 16)
  let m2 := if r2.oof then "oof" else if r2.idem then (if r2.err then "1e" else "1") else (if r2.err then "0e" else "0")
  if m2 != realUpd then return { kind := "diff", sig, key := "verdict-update", detail := s!"verdict {m2}" }
  -- the term inside a WHERE clause (`UpdateW.render`) and inside the second child of a batch (`renderBatch`)
  let verdictOf (toks : List Tok) : String :=
    let r := Parser.classify (lexOf toks) (4 * toks.length + 16)
    if r.oof then "oof" else if r.idem then (if r.err then "1e" else "1") else (if r.err then "0e" else "0")
  let (ksOpt, tbl) : Option Ident × Ident := match table with
    | [a] => (none, a.id)
    | [a, _, b] => (some a.id, b.id)
    | _ => (none, { text := [116] })
  let rels : List Rel := [.cmp { text := [107] } Gen.Lex.tkEqual tm, .inList { text := [106] } (.cons .int (.cons tm .nil))]
  let uw : UpdateW := { ks := ksOpt, table := tbl, setKw := { text := [83, 69, 84] }, ops := .cons { text := [99] } .bindQ .nil, rels, tail := [] }
  let realWhr := field "whr="
  if realWhr.startsWith "1" && tm.nonIdem then
    return { kind := "spec", sig, key := "C06:unsound-term", detail := s!"UPDATE … WHERE <a term holding a now() / uuid() call> was classified idempotent: {op} -> {real}" }
  if verdictOf uw.render != realWhr then return { kind := "diff", sig, key := "verdict-where", detail := s!"verdict {verdictOf uw.render}" }
  let dw : DeleteW := { ks := ksOpt, table := tbl, rels := [.cmp { text := [107] } Gen.Lex.tkGtEqual tm], tail := [] }
  let realDel := field "del="
  if realDel.startsWith "1" && tm.nonIdem then
    return { kind := "spec", sig, key := "C06:unsound-term", detail := s!"DELETE … WHERE <a term holding a now() / uuid() call> was classified idempotent: {op} -> {real}" }
  if verdictOf dw.render != realDel then return { kind := "diff", sig, key := "verdict-delete", detail := s!"verdict {verdictOf dw.render}" }
  let child (v : Term) (tail : List Tok) : Insert := { ks := ksOpt, table := tbl, cols := [{ text := [99] }], valuesKw := { text := [86, 65, 76, 85, 69, 83] }, vals := .cons v .nil, tail }
  let batch := renderBatch [(child .int [k Gen.Lex.tkUsing, idt { text := [84, 84, 76] }, k Gen.Lex.tkInteger], true), (child tm [], false)] []
  let realBat := field "bat="
  if realBat.startsWith "1" && tm.nonIdem then
    return { kind := "spec", sig, key := "C06:unsound-term", detail := s!"a batch whose second child inserts a term holding a now() / uuid() call was classified idempotent: {op} -> {real}" }
  if verdictOf batch != realBat then return { kind := "diff", sig, key := "verdict-batch", detail := s!"verdict {verdictOf batch}" }
  return { kind := "ok", sig }

end CqlVerif.Drv.AstStream
