import CqlVerif.Lemmas.GrammarPlain
import CqlVerif.Lemmas.GrammarStmt
/-
Lemmas.GrammarPlainStmt — a plain INSERT is accepted: `INSERT INTO [ks.]t (cols) VALUES (plain terms) [;]` is
classified idempotent, without an error, given fuel for its size.
-/
namespace CqlVerif.Ast
open CqlVerif.Parser CqlVerif.Gen.Lex

theorem cols_fwd (L : Lexer) : (cs : List Ident) → ∀ (fuel : Nat) (s : LS) (p : Nat) (rest : List Tok) (a : Tok) (tl : List Tok),
    cs.length + 1 ≤ fuel → renderCols cs rest = a :: tl → At L p (a :: tl) → Fed s p a →
    (parseIdentifiers L fuel s a.kind).1 = false
  | [], fuel, s, p, rest, a, tl, hf, he, hA, hF => by
    simp only [renderCols, List.cons.injEq] at he
    obtain ⟨ha, htl⟩ := he
    subst ha; subst htl
    cases fuel with
    | zero => simp at hf
    | succ n => simp [parseIdentifiers]
  | [x], fuel, s, p, rest, a, tl, hf, he, hA, hF => by
    simp only [renderCols, List.cons.injEq] at he
    obtain ⟨ha, htl⟩ := he
    subst ha; subst htl
    have h1 := nextT_fst hA.2 hF.1
    simp only [List.length_cons, List.length_nil] at hf
    cases fuel with
    | zero => omega
    | succ n =>
      unfold parseIdentifiers
      simp only [show tkIdentifier ≠ tkRparen by decide, show tkIdentifier ≠ tkEOF by decide, ne_eq, not_false_eq_true, and_self,
        ↓reduceIte, not_true_eq_false]
      rw [h1]
      simp only [skip_ne (show tkRparen ≠ tkComma by decide)]
      cases n with
      | zero => omega
      | succ m => simp [parseIdentifiers]
  | x :: y :: more, fuel, s, p, rest, a, tl, hf, he, hA, hF => by
    simp only [renderCols, List.cons.injEq] at he
    obtain ⟨ha, htl⟩ := he
    subst ha; subst htl
    have h1 := nextT_fst hA.2 hF.1
    have h2 := nextT_p hA.2 hF.1
    have hy : ∃ tly, renderCols (y :: more) rest = idt y :: tly := by
      cases more <;> simp [renderCols]
    obtain ⟨tly, hy⟩ := hy
    have hA3 := hA.2.2
    rw [hy] at hA3
    have h3 := nextT_fst hA3 h2
    have h4 := nextT_fed hA3 h2
    simp only [List.length_cons] at hf
    cases fuel with
    | zero => omega
    | succ n =>
      unfold parseIdentifiers
      simp only [show tkIdentifier ≠ tkRparen by decide, show tkIdentifier ≠ tkEOF by decide, ne_eq, not_false_eq_true, and_self,
        ↓reduceIte, not_true_eq_false]
      rw [h1]
      simp only [skip_eq]
      rw [h3]
      exact cols_fwd L (y :: more) n _ _ rest (idt y) tly (by simp only [List.length_cons]; omega) hy hA3 h4

theorem termsUntil_c (L : Lexer) : TermsLoopC L (parseTermsUntilRparen L) tkRparen :=
  { termsUntil_is L with stopR := by intro n s; simp [parseTermsUntilRparen] }

theorem termsUntil_stop (L : Lexer) (n : Nat) (s : LS) :
    parseTermsUntilRparen L (n+1) s tkRparen = ({ idem := true }, tkRparen, s) := by simp [parseTermsUntilRparen]

/-- the tokens behind a plain INSERT: nothing, or a `;`, then the end of the input -/
def endToks (semi : Bool) : List Tok := (if semi then [k tkEOS] else []) ++ [k tkEOF]

theorem insertTail_fwd (L : Lexer) (fuel : Nat) (s : LS) (p : Nat) (cols : List Ident) (kw : Ident) (vals : Terms) (semi : Bool)
    (hkw : kw.equal "values" = true) (hpl : vals.plain = true) (hf : cols.length + vals.size + 2 ≤ fuel)
    (hA : At L p (renderCols cols (idt kw :: k tkLparen :: vals.renderElems (k tkRparen :: endToks semi)))) (hs : s.p = p) :
    (insertTail L fuel s).1 = { idem := true } ∧ ((insertTail L fuel s).2.1 = tkEOF ∨ (insertTail L fuel s).2.1 = tkEOS) := by
  obtain ⟨a, tl, hc⟩ := cols_first cols (idt kw :: k tkLparen :: vals.renderElems (k tkRparen :: endToks semi))
  rw [hc] at hA
  have h1 := nextT_fst hA hs
  have hf1 := nextT_fed hA hs
  unfold insertTail
  generalize nextT L s = o1 at h1 hf1 ⊢
  obtain ⟨t1, s1⟩ := o1
  simp only at h1 hf1 ⊢
  subst h1
  have hcols := cols_ok L cols fuel s1 p _ a tl hc hA hf1
  have hcf := cols_fwd L cols fuel s1 p _ a tl (by omega) hc hA hf1
  generalize parseIdentifiers L fuel s1 a.kind = o2 at hcols hcf ⊢
  obtain ⟨e, s2⟩ := o2
  simp only at hcols hcf ⊢
  subst hcf
  have hA2 := hcols rfl
  simp only [Bool.false_eq_true, ↓reduceIte]
  have h2 := nextT_fst hA2 rfl
  have hf2 := nextT_fed hA2 rfl
  have hp2 := nextT_p hA2 rfl
  generalize nextT L s2 = o3 at h2 hf2 hp2 ⊢
  obtain ⟨t2, s3⟩ := o3
  simp only at h2 hf2 hp2 ⊢
  subst h2
  have hid : s3.id = kw := hf2.2 rfl
  have hkw' : isUnreservedKeyword s3 tkIdentifier "values" = true := by simp [isUnreservedKeyword, hid, hkw]
  simp only [hkw', Bool.not_true, Bool.false_eq_true, ↓reduceIte]
  have h3 := nextT_fst hA2.2 hp2
  have hp3 := nextT_p hA2.2 hp2
  generalize nextT L s3 = o4 at h3 hp3 ⊢
  obtain ⟨t3, s4⟩ := o4
  simp only at h3 hp3 ⊢
  subst h3
  simp only [ne_eq, not_true_eq_false, ↓reduceIte]
  obtain ⟨c, tlc, hbv, _⟩ := terms_first vals tkRparen (endToks semi)
  have hA3 := hA2.2.2
  rw [hbv] at hA3
  have h4 := nextT_fst hA3 hp3
  have hf4 := nextT_fed hA3 hp3
  generalize nextT L s4 = o5 at h4 hf4 ⊢
  obtain ⟨t4, s5⟩ := o5
  simp only at h4 hf4 ⊢
  subst h4
  obtain ⟨n, s0, heq, hA0⟩ := terms_entry_c (termsUntil_c L) (by decide) (by decide) vals (terms_complete vals hpl) fuel s5 _ (endToks semi) c tlc
    (by omega) hbv hA3 hf4
  rw [heq, termsUntil_stop]
  simp only [Bool.not_true, Bool.false_eq_true, ↓reduceIte, ne_eq, not_true_eq_false]
  -- behind the `)`: `;` or the end of the input; either ends the scan for `IF` at once
  cases semi with
  | true =>
    simp only [endToks, ↓reduceIte, List.cons_append, List.nil_append] at hA0
    have h6 := nextT_fst hA0 rfl
    generalize nextT L s0 = o7 at h6 ⊢
    obtain ⟨t6, s7⟩ := o7
    simp only at h6 ⊢
    subst h6
    cases fuel with
    | zero => omega
    | succ m => simp [scanForIf, isDMLTerminator, k]
  | false =>
    simp only [endToks, Bool.false_eq_true, ↓reduceIte, List.nil_append] at hA0
    have h6 := nextT_fst hA0 rfl
    generalize nextT L s0 = o7 at h6 ⊢
    obtain ⟨t6, s7⟩ := o7
    simp only at h6 ⊢
    subst h6
    cases fuel with
    | zero => omega
    | succ m => simp [scanForIf, isDMLTerminator, k]

theorem classify_insert_fwd (L : Lexer) (fuel : Nat) (h : (nextT L { p := 0 }).1 = tkInsert)
    (hr : (insertStmt L fuel (nextT L { p := 0 }).2).1 = { idem := true })
    (ht : (insertStmt L fuel (nextT L { p := 0 }).2).2.1 = tkEOF ∨ (insertStmt L fuel (nextT L { p := 0 }).2).2.1 = tkEOS) :
    classify L fuel = { idem := true } := by
  unfold classify
  simp only [h, dispatch, tkInsert, tkSelect, tkUse, tkCreate, tkAlter, tkDrop, tkBegin]
  generalize insertStmt L fuel (nextT L { p := 0 }).2 = o at hr ht ⊢
  obtain ⟨r, t, s'⟩ := o
  simp only at hr ht ⊢
  subst hr
  rcases ht with ht | ht <;> subst ht <;> simp

theorem plain_insert (i : Insert) (semi : Bool) (hkw : i.valuesKw.equal "values" = true) (hpl : i.vals.plain = true)
    (htail : i.tail = endToks semi) (L : Lexer) (fuel : Nat) (hf : i.cols.length + i.vals.size + 2 ≤ fuel)
    (hA : At L 0 i.render) : classify L fuel = { idem := true } := by
  have h0 := nextT_fst (s := { p := 0 }) hA rfl
  have hp0 := nextT_p (s := { p := 0 }) hA rfl
  have h1 := nextT_fst hA.2 hp0
  have hp1 := nextT_p hA.2 hp0
  cases hks : i.ks with
  | none =>
    simp only [Insert.render, hks, renderName, htail] at hA
    have h2 := nextT_fst hA.2.2 hp1
    have hp2 := nextT_p hA.2.2 hp1
    have h3 := nextT_fst hA.2.2.2 hp2
    have hp3 := nextT_p hA.2.2.2 hp2
    have heq := insertStmt_plain L fuel _ h1 h2 h3
    obtain ⟨hr, ht⟩ := insertTail_fwd L fuel _ _ i.cols i.valuesKw i.vals semi hkw hpl hf hA.2.2.2.2 hp3
    exact classify_insert_fwd L fuel h0 (by rw [heq]; exact hr) (by rw [heq]; exact ht)
  | some q =>
    simp only [Insert.render, hks, renderName, htail] at hA
    have h2 := nextT_fst hA.2.2 hp1
    have hp2 := nextT_p hA.2.2 hp1
    have h3 := nextT_fst hA.2.2.2 hp2
    have hp3 := nextT_p hA.2.2.2 hp2
    have h4 := nextT_fst hA.2.2.2.2 hp3
    have hp4 := nextT_p hA.2.2.2.2 hp3
    have h5 := nextT_fst hA.2.2.2.2.2 hp4
    have hp5 := nextT_p hA.2.2.2.2.2 hp4
    have heq := insertStmt_qualified L fuel _ h1 h2 h3 h4 h5
    obtain ⟨hr, ht⟩ := insertTail_fwd L fuel _ _ i.cols i.valuesKw i.vals semi hkw hpl hf hA.2.2.2.2.2.2 hp5
    exact classify_insert_fwd L fuel h0 (by rw [heq]; exact hr) (by rw [heq]; exact ht)

end CqlVerif.Ast
