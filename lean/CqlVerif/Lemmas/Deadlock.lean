/-
Lemmas.Deadlock — why acquiring locks in rank order excludes a lock deadlock.

A state: which locks each goroutine holds and which one (if any) it is waiting for.  The discipline
(`Ranked`): a goroutine that waits for a lock holds only locks of strictly smaller rank - what
`C17.lock_order_ranked` establishes for the regenerated acquisition facts.  A deadlock is a cycle
of goroutines each waiting for a lock the next one holds.  `no_deadlock_of_ranked`: under the
discipline there is none, whatever the ranks are (read locks are treated as exclusive, which only
makes more cycles count as deadlocks).
-/
namespace CqlVerif.Deadlock

abbrev Thread := Nat
abbrev Lock := Nat

structure St where
  holds : Thread → List Lock
  waits : Thread → Option Lock

def Ranked (rank : Lock → Nat) (s : St) : Prop :=
  ∀ t l, s.waits t = some l → ∀ h ∈ s.holds t, rank h < rank l

/-- `t₀ … tₙ` (as `t :: ts`): every goroutine waits for a lock that the next one holds -/
def WaitChain (s : St) : Thread → List Thread → Prop
  | _, [] => True
  | t, u :: rest => (∃ l, s.waits t = some l ∧ l ∈ s.holds u) ∧ WaitChain s u rest

/-- along a chain, the lock the last goroutine waits for (if it waits) outranks the one the first waits for -/
theorem chain_rank (rank : Lock → Nat) (s : St) (hr : Ranked rank s) :
    ∀ (ts : List Thread) (t : Thread) (l : Lock), s.waits t = some l → WaitChain s t ts →
      ∀ l', s.waits ((t :: ts).getLast (by simp)) = some l' → rank l ≤ rank l' := by
  intro ts
  induction ts with
  | nil =>
    intro t l hw _ l' hl'
    simp only [List.getLast_singleton] at hl'
    rw [hw] at hl'; cases hl'; exact Nat.le_refl _
  | cons u rest ih =>
    intro t l hw hc l' hl'
    obtain ⟨⟨l0, hw0, hh0⟩, hrest⟩ := hc
    rw [hw] at hw0; cases hw0
    have hlast : (t :: u :: rest).getLast (by simp) = (u :: rest).getLast (by simp) := by
      simp [List.getLast_cons]
    rw [hlast] at hl'
    -- does u wait?
    cases hu : s.waits u with
    | none =>
      -- then the chain stops at u: rest must be empty, and the last goroutine is u, which does not wait
      cases rest with
      | nil => simp only [List.getLast_singleton] at hl'; rw [hu] at hl'; cases hl'
      | cons v rest' =>
        obtain ⟨⟨l1, hw1, _⟩, _⟩ := hrest
        rw [hu] at hw1; cases hw1
    | some lu =>
      have h1 : rank l < rank lu := hr u lu hu l hh0
      have h2 := ih u lu hu hrest l' hl'
      omega

/-- **no_deadlock_of_ranked** — under the rank discipline no cycle of goroutines exists in which
each waits for a lock held by the next and the last waits for a lock held by the first -/
theorem no_deadlock_of_ranked (rank : Lock → Nat) (s : St) (hr : Ranked rank s)
    (t : Thread) (ts : List Thread) (hc : WaitChain s t ts)
    (hclose : ∃ l, s.waits ((t :: ts).getLast (by simp)) = some l ∧ l ∈ s.holds t) : False := by
  obtain ⟨l', hw', hh'⟩ := hclose
  cases ht : s.waits t with
  | none =>
    -- t waits for nothing: the chain has to be just t, and then t would wait for l'
    cases ts with
    | nil => simp only [List.getLast_singleton] at hw'; rw [ht] at hw'; cases hw'
    | cons u rest => obtain ⟨⟨l1, hw1, _⟩, _⟩ := hc; rw [ht] at hw1; cases hw1
  | some l =>
    have h1 := chain_rank rank s hr ts t l ht hc l' hw'
    have h2 : rank l' < rank l := hr t l ht l' hh'
    omega

/-- non-vacuity: the discipline is satisfiable with goroutines that do wait, and a two-goroutine
cycle violates it -/
example : Ranked (fun l => l) { holds := fun t => if t = 0 then [1] else [2], waits := fun t => if t = 0 then some 2 else none } := by
  intro t l hw h hh
  by_cases h0 : t = 0
  · subst h0; simp at hw hh; subst hw; subst hh; show (1 : Nat) < 2; omega
  · simp [h0] at hw

example : ¬ Ranked (fun l => l) { holds := fun t => if t = 0 then [1] else [2], waits := fun t => if t = 0 then some 2 else some 1 } := by
  intro h
  have := h 1 1 (by simp) 2 (by simp)
  simp at this

end CqlVerif.Deadlock
