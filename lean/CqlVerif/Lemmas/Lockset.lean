/-
Lemmas.Lockset — why obeying a lock discipline orders conflicting accesses.

Executions are traces of lock operations (`sync.Mutex` = write mode only, `sync.RWMutex` = both
modes) and plain memory accesses by goroutines.  `step` admits an acquire only when Go's mutexes
would let it proceed (a write lock needs the lock free, a read lock needs it free of writers, and
a goroutine does not re-acquire a lock it holds).  `ordered_by_unlock_lock`: if a goroutine
accesses a variable while holding a lock, and another goroutine later accesses it while holding
the same lock, at least one of them in write mode, then between the two accesses the first
goroutine released the lock and the second acquired it afterwards — the unlock/lock pair that the
Go memory model turns into a happens-before edge.  With "writes hold the lock in write mode, reads
hold it in either mode" (what `C18.discipline_holds` establishes for the guarded fields) every pair
of conflicting accesses satisfies the premise, so no pair is a data race.
-/
namespace CqlVerif.Lockset

abbrev Thread := Nat
abbrev Lock := Nat
abbrev Var := Nat

inductive Ev where
  | acq (t : Thread) (l : Lock) (w : Bool)     -- Lock (w = true) / RLock (w = false) returns
  | rel (t : Thread) (l : Lock) (w : Bool)     -- Unlock / RUnlock
  | acc (t : Thread) (x : Var) (w : Bool)      -- plain read / write
  deriving Repr, DecidableEq

abbrev Holding := Thread × Lock × Bool
abbrev Held := List Holding

def onLock (l : Lock) (h : Holding) : Bool := h.2.1 == l

def step (H : Held) : Ev → Option Held
  | .acq t l w =>
    if H.any (fun h => onLock l h && (w || h.2.2 || h.1 == t)) then none else some ((t, l, w) :: H)
  | .rel t l w => if H.contains (t, l, w) then some (H.erase (t, l, w)) else none
  | .acc _ _ _ => some H

def steps : Held → List Ev → Option Held
  | H, [] => some H
  | H, e :: es => match step H e with
    | none => none
    | some H' => steps H' es

/-- what mutual exclusion guarantees about the holdings at any moment -/
def Inv (H : Held) : Prop :=
  H.Nodup ∧
  ∀ a ∈ H, ∀ b ∈ H, a.2.1 = b.2.1 → a ≠ b → (a.2.2 = false ∧ b.2.2 = false ∧ a.1 ≠ b.1)

theorem inv_nil : Inv [] := ⟨List.nodup_nil, by intro a ha; cases ha⟩

theorem step_inv (H H' : Held) (e : Ev) (hi : Inv H) (hs : step H e = some H') : Inv H' := by
  cases e with
  | acc t x w => simp [step] at hs; subst hs; exact hi
  | rel t l w =>
    simp only [step] at hs
    split at hs
    · simp at hs; subst hs
      refine ⟨hi.1.erase _, ?_⟩
      intro a ha b hb
      exact hi.2 a (List.mem_of_mem_erase ha) b (List.mem_of_mem_erase hb)
    · cases hs
  | acq t l w =>
    simp only [step] at hs
    split at hs
    · cases hs
    · rename_i hany
      simp at hs; subst hs
      have hno : ∀ h ∈ H, h.2.1 = l → (w = false ∧ h.2.2 = false ∧ h.1 ≠ t) := by
        intro h hh hl
        have := hany
        simp only [List.any_eq_true, not_exists, not_and, Bool.and_eq_true, Bool.or_eq_true, onLock, beq_iff_eq] at this
        have h1 := this h hh
        have h2 := h1 hl
        refine ⟨?_, ?_, ?_⟩
        · cases hw : w with
          | false => rfl
          | true => exact absurd (Or.inl (Or.inl hw)) h2
        · cases hw : h.2.2 with
          | false => rfl
          | true => exact absurd (Or.inl (Or.inr hw)) h2
        · exact fun ht => h2 (Or.inr ht)
      refine ⟨List.nodup_cons.mpr ⟨?_, hi.1⟩, ?_⟩
      · intro hm
        exact (hno _ hm rfl).2.2 rfl
      · intro a ha b hb hab hne
        rcases List.mem_cons.mp ha with rfl | ha'
        · rcases List.mem_cons.mp hb with rfl | hb'
          · exact absurd rfl hne
          · obtain ⟨h1, h2, h3⟩ := hno b hb' hab.symm
            exact ⟨h1, h2, fun e => h3 e.symm⟩
        · rcases List.mem_cons.mp hb with rfl | hb'
          · obtain ⟨h1, h2, h3⟩ := hno a ha' hab
            exact ⟨h2, h1, h3⟩
          · exact hi.2 a ha' b hb' hab hne

theorem steps_inv (H H' : Held) (es : List Ev) (hi : Inv H) (hs : steps H es = some H') : Inv H' := by
  induction es generalizing H with
  | nil => simp [steps] at hs; subst hs; exact hi
  | cons e es ih =>
    simp only [steps] at hs
    split at hs
    · cases hs
    · rename_i H1 h1
      exact ih H1 (step_inv H H1 e hi h1) hs

/-- every state of an execution that starts with no lock held -/
theorem reachable_inv (tr : List Ev) (H : Held) (h : steps [] tr = some H) : Inv H := steps_inv [] H tr inv_nil h

/-- two goroutines never hold the same lock at the same moment unless both hold it for reading -/
theorem exclusion (H : Held) (hi : Inv H) (t1 t2 : Thread) (l : Lock) (m1 m2 : Bool)
    (h1 : (t1, l, m1) ∈ H) (h2 : (t2, l, m2) ∈ H) (hne : t1 ≠ t2) : m1 = false ∧ m2 = false := by
  have := hi.2 _ h1 _ h2 rfl (by intro e; exact hne (by simpa using congrArg Prod.fst e))
  exact ⟨this.1, this.2.1⟩

/-- a holding that is present at the end and was not at the start was acquired on the way -/
theorem must_acquire (H H' : Held) (es : List Ev) (t : Thread) (l : Lock) (m : Bool)
    (hs : steps H es = some H') (hin : (t, l, m) ∈ H') (hnot : (t, l, m) ∉ H) :
    ∃ b c, es = b ++ Ev.acq t l m :: c := by
  induction es generalizing H with
  | nil => simp [steps] at hs; subst hs; exact absurd hin hnot
  | cons e es ih =>
    simp only [steps] at hs
    split at hs
    · cases hs
    · rename_i H1 h1
      by_cases he : e = Ev.acq t l m
      · exact ⟨[], es, by simp [he]⟩
      · have hnot1 : (t, l, m) ∉ H1 := by
          cases e with
          | acc t' x w => simp [step] at h1; subst h1; exact hnot
          | rel t' l' w' =>
            simp only [step] at h1
            split at h1
            · simp at h1; subst h1; exact fun hm => hnot (List.mem_of_mem_erase hm)
            · cases h1
          | acq t' l' w' =>
            simp only [step] at h1
            split at h1
            · cases h1
            · simp at h1; subst h1
              intro hm
              rcases List.mem_cons.mp hm with heq | hm'
              · exact he (by simp at heq; obtain ⟨a, b, c⟩ := heq; subst a; subst b; subst c; rfl)
              · exact hnot hm'
        obtain ⟨b, c, hbc⟩ := ih H1 hs hnot1
        exact ⟨e :: b, c, by simp [hbc]⟩

/-- **ordered_by_unlock_lock** — `H` is the set of holdings when goroutine `t1` makes its access
(holding `l` in mode `m1`), `mid` what happens until goroutine `t2` makes its access (holding `l`
in mode `m2`), and at least one of the two modes is the write mode: then `t1` unlocked `l` and,
later, `t2` locked it, in between. -/
theorem ordered_by_unlock_lock (H H2 : Held) (mid : List Ev) (t1 t2 : Thread) (l : Lock) (m1 m2 : Bool)
    (hi : Inv H) (h1 : (t1, l, m1) ∈ H) (hs : steps H mid = some H2) (h2 : (t2, l, m2) ∈ H2)
    (hne : t1 ≠ t2) (hw : m1 = true ∨ m2 = true) :
    ∃ a b c, mid = a ++ Ev.rel t1 l m1 :: (b ++ Ev.acq t2 l m2 :: c) := by
  induction mid generalizing H with
  | nil =>
    simp [steps] at hs; subst hs
    obtain ⟨e1, e2⟩ := exclusion H hi t1 t2 l m1 m2 h1 h2 hne
    rcases hw with hw | hw <;> simp_all
  | cons e es ih =>
    simp only [steps] at hs
    split at hs
    · cases hs
    · rename_i H1 hst
      have hi1 := step_inv H H1 e hi hst
      by_cases he : e = Ev.rel t1 l m1
      · subst he
        -- t2 does not hold l in H (exclusion), so not in H1 either: it acquires it in `es`
        have hnot : (t2, l, m2) ∉ H := by
          intro hm
          obtain ⟨e1, e2⟩ := exclusion H hi t1 t2 l m1 m2 h1 hm hne
          rcases hw with hw | hw <;> simp_all
        have hnot1 : (t2, l, m2) ∉ H1 := by
          simp only [step] at hst
          split at hst
          · simp at hst; subst hst; exact fun hm => hnot (List.mem_of_mem_erase hm)
          · cases hst
        obtain ⟨b, c, hbc⟩ := must_acquire H1 H2 es t2 l m2 hs h2 hnot1
        exact ⟨[], b, c, by simp [hbc]⟩
      · -- t1 still holds l after e
        have h1' : (t1, l, m1) ∈ H1 := by
          cases e with
          | acc t' x w => simp [step] at hst; subst hst; exact h1
          | acq t' l' w' =>
            simp only [step] at hst
            split at hst
            · cases hst
            · simp at hst; subst hst; exact List.mem_cons_of_mem _ h1
          | rel t' l' w' =>
            simp only [step] at hst
            split at hst
            · simp at hst; subst hst
              have hne' : (t1, l, m1) ≠ (t', l', w') := by
                intro e'; apply he; simp at e'; obtain ⟨a, b, c⟩ := e'; subst a; subst b; subst c; rfl
              exact (List.mem_erase_of_ne hne').mpr h1
            · cases hst
        obtain ⟨a, b, c, habc⟩ := ih H1 hi1 h1' hs
        exact ⟨e :: a, b, c, by simp [habc]⟩

/-- non-vacuity: a writer and a reader of the same variable under an RWMutex; the trace is
admitted, and the reader's lock acquisition follows the writer's unlock -/
example : steps [] [.acq 1 7 true, .acc 1 0 true, .rel 1 7 true, .acq 2 7 false, .acc 2 0 false, .rel 2 7 false] = some [] := by decide
/-- … and a trace in which the reader gets the lock while the writer holds it is not an execution -/
example : steps [] [.acq 1 7 true, .acq 2 7 false] = none := by decide

end CqlVerif.Lockset
