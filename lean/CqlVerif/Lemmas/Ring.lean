import CqlVerif.Model.Ring
/-
Lemmas.Ring — the address order of `compareIPAddr` is a strict total order, insertion by it
sorts, and a sorted list is determined by its members: two proxies that start from the same set of
addresses arrive at the same sequence, hence at the same token for every address.
-/
namespace CqlVerif.Ring

theorem addrLt_irrefl (a : Addr) : addrLt a a = false := by
  induction a with
  | nil => rfl
  | cons x xs ih => simp [addrLt, ih]

theorem addrLt_trans (a b c : Addr) (h1 : addrLt a b = true) (h2 : addrLt b c = true) : addrLt a c = true := by
  induction a generalizing b c with
  | nil =>
    cases b with
    | nil => simp [addrLt] at h1
    | cons y ys => cases c with
      | nil => simp [addrLt] at h2
      | cons z zs => rfl
  | cons x xs ih =>
    cases b with
    | nil => simp [addrLt] at h1
    | cons y ys =>
      cases c with
      | nil => simp [addrLt] at h2
      | cons z zs =>
        simp only [addrLt] at h1 h2 ⊢
        by_cases hxy : x < y
        · by_cases hyz : y < z
          · have : x < z := Nat.lt_trans hxy hyz
            simp [this]
          · simp only [hyz, ↓reduceIte] at h2
            by_cases hzy : z < y
            · simp [hzy] at h2
            · have : y = z := by omega
              subst this; simp [hxy]
        · simp only [hxy, ↓reduceIte] at h1
          by_cases hyx : y < x
          · simp [hyx] at h1
          · simp only [hyx, ↓reduceIte] at h1
            have hxy' : x = y := by omega
            subst hxy'
            by_cases hyz : x < z
            · simp [hyz]
            · simp only [hyz, ↓reduceIte] at h2 ⊢
              by_cases hzy : z < x
              · simp [hzy] at h2
              · simp only [hzy, ↓reduceIte] at h2 ⊢
                exact ih ys zs h1 h2

theorem addrLt_connected (a b : Addr) : addrLt a b = true ∨ a = b ∨ addrLt b a = true := by
  induction a generalizing b with
  | nil => cases b with
    | nil => exact Or.inr (Or.inl rfl)
    | cons y ys => exact Or.inl rfl
  | cons x xs ih =>
    cases b with
    | nil => exact Or.inr (Or.inr rfl)
    | cons y ys =>
      simp only [addrLt]
      by_cases hxy : x < y
      · simp [hxy]
      · by_cases hyx : y < x
        · simp [hxy, hyx]
        · have : x = y := by omega
          subst this
          simp only [hxy, ↓reduceIte]
          rcases ih ys with h | h | h
          · exact Or.inl h
          · exact Or.inr (Or.inl (by rw [h]))
          · exact Or.inr (Or.inr h)

theorem addrLt_asymm (a b : Addr) (h : addrLt a b = true) : addrLt b a = false := by
  cases hba : addrLt b a with
  | false => rfl
  | true => have := addrLt_trans a b a h hba; rw [addrLt_irrefl] at this; cases this

def key (n : Node) : Addr := n.addr.getD []

theorem nodeLt_eq (a b : Node) : nodeLt a b = addrLt (key a) (key b) := rfl

theorem insertSorted_perm (n : Node) (l : List Node) : (insertSorted n l).Perm (n :: l) := by
  induction l with
  | nil => exact List.Perm.refl _
  | cons h t ih =>
    simp only [insertSorted]
    split
    · exact List.Perm.refl _
    · exact (List.Perm.cons h ih).trans (List.Perm.swap n h t)

theorem sortNodes_perm (l : List Node) : (sortNodes l).Perm l := by
  induction l with
  | nil => exact List.Perm.refl _
  | cons a t ih =>
    show (insertSorted a (sortNodes t)).Perm (a :: t)
    exact (insertSorted_perm a _).trans (List.Perm.cons a ih)

def Sorted (l : List Node) : Prop := l.Pairwise (fun a b => addrLt (key a) (key b) = true)

theorem insertSorted_sorted (n : Node) (l : List Node) (hs : Sorted l) (hne : ∀ m ∈ l, key m ≠ key n) :
    Sorted (insertSorted n l) := by
  induction l with
  | nil => exact List.pairwise_singleton _ _
  | cons h t ih =>
    have hs' := List.pairwise_cons.mp hs
    simp only [insertSorted]
    split
    · rename_i hlt
      rw [nodeLt_eq] at hlt
      refine List.pairwise_cons.mpr ⟨?_, hs⟩
      intro m hm
      rcases List.mem_cons.mp hm with rfl | hm'
      · exact hlt
      · exact addrLt_trans _ _ _ hlt (hs'.1 m hm')
    · rename_i hnlt
      rw [nodeLt_eq] at hnlt
      have hhn : addrLt (key h) (key n) = true := by
        rcases addrLt_connected (key n) (key h) with h1 | h1 | h1
        · exact absurd h1 hnlt
        · exact absurd h1.symm (hne h List.mem_cons_self)
        · exact h1
      refine List.pairwise_cons.mpr ⟨?_, ih hs'.2 (fun m hm => hne m (List.mem_cons_of_mem _ hm))⟩
      intro m hm
      rcases List.mem_cons.mp ((insertSorted_perm n t).subset hm) with rfl | hm'
      · exact hhn
      · exact hs'.1 m hm'

theorem sortNodes_sorted (l : List Node) (hnd : (l.map key).Nodup) : Sorted (sortNodes l) := by
  induction l with
  | nil => exact List.Pairwise.nil
  | cons a t ih =>
    have hnd' : key a ∉ t.map key ∧ (t.map key).Nodup := List.nodup_cons.mp hnd
    show Sorted (insertSorted a (sortNodes t))
    apply insertSorted_sorted a _ (ih hnd'.2)
    intro m hm hk
    have hmt : m ∈ t := (sortNodes_perm t).subset hm
    exact hnd'.1 (hk ▸ List.mem_map_of_mem hmt)

/-- the sorted sequence of addresses is determined by the set of addresses -/
theorem sorted_keys_unique (l1 l2 : List Node) (h1 : Sorted l1) (h2 : Sorted l2)
    (hp : (l1.map key).Perm (l2.map key)) : l1.map key = l2.map key := by
  have p1 : (l1.map key).Pairwise (fun a b => addrLt a b = true) := List.pairwise_map.mpr h1
  have p2 : (l2.map key).Pairwise (fun a b => addrLt a b = true) := List.pairwise_map.mpr h2
  refine List.Perm.eq_of_pairwise ?_ p1 p2 hp
  intro a b _ _ hab hba
  have := addrLt_asymm a b hab
  rw [hba] at this; cases this

/-- what a driver sees of a node: its address and its tokens -/
def view (n : Node) : Addr × List String := (key n, n.tokens)

def tokensFor (numPeers : Nat) : Nat → List Addr → List (Addr × List String)
  | _, [] => []
  | i, a :: t => (a, [toString (token numPeers i)]) :: tokensFor numPeers (i + 1) t

theorem assignTokens_view (numPeers i : Nat) (l : List Node) :
    (assignTokens numPeers i l).map view = tokensFor numPeers i (l.map key) := by
  induction l generalizing i with
  | nil => rfl
  | cons a t ih => simp [assignTokens, tokensFor, view, key, ih]

end CqlVerif.Ring

namespace CqlVerif.Ring

/-- the sequence of (address, token) pairs depends only on the set of addresses -/
theorem ring_agreement (n : Nat) (lA lB : List Node)
    (hnd : (lA.map key).Nodup) (hperm : (lA.map key).Perm (lB.map key)) :
    (assignTokens n 0 (sortNodes lA)).map view = (assignTokens n 0 (sortNodes lB)).map view := by
  rw [assignTokens_view, assignTokens_view]
  have hndB : (lB.map key).Nodup := hperm.nodup_iff.mp hnd
  have h : (sortNodes lA).map key = (sortNodes lB).map key := by
    apply sorted_keys_unique _ _ (sortNodes_sorted lA hnd) (sortNodes_sorted lB hndB)
    exact (((sortNodes_perm lA).map key).trans hperm).trans ((sortNodes_perm lB).map key).symm
  rw [h]

/-- the peer loop of `buildNodes` when this proxy computes the tokens itself: it succeeds as long as
every peer has an address, and yields the peers other than this proxy, in configuration order -/
theorem peerNodes_ok (a : Addr) (dc : String) (peers : List PeerCfg) (hall : ∀ p ∈ peers, p.addr.isSome = true) :
    ∃ ns, peerNodes (some a) dc false peers = .ok ns ∧
      ns.map key = (peers.filterMap (·.addr)).filter (fun x => x != a) := by
  induction peers with
  | nil => exact ⟨[], rfl, rfl⟩
  | cons p ps ih =>
    obtain ⟨ns, hns, hk⟩ := ih (fun q hq => hall q (List.mem_cons_of_mem _ hq))
    have hp := hall p List.mem_cons_self
    cases hpa : p.addr with
    | none => rw [hpa] at hp; cases hp
    | some x =>
      by_cases hx : x = a
      · subst hx
        refine ⟨ns, ?_, ?_⟩
        · simp [peerNodes, hpa, hns]
        · simp [List.filterMap_cons, hpa, hk]
      · refine ⟨{ addr := some x, name := p.name, dc := if p.dc = "" then dc else p.dc, tokens := p.tokens } :: ns, ?_, ?_⟩
        · have : ¬ (some a = some x) := fun e => hx (Option.some.inj e).symm
          simp [peerNodes, hpa, this, hns]
        · simp [List.filterMap_cons, hpa, hk, key, hx]

end CqlVerif.Ring
