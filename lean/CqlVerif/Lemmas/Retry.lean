import CqlVerif.Model.Retry
import CqlVerif.Spec.RetrySpec
namespace CqlVerif.Retry
open CqlVerif.Gen.RetryPolicy CqlVerif.RetrySpec

/-- closed form of the generated policy: it is the documented one, for all retry counts and
field values -/
theorem decide_eq_doc (idem : Bool) (rc : Nat) (o : Outcome) : decide idem rc o = docDecision idem rc o := by
  cases o <;> simp [decide, docDecision, onReadTimeout, onWriteTimeout, onUnavailable, onErrorResponse]
  case readTimeout r b d =>
    by_cases h1 : rc = 0 <;> by_cases h2 : b ≤ r <;> cases d <;> simp [h1, h2]
  case writeTimeout t =>
    cases idem <;> simp
  case errResp c =>
    cases idem <;> simp
    try (by_cases h1 : c = "ErrorCodeReadFailure" <;> by_cases h2 : c = "ErrorCodeWriteFailure" <;> simp [h1, h2])

theorem skipDown_length (down : Host → Bool) (l : List Host) :
    (skipDown down l).2.length + (if (skipDown down l).1.isSome then 1 else 0) ≤ l.length := by
  induction l with
  | nil => simp [skipDown]
  | cons h t ih =>
    simp only [skipDown]
    split
    · simp only [List.length_cons]; omega
    · simp

theorem skipDown_mem (down : Host → Bool) (l : List Host) (h : Host) (rest : List Host)
    (e : skipDown down l = (some h, rest)) : h ∈ l ∧ down h = false ∧ (∀ x ∈ rest, x ∈ l) ∧ (l.Nodup → h ∉ rest ∧ rest.Nodup) := by
  induction l with
  | nil => simp [skipDown] at e
  | cons a t ih =>
    simp only [skipDown] at e
    split at e
    · have := ih e
      refine ⟨List.mem_cons_of_mem _ this.1, this.2.1, fun x hx => List.mem_cons_of_mem _ (this.2.2.1 x hx), ?_⟩
      intro hn; exact this.2.2.2 (List.nodup_cons.mp hn).2
    · rename_i hd
      simp only [Prod.mk.injEq, Option.some.injEq] at e
      obtain ⟨rfl, rfl⟩ := e
      refine ⟨List.mem_cons_self, by simpa using hd, fun x hx => List.mem_cons_of_mem _ hx, ?_⟩
      intro hn; exact ⟨(List.nodup_cons.mp hn).1, (List.nodup_cons.mp hn).2⟩

end CqlVerif.Retry

namespace CqlVerif.Retry
open CqlVerif.Gen.RetryPolicy CqlVerif.RetrySpec

theorem react_cont_safe (rc : Nat) (o : Outcome) (m : Mode) (i p : Bool)
    (h : react false rc o = .cont m i p) : safeToResend o = true := by
  cases o <;> simp [react, decide, safeToResend] at h ⊢

/-- one unfolding of `go` -/
theorem go_unfold (down : Nat → Host → Bool) (script : List Outcome) (mode : Mode) (st : St) :
    go down script mode st =
      if st.done then st else
      match pick down st mode with
      | .noHost => { st with plan := [], host := none, done := true, reply := some .noMoreHosts }
      | .host h plan =>
        let n := st.attempts.length
        let st := { st with plan := plan, host := some h, attempts := st.attempts ++ [h] }
        match script with
        | [] => st
        | o :: rest =>
          match react st.idem st.retryCount o with
          | .pending => st
          | .finish r prep =>
            { st with done := true, reply := some (r n), prepares := if prep then st.prepares ++ [h] else st.prepares }
          | .cont mode' inc prep =>
            go down rest mode' { st with retryCount := if inc then st.retryCount + 1 else st.retryCount,
                                         prepares := if prep then st.prepares ++ [h] else st.prepares } := by
  cases script <;> (rw [go]; try rfl)

/-- C04 core: for a request that is not positively idempotent, every attempt after the first
is preceded by an outcome in the safe set. -/
theorem go_attempts_safe (down : Nat → Host → Bool) (script : List Outcome) (mode : Mode) (st : St)
    (hi : st.idem = false) :
    ∃ extra, (go down script mode st).attempts = st.attempts ++ extra ∧
      ∀ k, k + 1 < extra.length → ∃ o, script[k]? = some o ∧ safeToResend o = true := by
  induction script generalizing mode st with
  | nil =>
    rw [go_unfold]
    split
    · exact ⟨[], by simp, by simp⟩
    · split
      · exact ⟨[], by simp, by simp⟩
      · exact ⟨[_], rfl, by simp⟩
  | cons o rest ih =>
    rw [go_unfold]
    split
    · exact ⟨[], by simp, by simp⟩
    · split
      · exact ⟨[], by simp, by simp⟩
      · rename_i h plan _
        simp only
        split
        · exact ⟨[h], rfl, by simp⟩
        · exact ⟨[h], rfl, by simp⟩
        · rename_i m inc prep hr
          simp only [hi] at hr
          have hs := react_cont_safe _ _ _ _ _ hr
          obtain ⟨extra, he, hk⟩ := ih m
            { st with plan := plan, host := some h, attempts := st.attempts ++ [h], retryCount := (if inc then st.retryCount + 1 else st.retryCount), prepares := (if prep then st.prepares ++ [h] else st.prepares) } hi
          refine ⟨h :: extra, ?_, ?_⟩
          · rw [he]; simp
          · intro k hklt
            cases k with
            | zero => exact ⟨o, rfl, hs⟩
            | succ k =>
              simp only [List.length_cons] at hklt
              obtain ⟨o', ho', hs'⟩ := hk k (by omega)
              exact ⟨o', by simpa using ho', hs'⟩

theorem countReprepOk_le (o : Outcome) (rest : List Outcome) : countReprepOk rest ≤ countReprepOk (o :: rest) := by
  cases o <;> try simp [countReprepOk]
  case unprepared c r => cases c <;> cases r <;> simp [countReprepOk]

/-- a same-host continuation is either the policy's single same-host retry (only at retry
count 0) or the re-execution after a successful re-prepare -/
theorem react_same (idem : Bool) (rc : Nat) (o : Outcome) (rest : List Outcome) (inc prep : Bool)
    (h : react idem rc o = .cont .same inc prep) :
    (inc = true ∧ rc = 0) ∨ (inc = false ∧ countReprepOk (o :: rest) = countReprepOk rest + 1) := by
  cases o
  case unprepared c r =>
    cases c <;> cases r <;> cases idem <;> simp [react, decide] at h <;> simp [h, countReprepOk]
  case readTimeout r b d =>
    simp only [react, decide_eq_doc, docDecision] at h
    split at h <;> simp at h
    rename_i heq
    split at heq <;> simp at heq
    rename_i hc
    exact Or.inl ⟨h.1, hc.1⟩
  case writeTimeout t =>
    simp only [react, decide_eq_doc, docDecision] at h
    split at h <;> simp at h
    rename_i heq
    split at heq <;> simp at heq
    rename_i hc
    exact Or.inl ⟨h.1, hc.2.1⟩
  case unavailable =>
    simp only [react, decide_eq_doc, docDecision] at h
    split at h <;> simp at h
    rename_i heq
    split at heq <;> simp at heq
  case bootstrapping => simp [react, decide] at h
  case errResp c =>
    simp only [react, decide_eq_doc, docDecision] at h
    split at h <;> simp at h
    rename_i heq
    split at heq <;> simp at heq
  case success => simp [react] at h
  case silent => simp [react] at h
  case connLost => cases idem <;> simp [react] at h
  case otherErr => simp [react, decide] at h

theorem pickNext_len (down : Host → Bool) (l : List Host) (h : Host) (plan : List Host)
    (e : pickNext down l = .host h plan) : plan.length + 1 ≤ l.length ∧ down h = false := by
  simp only [pickNext] at e
  have := skipDown_length down l
  split at e
  · simp at e
  · rename_i h' rest heq
    simp only [Pick.host.injEq] at e
    obtain ⟨rfl, rfl⟩ := e
    rw [heq] at this
    exact ⟨by simpa using this, (skipDown_mem _ _ _ _ heq).2.1⟩

theorem pick_next_len (down : Nat → Host → Bool) (st : St) (h : Host) (plan : List Host)
    (e : pick down st .next = .host h plan) : plan.length + 1 ≤ st.plan.length :=
  (pickNext_len _ _ _ _ e).1

/-- same-host pick: either the current host (plan untouched) or, when that send fails, the next -/
theorem pick_same_plan (down : Nat → Host → Bool) (st : St) (h : Host) (plan : List Host)
    (e : pick down st .same = .host h plan) : plan.length ≤ st.plan.length := by
  simp only [pick] at e
  split at e
  · simp at e
  · split at e
    · have := (pickNext_len _ _ _ _ e).1; omega
    · simp only [Pick.host.injEq] at e; rw [← e.2]; exact Nat.le_refl _

/-- C05 attempts bound, in its inductive form -/
theorem go_attempts_bounded (down : Nat → Host → Bool) (script : List Outcome) (mode : Mode) (st : St) :
    (go down script mode st).attempts.length ≤
      st.attempts.length + st.plan.length + (if st.retryCount = 0 then 1 else 0) + countReprepOk script
        + (if mode = .same then 1 else 0) := by
  induction script generalizing mode st with
  | nil =>
    rw [go_unfold]
    split
    · omega
    · split
      · simp; omega
      · rename_i h plan hp
        cases mode
        · have := pick_next_len _ _ _ _ hp; simp; omega
        · have := pick_same_plan _ _ _ _ hp; simp; omega
  | cons o rest ih =>
    rw [go_unfold]
    split
    · omega
    · split
      · simp; omega
      · rename_i h plan hp
        have hlen : plan.length + (if mode = .next then 1 else 0) ≤ st.plan.length := by
          cases mode
          · have := pick_next_len _ _ _ _ hp; simp; omega
          · have := pick_same_plan _ _ _ _ hp; simp [this]
        have hc := countReprepOk_le o rest
        simp only
        split
        · simp only [List.length_append, List.length_cons, List.length_nil]
          cases mode <;> simp at hlen ⊢ <;> omega
        · simp only [List.length_append, List.length_cons, List.length_nil]
          cases mode <;> simp at hlen ⊢ <;> omega
        · rename_i m inc prep hr
          have := ih m
            { st with plan := plan, host := some h, attempts := st.attempts ++ [h], retryCount := (if inc then st.retryCount + 1 else st.retryCount), prepares := (if prep then st.prepares ++ [h] else st.prepares) }
          simp only [List.length_append, List.length_cons, List.length_nil] at this
          refine Nat.le_trans this ?_
          cases m
          · have hrc : (if (if inc = true then st.retryCount + 1 else st.retryCount) = 0 then 1 else 0) ≤ (if st.retryCount = 0 then 1 else 0) := by
              cases inc <;> simp
            cases mode <;> simp at hlen ⊢ <;> omega
          · rcases react_same _ _ _ rest _ _ hr with ⟨hinc, hrc0⟩ | ⟨hinc, hcnt⟩
            · subst hinc
              simp only [hrc0, ↓reduceIte]
              cases mode <;> simp at hlen ⊢ <;> omega
            · subst hinc
              simp only [Bool.false_eq_true, ↓reduceIte]
              cases mode <;> simp at hlen ⊢ <;> omega

/-- outcomes after which an idempotent request moves on to the next host, whatever its retry count -/
def nextHostClass : Outcome → Bool
  | .connLost | .bootstrapping => true
  | .errResp c => c ≠ "ErrorCodeReadFailure" ∧ c ≠ "ErrorCodeWriteFailure"
  | .unprepared true .err | .unprepared true .lost => true
  | _ => false

theorem react_nextHostClass (rc : Nat) (o : Outcome) (h : nextHostClass o = true) :
    ∃ inc prep, react true rc o = .cont .next inc prep := by
  cases o <;> simp [nextHostClass] at h
  case connLost => exact ⟨_, _, rfl⟩
  case bootstrapping => exact ⟨_, _, rfl⟩
  case errResp c =>
    refine ⟨true, false, ?_⟩
    simp [react, decide_eq_doc, docDecision, h]
  case unprepared c r =>
    cases c <;> cases r <;> simp [nextHostClass] at h
    · exact ⟨_, _, rfl⟩
    · exact ⟨_, _, rfl⟩

def upCount (down : Host → Bool) (l : List Host) : Nat := (l.filter fun h => !down h).length

theorem skipDown_up (down : Host → Bool) (l : List Host) (hpos : 0 < upCount down l) :
    ∃ h rest, skipDown down l = (some h, rest) ∧ upCount down rest + 1 = upCount down l := by
  induction l with
  | nil => simp [upCount] at hpos
  | cons a t ih =>
    simp only [skipDown]
    by_cases hd : down a = true
    · simp only [hd, ↓reduceIte]
      have : upCount down (a :: t) = upCount down t := by simp [upCount, hd]
      rw [this] at hpos ⊢
      exact ih hpos
    · simp only [hd, Bool.false_eq_true, ↓reduceIte]
      refine ⟨a, t, rfl, ?_⟩
      simp [upCount, hd]

/-- C05 fail-over: with a host set that does not change during the request, an idempotent request
whose first `pre.length` attempts all end in next-host-class outcomes, and that still has a live
host left, delivers the success of the following attempt. -/
theorem go_failover_success (down : Host → Bool) (pre rest : List Outcome) (st : St)
    (hi : st.idem = true) (hd : st.done = false)
    (hpre : ∀ o ∈ pre, nextHostClass o = true)
    (hup : pre.length < upCount down st.plan) :
    let r := go (fun _ => down) (pre ++ .success :: rest) .next st
    r.reply = some (.result (st.attempts.length + pre.length)) ∧ r.done = true := by
  induction pre generalizing st with
  | nil =>
    obtain ⟨h, plan, hs, _⟩ := skipDown_up down st.plan (by simpa using hup)
    simp only [List.nil_append, List.length_nil, Nat.add_zero]
    rw [go_unfold]
    simp [hd, pick, pickNext, hs, react]
  | cons o pre ih =>
    obtain ⟨h, plan, hs, hcnt⟩ := skipDown_up down st.plan (by simp at hup; omega)
    obtain ⟨inc, prep, hr⟩ := react_nextHostClass st.retryCount o (hpre o (by simp))
    simp only [List.cons_append]
    rw [go_unfold]
    simp only [hd, Bool.false_eq_true, ↓reduceIte, pick, pickNext, hs, hi, hr]
    have := ih
      { st with plan := plan, host := some h, attempts := st.attempts ++ [h], retryCount := (if inc then st.retryCount + 1 else st.retryCount), prepares := (if prep then st.prepares ++ [h] else st.prepares) }
      hi hd (fun o ho => hpre o (by simp [ho])) (by simp at hup ⊢; omega)
    simp only [List.length_append, List.length_cons, List.length_nil] at this ⊢
    rw [show st.attempts.length + (pre.length + 1) = st.attempts.length + 1 + pre.length by omega]
    simp only [hi, hd, Nat.zero_add] at this
    exact this

def noSilent (script : List Outcome) : Bool := script.all (· != .silent)

/-- C01/C05 termination: a request whose attempts are all answered (or dropped) is finished after
at most `plan + 1 (+ re-executions)` outcomes — it cannot stay unanswered. -/
theorem go_terminates (down : Nat → Host → Bool) (script : List Outcome) (mode : Mode) (st : St)
    (hns : noSilent script = true)
    (hlen : st.plan.length + (if st.retryCount = 0 then 1 else 0) + countReprepOk script
        + (if mode = .same then 1 else 0) ≤ script.length) :
    (go down script mode st).done = true := by
  induction script generalizing mode st with
  | nil =>
    rw [go_unfold]
    split
    · assumption
    · split
      · rfl
      · rename_i h plan hp
        exfalso
        cases mode
        · have := pick_next_len _ _ _ _ hp
          simp only [countReprepOk, List.length_nil, reduceCtorEq, ↓reduceIte] at hlen
          omega
        · simp only [countReprepOk, List.length_nil, ↓reduceIte] at hlen
          omega
  | cons o rest ih =>
    rw [go_unfold]
    split
    · assumption
    · split
      · rfl
      · rename_i h plan hp
        have hpl : plan.length + (if mode = .next then 1 else 0) ≤ st.plan.length := by
          cases mode
          · have := pick_next_len _ _ _ _ hp; simp; omega
          · have := pick_same_plan _ _ _ _ hp; simp [this]
        have hc := countReprepOk_le o rest
        have hns' : noSilent rest = true := by
          simp only [noSilent, List.all_cons, Bool.and_eq_true] at hns; exact hns.2
        have hno : o ≠ .silent := by
          simp only [noSilent, List.all_cons, Bool.and_eq_true, bne_iff_ne, ne_eq] at hns; exact hns.1
        simp only
        split
        · rename_i hr
          exfalso
          cases o <;> simp [react] at hr hno
          case connLost => split at hr <;> simp at hr
          case unprepared c r => cases c <;> cases r <;> simp [react] at hr <;> (try split at hr <;> simp at hr)
          all_goals (split at hr <;> simp at hr)
        · rfl
        · rename_i m inc prep hr
          apply ih m _ hns'
          simp only [List.length_cons] at hlen
          cases m
          · have hrc : (if (if inc = true then st.retryCount + 1 else st.retryCount) = 0 then 1 else 0) ≤ (if st.retryCount = 0 then 1 else 0) := by
              cases inc <;> simp
            cases mode <;> simp at hpl hlen ⊢ <;> omega
          · rcases react_same _ _ _ rest _ _ hr with ⟨hinc, hrc0⟩ | ⟨hinc, hcnt⟩
            · subst hinc
              simp only [hrc0, ↓reduceIte] at hlen ⊢
              cases mode <;> simp at hpl hlen ⊢ <;> omega
            · subst hinc
              simp only [Bool.false_eq_true, ↓reduceIte]
              cases mode <;> simp at hpl hlen ⊢ <;> omega

/-- a finished request has been given its reply (done is only ever set together with a reply) -/
theorem done_has_reply (down : Nat → Host → Bool) (script : List Outcome) (mode : Mode) (st : St)
    (h0 : st.done = true → st.reply.isSome = true) :
    (go down script mode st).done = true → (go down script mode st).reply.isSome = true := by
  induction script generalizing mode st with
  | nil =>
    rw [go_unfold]
    cases hdn : st.done with
    | true => simp only [↓reduceIte]; intro _; exact h0 hdn
    | false =>
      simp only [Bool.false_eq_true, ↓reduceIte]
      split
      · intro _; rfl
      · intro hd; simp [hdn] at hd
  | cons o rest ih =>
    rw [go_unfold]
    cases hdn : st.done with
    | true => simp only [↓reduceIte]; intro _; exact h0 hdn
    | false =>
      simp only [Bool.false_eq_true, ↓reduceIte]
      split
      · intro _; rfl
      · split
        · intro hd; simp at hd
        · intro _; rfl
        · apply ih
          intro hd; simp at hd

end CqlVerif.Retry
