import Mathlib.Data.List.Rotate
import CqlVerif.Model.LB
namespace CqlVerif.LB

/-- the j-th `Next` of a plan standing at position `i` -/
theorem take_get (n : Nat) (p : Plan) (j : Nat) (hj : j < n) :
    (Plan.take n p).1[j]? =
      some (if p.index + j ≥ p.hosts.length then none
            else p.hosts[(p.offset % p.hosts.length + (p.index + j)) % p.hosts.length]?) := by
  induction n generalizing p j with
  | zero => omega
  | succ n ih =>
    cases j with
    | zero =>
      simp only [Plan.take, Plan.next]
      by_cases h : p.index ≥ p.hosts.length <;> simp [h]
    | succ j =>
      have hj' : j < n := by omega
      simp only [Plan.take, Plan.next]
      by_cases h : p.index ≥ p.hosts.length
      · simp only [h, ↓reduceIte, List.getElem?_cons_succ]
        rw [ih p j hj']
        have : p.index + j ≥ p.hosts.length := by omega
        have h2 : p.index + (j+1) ≥ p.hosts.length := by omega
        simp [this, h2]
      · simp only [h, ↓reduceIte, List.getElem?_cons_succ]
        rw [ih _ j hj']
        simp only
        have e : p.index + 1 + j = p.index + (j + 1) := by omega
        rw [e]

theorem take_length (n : Nat) (p : Plan) : (Plan.take n p).1.length = n := by
  induction n generalizing p with
  | zero => rfl
  | succ n ih => simp [Plan.take, ih]

theorem take_index (n : Nat) (p : Plan) :
    (Plan.take n p).2.index = (if p.index ≥ p.hosts.length then p.index else min (p.index + n) (max p.index p.hosts.length)) ∧
    (Plan.take n p).2.hosts = p.hosts ∧ (Plan.take n p).2.offset = p.offset := by
  induction n generalizing p with
  | zero => simp [Plan.take]; intro h; omega
  | succ n ih =>
    simp only [Plan.take, Plan.next]
    by_cases h : p.index ≥ p.hosts.length
    · simp only [h, ↓reduceIte]
      have := ih p
      simp only [h, ↓reduceIte] at this
      exact this
    · simp only [h, ↓reduceIte]
      have := ih { p with index := p.index + 1 }
      simp only at this
      refine ⟨?_, this.2.1, this.2.2⟩
      rw [this.1]
      split <;> omega

/-- A fresh plan yields exactly the host list rotated by its offset. -/
theorem drain_eq_rotate (hosts : List Key) (off : Nat) :
    Plan.drain { hosts := hosts, offset := off, index := 0 } = (hosts.rotate off).map some := by
  apply List.ext_getElem?
  intro j
  unfold Plan.drain
  by_cases hj : j < hosts.length
  · rw [take_get _ _ j hj]
    simp only [Nat.zero_add]
    have : ¬ j ≥ hosts.length := by omega
    simp only [this, ↓reduceIte, List.getElem?_map]
    rw [List.getElem?_rotate hj]
    have e : (off % hosts.length + j) % hosts.length = (j + off) % hosts.length := by
      rw [Nat.add_comm, Nat.add_mod_mod]
    rw [e]
    have hlt : (j + off) % hosts.length < hosts.length := Nat.mod_lt _ (by omega)
    rw [List.getElem?_eq_getElem hlt]
    simp
  · have h1 : (Plan.take hosts.length { hosts := hosts, offset := off, index := 0 }).1.length ≤ j := by
      rw [take_length]; omega
    rw [List.getElem?_eq_none h1]
    have h2 : ((hosts.rotate off).map some).length ≤ j := by simp; omega
    rw [List.getElem?_eq_none h2]

theorem removeFirst_eq_erase (k : Key) (l : List Key) : removeFirst k l = l.erase k := by
  induction l with
  | nil => rfl
  | cons h t ih =>
    simp only [removeFirst, List.erase_cons]
    by_cases e : h = k
    · simp [e]
    · have : (h == k) = false := by simpa using e
      simp [e, this, ih]

end CqlVerif.LB
