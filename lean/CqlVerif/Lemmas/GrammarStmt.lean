import CqlVerif.Lemmas.Grammar
/-
Lemmas.GrammarStmt — from terms to a whole statement: `INSERT INTO … VALUES ( terms )`.
-/
namespace CqlVerif.Ast
open CqlVerif.Parser CqlVerif.Gen.Lex

theorem termsUntil_is (L : Lexer) : TermsLoop L (parseTermsUntilRparen L) tkRparen where
  zero := by intro s t; simp [parseTermsUntilRparen, R.fuel]
  stop := by intro n s; simp [parseTermsUntilRparen]
  step1 := by
    intro n s t ht hi
    have h1 : t ≠ tkRparen := start_ne ht (by decide)
    have h2 : t ≠ tkEOF := start_ne ht (by decide)
    unfold parseTermsUntilRparen at hi
    simp only [h1, h2, ne_eq, not_false_eq_true, and_self, ↓reduceIte] at hi
    generalize parseTerm L n s t = o at hi ⊢
    obtain ⟨r, ty, s'⟩ := o
    simp only at hi ⊢
    by_cases hr : r.idem = true
    · exact hr
    · simp [hr] at hi
  step2 := by
    intro n s t ht hti _
    have h1 : t ≠ tkRparen := start_ne ht (by decide)
    have h2 : t ≠ tkEOF := start_ne ht (by decide)
    conv => lhs; unfold parseTermsUntilRparen
    simp only [h1, h2, ne_eq, not_false_eq_true, and_self, ↓reduceIte, contOf]
    generalize parseTerm L n s t = o at hti ⊢
    obtain ⟨r, ty, s'⟩ := o
    simp only at hti ⊢
    simp [hti]

/-- the column list: `parseIdentifiers` entered with the first token (a name or the closing parenthesis) consumed -/
theorem cols_ok (L : Lexer) : (cs : List Ident) → ∀ (fuel : Nat) (s : LS) (p : Nat) (rest : List Tok) (a : Tok) (tl : List Tok),
    renderCols cs rest = a :: tl → At L p (a :: tl) → Fed s p a →
    (parseIdentifiers L fuel s a.kind).1 = false → At L (parseIdentifiers L fuel s a.kind).2.p rest
  | [], fuel, s, p, rest, a, tl, he, hA, hF, he2 => by
    simp only [renderCols, List.cons.injEq] at he
    obtain ⟨ha, htl⟩ := he
    subst ha; subst htl
    cases fuel with
    | zero => simp [parseIdentifiers] at he2
    | succ n =>
      unfold parseIdentifiers
      simp only [ne_eq, not_true_eq_false, false_and, ↓reduceIte]
      rw [hF.1]; exact hA.2
  | [x], fuel, s, p, rest, a, tl, he, hA, hF, he2 => by
    simp only [renderCols, List.cons.injEq] at he
    obtain ⟨ha, htl⟩ := he
    subst ha; subst htl
    simp only [] at he2 ⊢
    have h1 := nextT_fst hA.2 hF.1
    have h2 := nextT_p hA.2 hF.1
    cases fuel with
    | zero => simp [parseIdentifiers] at he2
    | succ n =>
      unfold parseIdentifiers at he2 ⊢
      simp only [show tkIdentifier ≠ tkRparen by decide, show tkIdentifier ≠ tkEOF by decide, ne_eq, not_false_eq_true, and_self,
        ↓reduceIte, not_true_eq_false] at he2 ⊢
      rw [h1] at he2 ⊢
      simp only [skip_ne (show tkRparen ≠ tkComma by decide)] at he2 ⊢
      cases n with
      | zero => simp [parseIdentifiers] at he2
      | succ m =>
        unfold parseIdentifiers
        simp only [ne_eq, not_true_eq_false, false_and, ↓reduceIte]
        rw [h2]; exact hA.2.2
  | x :: y :: more, fuel, s, p, rest, a, tl, he, hA, hF, he2 => by
    simp only [renderCols, List.cons.injEq] at he
    obtain ⟨ha, htl⟩ := he
    subst ha; subst htl
    simp only [] at he2 ⊢
    have h1 := nextT_fst hA.2 hF.1
    have h2 := nextT_p hA.2 hF.1
    have hy : ∃ tly, renderCols (y :: more) rest = idt y :: tly := by
      cases more <;> simp [renderCols]
    obtain ⟨tly, hy⟩ := hy
    have hA3 := hA.2.2
    rw [hy] at hA3
    have h3 := nextT_fst hA3 h2
    have h4 := nextT_fed hA3 h2
    cases fuel with
    | zero => simp [parseIdentifiers] at he2
    | succ n =>
      unfold parseIdentifiers at he2 ⊢
      simp only [show tkIdentifier ≠ tkRparen by decide, show tkIdentifier ≠ tkEOF by decide, ne_eq, not_false_eq_true, and_self,
        ↓reduceIte, not_true_eq_false] at he2 ⊢
      rw [h1] at he2 ⊢
      simp only [skip_eq] at he2 ⊢
      rw [h3] at he2 ⊢
      exact cols_ok L (y :: more) n _ _ rest (idt y) tly hy hA3 h4 he2

/-- `isIdempotentInsertStmt` from the column list on (the state is behind the `(` that opens it) -/
def insertTail (L : Lexer) (fuel : Nat) (s : LS) : R × Nat × LS :=
  let (t1, s) := nextT L s
  let (e, s) := parseIdentifiers L fuel s t1
  if e then (R.bad, tkInvalid, s)
  else
    let (t2, s) := nextT L s
    if !(isUnreservedKeyword s t2 "values") then (R.bad, tkInvalid, s)
    else
      let (t3, s) := nextT L s
      if tkLparen ≠ t3 then (R.bad, tkInvalid, s)
      else
        let (t4, s) := nextT L s
        let (r, t5, s) := parseTermsUntilRparen L fuel s t4
        if !r.idem then (r, tkInvalid, s)
        else if t5 ≠ tkRparen then (R.bad, tkInvalid, s)
        else let (t, s) := nextT L s; scanForIf L fuel s t

theorem insertStmt_plain (L : Lexer) (fuel : Nat) (s : LS) (h1 : (nextT L s).1 = tkInto)
    (h2 : (nextT L (nextT L s).2).1 = tkIdentifier) (h3 : (nextT L (nextT L (nextT L s).2).2).1 = tkLparen) :
    insertStmt L fuel s = insertTail L fuel (nextT L (nextT L (nextT L s).2).2).2 := by
  unfold insertStmt
  generalize nextT L s = o1 at h1 h2 h3 ⊢
  obtain ⟨t1, s1⟩ := o1
  simp only at h1 h2 h3 ⊢
  subst h1
  simp only [ne_eq, not_true_eq_false, ↓reduceIte]
  rw [pqi_nodot L (nextT L s1).2 (by rw [h3]; decide)]
  generalize nextT L s1 = o2 at h2 h3 ⊢
  obtain ⟨t2, s2⟩ := o2
  simp only at h2 h3 ⊢
  subst h2
  simp only [ne_eq, not_true_eq_false, ↓reduceIte, Bool.false_eq_true, h3]
  simp [isUnreservedKeyword, insertTail, tkLparen, tkIdentifier]

theorem insertStmt_qualified (L : Lexer) (fuel : Nat) (s : LS) (h1 : (nextT L s).1 = tkInto)
    (h2 : (nextT L (nextT L s).2).1 = tkIdentifier) (h3 : (nextT L (nextT L (nextT L s).2).2).1 = tkDot)
    (h4 : (nextT L (nextT L (nextT L (nextT L s).2).2).2).1 = tkIdentifier)
    (h5 : (nextT L (nextT L (nextT L (nextT L (nextT L s).2).2).2).2).1 = tkLparen) :
    insertStmt L fuel s = insertTail L fuel (nextT L (nextT L (nextT L (nextT L (nextT L s).2).2).2).2).2 := by
  unfold insertStmt
  generalize nextT L s = o1 at h1 h2 h3 h4 h5 ⊢
  obtain ⟨t1, s1⟩ := o1
  simp only at h1 h2 h3 h4 h5 ⊢
  subst h1
  simp only [ne_eq, not_true_eq_false, ↓reduceIte]
  rw [pqi_dot L (nextT L s1).2 h3 h4]
  generalize nextT L s1 = o2 at h2 h3 h4 h5 ⊢
  obtain ⟨t2, s2⟩ := o2
  simp only at h2 h3 h4 h5 ⊢
  subst h2
  simp only [ne_eq, not_true_eq_false, ↓reduceIte, Bool.false_eq_true, h5]
  simp [isUnreservedKeyword, insertTail, tkLparen, tkIdentifier]

theorem cols_first (cs : List Ident) (rest : List Tok) : ∃ a tl, renderCols cs rest = a :: tl := by
  match cs with
  | [] => exact ⟨_, _, rfl⟩
  | [x] => exact ⟨_, _, rfl⟩
  | x :: y :: more => exact ⟨_, _, rfl⟩

theorem insertTail_sound (L : Lexer) (fuel : Nat) (s : LS) (p : Nat) (cols : List Ident) (kw : Ident) (vals : Terms) (tail : List Tok)
    (hkw : kw.equal "values" = true)
    (hA : At L p (renderCols cols (idt kw :: k tkLparen :: vals.renderElems (k tkRparen :: tail)))) (hs : s.p = p)
    (hi : (insertTail L fuel s).1.idem = true) : vals.nonIdem = false := by
  obtain ⟨a, tl, hc⟩ := cols_first cols (idt kw :: k tkLparen :: vals.renderElems (k tkRparen :: tail))
  rw [hc] at hA
  have h1 := nextT_fst hA hs
  have hf1 := nextT_fed hA hs
  unfold insertTail at hi
  generalize nextT L s = o1 at h1 hf1 hi
  obtain ⟨t1, s1⟩ := o1
  simp only at h1 hf1 hi
  subst h1
  have hcols := cols_ok L cols fuel s1 p _ a tl hc hA hf1
  generalize parseIdentifiers L fuel s1 a.kind = o2 at hcols hi
  obtain ⟨e, s2⟩ := o2
  simp only at hcols hi
  cases e with
  | true => simp [R.bad] at hi
  | false =>
    have hA2 := hcols rfl
    simp only [Bool.false_eq_true, ↓reduceIte] at hi
    have h2 := nextT_fst hA2 rfl
    have hf2 := nextT_fed hA2 rfl
    have hp2 := nextT_p hA2 rfl
    generalize nextT L s2 = o3 at h2 hf2 hp2 hi
    obtain ⟨t2, s3⟩ := o3
    simp only at h2 hf2 hp2 hi
    subst h2
    have hid : s3.id = kw := hf2.2 rfl
    have hkw' : isUnreservedKeyword s3 tkIdentifier "values" = true := by simp [isUnreservedKeyword, hid, hkw]
    simp only [hkw', Bool.not_true, Bool.false_eq_true, ↓reduceIte] at hi
    have h3 := nextT_fst hA2.2 hp2
    have hp3 := nextT_p hA2.2 hp2
    generalize nextT L s3 = o4 at h3 hp3 hi
    obtain ⟨t3, s4⟩ := o4
    simp only at h3 hp3 hi
    subst h3
    simp only [ne_eq, not_true_eq_false, ↓reduceIte] at hi
    obtain ⟨b, tlb, hb, _⟩ := terms_first vals tkRparen tail
    have hA3 := hA2.2.2
    rw [hb] at hA3
    have h4 := nextT_fst hA3 hp3
    have hf4 := nextT_fed hA3 hp3
    generalize nextT L s4 = o5 at h4 hf4 hi
    obtain ⟨t4, s5⟩ := o5
    simp only at h4 hf4 hi
    subst h4
    have key := terms_entry (termsUntil_is L) (by decide) (by decide) vals (terms_all vals) fuel s5 _ tail b tlb hb hA3 hf4
    generalize parseTermsUntilRparen L fuel s5 b.kind = o6 at key hi
    obtain ⟨r, t5, s6⟩ := o6
    simp only at key hi
    by_cases hr : r.idem = true
    · exact (key hr).2
    · simp [hr] at hi

theorem classify_insert (L : Lexer) (fuel : Nat) (h : (nextT L { p := 0 }).1 = tkInsert) (hi : (classify L fuel).idem = true) :
    (insertStmt L fuel (nextT L { p := 0 }).2).1.idem = true := by
  unfold classify at hi
  simp only [h, dispatch, tkInsert, tkSelect, tkUse, tkCreate, tkAlter, tkDrop, tkBegin] at hi
  simp at hi
  exact hi.1

theorem insert_sound (i : Insert) (hkw : i.valuesKw.equal "values" = true) (L : Lexer) (fuel : Nat)
    (hA : At L 0 i.render) (hi : (classify L fuel).idem = true) : i.vals.nonIdem = false := by
  have h0 := nextT_fst (s := { p := 0 }) hA rfl
  have hp0 := nextT_p (s := { p := 0 }) hA rfl
  have hs := classify_insert L fuel h0 hi
  have h1 := nextT_fst hA.2 hp0
  have hp1 := nextT_p hA.2 hp0
  cases hks : i.ks with
  | none =>
    simp only [Insert.render, hks, renderName] at hA
    have h2 := nextT_fst hA.2.2 hp1
    have hp2 := nextT_p hA.2.2 hp1
    have h3 := nextT_fst hA.2.2.2 hp2
    have hp3 := nextT_p hA.2.2.2 hp2
    rw [insertStmt_plain L fuel _ h1 h2 h3] at hs
    exact insertTail_sound L fuel _ _ i.cols i.valuesKw i.vals i.tail hkw hA.2.2.2.2 hp3 hs
  | some q =>
    simp only [Insert.render, hks, renderName] at hA
    have h2 := nextT_fst hA.2.2 hp1
    have hp2 := nextT_p hA.2.2 hp1
    have h3 := nextT_fst hA.2.2.2 hp2
    have hp3 := nextT_p hA.2.2.2 hp2
    have h4 := nextT_fst hA.2.2.2.2 hp3
    have hp4 := nextT_p hA.2.2.2.2 hp3
    have h5 := nextT_fst hA.2.2.2.2.2 hp4
    have hp5 := nextT_p hA.2.2.2.2.2 hp4
    rw [insertStmt_qualified L fuel _ h1 h2 h3 h4 h5] at hs
    exact insertTail_sound L fuel _ _ i.cols i.valuesKw i.vals i.tail hkw hA.2.2.2.2.2.2 hp5 hs

/-! ### towards batches: where an INSERT ends -/

theorem At_append {L : Lexer} : ∀ (xs ys : List Tok) (p : Nat), At L p (xs ++ ys) → At L (p + xs.length) ys
  | [], ys, p, h => by simpa using h
  | x :: xs, ys, p, h => by
    have := At_append xs ys (p + 1) h.2
    simpa [Nat.add_assoc, Nat.add_comm 1] using this

/-- the scan for `IF` behind a statement's body: over tokens that are neither `IF` nor end a statement it runs to
the first token that does end one -/
theorem scanForIf_run (L : Lexer) : ∀ (tail : List Tok) (fuel : Nat) (s : LS) (p : Nat) (b : Tok) (rest : List Tok) (a : Tok) (tl : List Tok),
    (∀ x ∈ tail, isDMLTerminator x.kind = false) → isDMLTerminator b.kind = true →
    tail ++ b :: rest = a :: tl → At L p (a :: tl) → Fed s p a →
    (scanForIf L fuel s a.kind).1.idem = true →
    (scanForIf L fuel s a.kind).2.1 = b.kind ∧ ∃ q, Fed (scanForIf L fuel s a.kind).2.2 q b ∧ At L q (b :: rest)
  | [], fuel, s, p, b, rest, a, tl, _, hb, he, hA, hF, hi => by
    simp only [List.nil_append, List.cons.injEq] at he
    obtain ⟨ha, htl⟩ := he
    subst ha; subst htl
    cases fuel with
    | zero => simp [scanForIf, R.fuel] at hi
    | succ n =>
      unfold scanForIf
      simp only [hb, ↓reduceIte, true_and]
      exact ⟨p, hF, hA⟩
  | x :: tail, fuel, s, p, b, rest, a, tl, hx, hb, he, hA, hF, hi => by
    simp only [List.cons_append, List.cons.injEq] at he
    obtain ⟨ha, htl⟩ := he
    subst ha; subst htl
    have hxk : isDMLTerminator x.kind = false := hx x (List.mem_cons_self ..)
    obtain ⟨a2, tl2, he2⟩ : ∃ a2 tl2, tail ++ b :: rest = a2 :: tl2 := by
      cases tail <;> simp
    have hA2 := hA.2
    rw [he2] at hA2
    have h1 := nextT_fst hA2 hF.1
    have hf1 := nextT_fed hA2 hF.1
    cases fuel with
    | zero => simp [scanForIf, R.fuel] at hi
    | succ n =>
      unfold scanForIf at hi ⊢
      simp only [hxk, Bool.false_eq_true, ↓reduceIte] at hi ⊢
      by_cases hif : x.kind = tkIf
      · simp [hif] at hi
      · simp only [hif, ↓reduceIte] at hi ⊢
        generalize nextT L s = o at h1 hf1 hi ⊢
        obtain ⟨t1, s1⟩ := o
        simp only at h1 hf1 hi ⊢
        subst h1
        exact scanForIf_run L tail n s1 (p + 1) b rest a2 tl2 (fun y hy => hx y (List.mem_cons_of_mem _ hy)) hb he2 hA2 hf1 hi

/-- an INSERT whose VALUES list is followed by at least one more token (`a2`): if the verdict is "idempotent" the values
hold no non-deterministic call and the rest of the work was the scan for `IF` from that token on -/
theorem insertTail_reaches (L : Lexer) (fuel : Nat) (s : LS) (p : Nat) (cols : List Ident) (kw : Ident) (vals : Terms)
    (a2 : Tok) (tl2 : List Tok) (hkw : kw.equal "values" = true)
    (hA : At L p (renderCols cols (idt kw :: k tkLparen :: vals.renderElems (k tkRparen :: a2 :: tl2)))) (hs : s.p = p)
    (hi : (insertTail L fuel s).1.idem = true) :
    vals.nonIdem = false ∧ ∃ s7 q, insertTail L fuel s = scanForIf L fuel s7 a2.kind ∧ Fed s7 q a2 ∧ At L q (a2 :: tl2) := by
  obtain ⟨a, tl, hc⟩ := cols_first cols (idt kw :: k tkLparen :: vals.renderElems (k tkRparen :: a2 :: tl2))
  rw [hc] at hA
  have h1 := nextT_fst hA hs
  have hf1 := nextT_fed hA hs
  unfold insertTail at hi ⊢
  generalize nextT L s = o1 at h1 hf1 hi ⊢
  obtain ⟨t1, s1⟩ := o1
  simp only at h1 hf1 hi ⊢
  subst h1
  have hcols := cols_ok L cols fuel s1 p _ a tl hc hA hf1
  generalize parseIdentifiers L fuel s1 a.kind = o2 at hcols hi ⊢
  obtain ⟨e, s2⟩ := o2
  simp only at hcols hi ⊢
  cases e with
  | true => simp [R.bad] at hi
  | false =>
    have hA2 := hcols rfl
    simp only [Bool.false_eq_true, ↓reduceIte] at hi ⊢
    have h2 := nextT_fst hA2 rfl
    have hf2 := nextT_fed hA2 rfl
    have hp2 := nextT_p hA2 rfl
    generalize nextT L s2 = o3 at h2 hf2 hp2 hi ⊢
    obtain ⟨t2, s3⟩ := o3
    simp only at h2 hf2 hp2 hi ⊢
    subst h2
    have hid : s3.id = kw := hf2.2 rfl
    have hkw' : isUnreservedKeyword s3 tkIdentifier "values" = true := by simp [isUnreservedKeyword, hid, hkw]
    simp only [hkw', Bool.not_true, Bool.false_eq_true, ↓reduceIte] at hi ⊢
    have h3 := nextT_fst hA2.2 hp2
    have hp3 := nextT_p hA2.2 hp2
    generalize nextT L s3 = o4 at h3 hp3 hi ⊢
    obtain ⟨t3, s4⟩ := o4
    simp only at h3 hp3 hi ⊢
    subst h3
    simp only [ne_eq, not_true_eq_false, ↓reduceIte] at hi ⊢
    obtain ⟨c, tlc, hbv, _⟩ := terms_first vals tkRparen (a2 :: tl2)
    have hA3 := hA2.2.2
    rw [hbv] at hA3
    have h4 := nextT_fst hA3 hp3
    have hf4 := nextT_fed hA3 hp3
    generalize nextT L s4 = o5 at h4 hf4 hi ⊢
    obtain ⟨t4, s5⟩ := o5
    simp only at h4 hf4 hi ⊢
    subst h4
    have key := terms_entry (termsUntil_is L) (by decide) (by decide) vals (terms_all vals) fuel s5 _ (a2 :: tl2) c tlc hbv hA3 hf4
    generalize parseTermsUntilRparen L fuel s5 c.kind = o6 at key hi ⊢
    obtain ⟨r, t5, s6⟩ := o6
    simp only at key hi ⊢
    by_cases hr : r.idem = true
    · obtain ⟨hA4, hn⟩ := key hr
      simp only [hr, Bool.not_true, Bool.false_eq_true, ↓reduceIte] at hi ⊢
      by_cases ht5 : t5 = tkRparen
      · subst ht5
        simp only [ne_eq, not_true_eq_false, ↓reduceIte] at hi ⊢
        have h6 := nextT_fst hA4 rfl
        have hf6 := nextT_fed hA4 rfl
        generalize nextT L s6 = o7 at h6 hf6 hi ⊢
        obtain ⟨t6, s7⟩ := o7
        simp only at h6 hf6 hi ⊢
        subst h6
        exact ⟨hn, s7, _, rfl, hf6, hA4⟩
      · simp [ht5, R.bad] at hi
    · simp [hr] at hi

/-- an INSERT inside a longer input: behind its VALUES list come tokens that end no statement, then one (`b`) that does -/
theorem insertTail_run (L : Lexer) (fuel : Nat) (s : LS) (p : Nat) (cols : List Ident) (kw : Ident) (vals : Terms)
    (tail : List Tok) (b : Tok) (rest : List Tok)
    (hkw : kw.equal "values" = true) (htail : ∀ x ∈ tail, isDMLTerminator x.kind = false) (hb : isDMLTerminator b.kind = true)
    (hA : At L p (renderCols cols (idt kw :: k tkLparen :: vals.renderElems (k tkRparen :: (tail ++ b :: rest))))) (hs : s.p = p)
    (hi : (insertTail L fuel s).1.idem = true) :
    vals.nonIdem = false ∧ (insertTail L fuel s).2.1 = b.kind ∧ ∃ q, Fed (insertTail L fuel s).2.2 q b ∧ At L q (b :: rest) := by
  obtain ⟨a2, tl2, he2⟩ : ∃ a2 tl2, tail ++ b :: rest = a2 :: tl2 := by
    cases tail <;> simp
  rw [he2] at hA
  obtain ⟨hn, s7, q, heq, hF7, hA7⟩ := insertTail_reaches L fuel s p cols kw vals a2 tl2 hkw hA hs hi
  rw [heq] at hi ⊢
  exact ⟨hn, scanForIf_run L tail fuel s7 q b rest a2 tl2 htail hb he2 hA7 hF7 hi⟩

/-- the scan for `IF` finds one before any token that ends the statement: "not idempotent" -/
theorem scanForIf_if (L : Lexer) : ∀ (pre : List Tok) (fuel : Nat) (s : LS) (p : Nat) (post : List Tok) (a : Tok) (tl : List Tok),
    (∀ x ∈ pre, isDMLTerminator x.kind = false) →
    pre ++ k tkIf :: post = a :: tl → At L p (a :: tl) → Fed s p a →
    (scanForIf L fuel s a.kind).1.idem = false
  | [], fuel, s, p, post, a, tl, _, he, hA, hF => by
    simp only [List.nil_append, List.cons.injEq] at he
    obtain ⟨ha, htl⟩ := he
    subst ha; subst htl
    cases fuel with
    | zero => simp [scanForIf, R.fuel]
    | succ n =>
      unfold scanForIf
      simp only [k, show isDMLTerminator tkIf = false by decide, Bool.false_eq_true, ↓reduceIte]
  | x :: pre, fuel, s, p, post, a, tl, hx, he, hA, hF => by
    simp only [List.cons_append, List.cons.injEq] at he
    obtain ⟨ha, htl⟩ := he
    subst ha; subst htl
    have hxk : isDMLTerminator x.kind = false := hx x (List.mem_cons_self ..)
    obtain ⟨a2, tl2, he2⟩ : ∃ a2 tl2, pre ++ k tkIf :: post = a2 :: tl2 := by
      cases pre <;> simp
    have hA2 := hA.2
    rw [he2] at hA2
    have h1 := nextT_fst hA2 hF.1
    have hf1 := nextT_fed hA2 hF.1
    cases fuel with
    | zero => simp [scanForIf, R.fuel]
    | succ n =>
      unfold scanForIf
      simp only [hxk, Bool.false_eq_true, ↓reduceIte]
      by_cases hif : x.kind = tkIf
      · simp [hif]
      · simp only [hif, ↓reduceIte]
        generalize nextT L s = o at h1 hf1 ⊢
        obtain ⟨t1, s1⟩ := o
        simp only at h1 hf1 ⊢
        subst h1
        exact scanForIf_if L pre n s1 (p + 1) post a2 tl2 (fun y hy => hx y (List.mem_cons_of_mem _ hy)) he2 hA2 hf1

/-- `INSERT … VALUES (…) <tokens that end no statement> IF …`: a conditional insert is never idempotent -/
theorem insert_if (i : Insert) (pre post : List Tok) (hkw : i.valuesKw.equal "values" = true)
    (hpre : ∀ x ∈ pre, isDMLTerminator x.kind = false) (htail : i.tail = pre ++ k tkIf :: post)
    (L : Lexer) (fuel : Nat) (hA : At L 0 i.render) : (classify L fuel).idem = false := by
  cases hc : (classify L fuel).idem with
  | false => rfl
  | true =>
    exfalso
    have h0 := nextT_fst (s := { p := 0 }) hA rfl
    have hp0 := nextT_p (s := { p := 0 }) hA rfl
    have hs := classify_insert L fuel h0 hc
    have h1 := nextT_fst hA.2 hp0
    have hp1 := nextT_p hA.2 hp0
    obtain ⟨a2, tl2, he2⟩ : ∃ a2 tl2, pre ++ k tkIf :: post = a2 :: tl2 := by
      cases pre <;> simp
    have fin : ∀ s p, At L p (renderCols i.cols (idt i.valuesKw :: k tkLparen :: i.vals.renderElems (k tkRparen :: a2 :: tl2))) → s.p = p →
        (insertTail L fuel s).1.idem = true → False := by
      intro s p hA' hs' hi'
      obtain ⟨_, s7, q, heq, hF7, hA7⟩ := insertTail_reaches L fuel s p i.cols i.valuesKw i.vals a2 tl2 hkw hA' hs' hi'
      rw [heq] at hi'
      have := scanForIf_if L pre fuel s7 q post a2 tl2 hpre he2 hA7 hF7
      simp [this] at hi'
    cases hks : i.ks with
    | none =>
      simp only [Insert.render, hks, renderName, htail, he2] at hA
      have h2 := nextT_fst hA.2.2 hp1
      have hp2 := nextT_p hA.2.2 hp1
      have h3 := nextT_fst hA.2.2.2 hp2
      have hp3 := nextT_p hA.2.2.2 hp2
      rw [insertStmt_plain L fuel _ h1 h2 h3] at hs
      exact fin _ _ hA.2.2.2.2 hp3 hs
    | some q =>
      simp only [Insert.render, hks, renderName, htail, he2] at hA
      have h2 := nextT_fst hA.2.2 hp1
      have hp2 := nextT_p hA.2.2 hp1
      have h3 := nextT_fst hA.2.2.2 hp2
      have hp3 := nextT_p hA.2.2.2 hp2
      have h4 := nextT_fst hA.2.2.2.2 hp3
      have hp4 := nextT_p hA.2.2.2.2 hp3
      have h5 := nextT_fst hA.2.2.2.2.2 hp4
      have hp5 := nextT_p hA.2.2.2.2.2 hp4
      rw [insertStmt_qualified L fuel _ h1 h2 h3 h4 h5] at hs
      exact fin _ _ hA.2.2.2.2.2.2 hp5 hs

end CqlVerif.Ast
