import CqlVerif.Model.Parser
namespace CqlVerif.Parser
open CqlVerif.Gen.Lex

/-- a sub-parser result is well-formed: an error (or exhausted fuel) is never "idempotent" -/
structure WF (r : R) : Prop where
  h : r.err = true → r.idem = false

theorem WF_bad : WF R.bad := ⟨fun _ => rfl⟩
theorem WF_fuel : WF R.fuel := ⟨fun _ => rfl⟩
theorem WF_ok (b : Bool) : WF { idem := b } := ⟨by intro h; simp at h⟩
theorem WF_of_not_idem (r : R) (h : (!r.idem) = true) : WF r := ⟨by intro _; simpa using h⟩
theorem WF_of_idem_false (r : R) (h : r.idem = false) : WF r := ⟨fun _ => h⟩

theorem WF_ite {α : Type} (c : Prop) [Decidable c] (a b : R × α)
    (ha : c → WF a.1) (hb : ¬c → WF b.1) : WF (if c then a else b).1 := by
  split
  · exact ha ‹_›
  · exact hb ‹_›

macro "wf_split" : tactic => `(tactic| repeat' (first | (apply WF_ite <;> intro _) | split))

macro "wf_close" : tactic => `(tactic| first
  | exact WF_bad | exact WF_fuel | exact WF_ok _ | assumption
  | (apply WF_of_not_idem; assumption)
  | (apply WF_of_idem_false; assumption)
  | (apply WF_of_idem_false; simp_all; done)
  | (constructor; intro h; simp_all [R.bad, R.fuel]; done))

attribute [local irreducible] parseQualifiedIdentifier nextT skipToken mark rewind parseType parseIdentifiers parseBindMarker isNonIdempotentFunc isUnreservedKeyword parseUsingClause parseTtlOrTimestamp isDMLTerminator isOperator isIdempotentUpdateOpTermType isIdempotentDeleteElementTermType

structure BlockWF (L : Lexer) (fuel : Nat) : Prop where
  term : ∀ s t, WF (parseTerm L fuel s t).1
  list : ∀ s t, WF (parseListLoop L fuel s t).1
  tuple : ∀ s t, WF (parseTupleLoop L fuel s t).1
  udt : ∀ s t, WF (parseUDTLoop L fuel s t).1
  setmap : ∀ s t, WF (parseSetOrMapLoop L fuel s t).1
  args : ∀ s t, WF (parseFuncArgs L fuel s t).1
  curly : ∀ s, WF (termCurly L fuel s).1
  paren : ∀ s, WF (termParen L fuel s).1
  func : ∀ s, WF (termFunc L fuel s).1

theorem term_block_wf (L : Lexer) : ∀ fuel, BlockWF L fuel := by
  intro fuel
  induction fuel with
  | zero =>
    constructor <;> intros <;> simp only [parseTerm, parseListLoop, parseTupleLoop, parseUDTLoop, parseSetOrMapLoop, parseFuncArgs, termCurly, termParen, termFunc] <;> exact WF_fuel
  | succ n ih =>
    constructor
    · intro s t
      unfold parseTerm
      wf_split
      all_goals first
        | exact WF_bad | exact WF_ok _ | exact ih.list _ _ | exact ih.curly _ | exact ih.paren _ | exact ih.func _
    · intro s t
      unfold parseListLoop
      wf_split
      all_goals first
        | exact WF_bad | exact WF_ok _ | exact ih.list _ _ | wf_close
    · intro s t
      unfold parseTupleLoop
      wf_split
      all_goals first
        | exact WF_bad | exact WF_ok _ | exact ih.tuple _ _ | wf_close
    · intro s t
      unfold parseUDTLoop
      wf_split
      all_goals first
        | exact WF_bad | exact WF_ok _ | exact ih.udt _ _ | wf_close
    · intro s t
      unfold parseSetOrMapLoop
      wf_split
      all_goals first
        | exact WF_bad | exact WF_ok _ | exact ih.setmap _ _ | wf_close
    · intro s t
      unfold parseFuncArgs
      wf_split
      all_goals first
        | exact WF_bad | exact WF_ok _ | exact ih.args _ _ | wf_close
    · intro s
      unfold termCurly
      wf_split
      all_goals first
        | exact WF_bad | exact WF_ok _ | exact ih.udt _ _ | exact ih.setmap _ _ | wf_close
    · intro s
      unfold termParen
      wf_split
      all_goals first
        | exact WF_bad | exact WF_ok _ | exact ih.tuple _ _ | wf_close
        | (constructor; intro he; have hw := (ih.term _ _).h he; simp_all; done)
    · intro s
      unfold termFunc
      wf_split
      all_goals first
        | exact WF_bad | exact WF_ok _ | wf_close

theorem parseTerm_wf (L : Lexer) (fuel : Nat) (s : LS) (t : Nat) : WF (parseTerm L fuel s t).1 := (term_block_wf L fuel).term s t

theorem WF_ite3 {α β : Type} (c : Prop) [Decidable c] (a b : R × α × β)
    (ha : c → WF a.1) (hb : ¬c → WF b.1) : WF (if c then a else b).1 := WF_ite c a b ha hb

theorem termsUntilRparen_wf (L : Lexer) : ∀ fuel s t, WF (parseTermsUntilRparen L fuel s t).1 := by
  intro fuel
  induction fuel with
  | zero => intro s t; exact WF_fuel
  | succ n ih =>
    intro s t
    unfold parseTermsUntilRparen
    wf_split
    all_goals first | exact ih _ _ | exact parseTerm_wf L _ _ _ | wf_close

theorem scanForIf_wf (L : Lexer) : ∀ fuel s t, WF (scanForIf L fuel s t).1 := by
  intro fuel
  induction fuel with
  | zero => intro s t; exact WF_fuel
  | succ n ih =>
    intro s t
    unfold scanForIf
    wf_split
    all_goals first | exact ih _ _ | wf_close

theorem identifiersRelation_wf (L : Lexer) (fuel : Nat) (s : LS) : WF (parseIdentifiersRelation L fuel s).1 := by
  unfold parseIdentifiersRelation
  wf_split
  all_goals first
    | wf_close
    | exact termsUntilRparen_wf L _ _ _
    | (constructor; intro he; have := (termsUntilRparen_wf L _ _ _).h he; simp_all; done)
    | (constructor; intro he; simp_all; done)

theorem relation_wf (L : Lexer) : ∀ fuel s t, WF (parseRelation L fuel s t).1 := by
  intro fuel
  induction fuel with
  | zero => intro s t; exact WF_fuel
  | succ n ih =>
    intro s t
    unfold parseRelation
    wf_split
    all_goals first
      | wf_close
      | exact parseTerm_wf L _ _ _
      | exact termsUntilRparen_wf L _ _ _
      | exact ih _ _
      | exact identifiersRelation_wf L _ _
      | (constructor; intro he; simp_all; done)

theorem whereLoop_wf (L : Lexer) : ∀ fuel s t, WF (parseWhereLoop L fuel s t).1 := by
  intro fuel
  induction fuel with
  | zero => intro s t; exact WF_fuel
  | succ n ih =>
    intro s t
    unfold parseWhereLoop
    wf_split
    all_goals first | exact ih _ _ | exact relation_wf L _ _ _ | wf_close

theorem updateOp_wf (L : Lexer) (fuel : Nat) (s : LS) (t : Nat) : WF (parseUpdateOp L fuel s t).1 := by
  unfold parseUpdateOp
  wf_split
  all_goals first | wf_close | exact parseTerm_wf L _ _ _ | (constructor; intro he; simp_all; done)

theorem updateOpsLoop_wf (L : Lexer) : ∀ fuel s t, WF (updateOpsLoop L fuel s t).1 := by
  intro fuel
  induction fuel with
  | zero => intro s t; exact WF_fuel
  | succ n ih =>
    intro s t
    unfold updateOpsLoop
    wf_split
    all_goals first | exact ih _ _ | exact updateOp_wf L _ _ _ | wf_close

theorem deleteOpsLoop_wf (L : Lexer) : ∀ fuel s t, WF (deleteOpsLoop L fuel s t).1 := by
  intro fuel
  induction fuel with
  | zero => intro s t; exact WF_fuel
  | succ n ih =>
    intro s t
    unfold deleteOpsLoop
    wf_split
    all_goals first | exact ih _ _ | exact parseTerm_wf L _ _ _ | wf_close

theorem whereAndIf_wf (L : Lexer) (fuel : Nat) (s : LS) (t : Nat) : WF (whereAndIf L fuel s t).1 := by
  unfold whereAndIf parseWhereClause
  wf_split
  all_goals first | exact scanForIf_wf L _ _ _ | exact whereLoop_wf L _ _ _ | wf_close

attribute [local irreducible] whereAndIf scanForIf parseTermsUntilRparen updateOpsLoop deleteOpsLoop parseWhereLoop parseRelation parseUpdateOp

theorem insertStmt_wf (L : Lexer) (fuel : Nat) (s : LS) : WF (insertStmt L fuel s).1 := by
  unfold insertStmt
  wf_split
  all_goals first | exact scanForIf_wf L _ _ _ | exact termsUntilRparen_wf L _ _ _ | wf_close

theorem updateStmt_wf (L : Lexer) (fuel : Nat) (s : LS) : WF (updateStmt L fuel s).1 := by
  unfold updateStmt
  wf_split
  all_goals first | exact whereAndIf_wf L _ _ _ | exact updateOpsLoop_wf L _ _ _ | wf_close

theorem deleteStmt_wf (L : Lexer) (fuel : Nat) (s : LS) : WF (deleteStmt L fuel s).1 := by
  unfold deleteStmt
  wf_split
  all_goals first | exact whereAndIf_wf L _ _ _ | exact deleteOpsLoop_wf L _ _ _ | wf_close

attribute [local irreducible] insertStmt updateStmt deleteStmt

/-- the dispatch on the child / top-level statement kind -/
theorem dispatch_wf (L : Lexer) (fuel : Nat) (s : LS) (t : Nat) (r : R) (t' : Nat) (s' : LS)
    (h : dispatch L fuel s t = some (r, t', s')) : WF r := by
  unfold dispatch at h
  split at h
  · have e := Option.some.inj h
    have : r = (insertStmt L fuel s).1 := by rw [e]
    rw [this]; exact insertStmt_wf L _ _
  · split at h
    · have e := Option.some.inj h
      have : r = (updateStmt L fuel s).1 := by rw [e]
      rw [this]; exact updateStmt_wf L _ _
    · split at h
      · have e := Option.some.inj h
        have : r = (deleteStmt L fuel s).1 := by rw [e]
        rw [this]; exact deleteStmt_wf L _ _
      · cases h

attribute [local irreducible] dispatch

theorem batchLoop_wf (L : Lexer) : ∀ fuel s t, WF (batchLoop L fuel s t).1 := by
  intro fuel
  induction fuel with
  | zero => intro s t; exact WF_fuel
  | succ n ih =>
    intro s t
    unfold batchLoop
    split
    · split
      · exact WF_bad
      · rename_i r t' s' hres
        have hr := dispatch_wf L n s t r t' s' hres
        dsimp only
        split
        · exact hr
        · exact ih _ _
    · wf_split
      all_goals wf_close

theorem batchStmt_wf (L : Lexer) (fuel : Nat) (s : LS) : WF (batchStmt L fuel s).1 := by
  unfold batchStmt
  wf_split
  all_goals first | exact batchLoop_wf L _ _ _ | wf_close

/-- **unparseable_false**, for every lexer (every token stream) and every amount of fuel -/
theorem classify_wf (L : Lexer) (fuel : Nat) : WF (classify L fuel) := by
  unfold classify
  dsimp only
  split
  · exact WF_ok _
  · split
    · exact WF_ok _
    · split
      · exact batchStmt_wf L _ _
      · split
        · exact WF_bad
        · rename_i r t' s' hres
          have hr := dispatch_wf L fuel _ _ r t' s' hres
          constructor
          intro he
          have := hr.h he
          simp [this]

end CqlVerif.Parser
