import CqlVerif.Lemmas.Grammar
/-
Lemmas.GrammarPlain — the other direction for plain terms: literals, bind markers and list / set / map / tuple
literals of those are parsed to the end and answered "idempotent", given fuel for their size.
-/
namespace CqlVerif.Ast
open CqlVerif.Parser CqlVerif.Gen.Lex

/-- with fuel for its size the parser reads the whole term, reports no error and answers "idempotent" -/
def Complete (t : Term) : Prop := ∀ (L : Lexer) (fuel : Nat) (s : LS) (p : Nat) (rest : List Tok),
  t.size ≤ fuel → At L p (t.render rest) → Fed s p t.head →
  (parseTerm L fuel s t.head.kind).1 = { idem := true } ∧ At L (parseTerm L fuel s t.head.kind).2.2.p rest

/-- a plain term starts with no identifier -/
theorem plain_head (t : Term) (h : t.plain = true) : t.head.kind ≠ tkIdentifier := by
  cases t with
  | prim q => cases q <;> decide
  | call ks name args => simp [Term.plain] at h
  | udt fs => simp [Term.plain] at h
  | cast a b c => simp [Term.plain] at h
  | _ => simp only [Term.head]; decide

structure TermsLoopC (L : Lexer) {α : Type} (loop : Nat → LS → Nat → R × α × LS) (close : Nat) : Prop extends TermsLoop L loop close where
  stopR : ∀ n s, (loop (n+1) s close).1 = { idem := true }

theorem terms_cont_c {L : Lexer} {α : Type} {loop : Nat → LS → Nat → R × α × LS} {close : Nat} (H : TermsLoopC L loop close)
    (hc : close ≠ tkComma) (hcc : close ≠ tkColon) :
    (ts : Terms) → ts.All Complete → ∀ (fuel : Nat) (s : LS) (p : Nat) (rest : List Tok),
    1 + ts.size ≤ fuel → At L p (ts.renderTail (k close :: rest)) → s.p = p →
    ∃ n s0, contOf L loop fuel s = loop (n+1) s0 close ∧ At L s0.p rest
  | .nil, _, fuel, s, p, rest, hf, hA, hs => by
    simp only [Terms.renderTail] at hA
    have h1 := nextT_fst hA hs
    have h2 := nextT_p hA hs
    simp only [contOf]
    rw [h1]
    simp only [skip_ne hc]
    cases fuel with
    | zero => simp [Terms.size] at hf
    | succ n => exact ⟨n, _, rfl, by rw [h2]; exact hA.2⟩
  | .cons t ts, hall, fuel, s, p, rest, hf, hA, hs => by
    simp only [Terms.renderTail] at hA
    have h1 := nextT_fst hA hs
    have h2 := nextT_p hA hs
    obtain ⟨tl, htl⟩ := render_head t (ts.renderTail (k close :: rest))
    have hA2 := hA.2
    rw [htl] at hA2
    have h3 := nextT_fst hA2 h2
    have h4 := nextT_fed hA2 h2
    simp only [contOf]
    rw [h1]
    simp only [skip_eq]
    rw [h3]
    simp only [Terms.size] at hf
    cases fuel with
    | zero => omega
    | succ n =>
      rw [← htl] at hA2
      obtain ⟨hr, hA3⟩ := hall.1 L n _ (p + 1) _ (by omega) hA2 h4
      have hti : (parseTerm L n (nextT L (nextT L s).2).2 t.head.kind).1.idem = true := by rw [hr]
      have hsep : (nextT L (parseTerm L n (nextT L (nextT L s).2).2 t.head.kind).2.2).1 ≠ tkColon := by
        obtain ⟨a, tl2, he, hk⟩ := tail_head ts close rest
        rw [he] at hA3
        rw [nextT_fst hA3 rfl]
        rcases hk with hk | hk <;> rw [hk]
        · exact hcc
        · decide
      rw [H.step2 n _ _ (head_start t) hti hsep]
      exact terms_cont_c H hc hcc ts hall.2 n _ _ rest (by omega) hA3 rfl

theorem terms_entry_c {L : Lexer} {α : Type} {loop : Nat → LS → Nat → R × α × LS} {close : Nat} (H : TermsLoopC L loop close)
    (hc : close ≠ tkComma) (hcc : close ≠ tkColon) (xs : Terms) (hall : xs.All Complete)
    (fuel : Nat) (s : LS) (p : Nat) (rest : List Tok) (a : Tok) (tl : List Tok) (hf : 1 + xs.size ≤ fuel)
    (he : xs.renderElems (k close :: rest) = a :: tl) (hA : At L p (a :: tl)) (hF : Fed s p a) :
    ∃ n s0, loop fuel s a.kind = loop (n+1) s0 close ∧ At L s0.p rest := by
  cases xs with
  | nil =>
    simp only [Terms.renderElems, List.cons.injEq] at he
    obtain ⟨ha, htl⟩ := he
    subst ha; subst htl
    cases fuel with
    | zero => simp [Terms.size] at hf
    | succ n => exact ⟨n, s, rfl, by rw [hF.1]; exact hA.2⟩
  | cons t ts =>
    simp only [Terms.renderElems] at he
    obtain ⟨tl', htl⟩ := render_head t (ts.renderTail (k close :: rest))
    rw [htl] at he
    simp only [List.cons.injEq] at he
    obtain ⟨ha, htl2⟩ := he
    subst ha; subst htl2
    rw [← htl] at hA
    simp only [Terms.size] at hf
    cases fuel with
    | zero => omega
    | succ n =>
      obtain ⟨hr, hA3⟩ := hall.1 L n _ p _ (by omega) hA hF
      have hti : (parseTerm L n s t.head.kind).1.idem = true := by rw [hr]
      have hsep : (nextT L (parseTerm L n s t.head.kind).2.2).1 ≠ tkColon := by
        obtain ⟨a, tl2, he, hk⟩ := tail_head ts close rest
        rw [he] at hA3
        rw [nextT_fst hA3 rfl]
        rcases hk with hk | hk <;> rw [hk]
        · exact hcc
        · decide
      rw [H.step2 n _ _ (head_start t) hti hsep]
      exact terms_cont_c H hc hcc ts hall.2 n _ _ rest (by omega) hA3 rfl

theorem terms_entry_c' {L : Lexer} {α : Type} {loop : Nat → LS → Nat → R × α × LS} {close : Nat} (H : TermsLoopC L loop close)
    (hc : close ≠ tkComma) (hcc : close ≠ tkColon) (xs : Terms) (hall : xs.All Complete)
    (fuel : Nat) (s : LS) (p : Nat) (rest : List Tok) (a : Tok) (tl : List Tok) (hf : 1 + xs.size ≤ fuel)
    (he : xs.renderElems (k close :: rest) = a :: tl) (hA : At L p (a :: tl)) (hF : Fed s p a) :
    (loop fuel s a.kind).1 = { idem := true } ∧ At L (loop fuel s a.kind).2.2.p rest := by
  obtain ⟨n, s0, heq, hA0⟩ := terms_entry_c H hc hcc xs hall fuel s p rest a tl hf he hA hF
  rw [heq, H.stopR, H.stop]
  exact ⟨rfl, hA0⟩

theorem listLoop_c (L : Lexer) : TermsLoopC L (parseListLoop L) tkRsquare :=
  { listLoop_is L with stopR := by intro n s; simp [parseListLoop] }
theorem tupleLoop_c (L : Lexer) : TermsLoopC L (parseTupleLoop L) tkRparen :=
  { tupleLoop_is L with stopR := by intro n s; simp [parseTupleLoop] }
theorem setLoop_c (L : Lexer) : TermsLoopC L (parseSetOrMapLoop L) tkRcurly :=
  { setLoop_is L with stopR := by intro n s; simp [parseSetOrMapLoop] }

theorem pair_fwd (L : Lexer) (n : Nat) (s : LS) (t : Nat) (ht : isTermStart t = true)
    (hk : (parseTerm L n s t).1.idem = true) (hsep : (nextT L (parseTerm L n s t).2.2).1 = tkColon)
    (hv : (parseTerm L n (nextT L (nextT L (parseTerm L n s t).2.2).2).2 (nextT L (nextT L (parseTerm L n s t).2.2).2).1).1.idem = true) :
    parseSetOrMapLoop L (n+1) s t = contOf L (parseSetOrMapLoop L) n
      (parseTerm L n (nextT L (nextT L (parseTerm L n s t).2.2).2).2 (nextT L (nextT L (parseTerm L n s t).2.2).2).1).2.2 := by
  have h1 : t ≠ tkRcurly := start_ne ht (by decide)
  have h2 : t ≠ tkEOF := start_ne ht (by decide)
  conv => lhs; unfold parseSetOrMapLoop
  simp only [h1, h2, ne_eq, not_false_eq_true, and_self, ↓reduceIte, contOf]
  generalize parseTerm L n s t = o at hk hsep hv ⊢
  obtain ⟨r, ty, s'⟩ := o
  simp only at hk hsep hv ⊢
  simp only [hk, hsep, Bool.not_true, Bool.false_eq_true, ↓reduceIte]
  generalize parseTerm L n (nextT L (nextT L s').2).2 (nextT L (nextT L s').2).1 = o2 at hv ⊢
  obtain ⟨r2, ty2, s2⟩ := o2
  simp only at hv ⊢
  simp [hv]

def Pairs.AllC : Pairs → Prop
  | .nil => True
  | .cons a b ps => Complete a ∧ Complete b ∧ ps.AllC

theorem pairs_entry_c (L : Lexer) :
    (ps : Pairs) → ps.AllC → ∀ (fuel : Nat) (s : LS) (p : Nat) (rest : List Tok) (a : Tok) (tl : List Tok),
    1 + ps.size ≤ fuel → ps.renderElems (k tkRcurly :: rest) = a :: tl → At L p (a :: tl) → Fed s p a →
    (parseSetOrMapLoop L fuel s a.kind).1 = { idem := true } ∧ At L (parseSetOrMapLoop L fuel s a.kind).2.2.p rest
  | .nil, _, fuel, s, p, rest, a, tl, hf, he, hA, hF => by
    simp only [Pairs.renderElems, List.cons.injEq] at he
    obtain ⟨ha, htl⟩ := he
    subst ha; subst htl
    cases fuel with
    | zero => simp [Pairs.size] at hf
    | succ n => simp only []; rw [(setLoop_c L).stopR, (setLoop_c L).stop, hF.1]; exact ⟨rfl, hA.2⟩
  | .cons x y ps, hall, fuel, s, p, rest, a, tl, hf, he, hA, hF => by
    simp only [Pairs.renderElems] at he
    obtain ⟨tl', htl⟩ := render_head x (k tkColon :: y.render (ps.renderTail (k tkRcurly :: rest)))
    rw [htl] at he
    simp only [List.cons.injEq] at he
    obtain ⟨ha, htl2⟩ := he
    subst ha; subst htl2
    rw [← htl] at hA
    simp only [Pairs.size] at hf
    cases fuel with
    | zero => omega
    | succ n =>
      obtain ⟨hrk, hA1⟩ := hall.1 L n s p _ (by omega) hA hF
      have hk : (parseTerm L n s x.head.kind).1.idem = true := by rw [hrk]
      have hsep := nextT_fst hA1 rfl
      have hp1 := nextT_p hA1 rfl
      obtain ⟨tl2, htl2⟩ := render_head y (ps.renderTail (k tkRcurly :: rest))
      have hA2 := hA1.2
      rw [htl2] at hA2
      have hf2 := nextT_fed hA2 hp1
      have hk2 := nextT_fst hA2 hp1
      rw [← htl2] at hA2
      obtain ⟨hrv, hA3⟩ := hall.2.1 L n _ _ _ (by omega) hA2 hf2
      have hv : (parseTerm L n (nextT L (nextT L (parseTerm L n s x.head.kind).2.2).2).2
          (nextT L (nextT L (parseTerm L n s x.head.kind).2.2).2).1).1.idem = true := by rw [hk2, hrv]
      rw [pair_fwd L n s _ (head_start x) hk hsep hv, hk2]
      have hb : ∃ b tlb, ps.renderElems (k tkRcurly :: rest) = b :: tlb ∧
          ((ps.renderTail (k tkRcurly :: rest) = b :: tlb ∧ b.kind ≠ tkComma) ∨ ps.renderTail (k tkRcurly :: rest) = k tkComma :: b :: tlb) := by
        cases ps with
        | nil => exact ⟨k tkRcurly, rest, rfl, Or.inl ⟨rfl, by decide⟩⟩
        | cons x2 y2 ps2 =>
          obtain ⟨tl3, htl3⟩ := render_head x2 (k tkColon :: y2.render (ps2.renderTail (k tkRcurly :: rest)))
          exact ⟨x2.head, tl3, by simp [Pairs.renderElems, htl3], Or.inr (by simp [Pairs.renderTail, htl3])⟩
      obtain ⟨b, tlb, hbe, hbt⟩ := hb
      obtain ⟨s', p', hc, hF', hA'⟩ := cont_bridge (parseSetOrMapLoop L) n _ _ _ b tlb hbt hA3 rfl
      rw [hc]
      exact pairs_entry_c L ps hall.2.2 n s' p' rest b tlb (by omega) hbe hA' hF'

attribute [local simp] tkInvalid tkEOF tkIdentifier tkComma tkDot tkColon tkQMark tkLt tkGt tkLparen tkRparen tkLsquare tkRsquare
  tkLcurly tkRcurly tkInteger tkFloat tkBool tkNull tkStringLiteral tkHexNumber tkUuid tkDuration tkNan tkInfinity

theorem plain_first (xs : Terms) (hp : xs.plain = true) (close : Nat) (hc : close ≠ tkIdentifier) (rest : List Tok) :
    ∃ a tl, xs.renderElems (k close :: rest) = a :: tl ∧ a.kind ≠ tkIdentifier := by
  cases xs with
  | nil => exact ⟨k close, rest, rfl, hc⟩
  | cons t ts =>
    simp only [Terms.plain, Bool.and_eq_true] at hp
    obtain ⟨tl, h⟩ := render_head t (ts.renderTail (k close :: rest))
    exact ⟨t.head, tl, h, plain_head t hp.1⟩

theorem pairs_plain_first (ps : Pairs) (hp : ps.plain = true) (rest : List Tok) :
    ∃ a tl, ps.renderElems (k tkRcurly :: rest) = a :: tl ∧ a.kind ≠ tkIdentifier := by
  cases ps with
  | nil => exact ⟨k tkRcurly, rest, rfl, by decide⟩
  | cons x y ps =>
    simp only [Pairs.plain, Bool.and_eq_true] at hp
    obtain ⟨tl, h⟩ := render_head x (k tkColon :: y.render (ps.renderTail (k tkRcurly :: rest)))
    exact ⟨x.head, tl, h, plain_head x hp.1.1⟩

mutual
theorem term_complete : (t : Term) → t.plain = true → Complete t
  | .int, _ => by
    intro L fuel s p rest hf hA hF
    cases fuel with
    | zero => simp [Term.size] at hf
    | succ n => simp only [Term.head, pt_int]; rw [hF.1]; exact ⟨trivial, hA.2⟩
  | .prim q, _ => by
    intro L fuel s p rest hf hA hF
    cases fuel with
    | zero => simp [Term.size] at hf
    | succ n => simp only [Term.head, pt_prim]; rw [hF.1]; exact ⟨trivial, hA.2⟩
  | .bindQ, _ => by
    intro L fuel s p rest hf hA hF
    cases fuel with
    | zero => simp [Term.size] at hf
    | succ n => simp only [Term.head, pt_q]; rw [hF.1]; exact ⟨trivial, hA.2⟩
  | .bindNamed nm, _ => by
    intro L fuel s p rest hf hA hF
    cases fuel with
    | zero => simp [Term.size] at hf
    | succ n =>
      have h1 := nextT_fst hA.2 hF.1
      have h2 := nextT_p hA.2 hF.1
      simp only [Term.head, pt_colon L n s h1]; rw [h2]; exact ⟨trivial, hA.2.2⟩
  | .list xs, hp => by
    intro L fuel s p rest hf hA hF
    simp only [Term.size] at hf
    cases fuel with
    | zero => omega
    | succ n =>
      simp only [Term.head, pt_lsquare]
      obtain ⟨a, tl, he, _⟩ := terms_first xs tkRsquare rest
      have hA2 := hA.2
      simp only [he] at hA2
      rw [nextT_fst hA2 hF.1]
      exact terms_entry_c' (listLoop_c L) (by decide) (by decide) xs (terms_complete xs hp) n _ (p + 1) rest a tl (by omega) he hA2 (nextT_fed hA2 hF.1)
  | .tuple xs, hp => by
    intro L fuel s p rest hf hA hF
    simp only [Term.size] at hf
    cases fuel with
    | zero => omega
    | succ n =>
      simp only [Term.head, pt_lparen]
      obtain ⟨a, tl, he, hk⟩ := plain_first xs hp tkRparen (by decide) rest
      have hA2 := hA.2
      simp only [he] at hA2
      have h1 := nextT_fst hA2 hF.1
      cases n with
      | zero => omega
      | succ m =>
        rw [paren_plain L m s (by rw [h1]; exact hk), h1]
        exact terms_entry_c' (tupleLoop_c L) (by decide) (by decide) xs (terms_complete xs hp) m _ (p + 1) rest a tl (by omega) he hA2 (nextT_fed hA2 hF.1)
  | .set xs, hp => by
    intro L fuel s p rest hf hA hF
    simp only [Term.size] at hf
    cases fuel with
    | zero => omega
    | succ n =>
      simp only [Term.head, pt_lcurly]
      obtain ⟨a, tl, he, hk⟩ := plain_first xs hp tkRcurly (by decide) rest
      have hA2 := hA.2
      simp only [he] at hA2
      have h1 := nextT_fst hA2 hF.1
      cases n with
      | zero => omega
      | succ m =>
        rw [curly_plain L m s (by rw [h1]; exact hk), h1]
        exact terms_entry_c' (setLoop_c L) (by decide) (by decide) xs (terms_complete xs hp) m _ (p + 1) rest a tl (by omega) he hA2 (nextT_fed hA2 hF.1)
  | .map kvs, hp => by
    intro L fuel s p rest hf hA hF
    simp only [Term.size] at hf
    cases fuel with
    | zero => omega
    | succ n =>
      simp only [Term.head, pt_lcurly]
      obtain ⟨a, tl, he, hk⟩ := pairs_plain_first kvs hp rest
      have hA2 := hA.2
      simp only [he] at hA2
      have h1 := nextT_fst hA2 hF.1
      cases n with
      | zero => omega
      | succ m =>
        rw [curly_plain L m s (by rw [h1]; exact hk), h1]
        exact pairs_entry_c L kvs (pairs_complete kvs hp) m _ (p + 1) rest a tl (by omega) he hA2 (nextT_fed hA2 hF.1)
  | .udt _, hp => by simp [Term.plain] at hp
  | .cast _ _ _, hp => by simp [Term.plain] at hp
  | .call _ _ _, hp => by simp [Term.plain] at hp
theorem terms_complete : (ts : Terms) → ts.plain = true → ts.All Complete
  | .nil, _ => trivial
  | .cons t ts, hp => by
    simp only [Terms.plain, Bool.and_eq_true] at hp
    exact ⟨term_complete t hp.1, terms_complete ts hp.2⟩
theorem pairs_complete : (ps : Pairs) → ps.plain = true → ps.AllC
  | .nil, _ => trivial
  | .cons a b ps, hp => by
    simp only [Pairs.plain, Bool.and_eq_true] at hp
    exact ⟨term_complete a hp.1.1, term_complete b hp.1.2, pairs_complete ps hp.2⟩
end

end CqlVerif.Ast
