import CqlVerif.Lemmas.GrammarUpdate
/-
Lemmas.GrammarWhere — the WHERE clause of an UPDATE: relations `column <op> term` and `column IN (terms)` joined by
AND, through `parseRelation` / `parseWhereLoop`, behind the SET clause of `GrammarUpdate`.
-/
namespace CqlVerif.Ast
open CqlVerif.Parser CqlVerif.Gen.Lex

def Rel.wf : Rel → Prop
  | .cmp _ op _ => isOperator op = true
  | .inList _ _ => True

def Rel.col : Rel → Ident
  | .cmp c _ _ => c
  | .inList c _ => c

def relsNonIdem (rs : List Rel) : Bool := rs.any Rel.nonIdem

theorem rel_head (r : Rel) (rest : List Tok) : ∃ tl, r.render rest = idt r.col :: tl := by
  cases r <;> exact ⟨_, rfl⟩

theorem op_cases {op : Nat} (h : isOperator op = true) :
    op = tkEqual ∨ op = tkLt ∨ op = tkLtEqual ∨ op = tkGt ∨ op = tkGtEqual ∨ op = tkNotEqual := by
  simp only [isOperator, Bool.or_eq_true, decide_eq_true_eq] at h
  omega

theorem rel_sound (L : Lexer) (fuel : Nat) (s : LS) (p : Nat) (r : Rel) (hwf : r.wf) (rest : List Tok)
    (hA : At L p (r.render rest)) (hF : Fed s p (idt r.col))
    (hi : (parseRelation L fuel s tkIdentifier).1.idem = true) :
    r.nonIdem = false ∧ At L (parseRelation L fuel s tkIdentifier).2.p rest := by
  cases fuel with
  | zero => simp [parseRelation, R.fuel] at hi
  | succ n =>
    cases r with
    | cmp c op t =>
      simp only [Rel.render, Rel.col] at hA hF
      have h1 := nextT_fst hA.2 hF.1
      have hp1 := nextT_p hA.2 hF.1
      obtain ⟨tlt, htl⟩ := render_head t rest
      have hA2 := hA.2.2
      rw [htl] at hA2
      have h2 := nextT_fst hA2 hp1
      have hf2 := nextT_fed hA2 hp1
      rw [← htl] at hA2
      unfold parseRelation at hi ⊢
      simp only [↓reduceIte] at hi ⊢
      generalize nextT L s = o1 at h1 hp1 h2 hf2 hi ⊢
      obtain ⟨t1, s1⟩ := o1
      simp only [k] at h1 hp1 h2 hf2 hi ⊢
      have hop := op_cases hwf
      have hnid : op ≠ tkIdentifier := by rcases hop with h | h | h | h | h | h <;> rw [h] <;> decide
      have hdisj : op = tkEqual ∨ op = tkGt ∨ op = tkLtEqual ∨ op = tkLt ∨ op = tkGtEqual ∨ op = tkNotEqual := by omega
      rw [h1] at hi ⊢
      simp only [hnid, ↓reduceIte, hdisj] at hi ⊢
      generalize nextT L s1 = o2 at h2 hf2 hi ⊢
      obtain ⟨t2, s2⟩ := o2
      simp only at h2 hf2 hi ⊢
      subst h2
      have key := term_sound t L n s2 (p + 2) rest hA2 hf2
      generalize parseTerm L n s2 t.head.kind = o3 at key hi ⊢
      obtain ⟨r3, ty, s3⟩ := o3
      simp only at key hi ⊢
      by_cases hr : r3.idem = true
      · obtain ⟨hA3, hn⟩ := key hr
        simp only [hr, Bool.not_true, Bool.false_eq_true, ↓reduceIte]
        exact ⟨hn, hA3⟩
      · simp [hr] at hi
    | inList c ts =>
      simp only [Rel.render, Rel.col] at hA hF
      have h1 := nextT_fst hA.2 hF.1
      have hp1 := nextT_p hA.2 hF.1
      have h2 := nextT_fst hA.2.2 hp1
      have hp2 := nextT_p hA.2.2 hp1
      obtain ⟨b, tlb, hb, _⟩ := terms_first ts tkRparen rest
      have hA3 := hA.2.2.2
      rw [hb] at hA3
      have h3 := nextT_fst hA3 hp2
      have hf3 := nextT_fed hA3 hp2
      unfold parseRelation at hi ⊢
      simp only [↓reduceIte] at hi ⊢
      generalize nextT L s = o1 at h1 hp1 h2 hp2 h3 hf3 hi ⊢
      obtain ⟨t1, s1⟩ := o1
      simp only [k] at h1 hp1 h2 hp2 h3 hf3 hi ⊢
      subst h1
      simp only [show tkIn ≠ tkIdentifier by decide, ↓reduceIte,
        show ¬(tkIn = tkEqual ∨ tkIn = tkGt ∨ tkIn = tkLtEqual ∨ tkIn = tkLt ∨ tkIn = tkGtEqual ∨ tkIn = tkNotEqual) by decide,
        show tkIn ≠ tkIs by decide, show tkIn ≠ tkLsquare by decide] at hi ⊢
      generalize nextT L s1 = o2 at h2 hp2 h3 hf3 hi ⊢
      obtain ⟨t2, s2⟩ := o2
      simp only at h2 hp2 h3 hf3 hi ⊢
      subst h2
      simp only [↓reduceIte] at hi ⊢
      generalize nextT L s2 = o3 at h3 hf3 hi ⊢
      obtain ⟨t3, s3⟩ := o3
      simp only at h3 hf3 hi ⊢
      subst h3
      have key := terms_entry (termsUntil_is L) (by decide) (by decide) ts (terms_all ts) n s3 _ rest b tlb hb hA3 hf3
      generalize parseTermsUntilRparen L n s3 b.kind = o4 at key hi ⊢
      obtain ⟨r4, t4, s4⟩ := o4
      simp only at key hi ⊢
      by_cases hr : r4.idem = true
      · obtain ⟨hA4, hn⟩ := key hr
        simp only [hr, Bool.not_true, Bool.false_eq_true, ↓reduceIte] at hi ⊢
        by_cases ht4 : t4 = tkRparen
        · subst ht4
          simp only [ne_eq, not_true_eq_false, ↓reduceIte]
          exact ⟨hn, hA4⟩
        · simp [ht4, R.bad] at hi
      · simp [hr] at hi

theorem where_zero (L : Lexer) (s : LS) (t : Nat) : (parseWhereLoop L 0 s t).1.idem = false := by simp [parseWhereLoop, R.fuel]

/-- after a relation: read the separator, skip an AND, go round the loop again -/
def contAnd (L : Lexer) (fuel : Nat) (s : LS) : R × Nat × LS :=
  parseWhereLoop L fuel (skipToken L (nextT L s).2 (nextT L s).1 tkAnd).2 (skipToken L (nextT L s).2 (nextT L s).1 tkAnd).1

theorem where_step (L : Lexer) (n : Nat) (s : LS) (hi : (parseWhereLoop L (n+1) s tkIdentifier).1.idem = true) :
    (parseRelation L n s tkIdentifier).1.idem = true ∧
    parseWhereLoop L (n+1) s tkIdentifier = contAnd L n (parseRelation L n s tkIdentifier).2 := by
  unfold parseWhereLoop at hi
  conv => rhs; lhs; unfold parseWhereLoop
  simp only [show tkIdentifier ≠ tkIf by decide, show isDMLTerminator tkIdentifier = false by decide,
    ne_eq, not_false_eq_true, Bool.not_false, and_self, ↓reduceIte, contAnd] at hi ⊢
  generalize parseRelation L n s tkIdentifier = o at hi ⊢
  obtain ⟨r, s'⟩ := o
  simp only at hi ⊢
  by_cases hr : r.idem = true
  · simp [hr]
  · simp [hr] at hi

theorem rels_sound (L : Lexer) (rest : List Tok) :
    (rs : List Rel) → (∀ r ∈ rs, r.wf) → ∀ (r0 : Rel) (fuel : Nat) (s : LS) (p : Nat), r0.wf →
    At L p (renderRels (r0 :: rs) rest) → Fed s p (idt r0.col) →
    (parseWhereLoop L fuel s tkIdentifier).1.idem = true → relsNonIdem (r0 :: rs) = false
  | [], _, r0, fuel, s, p, hw0, hA, hF, hi => by
    cases fuel with
    | zero => simp [where_zero] at hi
    | succ n =>
      obtain ⟨hrel, _⟩ := where_step L n s hi
      simp only [renderRels] at hA
      obtain ⟨hn, _⟩ := rel_sound L n s p r0 hw0 rest hA hF hrel
      simp [relsNonIdem, hn]
  | r2 :: more, hall, r0, fuel, s, p, hw0, hA, hF, hi => by
    cases fuel with
    | zero => simp [where_zero] at hi
    | succ n =>
      obtain ⟨hrel, heq⟩ := where_step L n s hi
      simp only [renderRels] at hA
      obtain ⟨hn, hA2⟩ := rel_sound L n s p r0 hw0 _ hA hF hrel
      rw [heq] at hi
      obtain ⟨tl2, htl2⟩ := rel_head r2 (match more with | [] => rest | r3 :: m => k tkAnd :: renderRels (r3 :: m) rest)
      have hr2 : ∃ tl, renderRels (r2 :: more) rest = idt r2.col :: tl := by
        cases more with
        | nil => exact rel_head r2 rest
        | cons r3 m => exact rel_head r2 _
      obtain ⟨tl3, htl3⟩ := hr2
      have hA3 := hA2.2
      rw [htl3] at hA3
      have h1 := nextT_fst hA2 rfl
      have hp1 := nextT_p hA2 rfl
      have h2 := nextT_fst hA3 hp1
      have hf2 := nextT_fed hA3 hp1
      simp only [contAnd] at hi
      rw [h1] at hi
      simp only [k, skip_eq] at hi
      rw [h2] at hi
      rw [← htl3] at hA3
      have ih := rels_sound L rest more (fun r hr => hall r (List.mem_cons_of_mem _ hr)) r2 n _ _ (hall r2 (List.mem_cons_self ..)) hA3 hf2 hi
      simp only [relsNonIdem, List.any_cons, Bool.or_eq_false_iff] at ih ⊢
      exact ⟨hn, ih⟩

/-- the SET clause up to the WHERE that ends it -/
theorem assigns_run (L : Lexer) (r0 : List Tok) :
    (as : Assigns) → ∀ (c : Ident) (t : Term) (fuel : Nat) (s : LS) (p : Nat),
    At L p ((Assigns.cons c t as).renderElems (k tkWhere :: r0)) → Fed s p (idt c) →
    (updateOpsLoop L fuel s tkIdentifier).1.idem = true →
    (Assigns.cons c t as).nonIdem = false ∧ (updateOpsLoop L fuel s tkIdentifier).2.1 = tkWhere ∧
      ∃ q, (updateOpsLoop L fuel s tkIdentifier).2.2.p = q ∧ At L q r0
  | .nil, c, t, fuel, s, p, hA, hF, hi => by
    cases fuel with
    | zero => simp [ops_zero] at hi
    | succ n =>
      obtain ⟨hop, heq⟩ := ops_step L n s hi
      simp only [Assigns.renderElems, Assigns.renderTail] at hA
      obtain ⟨hn, hA2⟩ := assign_sound L n s p c t (k tkWhere) r0 (term_sound t) (by decide) hA hF hop
      rw [heq] at hi ⊢
      have h1 := nextT_fst hA2 rfl
      have hp1 := nextT_p hA2 rfl
      simp only [contOf] at hi ⊢
      rw [h1] at hi ⊢
      simp only [k, skip_ne (show tkWhere ≠ tkComma by decide)] at hi ⊢
      cases n with
      | zero => simp [ops_zero] at hi
      | succ m =>
        unfold updateOpsLoop
        simp only [ne_eq, not_true_eq_false, false_and, and_false, ↓reduceIte]
        simp only [true_and]
        exact ⟨by simp [Assigns.nonIdem, hn], by rw [hp1]; exact ⟨_, rfl, hA2.2⟩⟩
  | .cons c2 t2 as, c, t, fuel, s, p, hA, hF, hi => by
    cases fuel with
    | zero => simp [ops_zero] at hi
    | succ n =>
      obtain ⟨hop, heq⟩ := ops_step L n s hi
      simp only [Assigns.renderElems, Assigns.renderTail] at hA
      obtain ⟨hn, hA2⟩ := assign_sound L n s p c t (k tkComma) _ (term_sound t) (by decide) hA hF hop
      rw [heq] at hi ⊢
      obtain ⟨s', p', hcb, hF', hA'⟩ := cont_bridge (updateOpsLoop L) n _ _ _ (idt c2) _ (Or.inr rfl) hA2 rfl
      rw [hcb] at hi ⊢
      obtain ⟨ih, hw, q, hq, hAq⟩ := assigns_run L r0 as c2 t2 n s' p' (by simpa [Assigns.renderElems] using hA') hF' hi
      refine ⟨?_, hw, q, hq, hAq⟩
      simp only [Assigns.nonIdem] at ih ⊢
      simp [hn, ih]

theorem updateTailW_sound (L : Lexer) (fuel : Nat) (s : LS) (p : Nat) (kw : Ident) (c : Ident) (t : Term) (as : Assigns)
    (rels : List Rel) (tail : List Tok) (hkw : kw.equal "set" = true) (hwf : ∀ r ∈ rels, r.wf)
    (hA : At L p (idt kw :: (Assigns.cons c t as).renderElems (k tkWhere :: renderRels rels tail))) (hF : Fed s p (idt kw))
    (hi : (updateTail L fuel s tkIdentifier).1.idem = true) :
    (Assigns.cons c t as).nonIdem = false ∧ relsNonIdem rels = false := by
  have hid : s.id = kw := hF.2 rfl
  have hset : isUnreservedKeyword s tkIdentifier "set" = true := by simp [isUnreservedKeyword, hid, hkw]
  have hA2 := hA.2
  have hAc : At L (p + 1) (idt c :: k tkEqual :: t.render (as.renderTail (k tkWhere :: renderRels rels tail))) := by
    simpa [Assigns.renderElems] using hA2
  have h1 := nextT_fst hAc hF.1
  have hf1 := nextT_fed hAc hF.1
  unfold updateTail at hi
  simp only [parseUsingClause, show tkIdentifier ≠ tkUsing by decide, ↓reduceIte, Bool.false_eq_true, hset, Bool.not_true] at hi
  generalize nextT L s = o1 at h1 hf1 hi
  obtain ⟨t1, s1⟩ := o1
  simp only at h1 hf1 hi
  subst h1
  have key := assigns_run L (renderRels rels tail) as c t fuel s1 (p + 1) hA2 hf1
  generalize updateOpsLoop L fuel s1 tkIdentifier = o2 at key hi
  obtain ⟨r, t2, s2⟩ := o2
  simp only at key hi
  by_cases hr : r.idem = true
  · obtain ⟨hn, hw, q, hq, hAq⟩ := key hr
    subst hw; subst hq
    refine ⟨hn, ?_⟩
    simp only [hr, Bool.not_true, Bool.false_eq_true, ↓reduceIte, whereAndIf, parseWhereClause] at hi
    cases rels with
    | nil => rfl
    | cons r0 rs =>
      obtain ⟨tl0, htl0⟩ : ∃ tl, renderRels (r0 :: rs) tail = idt r0.col :: tl := by
        cases rs with
        | nil => exact rel_head r0 tail
        | cons r3 m => exact rel_head r0 _
      have hAq2 := hAq
      rw [htl0] at hAq2
      have h3 := nextT_fst hAq2 rfl
      have hf3 := nextT_fed hAq2 rfl
      have h3' : (nextT L s2).1 = tkIdentifier := h3
      simp only [h3'] at hi
      have key2 := rels_sound L tail rs (fun r hr => hwf r (List.mem_cons_of_mem _ hr)) r0 fuel (nextT L s2).2 _ (hwf r0 (List.mem_cons_self ..)) hAq hf3
      generalize parseWhereLoop L fuel (nextT L s2).2 tkIdentifier = o4 at key2 hi
      obtain ⟨r4, t4, s4⟩ := o4
      simp only at key2 hi
      by_cases hr4 : r4.idem = true
      · exact key2 hr4
      · simp [hr4] at hi
  · simp [hr] at hi

theorem updateW_sound (u : UpdateW) (c : Ident) (t : Term) (as : Assigns) (hops : u.ops = .cons c t as)
    (hkw : u.setKw.equal "set" = true) (hwf : ∀ r ∈ u.rels, r.wf) (L : Lexer) (fuel : Nat)
    (hA : At L 0 u.render) (hi : (classify L fuel).idem = true) : u.ops.nonIdem = false ∧ relsNonIdem u.rels = false := by
  have h0 := nextT_fst (s := { p := 0 }) hA rfl
  have hp0 := nextT_p (s := { p := 0 }) hA rfl
  have hs := classify_update L fuel h0 hi
  rw [hops]
  cases hks : u.ks with
  | none =>
    simp only [UpdateW.render, hks, renderName, hops] at hA
    have h1 := nextT_fst hA.2 hp0
    have hp1 := nextT_p hA.2 hp0
    have h2 := nextT_fst hA.2.2 hp1
    have hf2 := nextT_fed hA.2.2 hp1
    rw [updateStmt_plain L fuel _ h1 (by rw [h2]; exact (by decide : tkIdentifier ≠ tkDot)), h2] at hs
    exact updateTailW_sound L fuel _ _ u.setKw c t as u.rels u.tail hkw hwf hA.2.2 hf2 hs
  | some q =>
    simp only [UpdateW.render, hks, renderName, hops] at hA
    have h1 := nextT_fst hA.2 hp0
    have hp1 := nextT_p hA.2 hp0
    have h2 := nextT_fst hA.2.2 hp1
    have hp2 := nextT_p hA.2.2 hp1
    have h3 := nextT_fst hA.2.2.2 hp2
    have hp3 := nextT_p hA.2.2.2 hp2
    have h4 := nextT_fst hA.2.2.2.2 hp3
    have hf4 := nextT_fed hA.2.2.2.2 hp3
    rw [updateStmt_qualified L fuel _ h1 h2 h3, h4] at hs
    exact updateTailW_sound L fuel _ _ u.setKw c t as u.rels u.tail hkw hwf hA.2.2.2.2 hf4 hs

/-! ### `DELETE FROM … WHERE …` -/

theorem whereAndIf_sound (L : Lexer) (fuel : Nat) (s : LS) (p : Nat) (rels : List Rel) (tail : List Tok)
    (hwf : ∀ r ∈ rels, r.wf) (hA : At L p (renderRels rels tail)) (hs : s.p = p)
    (hi : (whereAndIf L fuel s tkWhere).1.idem = true) : relsNonIdem rels = false := by
  simp only [whereAndIf, ↓reduceIte, parseWhereClause] at hi
  cases rels with
  | nil => rfl
  | cons r0 rs =>
    obtain ⟨tl0, htl0⟩ : ∃ tl, renderRels (r0 :: rs) tail = idt r0.col :: tl := by
      cases rs with
      | nil => exact rel_head r0 tail
      | cons r3 m => exact rel_head r0 _
    have hA2 := hA
    rw [htl0] at hA2
    have h3 : (nextT L s).1 = tkIdentifier := nextT_fst hA2 hs
    have hf3 := nextT_fed hA2 hs
    simp only [h3] at hi
    have key2 := rels_sound L tail rs (fun r hr => hwf r (List.mem_cons_of_mem _ hr)) r0 fuel (nextT L s).2 _ (hwf r0 (List.mem_cons_self ..)) hA hf3
    generalize parseWhereLoop L fuel (nextT L s).2 tkIdentifier = o4 at key2 hi
    obtain ⟨r4, t4, s4⟩ := o4
    simp only at key2 hi
    by_cases hr4 : r4.idem = true
    · exact key2 hr4
    · simp [hr4] at hi

theorem classify_delete (L : Lexer) (fuel : Nat) (h : (nextT L { p := 0 }).1 = tkDelete) (hi : (classify L fuel).idem = true) :
    (deleteStmt L fuel (nextT L { p := 0 }).2).1.idem = true := by
  unfold classify at hi
  simp only [h, dispatch, tkInsert, tkUpdate, tkDelete, tkSelect, tkUse, tkCreate, tkAlter, tkDrop, tkBegin] at hi
  simp at hi
  exact hi.1

/-- `deleteStmt` for a delete without selectors, once the table name is read -/
theorem deleteStmt_from (L : Lexer) (fuel : Nat) (s : LS) (h1 : (nextT L s).1 = tkFrom) (h2 : (nextT L (nextT L s).2).1 = tkIdentifier)
    (hi : (deleteStmt L fuel s).1.idem = true) :
    deleteStmt L fuel s =
      (let o := parseQualifiedIdentifier L (nextT L (nextT L s).2).2
       if o.2.2.2.1 then (R.bad, tkInvalid, o.2.2.2.2)
       else
         let u := parseUsingClause L o.2.2.2.2 o.2.2.1
         if u.2.1 then (R.bad, tkInvalid, u.2.2) else whereAndIf L fuel u.2.2 u.1) := by
  cases fuel with
  | zero =>
    unfold deleteStmt at hi
    generalize nextT L s = o1 at h1 hi
    obtain ⟨t1, s1⟩ := o1
    simp [deleteOpsLoop, R.fuel] at hi
  | succ n =>
    unfold deleteStmt
    generalize nextT L s = o1 at h1 h2 ⊢
    obtain ⟨t1, s1⟩ := o1
    simp only at h1 h2 ⊢
    subst h1
    simp only [deleteOpsLoop, ne_eq, not_true_eq_false, false_and, ↓reduceIte, Bool.not_true, Bool.false_eq_true]
    generalize nextT L s1 = o2 at h2 ⊢
    obtain ⟨t2, s2⟩ := o2
    simp only at h2 ⊢
    subst h2
    simp only [ne_eq, not_true_eq_false, ↓reduceIte]

theorem deleteW_sound (d : DeleteW) (hwf : ∀ r ∈ d.rels, r.wf) (L : Lexer) (fuel : Nat)
    (hA : At L 0 d.render) (hi : (classify L fuel).idem = true) : relsNonIdem d.rels = false := by
  have h0 := nextT_fst (s := { p := 0 }) hA rfl
  have hp0 := nextT_p (s := { p := 0 }) hA rfl
  have hs := classify_delete L fuel h0 hi
  have h1 := nextT_fst hA.2 hp0
  have hp1 := nextT_p hA.2 hp0
  cases hks : d.ks with
  | none =>
    simp only [DeleteW.render, hks, renderName] at hA
    have h2 := nextT_fst hA.2.2 hp1
    have hp2 := nextT_p hA.2.2 hp1
    have h3 := nextT_fst hA.2.2.2 hp2
    have hp3 := nextT_p hA.2.2.2 hp2
    rw [deleteStmt_from L fuel _ h1 h2 hs] at hs
    rw [pqi_nodot L _ (by rw [h3]; exact (by decide : tkWhere ≠ tkDot))] at hs
    simp only [Bool.false_eq_true, ↓reduceIte, h3, parseUsingClause, show tkWhere ≠ tkUsing by decide, k] at hs
    exact whereAndIf_sound L fuel _ _ d.rels d.tail hwf hA.2.2.2.2 hp3 hs
  | some q =>
    simp only [DeleteW.render, hks, renderName] at hA
    have h2 := nextT_fst hA.2.2 hp1
    have hp2 := nextT_p hA.2.2 hp1
    have h3 := nextT_fst hA.2.2.2 hp2
    have hp3 := nextT_p hA.2.2.2 hp2
    have h4 := nextT_fst hA.2.2.2.2 hp3
    have hp4 := nextT_p hA.2.2.2.2 hp3
    have h5 := nextT_fst hA.2.2.2.2.2 hp4
    have hp5 := nextT_p hA.2.2.2.2.2 hp4
    rw [deleteStmt_from L fuel _ h1 h2 hs] at hs
    rw [pqi_dot L _ h3 h4] at hs
    simp only [Bool.false_eq_true, ↓reduceIte, h5, parseUsingClause, show tkWhere ≠ tkUsing by decide, k] at hs
    exact whereAndIf_sound L fuel _ _ d.rels d.tail hwf hA.2.2.2.2.2.2 hp5 hs

end CqlVerif.Ast
