import CqlVerif.Model.CqlAst
/-
Lemmas.Grammar — the mirrored term parser against the term grammar.
-/
namespace CqlVerif.Ast
open CqlVerif.Parser CqlVerif.Gen.Lex

/-- the parser has just consumed token `a`, which started at position `p` -/
def Fed (s : LS) (p : Nat) (a : Tok) : Prop := s.p = p + 1 ∧ (a.kind = tkIdentifier → s.id = a.id)

theorem At_cons {L : Lexer} {p : Nat} {a : Tok} {tl : List Tok} :
    At L p (a :: tl) ↔ (L p = { kind := a.kind, stop := p + 1, id := a.id } ∧ At L (p + 1) tl) := Iff.rfl

theorem nextT_fst {L : Lexer} {p : Nat} {a : Tok} {tl : List Tok} {s : LS} (h : At L p (a :: tl)) (hs : s.p = p) :
    (nextT L s).1 = a.kind := by
  subst hs; simp [nextT, h.1]

theorem nextT_fed {L : Lexer} {p : Nat} {a : Tok} {tl : List Tok} {s : LS} (h : At L p (a :: tl)) (hs : s.p = p) :
    Fed (nextT L s).2 p a := by
  subst hs; simp [nextT, h.1, Fed]; intro hk; simp [hk]

theorem nextT_p {L : Lexer} {p : Nat} {a : Tok} {tl : List Tok} {s : LS} (h : At L p (a :: tl)) (hs : s.p = p) :
    (nextT L s).2.p = p + 1 := (nextT_fed h hs).1

def Term.head : Term → Tok
  | .int => k tkInteger
  | .prim p => k p.kind
  | .bindQ => k tkQMark
  | .bindNamed _ => k tkColon
  | .list _ => k tkLsquare
  | .set _ | .map _ | .udt _ => k tkLcurly
  | .tuple _ | .cast _ _ _ => k tkLparen
  | .call none name _ => idt name
  | .call (some q) _ _ => idt q

theorem render_head (t : Term) (rest : List Tok) : ∃ tl, t.render rest = t.head :: tl := by
  cases t <;> simp [Term.render, Term.head, renderName]
  case call ks name args => cases ks <;> simp [Term.head, renderName]

def isTermStart (n : Nat) : Bool :=
  n = tkInteger || n = tkFloat || n = tkBool || n = tkNull || n = tkStringLiteral || n = tkHexNumber || n = tkUuid ||
  n = tkDuration || n = tkNan || n = tkInfinity || n = tkColon || n = tkQMark || n = tkLsquare || n = tkLcurly ||
  n = tkLparen || n = tkIdentifier

theorem head_start (t : Term) : isTermStart t.head.kind = true := by
  cases t <;> simp [Term.head, isTermStart]
  case prim p => cases p <;> simp [Prim.kind]
  case call ks name args => cases ks <;> simp [Term.head]

/-! ### what is to be shown of a term, and of the sequences it is built from -/

/-- the parser, having just consumed the first token of `t`'s rendering in any context, either answers "not
idempotent" or ends exactly behind `t`'s last token, and then `t` contains no `now()` / `uuid()` call -/
def TermSound (t : Term) : Prop := ∀ (L : Lexer) (fuel : Nat) (s : LS) (p : Nat) (rest : List Tok),
  At L p (t.render rest) → Fed s p t.head → (parseTerm L fuel s t.head.kind).1.idem = true →
  At L (parseTerm L fuel s t.head.kind).2.2.p rest ∧ t.nonIdem = false

mutual
def Terms.All (P : Term → Prop) : Terms → Prop
  | .nil => True
  | .cons t ts => P t ∧ ts.All P
end
def Pairs.All (P : Term → Prop) : Pairs → Prop
  | .nil => True
  | .cons a b ps => P a ∧ P b ∧ ps.All P
def Fields.All (P : Term → Prop) : Fields → Prop
  | .nil => True
  | .cons _ v fs => P v ∧ fs.All P
def Args.All (P : Term → Prop) : Args → Prop
  | .nil => True
  | .term t as => P t ∧ as.All P
  | .col _ as => as.All P

theorem skip_ne {L : Lexer} {s : LS} {t c : Nat} (h : t ≠ c) : skipToken L s t c = (t, s) := by
  simp [skipToken, h]
theorem skip_eq {L : Lexer} {s : LS} {c : Nat} : skipToken L s c c = nextT L s := by
  simp [skipToken]

/-- after an element: read the separator, skip a comma, go round the loop again -/
def contOf {α : Type} (L : Lexer) (loop : Nat → LS → Nat → R × α × LS) (fuel : Nat) (s : LS) : R × α × LS :=
  loop fuel (skipToken L (nextT L s).2 (nextT L s).1 tkComma).2 (skipToken L (nextT L s).2 (nextT L s).1 tkComma).1

/-- what the three loops over a plain sequence of terms (`[…]`, `(…)`, `{…}` as a set) have in common -/
structure TermsLoop (L : Lexer) {α : Type} (loop : Nat → LS → Nat → R × α × LS) (close : Nat) : Prop where
  zero : ∀ s t, (loop 0 s t).1.idem = false
  stop : ∀ n s, (loop (n+1) s close).2.2 = s
  step1 : ∀ n s t, isTermStart t = true → (loop (n+1) s t).1.idem = true → (parseTerm L n s t).1.idem = true
  step2 : ∀ n s t, isTermStart t = true → (parseTerm L n s t).1.idem = true → (nextT L (parseTerm L n s t).2.2).1 ≠ tkColon →
    loop (n+1) s t = contOf L loop n (parseTerm L n s t).2.2

theorem tail_head (ts : Terms) (close : Nat) (rest : List Tok) :
    ∃ a tl, ts.renderTail (k close :: rest) = a :: tl ∧ (a.kind = close ∨ a.kind = tkComma) := by
  cases ts <;> simp [Terms.renderTail]

theorem terms_cont {L : Lexer} {α : Type} {loop : Nat → LS → Nat → R × α × LS} {close : Nat} (H : TermsLoop L loop close)
    (hc : close ≠ tkComma) (hcc : close ≠ tkColon) :
    (ts : Terms) → ts.All TermSound → ∀ (fuel : Nat) (s : LS) (p : Nat) (rest : List Tok),
    At L p (ts.renderTail (k close :: rest)) → s.p = p → (contOf L loop fuel s).1.idem = true →
    At L (contOf L loop fuel s).2.2.p rest ∧ ts.nonIdem = false
  | .nil, _, fuel, s, p, rest, hA, hs, hi => by
    simp only [Terms.renderTail] at hA
    have h1 := nextT_fst hA hs
    have h2 := nextT_p hA hs
    simp only [contOf] at hi ⊢
    rw [h1] at hi ⊢
    simp only [skip_ne hc] at hi ⊢
    cases fuel with
    | zero => simp [H.zero] at hi
    | succ n => rw [H.stop, h2]; exact ⟨hA.2, rfl⟩
  | .cons t ts, hall, fuel, s, p, rest, hA, hs, hi => by
    simp only [Terms.renderTail] at hA
    have h1 := nextT_fst hA hs
    have h2 := nextT_p hA hs
    obtain ⟨tl, htl⟩ := render_head t (ts.renderTail (k close :: rest))
    have hA2 := hA.2
    rw [htl] at hA2
    have h3 := nextT_fst hA2 h2
    have h4 := nextT_fed hA2 h2
    simp only [contOf] at hi ⊢
    rw [h1] at hi ⊢
    simp only [skip_eq] at hi ⊢
    rw [h3] at hi ⊢
    cases fuel with
    | zero => simp [H.zero] at hi
    | succ n =>
      rw [← htl] at hA2
      have hti := H.step1 n _ _ (head_start t) hi
      obtain ⟨hA3, hn⟩ := hall.1 L n _ (p + 1) _ hA2 h4 hti
      have hsep : (nextT L (parseTerm L n (nextT L (nextT L s).2).2 t.head.kind).2.2).1 ≠ tkColon := by
        obtain ⟨a, tl2, he, hk⟩ := tail_head ts close rest
        rw [he] at hA3
        rw [nextT_fst hA3 rfl]
        rcases hk with hk | hk <;> rw [hk]
        · exact hcc
        · decide
      have heq := H.step2 n _ _ (head_start t) hti hsep
      rw [heq] at hi ⊢
      obtain ⟨hA4, hn2⟩ := terms_cont H hc hcc ts hall.2 n _ _ rest hA3 rfl hi
      exact ⟨hA4, by simp [Terms.nonIdem, hn, hn2]⟩

theorem terms_entry {L : Lexer} {α : Type} {loop : Nat → LS → Nat → R × α × LS} {close : Nat} (H : TermsLoop L loop close)
    (hc : close ≠ tkComma) (hcc : close ≠ tkColon) (xs : Terms) (hall : xs.All TermSound)
    (fuel : Nat) (s : LS) (p : Nat) (rest : List Tok) (a : Tok) (tl : List Tok)
    (he : xs.renderElems (k close :: rest) = a :: tl) (hA : At L p (a :: tl)) (hF : Fed s p a)
    (hi : (loop fuel s a.kind).1.idem = true) :
    At L (loop fuel s a.kind).2.2.p rest ∧ xs.nonIdem = false := by
  cases xs with
  | nil =>
    simp only [Terms.renderElems, List.cons.injEq] at he
    obtain ⟨ha, htl⟩ := he
    subst ha; subst htl
    cases fuel with
    | zero => simp [H.zero] at hi
    | succ n => simp only []; rw [H.stop, hF.1]; exact ⟨hA.2, rfl⟩
  | cons t ts =>
    simp only [Terms.renderElems] at he
    obtain ⟨tl', htl⟩ := render_head t (ts.renderTail (k close :: rest))
    rw [htl] at he
    simp only [List.cons.injEq] at he
    obtain ⟨ha, htl2⟩ := he
    subst ha; subst htl2
    rw [← htl] at hA
    cases fuel with
    | zero => simp [H.zero] at hi
    | succ n =>
      have hti := H.step1 n _ _ (head_start t) hi
      obtain ⟨hA3, hn⟩ := hall.1 L n _ p _ hA hF hti
      have hsep : (nextT L (parseTerm L n s t.head.kind).2.2).1 ≠ tkColon := by
        obtain ⟨a, tl2, he, hk⟩ := tail_head ts close rest
        rw [he] at hA3
        rw [nextT_fst hA3 rfl]
        rcases hk with hk | hk <;> rw [hk]
        · exact hcc
        · decide
      have heq := H.step2 n _ _ (head_start t) hti hsep
      rw [heq] at hi ⊢
      obtain ⟨hA4, hn2⟩ := terms_cont H hc hcc ts hall.2 n _ _ rest hA3 rfl hi
      exact ⟨hA4, by simp [Terms.nonIdem, hn, hn2]⟩

theorem start_ne {t c : Nat} (h : isTermStart t = true) (hc : isTermStart c = false) : t ≠ c := by
  intro e; subst e; simp [h] at hc

theorem listLoop_is (L : Lexer) : TermsLoop L (parseListLoop L) tkRsquare where
  zero := by intro s t; simp [parseListLoop, R.fuel]
  stop := by intro n s; simp [parseListLoop]
  step1 := by
    intro n s t ht hi
    have h1 : t ≠ tkRsquare := start_ne ht (by decide)
    have h2 : t ≠ tkEOF := start_ne ht (by decide)
    unfold parseListLoop at hi
    simp only [h1, h2, ne_eq, not_false_eq_true, and_self, ↓reduceIte] at hi
    generalize parseTerm L n s t = o at hi ⊢
    obtain ⟨r, ty, s'⟩ := o
    simp only at hi ⊢
    by_cases hr : r.idem = true
    · exact hr
    · simp [hr] at hi
  step2 := by
    intro n s t ht hti _
    have h1 : t ≠ tkRsquare := start_ne ht (by decide)
    have h2 : t ≠ tkEOF := start_ne ht (by decide)
    conv => lhs; unfold parseListLoop
    simp only [h1, h2, ne_eq, not_false_eq_true, and_self, ↓reduceIte, contOf]
    generalize parseTerm L n s t = o at hti ⊢
    obtain ⟨r, ty, s'⟩ := o
    simp only at hti ⊢
    simp [hti]

theorem tupleLoop_is (L : Lexer) : TermsLoop L (parseTupleLoop L) tkRparen where
  zero := by intro s t; simp [parseTupleLoop, R.fuel]
  stop := by intro n s; simp [parseTupleLoop]
  step1 := by
    intro n s t ht hi
    have h1 : t ≠ tkRparen := start_ne ht (by decide)
    have h2 : t ≠ tkEOF := start_ne ht (by decide)
    unfold parseTupleLoop at hi
    simp only [h1, h2, ne_eq, not_false_eq_true, and_self, ↓reduceIte] at hi
    generalize parseTerm L n s t = o at hi ⊢
    obtain ⟨r, ty, s'⟩ := o
    simp only at hi ⊢
    by_cases hr : r.idem = true
    · exact hr
    · simp [hr] at hi
  step2 := by
    intro n s t ht hti _
    have h1 : t ≠ tkRparen := start_ne ht (by decide)
    have h2 : t ≠ tkEOF := start_ne ht (by decide)
    conv => lhs; unfold parseTupleLoop
    simp only [h1, h2, ne_eq, not_false_eq_true, and_self, ↓reduceIte, contOf]
    generalize parseTerm L n s t = o at hti ⊢
    obtain ⟨r, ty, s'⟩ := o
    simp only at hti ⊢
    simp [hti]

theorem setLoop_is (L : Lexer) : TermsLoop L (parseSetOrMapLoop L) tkRcurly where
  zero := by intro s t; simp [parseSetOrMapLoop, R.fuel]
  stop := by intro n s; simp [parseSetOrMapLoop]
  step1 := by
    intro n s t ht hi
    have h1 : t ≠ tkRcurly := start_ne ht (by decide)
    have h2 : t ≠ tkEOF := start_ne ht (by decide)
    unfold parseSetOrMapLoop at hi
    simp only [h1, h2, ne_eq, not_false_eq_true, and_self, ↓reduceIte] at hi
    generalize parseTerm L n s t = o at hi ⊢
    obtain ⟨r, ty, s'⟩ := o
    simp only at hi ⊢
    by_cases hr : r.idem = true
    · exact hr
    · simp [hr] at hi
  step2 := by
    intro n s t ht hti hsep
    have h1 : t ≠ tkRcurly := start_ne ht (by decide)
    have h2 : t ≠ tkEOF := start_ne ht (by decide)
    conv => lhs; unfold parseSetOrMapLoop
    simp only [h1, h2, ne_eq, not_false_eq_true, and_self, ↓reduceIte, contOf]
    generalize parseTerm L n s t = o at hti hsep ⊢
    obtain ⟨r, ty, s'⟩ := o
    simp only at hti hsep ⊢
    simp [hti, hsep]

/-- reading the separator: behind an element comes either the closing token or a comma and the next element; in both
cases the loop is entered again with the first token of what follows consumed -/
theorem cont_bridge {L : Lexer} {α : Type} (loop : Nat → LS → Nat → R × α × LS) (fuel : Nat) (s : LS) (p : Nat)
    (toks : List Tok) (a : Tok) (tl : List Tok)
    (h : (toks = a :: tl ∧ a.kind ≠ tkComma) ∨ toks = k tkComma :: a :: tl) (hA : At L p toks) (hs : s.p = p) :
    ∃ s' p', contOf L loop fuel s = loop fuel s' a.kind ∧ Fed s' p' a ∧ At L p' (a :: tl) := by
  rcases h with ⟨h, hne⟩ | h
  · subst h
    refine ⟨(nextT L s).2, p, ?_, nextT_fed hA hs, hA⟩
    simp only [contOf]
    rw [nextT_fst hA hs, skip_ne hne]
  · subst h
    have h2 := nextT_p hA hs
    refine ⟨(nextT L (nextT L s).2).2, p + 1, ?_, nextT_fed hA.2 h2, hA.2⟩
    simp only [contOf]
    rw [nextT_fst hA hs]
    simp only [skip_eq]
    rw [nextT_fst hA.2 h2]

/-! ### `{ k : v, … }` -/

theorem pair_key (L : Lexer) (n : Nat) (s : LS) (t : Nat) (ht : isTermStart t = true)
    (hi : (parseSetOrMapLoop L (n+1) s t).1.idem = true) : (parseTerm L n s t).1.idem = true :=
  (setLoop_is L).step1 n s t ht hi

theorem pair_val (L : Lexer) (n : Nat) (s : LS) (t : Nat) (ht : isTermStart t = true)
    (hk : (parseTerm L n s t).1.idem = true) (hsep : (nextT L (parseTerm L n s t).2.2).1 = tkColon)
    (hi : (parseSetOrMapLoop L (n+1) s t).1.idem = true) :
    (parseTerm L n (nextT L (nextT L (parseTerm L n s t).2.2).2).2 (nextT L (nextT L (parseTerm L n s t).2.2).2).1).1.idem = true ∧
    parseSetOrMapLoop L (n+1) s t = contOf L (parseSetOrMapLoop L) n
      (parseTerm L n (nextT L (nextT L (parseTerm L n s t).2.2).2).2 (nextT L (nextT L (parseTerm L n s t).2.2).2).1).2.2 := by
  have h1 : t ≠ tkRcurly := start_ne ht (by decide)
  have h2 : t ≠ tkEOF := start_ne ht (by decide)
  unfold parseSetOrMapLoop at hi
  conv => rhs; lhs; unfold parseSetOrMapLoop
  simp only [h1, h2, ne_eq, not_false_eq_true, and_self, ↓reduceIte, contOf] at hi ⊢
  generalize parseTerm L n s t = o at hk hsep hi ⊢
  obtain ⟨r, ty, s'⟩ := o
  simp only at hk hsep hi ⊢
  simp only [hk, hsep, Bool.not_true, Bool.false_eq_true, ↓reduceIte] at hi ⊢
  generalize parseTerm L n (nextT L (nextT L s').2).2 (nextT L (nextT L s').2).1 = o2 at hi ⊢
  obtain ⟨r2, ty2, s2⟩ := o2
  simp only at hi ⊢
  by_cases hr : r2.idem = true
  · simp [hr]
  · simp [hr] at hi

theorem pairs_entry (L : Lexer) :
    (ps : Pairs) → ps.All TermSound → ∀ (fuel : Nat) (s : LS) (p : Nat) (rest : List Tok) (a : Tok) (tl : List Tok),
    ps.renderElems (k tkRcurly :: rest) = a :: tl → At L p (a :: tl) → Fed s p a →
    (parseSetOrMapLoop L fuel s a.kind).1.idem = true →
    At L (parseSetOrMapLoop L fuel s a.kind).2.2.p rest ∧ ps.nonIdem = false
  | .nil, _, fuel, s, p, rest, a, tl, he, hA, hF, hi => by
    simp only [Pairs.renderElems, List.cons.injEq] at he
    obtain ⟨ha, htl⟩ := he
    subst ha; subst htl
    cases fuel with
    | zero => simp [(setLoop_is L).zero] at hi
    | succ n => simp only []; rw [(setLoop_is L).stop, hF.1]; exact ⟨hA.2, rfl⟩
  | .cons x y ps, hall, fuel, s, p, rest, a, tl, he, hA, hF, hi => by
    simp only [Pairs.renderElems] at he
    obtain ⟨tl', htl⟩ := render_head x (k tkColon :: y.render (ps.renderTail (k tkRcurly :: rest)))
    rw [htl] at he
    simp only [List.cons.injEq] at he
    obtain ⟨ha, htl2⟩ := he
    subst ha; subst htl2
    rw [← htl] at hA
    cases fuel with
    | zero => simp [(setLoop_is L).zero] at hi
    | succ n =>
      have hk := pair_key L n s _ (head_start x) hi
      obtain ⟨hA1, hn1⟩ := hall.1 L n _ p _ hA hF hk
      have hsep := nextT_fst hA1 rfl
      obtain ⟨hv, heq⟩ := pair_val L n s _ (head_start x) hk hsep hi
      have hp1 := nextT_p hA1 rfl
      obtain ⟨tl2, htl2⟩ := render_head y (ps.renderTail (k tkRcurly :: rest))
      have hA2 := hA1.2
      rw [htl2] at hA2
      have hf2 := nextT_fed hA2 hp1
      have hk2 := nextT_fst hA2 hp1
      rw [← htl2] at hA2
      rw [hk2] at hv heq
      obtain ⟨hA3, hn2⟩ := hall.2.1 L n _ _ _ hA2 hf2 hv
      rw [heq] at hi ⊢
      -- behind the value: `}` or `, key : value …`
      have hb : ∃ b tlb, ps.renderElems (k tkRcurly :: rest) = b :: tlb ∧
          ((ps.renderTail (k tkRcurly :: rest) = b :: tlb ∧ b.kind ≠ tkComma) ∨ ps.renderTail (k tkRcurly :: rest) = k tkComma :: b :: tlb) := by
        cases ps with
        | nil => exact ⟨k tkRcurly, rest, rfl, Or.inl ⟨rfl, by decide⟩⟩
        | cons x2 y2 ps2 =>
          obtain ⟨tl3, htl3⟩ := render_head x2 (k tkColon :: y2.render (ps2.renderTail (k tkRcurly :: rest)))
          exact ⟨x2.head, tl3, by simp [Pairs.renderElems, htl3], Or.inr (by simp [Pairs.renderTail, htl3])⟩
      obtain ⟨b, tlb, hbe, hbt⟩ := hb
      obtain ⟨s', p', hc, hF', hA'⟩ := cont_bridge (parseSetOrMapLoop L) n _ _ _ b tlb hbt hA3 rfl
      rw [hc] at hi ⊢
      obtain ⟨hA4, hn3⟩ := pairs_entry L ps hall.2.2 n s' p' rest b tlb hbe hA' hF' hi
      exact ⟨hA4, by simp [Pairs.nonIdem, hn1, hn2, hn3]⟩

/-! ### `{ field : v, … }` -/

theorem pqi_nodot (L : Lexer) (s : LS) (h : (nextT L s).1 ≠ tkDot) :
    parseQualifiedIdentifier L s = ({}, s.id, (nextT L s).1, false, (nextT L s).2) := by
  unfold parseQualifiedIdentifier
  generalize nextT L s = o at h ⊢
  obtain ⟨t, s'⟩ := o
  simp only at h ⊢
  simp [h]

theorem pqi_dot (L : Lexer) (s : LS) (h : (nextT L s).1 = tkDot) (h2 : (nextT L (nextT L s).2).1 = tkIdentifier) :
    parseQualifiedIdentifier L s =
      (s.id, (nextT L (nextT L s).2).2.id, (nextT L (nextT L (nextT L s).2).2).1, false, (nextT L (nextT L (nextT L s).2).2).2) := by
  unfold parseQualifiedIdentifier
  generalize nextT L s = o at h h2 ⊢
  obtain ⟨t, s'⟩ := o
  simp only at h h2 ⊢
  simp only [h, ↓reduceIte]
  generalize nextT L s' = o2 at h2 ⊢
  obtain ⟨t2, s2⟩ := o2
  simp only at h2 ⊢
  simp [h2]

/-- an identifier that is followed neither by `.` nor by `(` is not a term -/
theorem ident_not_term (L : Lexer) (fuel : Nat) (s : LS) (h1 : (nextT L s).1 ≠ tkDot) (h2 : (nextT L s).1 ≠ tkLparen) :
    (parseTerm L fuel s tkIdentifier).1.idem = false := by
  cases fuel with
  | zero => simp [parseTerm, R.fuel]
  | succ n =>
    unfold parseTerm
    simp only [show tkIdentifier ≠ tkInteger by decide, ↓reduceIte]
    simp only [show ¬(tkIdentifier = tkFloat ∨ tkIdentifier = tkBool ∨ tkIdentifier = tkNull ∨ tkIdentifier = tkStringLiteral ∨ tkIdentifier = tkHexNumber ∨ tkIdentifier = tkUuid ∨ tkIdentifier = tkDuration ∨ tkIdentifier = tkNan ∨ tkIdentifier = tkInfinity) by decide, ↓reduceIte]
    simp only [show tkIdentifier ≠ tkColon by decide, show tkIdentifier ≠ tkQMark by decide, show tkIdentifier ≠ tkLsquare by decide,
      show tkIdentifier ≠ tkLcurly by decide, show tkIdentifier ≠ tkLparen by decide, ↓reduceIte]
    cases n with
    | zero => simp [termFunc, R.fuel]
    | succ m =>
      unfold termFunc
      rw [pqi_nodot L s h1]
      simp [h2, R.bad]

theorem head_colon (v : Term) (h : v.head.kind = tkColon) : ∃ nm, v = .bindNamed nm := by
  cases v with
  | bindNamed nm => exact ⟨nm, rfl⟩
  | prim p => cases p <;> exact absurd h (by decide)
  | call ks name args => cases ks <;> (simp only [Term.head] at h; exact absurd h (by decide))
  | _ => simp only [Term.head] at h; exact absurd h (by decide)

theorem udt_zero (L : Lexer) (s : LS) (t : Nat) : (parseUDTLoop L 0 s t).1.idem = false := by simp [parseUDTLoop, R.fuel]
theorem udt_stop (L : Lexer) (n : Nat) (s : LS) : (parseUDTLoop L (n+1) s tkRcurly).2.2 = s := by simp [parseUDTLoop]

/-- one round of the UDT loop, the field name consumed, a `:` and a value that does not itself start with `:` following -/
theorem udt_step (L : Lexer) (n : Nat) (s : LS) (hc : (nextT L s).1 = tkColon)
    (hv : (nextT L (nextT L s).2).1 ≠ tkColon)
    (hi : (parseUDTLoop L (n+1) s tkIdentifier).1.idem = true) :
    (parseTerm L n (nextT L (nextT L s).2).2 (nextT L (nextT L s).2).1).1.idem = true ∧
    parseUDTLoop L (n+1) s tkIdentifier = contOf L (parseUDTLoop L) n (parseTerm L n (nextT L (nextT L s).2).2 (nextT L (nextT L s).2).1).2.2 := by
  have hd : (nextT L s).1 ≠ tkDot := by rw [hc]; decide
  unfold parseUDTLoop at hi
  conv => rhs; lhs; unfold parseUDTLoop
  rw [pqi_nodot L s hd] at hi ⊢
  simp only [show tkIdentifier ≠ tkRcurly by decide, show tkIdentifier ≠ tkEOF by decide, ne_eq, not_false_eq_true, and_self,
    ↓reduceIte, not_true_eq_false, Bool.false_eq_true, skip_ne hv, contOf] at hi ⊢
  generalize parseTerm L n (nextT L (nextT L s).2).2 (nextT L (nextT L s).2).1 = o at hi ⊢
  obtain ⟨r, ty, s'⟩ := o
  simp only at hi ⊢
  by_cases hr : r.idem = true
  · simp [hr]
  · simp [hr] at hi

/-- `{ f : :name …`: the second colon is skipped as if it were the separator and the name is then not a term -/
theorem udt_bind_bad (L : Lexer) (fuel : Nat) (s : LS) (hc : (nextT L s).1 = tkColon)
    (hv : (nextT L (nextT L s).2).1 = tkColon) (hn : (nextT L (nextT L (nextT L s).2).2).1 = tkIdentifier)
    (h1 : (nextT L (nextT L (nextT L (nextT L s).2).2).2).1 ≠ tkDot) (h2 : (nextT L (nextT L (nextT L (nextT L s).2).2).2).1 ≠ tkLparen) :
    (parseUDTLoop L fuel s tkIdentifier).1.idem = false := by
  have hd : (nextT L s).1 ≠ tkDot := by rw [hc]; decide
  cases fuel with
  | zero => simp [parseUDTLoop, R.fuel]
  | succ n =>
    unfold parseUDTLoop
    rw [pqi_nodot L s hd]
    simp only [show tkIdentifier ≠ tkRcurly by decide, show tkIdentifier ≠ tkEOF by decide, ne_eq, not_false_eq_true, and_self,
      ↓reduceIte, not_true_eq_false, Bool.false_eq_true, hv, skip_eq, hn]
    have := ident_not_term L n _ h1 h2
    generalize parseTerm L n (nextT L (nextT L (nextT L s).2).2).2 tkIdentifier = o at this ⊢
    obtain ⟨r, ty, s'⟩ := o
    simp only at this ⊢
    simp [this]

theorem fields_next (fs : Fields) (rest : List Tok) :
    ∃ b tlb, fs.renderElems (k tkRcurly :: rest) = b :: tlb ∧
      ((fs.renderTail (k tkRcurly :: rest) = b :: tlb ∧ b.kind ≠ tkComma) ∨ fs.renderTail (k tkRcurly :: rest) = k tkComma :: b :: tlb) := by
  cases fs with
  | nil => exact ⟨k tkRcurly, rest, rfl, Or.inl ⟨rfl, by decide⟩⟩
  | cons n v fs => exact ⟨idt n, _, rfl, Or.inr rfl⟩

theorem fields_tail_head (fs : Fields) (rest : List Tok) :
    ∃ a tl, fs.renderTail (k tkRcurly :: rest) = a :: tl ∧ (a.kind = tkRcurly ∨ a.kind = tkComma) := by
  cases fs <;> simp [Fields.renderTail]

theorem fields_entry (L : Lexer) :
    (fs : Fields) → fs.All TermSound → ∀ (fuel : Nat) (s : LS) (p : Nat) (rest : List Tok) (a : Tok) (tl : List Tok),
    fs.renderElems (k tkRcurly :: rest) = a :: tl → At L p (a :: tl) → Fed s p a →
    (parseUDTLoop L fuel s a.kind).1.idem = true →
    At L (parseUDTLoop L fuel s a.kind).2.2.p rest ∧ fs.nonIdem = false
  | .nil, _, fuel, s, p, rest, a, tl, he, hA, hF, hi => by
    simp only [Fields.renderElems, List.cons.injEq] at he
    obtain ⟨ha, htl⟩ := he
    subst ha; subst htl
    cases fuel with
    | zero => simp [udt_zero] at hi
    | succ n => simp only []; rw [udt_stop, hF.1]; exact ⟨hA.2, rfl⟩
  | .cons nm v fs, hall, fuel, s, p, rest, a, tl, he, hA, hF, hi => by
    simp only [Fields.renderElems, List.cons.injEq] at he
    obtain ⟨ha, htl⟩ := he
    subst ha; subst htl
    simp only [] at hi ⊢
    have hc := nextT_fst hA.2 hF.1
    have hp2 := nextT_p hA.2 hF.1
    obtain ⟨tlv, htlv⟩ := render_head v (fs.renderTail (k tkRcurly :: rest))
    have hA2 := hA.2.2
    rw [htlv] at hA2
    have hvk := nextT_fst hA2 hp2
    have hvf := nextT_fed hA2 hp2
    by_cases hcol : v.head.kind = tkColon
    · -- the value is a named bind marker
      obtain ⟨b, hb⟩ := head_colon v hcol
      subst hb
      obtain ⟨x, tlx, hx, hxk⟩ := fields_tail_head fs rest
      simp only [Term.render, hx, Term.head, List.cons.injEq, true_and] at htlv
      subst htlv
      have hp3 := nextT_p hA2 hp2
      have hn := nextT_fst hA2.2 hp3
      have hp4 := nextT_p hA2.2 hp3
      have hx4 := nextT_fst hA2.2.2 hp4
      have := udt_bind_bad L fuel s hc hvk hn (by rw [hx4]; rcases hxk with h | h <;> rw [h] <;> decide)
        (by rw [hx4]; rcases hxk with h | h <;> rw [h] <;> decide)
      simp [this] at hi
    · cases fuel with
      | zero => simp [udt_zero] at hi
      | succ n =>
        rw [← hvk] at hcol
        obtain ⟨hv, heq⟩ := udt_step L n s hc hcol hi
        rw [hvk] at hv heq
        rw [← htlv] at hA2
        obtain ⟨hA3, hn1⟩ := hall.1 L n _ _ _ hA2 hvf hv
        rw [heq] at hi ⊢
        obtain ⟨b, tlb, hbe, hbt⟩ := fields_next fs rest
        obtain ⟨s', p', hcb, hF', hA'⟩ := cont_bridge (parseUDTLoop L) n _ _ _ b tlb hbt hA3 rfl
        rw [hcb] at hi ⊢
        obtain ⟨hA4, hn3⟩ := fields_entry L fs hall.2 n s' p' rest b tlb hbe hA' hF' hi
        exact ⟨hA4, by simp [Fields.nonIdem, hn1, hn3]⟩

/-! ### function arguments -/

/-- `l.mark(); maybe := l.next(); l.rewind()` leaves position and identifier as they were -/
def remark (s : LS) : LS := { s with m := s.p, mid := s.id }

theorem peek_eq (L : Lexer) (s : LS) : rewind (nextT L (mark s)).2 = remark s := by
  simp [rewind, nextT, mark, remark]
theorem peek_fst (L : Lexer) (s : LS) : (nextT L (mark s)).1 = (nextT L s).1 := by simp [nextT, mark]
theorem remark_fed {s : LS} {p : Nat} {a : Tok} (h : Fed s p a) : Fed (remark s) p a := h
@[simp] theorem remark_p (s : LS) : (remark s).p = s.p := rfl

theorem args_zero (L : Lexer) (s : LS) (t : Nat) : (parseFuncArgs L 0 s t).1.idem = false := by simp [parseFuncArgs, R.fuel]
theorem args_stop (L : Lexer) (n : Nat) (s : LS) : (parseFuncArgs L (n+1) s tkRparen).2.2 = s := by simp [parseFuncArgs]

theorem args_col_step (L : Lexer) (n : Nat) (s : LS) (h : (nextT L s).1 = tkComma ∨ (nextT L s).1 = tkRparen) :
    parseFuncArgs L (n+1) s tkIdentifier = contOf L (parseFuncArgs L) n (remark s) := by
  conv => lhs; unfold parseFuncArgs
  simp only [show tkIdentifier ≠ tkRparen by decide, show tkIdentifier ≠ tkEOF by decide, ne_eq, not_false_eq_true, and_self,
    ↓reduceIte, contOf]
  have h1 := peek_fst L s
  have h2 := peek_eq L s
  generalize nextT L (mark s) = o at h1 h2 ⊢
  obtain ⟨mb, s2⟩ := o
  simp only at h1 h2 ⊢
  rw [h1, h2]
  simp [h]

theorem args_term_step (L : Lexer) (n : Nat) (s : LS) (t : Nat) (ht : isTermStart t = true)
    (h : ¬(t = tkIdentifier ∧ ((nextT L s).1 = tkComma ∨ (nextT L s).1 = tkRparen)))
    (hi : (parseFuncArgs L (n+1) s t).1.idem = true) :
    (parseTerm L n (remark s) t).1.idem = true ∧
    parseFuncArgs L (n+1) s t = contOf L (parseFuncArgs L) n (parseTerm L n (remark s) t).2.2 := by
  have h1 : t ≠ tkRparen := start_ne ht (by decide)
  have h2 : t ≠ tkEOF := start_ne ht (by decide)
  unfold parseFuncArgs at hi
  conv => rhs; lhs; unfold parseFuncArgs
  simp only [h1, h2, ne_eq, not_false_eq_true, and_self, ↓reduceIte, contOf] at hi ⊢
  have h3 := peek_fst L s
  have h4 := peek_eq L s
  generalize nextT L (mark s) = o at h3 h4 hi ⊢
  obtain ⟨mb, s2⟩ := o
  simp only at h3 h4 hi ⊢
  rw [h3, h4] at hi ⊢
  simp only [h, ↓reduceIte] at hi ⊢
  generalize parseTerm L n (remark s) t = o at hi ⊢
  obtain ⟨r, ty, s'⟩ := o
  simp only at hi ⊢
  by_cases hr : r.idem = true
  · simp [hr]
  · simp [hr] at hi

theorem args_next (as : Args) (rest : List Tok) :
    ∃ b tlb, as.renderElems (k tkRparen :: rest) = b :: tlb ∧
      ((as.renderTail (k tkRparen :: rest) = b :: tlb ∧ b.kind ≠ tkComma) ∨ as.renderTail (k tkRparen :: rest) = k tkComma :: b :: tlb) := by
  cases as with
  | nil => exact ⟨k tkRparen, rest, rfl, Or.inl ⟨rfl, by decide⟩⟩
  | term t as =>
    obtain ⟨tl3, htl3⟩ := render_head t (as.renderTail (k tkRparen :: rest))
    exact ⟨t.head, tl3, by simp [Args.renderElems, htl3], Or.inr (by simp [Args.renderTail, htl3])⟩
  | col c as => exact ⟨idt c, _, rfl, Or.inr rfl⟩

theorem args_tail_head (as : Args) (rest : List Tok) :
    ∃ a tl, as.renderTail (k tkRparen :: rest) = a :: tl ∧ (a.kind = tkRparen ∨ a.kind = tkComma) := by
  cases as <;> simp [Args.renderTail]

/-- a term that starts with an identifier is a call: `(` or `.` follows -/
theorem ident_second (t : Term) (rest : List Tok) (h : t.head.kind = tkIdentifier) :
    ∃ x tlx, t.render rest = t.head :: x :: tlx ∧ (x.kind = tkLparen ∨ x.kind = tkDot) := by
  cases t with
  | call ks name args => cases ks <;> simp [Term.render, renderName, Term.head]
  | prim p => cases p <;> exact absurd h (by decide)
  | _ => simp only [Term.head] at h; exact absurd h (by decide)

theorem args_entry (L : Lexer) :
    (as : Args) → as.All TermSound → ∀ (fuel : Nat) (s : LS) (p : Nat) (rest : List Tok) (a : Tok) (tl : List Tok),
    as.renderElems (k tkRparen :: rest) = a :: tl → At L p (a :: tl) → Fed s p a →
    (parseFuncArgs L fuel s a.kind).1.idem = true →
    At L (parseFuncArgs L fuel s a.kind).2.2.p rest ∧ as.nonIdem = false
  | .nil, _, fuel, s, p, rest, a, tl, he, hA, hF, hi => by
    simp only [Args.renderElems, List.cons.injEq] at he
    obtain ⟨ha, htl⟩ := he
    subst ha; subst htl
    cases fuel with
    | zero => simp [args_zero] at hi
    | succ n => simp only []; rw [args_stop, hF.1]; exact ⟨hA.2, rfl⟩
  | .col c as, hall, fuel, s, p, rest, a, tl, he, hA, hF, hi => by
    simp only [Args.renderElems, List.cons.injEq] at he
    obtain ⟨ha, htl⟩ := he
    subst ha; subst htl
    simp only [] at hi ⊢
    obtain ⟨x, tlx, hx, hxk⟩ := args_tail_head as rest
    have hA2 := hA.2
    rw [hx] at hA2
    have hnx := nextT_fst hA2 hF.1
    cases fuel with
    | zero => simp [args_zero] at hi
    | succ n =>
      have heq := args_col_step L n s (by rw [hnx]; rcases hxk with h | h <;> simp [h])
      rw [heq] at hi ⊢
      obtain ⟨b, tlb, hbe, hbt⟩ := args_next as rest
      obtain ⟨s', p', hcb, hF', hA'⟩ := cont_bridge (parseFuncArgs L) n (remark s) (p + 1) _ b tlb hbt hA.2 hF.1
      rw [hcb] at hi ⊢
      obtain ⟨hA4, hn3⟩ := args_entry L as hall n s' p' rest b tlb hbe hA' hF' hi
      exact ⟨hA4, by simp [Args.nonIdem, hn3]⟩
  | .term t as, hall, fuel, s, p, rest, a, tl, he, hA, hF, hi => by
    simp only [Args.renderElems] at he
    obtain ⟨tl', htl⟩ := render_head t (as.renderTail (k tkRparen :: rest))
    rw [htl] at he
    simp only [List.cons.injEq] at he
    obtain ⟨ha, htl2⟩ := he
    subst ha; subst htl2
    have hcond : ¬(t.head.kind = tkIdentifier ∧ ((nextT L s).1 = tkComma ∨ (nextT L s).1 = tkRparen)) := by
      rintro ⟨hid, hsep⟩
      obtain ⟨x, tlx, hx, hxk⟩ := ident_second t (as.renderTail (k tkRparen :: rest)) hid
      rw [htl] at hx
      simp only [List.cons.injEq, true_and] at hx
      subst hx
      have := nextT_fst hA.2 hF.1
      rw [this] at hsep
      rcases hxk with h | h <;> rw [h] at hsep <;> revert hsep <;> decide
    rw [← htl] at hA
    cases fuel with
    | zero => simp [args_zero] at hi
    | succ n =>
      obtain ⟨hv, heq⟩ := args_term_step L n s _ (head_start t) hcond hi
      obtain ⟨hA3, hn1⟩ := hall.1 L n _ p _ hA (remark_fed hF) hv
      rw [heq] at hi ⊢
      obtain ⟨b, tlb, hbe, hbt⟩ := args_next as rest
      obtain ⟨s', p', hcb, hF', hA'⟩ := cont_bridge (parseFuncArgs L) n _ _ _ b tlb hbt hA3 rfl
      rw [hcb] at hi ⊢
      obtain ⟨hA4, hn3⟩ := args_entry L as hall.2 n s' p' rest b tlb hbe hA' hF' hi
      exact ⟨hA4, by simp [Args.nonIdem, hn1, hn3]⟩

/-! ### the term forms -/

attribute [local simp] tkInvalid tkEOF tkIdentifier tkComma tkDot tkColon tkQMark tkLt tkGt tkLparen tkRparen tkLsquare tkRsquare
  tkLcurly tkRcurly tkInteger tkFloat tkBool tkNull tkStringLiteral tkHexNumber tkUuid tkDuration tkNan tkInfinity

theorem nextT_congr (L : Lexer) (s s' : LS) (h : s.p = s'.p) :
    (nextT L s).1 = (nextT L s').1 ∧ (nextT L s).2.p = (nextT L s').2.p := by simp [nextT, h]

theorem pt_int (L : Lexer) (n : Nat) (s : LS) : parseTerm L (n+1) s tkInteger = ({ idem := true }, .integerLiteral, s) := by
  simp [parseTerm]
theorem pt_prim (L : Lexer) (n : Nat) (s : LS) (p : Prim) : parseTerm L (n+1) s p.kind = ({ idem := true }, .primitiveLiteral, s) := by
  cases p <;> simp [parseTerm, Prim.kind]
theorem pt_q (L : Lexer) (n : Nat) (s : LS) : parseTerm L (n+1) s tkQMark = ({ idem := true }, .bindMarker, s) := by
  simp [parseTerm]
theorem pt_colon (L : Lexer) (n : Nat) (s : LS) (h : (nextT L s).1 = tkIdentifier) :
    parseTerm L (n+1) s tkColon = ({ idem := true }, .bindMarker, (nextT L s).2) := by
  unfold parseTerm
  generalize nextT L s = o at h ⊢
  obtain ⟨t, s'⟩ := o
  simp only at h
  simp [h]
theorem pt_lsquare (L : Lexer) (n : Nat) (s : LS) : parseTerm L (n+1) s tkLsquare = parseListLoop L n (nextT L s).2 (nextT L s).1 := by
  simp [parseTerm]
theorem pt_lcurly (L : Lexer) (n : Nat) (s : LS) : parseTerm L (n+1) s tkLcurly = termCurly L n s := by simp [parseTerm]
theorem pt_lparen (L : Lexer) (n : Nat) (s : LS) : parseTerm L (n+1) s tkLparen = termParen L n s := by simp [parseTerm]
theorem pt_ident (L : Lexer) (n : Nat) (s : LS) : parseTerm L (n+1) s tkIdentifier = termFunc L n s := by simp [parseTerm]

theorem curly_plain (L : Lexer) (n : Nat) (s : LS) (h : (nextT L s).1 ≠ tkIdentifier) :
    termCurly L (n+1) s = parseSetOrMapLoop L n (nextT L s).2 (nextT L s).1 := by
  unfold termCurly
  generalize nextT L s = o at h ⊢
  obtain ⟨t, s'⟩ := o
  simp only at h
  simp [h]

theorem rewind3 (L : Lexer) (s : LS) : rewind (nextT L (nextT L (nextT L (mark s)).2).2).2 = remark s := by
  simp [rewind, nextT, mark, remark]

/-- `{ f( …` and `{ ks.f( …`: the look-ahead for a UDT field name finds no colon and is undone -/
theorem curly_call (L : Lexer) (n : Nat) (s : LS) (h : (nextT L s).1 = tkIdentifier)
    (h2 : (nextT L (nextT L s).2).1 = tkLparen ∨
      ((nextT L (nextT L s).2).1 = tkDot ∧ (nextT L (nextT L (nextT L s).2).2).1 = tkIdentifier ∧
        (nextT L (nextT L (nextT L (nextT L s).2).2).2).1 = tkLparen)) :
    termCurly L (n+1) s = parseSetOrMapLoop L n (remark (nextT L s).2) tkIdentifier := by
  unfold termCurly
  generalize nextT L s = o at h h2 ⊢
  obtain ⟨t, s1⟩ := o
  simp only at h h2 ⊢
  subst h
  simp only [↓reduceIte]
  have c1 := nextT_congr L (mark s1) s1 rfl
  rcases h2 with h2 | ⟨h2, h3, h4⟩
  · rw [pqi_nodot L (mark s1) (by rw [c1.1, h2]; decide)]
    simp only [Bool.false_eq_true, ↓reduceIte, c1.1, h2, peek_eq]
    simp
  · have c2 := nextT_congr L (nextT L (mark s1)).2 (nextT L s1).2 c1.2
    have c3 := nextT_congr L (nextT L (nextT L (mark s1)).2).2 (nextT L (nextT L s1).2).2 c2.2
    rw [pqi_dot L (mark s1) (by rw [c1.1, h2]) (by rw [c2.1, h3])]
    simp only [Bool.false_eq_true, ↓reduceIte, c3.1, h4, rewind3]
    simp

theorem curly_udt (L : Lexer) (n : Nat) (s : LS) (h : (nextT L s).1 = tkIdentifier) (h2 : (nextT L (nextT L s).2).1 = tkColon) :
    termCurly L (n+1) s = parseUDTLoop L n (remark (nextT L s).2) tkIdentifier := by
  unfold termCurly
  generalize nextT L s = o at h h2 ⊢
  obtain ⟨t, s1⟩ := o
  simp only at h h2 ⊢
  subst h
  simp only [↓reduceIte]
  have c1 := nextT_congr L (mark s1) s1 rfl
  rw [pqi_nodot L (mark s1) (by rw [c1.1, h2]; decide)]
  simp only [Bool.false_eq_true, ↓reduceIte, c1.1, h2, peek_eq]

theorem paren_plain (L : Lexer) (n : Nat) (s : LS) (h : (nextT L s).1 ≠ tkIdentifier) :
    termParen L (n+1) s = parseTupleLoop L n (nextT L s).2 (nextT L s).1 := by
  unfold termParen
  generalize nextT L s = o at h ⊢
  obtain ⟨t, s'⟩ := o
  simp only at h
  simp [h]

/-- `( f(…), …` and `( ks.f(…), …`: read as the start of a type cast, which then fails -/
theorem paren_astray (L : Lexer) (fuel : Nat) (s : LS) (h : (nextT L s).1 = tkIdentifier)
    (h2 : (nextT L (nextT L s).2).1 = tkLparen ∨ (nextT L (nextT L s).2).1 = tkDot) :
    (termParen L fuel s).1.idem = false := by
  cases fuel with
  | zero => simp [termParen, R.fuel]
  | succ n =>
    unfold termParen
    generalize nextT L s = o at h h2 ⊢
    obtain ⟨t, s1⟩ := o
    simp only at h h2 ⊢
    subst h
    simp only [↓reduceIte, parseType]
    generalize nextT L s1 = o at h2 ⊢
    obtain ⟨t2, s2⟩ := o
    simp only at h2 ⊢
    rcases h2 with h2 | h2 <;> subst h2 <;> simp [R.bad]

/-! ### type casts -/

theorem typeLoop_ok (L : Lexer) : (ps : List Ident) → ps ≠ [] → ∀ (fuel : Nat) (s : LS) (p : Nat) (b : Tok) (tl : List Tok) (a : Tok) (tla : List Tok),
    renderParams ps (b :: tl) = a :: tla → At L p (a :: tla) → Fed s p a →
    (parseTypeLoop L fuel s a.kind).2.1 = false →
    (parseTypeLoop L fuel s a.kind).1 = b.kind ∧ ∃ q, Fed (parseTypeLoop L fuel s a.kind).2.2 q b ∧ At L q (b :: tl)
  | [], h, _, _, _, _, _, _, _, _, _, _, _ => absurd rfl h
  | [x], _, fuel, s, p, b, tl, a, tla, he, hA, hF, he2 => by
    simp only [renderParams, List.cons.injEq] at he
    obtain ⟨ha, htl⟩ := he
    subst ha; subst htl
    simp only [] at he2 ⊢
    have h1 := nextT_fst hA.2 hF.1
    have h2 := nextT_p hA.2 hF.1
    have h3 := nextT_fst hA.2.2 h2
    have h4 := nextT_fed hA.2.2 h2
    cases fuel with
    | zero => simp [parseTypeLoop] at he2
    | succ n =>
      unfold parseTypeLoop at he2 ⊢
      simp only [show tkIdentifier ≠ tkGt by decide, show tkIdentifier ≠ tkEOF by decide, ne_eq, not_false_eq_true, and_self,
        ↓reduceIte, not_true_eq_false] at he2 ⊢
      rw [h1] at he2 ⊢
      simp only [skip_ne (show tkGt ≠ tkComma by decide)] at he2 ⊢
      cases n with
      | zero => simp [parseTypeLoop] at he2
      | succ m =>
        unfold parseTypeLoop
        simp only [ne_eq, not_true_eq_false, false_and, ↓reduceIte]
        exact ⟨h3, _, h4, hA.2.2⟩
  | x :: y :: more, _, fuel, s, p, b, tl, a, tla, he, hA, hF, he2 => by
    simp only [renderParams, List.cons.injEq] at he
    obtain ⟨ha, htl⟩ := he
    subst ha; subst htl
    simp only [] at he2 ⊢
    have h1 := nextT_fst hA.2 hF.1
    have h2 := nextT_p hA.2 hF.1
    have hy : ∃ tly, renderParams (y :: more) (b :: tl) = idt y :: tly := by
      cases more <;> simp [renderParams]
    obtain ⟨tly, hy⟩ := hy
    have hA3 := hA.2.2
    rw [hy] at hA3
    have h3 := nextT_fst hA3 h2
    have h4 := nextT_fed hA3 h2
    cases fuel with
    | zero => simp [parseTypeLoop] at he2
    | succ n =>
      unfold parseTypeLoop at he2 ⊢
      simp only [show tkIdentifier ≠ tkGt by decide, show tkIdentifier ≠ tkEOF by decide, ne_eq, not_false_eq_true, and_self,
        ↓reduceIte, not_true_eq_false] at he2 ⊢
      rw [h1] at he2 ⊢
      simp only [skip_eq] at he2 ⊢
      rw [h3] at he2 ⊢
      exact typeLoop_ok L (y :: more) (by simp) n _ _ b tl (idt y) tly hy hA3 h4 he2

/-- `( name )` / `( name<a, b> )`: the state is behind the type's name -/
theorem type_ok (L : Lexer) (ps : List Ident) (ty : Ident) (fuel : Nat) (s : LS) (p : Nat) (b : Tok) (tl : List Tok) (tly : List Tok)
    (hb : b.kind ≠ tkLt)
    (he : renderType ty ps (b :: tl) = idt ty :: tly) (hA : At L p (idt ty :: tly)) (hF : Fed s p (idt ty))
    (he2 : (parseType L fuel s).2.1 = false) :
    (parseType L fuel s).1 = b.kind ∧ ∃ q, Fed (parseType L fuel s).2.2 q b ∧ At L q (b :: tl) := by
  cases ps with
  | nil =>
    simp only [renderType, List.cons.injEq, true_and] at he
    subst he
    have h1 := nextT_fst hA.2 hF.1
    have h2 := nextT_fed hA.2 hF.1
    unfold parseType at he2 ⊢
    generalize nextT L s = o at h1 h2 he2 ⊢
    obtain ⟨t, s1⟩ := o
    simp only at h1 h2 he2 ⊢
    subst h1
    simp only [hb, ↓reduceIte] at he2 ⊢
    exact ⟨trivial, _, h2, hA.2⟩
  | cons x more =>
    simp only [renderType, List.cons.injEq, true_and] at he
    subst he
    have h1 := nextT_fst hA.2 hF.1
    have h2 := nextT_p hA.2 hF.1
    have hx : ∃ tlx, renderParams (x :: more) (b :: tl) = idt x :: tlx := by
      cases more <;> simp [renderParams]
    obtain ⟨tlx, hx⟩ := hx
    have hA3 := hA.2.2
    rw [hx] at hA3
    have h3 := nextT_fst hA3 h2
    have h4 := nextT_fed hA3 h2
    unfold parseType at he2 ⊢
    generalize nextT L s = o at h1 h2 h3 h4 he2 ⊢
    obtain ⟨t, s1⟩ := o
    simp only at h1 h2 h3 h4 he2 ⊢
    subst h1
    simp only [↓reduceIte] at he2 ⊢
    generalize nextT L s1 = o at h3 h4 he2 ⊢
    obtain ⟨t2, s2⟩ := o
    simp only at h3 h4 he2 ⊢
    subst h3
    exact typeLoop_ok L (x :: more) (by simp) fuel _ _ b tl (idt x) tlx hx hA3 h4 he2

theorem paren_cast (L : Lexer) (n : Nat) (s : LS) (h : (nextT L s).1 = tkIdentifier)
    (hi : (termParen L (n+1) s).1.idem = true) :
    (parseType L n (nextT L s).2).2.1 = false ∧ (parseType L n (nextT L s).2).1 = tkRparen ∧
    (parseTerm L n (nextT L (parseType L n (nextT L s).2).2.2).2 (nextT L (parseType L n (nextT L s).2).2.2).1).1.idem = true ∧
    (termParen L (n+1) s).2.2 = (parseTerm L n (nextT L (parseType L n (nextT L s).2).2.2).2 (nextT L (parseType L n (nextT L s).2).2.2).1).2.2 := by
  unfold termParen at hi ⊢
  generalize nextT L s = o at h hi ⊢
  obtain ⟨t, s1⟩ := o
  simp only at h hi ⊢
  subst h
  simp only [↓reduceIte] at hi ⊢
  generalize parseType L n s1 = o at hi ⊢
  obtain ⟨t2, e, s2⟩ := o
  simp only at hi ⊢
  cases e with
  | true => simp [R.bad] at hi
  | false =>
    simp only [Bool.false_eq_true, ↓reduceIte] at hi ⊢
    by_cases ht : t2 = tkRparen
    · subst ht
      simp only [ne_eq, not_true_eq_false, ↓reduceIte] at hi ⊢
      generalize parseTerm L n (nextT L s2).2 (nextT L s2).1 = o at hi ⊢
      obtain ⟨r, ty, s3⟩ := o
      simp only at hi ⊢
      by_cases hr : r.idem = true
      · simp [hr]
      · simp [hr] at hi
    · simp [ht, R.bad] at hi

theorem func_eq (L : Lexer) (n : Nat) (s : LS) (hi : (termFunc L (n+1) s).1.idem = true) :
    (parseQualifiedIdentifier L s).2.2.2.1 = false ∧ (parseQualifiedIdentifier L s).2.2.1 = tkLparen ∧
    (parseFuncArgs L n (nextT L (parseQualifiedIdentifier L s).2.2.2.2).2 (nextT L (parseQualifiedIdentifier L s).2.2.2.2).1).1.idem = true ∧
    (parseFuncArgs L n (nextT L (parseQualifiedIdentifier L s).2.2.2.2).2 (nextT L (parseQualifiedIdentifier L s).2.2.2.2).1).2.1 = tkRparen ∧
    (isNonIdempotentFunc (parseQualifiedIdentifier L s).2.1 &&
      ((parseQualifiedIdentifier L s).1.isEmpty || (parseQualifiedIdentifier L s).1.equal "system")) = false ∧
    (termFunc L (n+1) s).2.2.p =
      (parseFuncArgs L n (nextT L (parseQualifiedIdentifier L s).2.2.2.2).2 (nextT L (parseQualifiedIdentifier L s).2.2.2.2).1).2.2.p := by
  unfold termFunc at hi ⊢
  generalize parseQualifiedIdentifier L s = o at hi ⊢
  obtain ⟨ksp, target, t, e, s1⟩ := o
  simp only at hi ⊢
  cases e with
  | true => simp [R.bad] at hi
  | false =>
    simp only [Bool.false_eq_true, ↓reduceIte] at hi ⊢
    by_cases ht : t = tkLparen
    · subst ht
      simp only [ne_eq, not_true_eq_false, ↓reduceIte] at hi ⊢
      generalize parseFuncArgs L n (nextT L s1).2 (nextT L s1).1 = o at hi ⊢
      obtain ⟨r, t2, s3⟩ := o
      simp only at hi ⊢
      by_cases hr : r.idem = true
      · simp only [hr, Bool.not_true, Bool.false_eq_true, ↓reduceIte] at hi ⊢
        by_cases ht2 : t2 = tkRparen
        · subst ht2
          simp only [ne_eq, not_true_eq_false, ↓reduceIte] at hi ⊢
          simp only [true_and, and_true]
          cases hb : (isNonIdempotentFunc target && (ksp.isEmpty || ksp.equal "system")) with
          | false => first | rfl | trivial
          | true => rw [hb] at hi; simp at hi
        · simp [ht2, R.bad] at hi
      · simp [hr] at hi
    · simp [ht, R.bad] at hi

/-! ### the theorem -/

theorem terms_first (xs : Terms) (close : Nat) (rest : List Tok) :
    ∃ a tl, xs.renderElems (k close :: rest) = a :: tl ∧
      (a.kind = tkIdentifier → close ≠ tkIdentifier → ∃ x tlx, tl = x :: tlx ∧ (x.kind = tkLparen ∨
        (x.kind = tkDot ∧ ∃ y z tlz, tlx = y :: z :: tlz ∧ y.kind = tkIdentifier ∧ z.kind = tkLparen))) := by
  cases xs with
  | nil => exact ⟨k close, rest, rfl, fun h hc => absurd h hc⟩
  | cons t ts =>
    cases t with
    | call ks name args =>
      cases ks with
      | none => exact ⟨idt name, _, rfl, fun _ _ => ⟨_, _, rfl, Or.inl rfl⟩⟩
      | some q => exact ⟨idt q, _, rfl, fun _ _ => ⟨_, _, rfl, Or.inr ⟨rfl, _, _, _, rfl, rfl, rfl⟩⟩⟩
    | prim p => exact ⟨k p.kind, _, rfl, fun h _ => by cases p <;> exact absurd h (by decide)⟩
    | int => exact ⟨_, _, rfl, fun h _ => absurd h (by decide)⟩
    | bindQ => exact ⟨_, _, rfl, fun h _ => absurd h (by decide)⟩
    | bindNamed n => exact ⟨_, _, rfl, fun h _ => absurd h (by decide)⟩
    | list _ => exact ⟨_, _, rfl, fun h _ => absurd h (by decide)⟩
    | set _ => exact ⟨_, _, rfl, fun h _ => absurd h (by decide)⟩
    | map _ => exact ⟨_, _, rfl, fun h _ => absurd h (by decide)⟩
    | udt _ => exact ⟨_, _, rfl, fun h _ => absurd h (by decide)⟩
    | tuple _ => exact ⟨_, _, rfl, fun h _ => absurd h (by decide)⟩
    | cast _ _ _ => exact ⟨_, _, rfl, fun h _ => absurd h (by decide)⟩

theorem pairs_first (ps : Pairs) (rest : List Tok) :
    ∃ a tl, ps.renderElems (k tkRcurly :: rest) = a :: tl ∧
      (a.kind = tkIdentifier → ∃ x tlx, tl = x :: tlx ∧ (x.kind = tkLparen ∨
        (x.kind = tkDot ∧ ∃ y z tlz, tlx = y :: z :: tlz ∧ y.kind = tkIdentifier ∧ z.kind = tkLparen))) := by
  cases ps with
  | nil => exact ⟨k tkRcurly, rest, rfl, fun h => absurd h (by decide)⟩
  | cons t v ps =>
    cases t with
    | call ks name args =>
      cases ks with
      | none => exact ⟨idt name, _, rfl, fun _ => ⟨_, _, rfl, Or.inl rfl⟩⟩
      | some q => exact ⟨idt q, _, rfl, fun _ => ⟨_, _, rfl, Or.inr ⟨rfl, _, _, _, rfl, rfl, rfl⟩⟩⟩
    | prim p => exact ⟨k p.kind, _, rfl, fun h => by cases p <;> exact absurd h (by decide)⟩
    | int => exact ⟨_, _, rfl, fun h => absurd h (by decide)⟩
    | bindQ => exact ⟨_, _, rfl, fun h => absurd h (by decide)⟩
    | bindNamed n => exact ⟨_, _, rfl, fun h => absurd h (by decide)⟩
    | list _ => exact ⟨_, _, rfl, fun h => absurd h (by decide)⟩
    | set _ => exact ⟨_, _, rfl, fun h => absurd h (by decide)⟩
    | map _ => exact ⟨_, _, rfl, fun h => absurd h (by decide)⟩
    | udt _ => exact ⟨_, _, rfl, fun h => absurd h (by decide)⟩
    | tuple _ => exact ⟨_, _, rfl, fun h => absurd h (by decide)⟩
    | cast _ _ _ => exact ⟨_, _, rfl, fun h => absurd h (by decide)⟩

theorem args_first (as : Args) (rest : List Tok) : ∃ a tl, as.renderElems (k tkRparen :: rest) = a :: tl := by
  cases as with
  | nil => exact ⟨_, _, rfl⟩
  | col c as => exact ⟨_, _, rfl⟩
  | term t as => obtain ⟨tl, h⟩ := render_head t (as.renderTail (k tkRparen :: rest)); exact ⟨_, _, h⟩

theorem termCurly_zero (L : Lexer) (s : LS) : (termCurly L 0 s).1.idem = false := by simp [termCurly, R.fuel]
theorem termParen_zero (L : Lexer) (s : LS) : (termParen L 0 s).1.idem = false := by simp [termParen, R.fuel]
theorem termFunc_zero (L : Lexer) (s : LS) : (termFunc L 0 s).1.idem = false := by simp [termFunc, R.fuel]
theorem parseTerm_zero (L : Lexer) (s : LS) (t : Nat) : (parseTerm L 0 s t).1.idem = false := by simp [parseTerm, R.fuel]

/-- a `{`: set and map literals -/
theorem curly_seq (L : Lexer) (n : Nat) (s : LS) (p : Nat) (a : Tok) (tl : List Tok)
    (hA : At L (p + 1) (a :: tl)) (hs : s.p = p + 1)
    (hid : a.kind = tkIdentifier → ∃ x tlx, tl = x :: tlx ∧ (x.kind = tkLparen ∨
        (x.kind = tkDot ∧ ∃ y z tlz, tlx = y :: z :: tlz ∧ y.kind = tkIdentifier ∧ z.kind = tkLparen))) :
    ∃ s', termCurly L (n+1) s = parseSetOrMapLoop L n s' a.kind ∧ Fed s' (p + 1) a := by
  have h1 := nextT_fst hA hs
  have h2 := nextT_fed hA hs
  by_cases hk : a.kind = tkIdentifier
  · obtain ⟨x, tlx, htl, hx⟩ := hid hk
    subst htl
    have hp := nextT_p hA hs
    have h3 := nextT_fst hA.2 hp
    refine ⟨remark (nextT L s).2, ?_, remark_fed h2⟩
    rw [hk]
    apply curly_call L n s (by rw [h1, hk])
    rcases hx with hx | ⟨hx, y, z, tlz, htlx, hy, hz⟩
    · exact Or.inl (by rw [h3, hx])
    · subst htlx
      have hp2 := nextT_p hA.2 hp
      have h4 := nextT_fst hA.2.2 hp2
      have hp3 := nextT_p hA.2.2 hp2
      have h5 := nextT_fst hA.2.2.2 hp3
      exact Or.inr ⟨by rw [h3, hx], by rw [h4, hy], by rw [h5, hz]⟩
  · refine ⟨(nextT L s).2, ?_, h2⟩
    rw [curly_plain L n s (by rw [h1]; exact hk), h1]

theorem renderType_head (ty : Ident) (ps : List Ident) (rest : List Tok) : ∃ tly, renderType ty ps rest = idt ty :: tly := by
  cases ps <;> simp [renderType]

mutual
theorem term_sound : (t : Term) → TermSound t
  | .int => by
    intro L fuel s p rest hA hF hi
    cases fuel with
    | zero => simp [parseTerm_zero] at hi
    | succ n => simp only [Term.head, pt_int]; rw [hF.1]; exact ⟨hA.2, rfl⟩
  | .prim q => by
    intro L fuel s p rest hA hF hi
    cases fuel with
    | zero => simp [parseTerm_zero] at hi
    | succ n => simp only [Term.head, pt_prim]; rw [hF.1]; exact ⟨hA.2, rfl⟩
  | .bindQ => by
    intro L fuel s p rest hA hF hi
    cases fuel with
    | zero => simp [parseTerm_zero] at hi
    | succ n => simp only [Term.head, pt_q]; rw [hF.1]; exact ⟨hA.2, rfl⟩
  | .bindNamed nm => by
    intro L fuel s p rest hA hF hi
    cases fuel with
    | zero => simp [parseTerm_zero] at hi
    | succ n =>
      have h1 := nextT_fst hA.2 hF.1
      have h2 := nextT_p hA.2 hF.1
      simp only [Term.head, pt_colon L n s h1]; rw [h2]; exact ⟨hA.2.2, rfl⟩
  | .list xs => by
    intro L fuel s p rest hA hF hi
    cases fuel with
    | zero => simp [parseTerm_zero] at hi
    | succ n =>
      simp only [Term.head, pt_lsquare] at hi ⊢
      obtain ⟨a, tl, he, _⟩ := terms_first xs tkRsquare rest
      have hA2 := hA.2
      simp only [he] at hA2
      rw [nextT_fst hA2 hF.1] at hi ⊢
      exact terms_entry (listLoop_is L) (by decide) (by decide) xs (terms_all xs) n _ (p + 1) rest a tl he hA2 (nextT_fed hA2 hF.1) hi
  | .tuple xs => by
    intro L fuel s p rest hA hF hi
    cases fuel with
    | zero => simp [parseTerm_zero] at hi
    | succ n =>
      simp only [Term.head, pt_lparen] at hi ⊢
      obtain ⟨a, tl, he, hid⟩ := terms_first xs tkRparen rest
      have hA2 := hA.2
      simp only [he] at hA2
      have h1 := nextT_fst hA2 hF.1
      by_cases hk : a.kind = tkIdentifier
      · obtain ⟨x, tlx, htl, hx⟩ := hid hk (by decide)
        subst htl
        have h3 := nextT_fst hA2.2 (nextT_p hA2 hF.1)
        have := paren_astray L n s (by rw [h1, hk]) (by rw [h3]; rcases hx with hx | ⟨hx, _⟩ <;> simp [hx])
        simp [this] at hi
      · cases n with
        | zero => simp [termParen_zero] at hi
        | succ m =>
          rw [paren_plain L m s (by rw [h1]; exact hk), h1] at hi ⊢
          exact terms_entry (tupleLoop_is L) (by decide) (by decide) xs (terms_all xs) m _ (p + 1) rest a tl he hA2 (nextT_fed hA2 hF.1) hi
  | .set xs => by
    intro L fuel s p rest hA hF hi
    cases fuel with
    | zero => simp [parseTerm_zero] at hi
    | succ n =>
      simp only [Term.head, pt_lcurly] at hi ⊢
      cases n with
      | zero => simp [termCurly_zero] at hi
      | succ m =>
        obtain ⟨a, tl, he, hid⟩ := terms_first xs tkRcurly rest
        have hA2 := hA.2
        simp only [he] at hA2
        obtain ⟨s', heq, hF'⟩ := curly_seq L m s p a tl hA2 hF.1 (fun h => hid h (by decide))
        rw [heq] at hi ⊢
        exact terms_entry (setLoop_is L) (by decide) (by decide) xs (terms_all xs) m s' (p + 1) rest a tl he hA2 hF' hi
  | .map kvs => by
    intro L fuel s p rest hA hF hi
    cases fuel with
    | zero => simp [parseTerm_zero] at hi
    | succ n =>
      simp only [Term.head, pt_lcurly] at hi ⊢
      cases n with
      | zero => simp [termCurly_zero] at hi
      | succ m =>
        obtain ⟨a, tl, he, hid⟩ := pairs_first kvs rest
        have hA2 := hA.2
        simp only [he] at hA2
        obtain ⟨s', heq, hF'⟩ := curly_seq L m s p a tl hA2 hF.1 hid
        rw [heq] at hi ⊢
        exact pairs_entry L kvs (pairs_all kvs) m s' (p + 1) rest a tl he hA2 hF' hi
  | .udt fs => by
    intro L fuel s p rest hA hF hi
    cases fuel with
    | zero => simp [parseTerm_zero] at hi
    | succ n =>
      simp only [Term.head, pt_lcurly] at hi ⊢
      cases n with
      | zero => simp [termCurly_zero] at hi
      | succ m =>
        cases fs with
        | nil =>
          have hA2 := hA.2
          simp only [Fields.renderElems] at hA2
          have h1 := nextT_fst hA2 hF.1
          rw [curly_plain L m s (by rw [h1]; decide), h1] at hi ⊢
          cases m with
          | zero => simp [(setLoop_is L).zero] at hi
          | succ m' =>
            simp only []
            rw [(setLoop_is L).stop, nextT_p hA2 hF.1]
            exact ⟨hA2.2, rfl⟩
        | cons nm v fs' =>
          have hA2 := hA.2
          simp only [Fields.renderElems] at hA2
          have h1 := nextT_fst hA2 hF.1
          have h2 := nextT_fst hA2.2 (nextT_p hA2 hF.1)
          rw [curly_udt L m s h1 h2] at hi ⊢
          exact fields_entry L (.cons nm v fs') (fields_all (.cons nm v fs')) m _ (p + 1) rest (idt nm) _ rfl hA2
            (remark_fed (nextT_fed hA2 hF.1)) hi
  | .cast ty ps t => by
    intro L fuel s p rest hA hF hi
    cases fuel with
    | zero => simp [parseTerm_zero] at hi
    | succ n =>
      simp only [Term.head, pt_lparen] at hi ⊢
      cases n with
      | zero => simp [termParen_zero] at hi
      | succ m =>
        obtain ⟨tly, hty⟩ := renderType_head ty ps (k tkRparen :: t.render rest)
        have hA2 := hA.2
        simp only [hty] at hA2
        have h1 := nextT_fst hA2 hF.1
        obtain ⟨he, hr, hti, hst⟩ := paren_cast L m s h1 hi
        obtain ⟨_, q, hFq, hAq⟩ := type_ok L ps ty m _ (p + 1) (k tkRparen) (t.render rest) tly (by decide) hty hA2 (nextT_fed hA2 hF.1) he
        obtain ⟨tlt, htlt⟩ := render_head t rest
        have hAq2 := hAq.2
        rw [htlt] at hAq2
        have h3 := nextT_fst hAq2 hFq.1
        have h4 := nextT_fed hAq2 hFq.1
        rw [← htlt] at hAq2
        rw [h3] at hti hst
        rw [hst]
        obtain ⟨hA3, hn⟩ := term_sound t L m _ _ rest hAq2 h4 hti
        exact ⟨hA3, by simp [Term.nonIdem, hn]⟩
  | .call ks name args => by
    intro L fuel s p rest hA hF hi
    cases fuel with
    | zero => simp [parseTerm_zero] at hi
    | succ n =>
      obtain ⟨a, tla, hea⟩ := args_first args rest
      cases ks with
      | none =>
        simp only [Term.head, pt_ident] at hi hF ⊢
        cases n with
        | zero => simp [termFunc_zero] at hi
        | succ m =>
          simp only [Term.render, renderName, hea] at hA
          have h1 := nextT_fst hA.2 hF.1
          have hp := nextT_p hA.2 hF.1
          have hq := pqi_nodot L s (by rw [h1]; decide)
          obtain ⟨_, _, hai, _, hnon, hpos⟩ := func_eq L m s hi
          rw [hq] at hai hnon hpos
          simp only [] at hai hnon hpos
          have h3 := nextT_fst hA.2.2 hp
          have h4 := nextT_fed hA.2.2 hp
          rw [h3] at hai hpos
          rw [hpos]
          obtain ⟨hA3, hn⟩ := args_entry L args (args_all args) m _ _ rest a tla hea hA.2.2 h4 hai
          refine ⟨hA3, ?_⟩
          have hid : s.id = name := hF.2 rfl
          rw [hid] at hnon
          simp only [Term.nonIdem, callNonIdem, hn, Bool.or_false, Bool.and_true]
          simpa [Ident.isEmpty] using hnon
      | some q =>
        simp only [Term.head, pt_ident] at hi hF ⊢
        cases n with
        | zero => simp [termFunc_zero] at hi
        | succ m =>
          simp only [Term.render, renderName, hea] at hA
          have h1 := nextT_fst hA.2 hF.1
          have hp := nextT_p hA.2 hF.1
          have h2 := nextT_fst hA.2.2 hp
          have hf2 := nextT_fed hA.2.2 hp
          have hp2 := nextT_p hA.2.2 hp
          have h3 := nextT_fst hA.2.2.2 hp2
          have hp3 := nextT_p hA.2.2.2 hp2
          have hq := pqi_dot L s h1 h2
          obtain ⟨_, _, hai, _, hnon, hpos⟩ := func_eq L m s hi
          rw [hq] at hai hnon hpos
          simp only [] at hai hnon hpos
          have h5 := nextT_fst hA.2.2.2.2 hp3
          have h6 := nextT_fed hA.2.2.2.2 hp3
          rw [h5] at hai hpos
          rw [hpos]
          obtain ⟨hA3, hn⟩ := args_entry L args (args_all args) m _ _ rest a tla hea hA.2.2.2.2 h6 hai
          refine ⟨hA3, ?_⟩
          have hid : s.id = q := hF.2 rfl
          have hid2 : (nextT L (nextT L s).2).2.id = name := hf2.2 rfl
          rw [hid, hid2] at hnon
          simp only [Term.nonIdem, callNonIdem, hn, Bool.or_false]
          exact hnon
theorem terms_all : (ts : Terms) → ts.All TermSound
  | .nil => trivial
  | .cons t ts => ⟨term_sound t, terms_all ts⟩
theorem pairs_all : (ps : Pairs) → ps.All TermSound
  | .nil => trivial
  | .cons a b ps => ⟨term_sound a, term_sound b, pairs_all ps⟩
theorem fields_all : (fs : Fields) → fs.All TermSound
  | .nil => trivial
  | .cons _ v fs => ⟨term_sound v, fields_all fs⟩
theorem args_all : (as : Args) → as.All TermSound
  | .nil => trivial
  | .term t as => ⟨term_sound t, args_all as⟩
  | .col _ as => args_all as
end

/-- the lexer made from a token list does yield that list -/
theorem At_lexOf (pre ts : List Tok) : At (lexOf (pre ++ ts)) pre.length ts := by
  induction ts generalizing pre with
  | nil => trivial
  | cons a tl ih =>
    refine ⟨?_, ?_⟩
    · simp [lexOf]
    · have := ih (pre ++ [a])
      simpa using this

end CqlVerif.Ast
