import CqlVerif.Lemmas.GrammarPlainStmt
import CqlVerif.Lemmas.GrammarUpdate
/-
Lemmas.GrammarPlainUpdate — a plain UPDATE is accepted: `UPDATE [ks.]t SET c = plain term, … [;]` is classified
idempotent, without an error, given fuel for its size.
-/
namespace CqlVerif.Ast
open CqlVerif.Parser CqlVerif.Gen.Lex

def Assigns.plain : Assigns → Bool
  | .nil => true
  | .cons _ t as => t.plain && as.plain

def Assigns.size : Assigns → Nat
  | .nil => 0
  | .cons _ t as => 1 + t.size + as.size

/-- one assignment `column = plain term`, the column name consumed; `b` is the token behind the term and is not `+` -/
theorem assign_fwd (L : Lexer) (fuel : Nat) (s : LS) (p : Nat) (c : Ident) (t : Term) (b : Tok) (rest : List Tok)
    (hpl : t.plain = true) (hf : t.size ≤ fuel) (hb : b.kind ≠ tkAdd)
    (hA : At L p (idt c :: k tkEqual :: t.render (b :: rest))) (hF : Fed s p (idt c)) :
    (parseUpdateOp L fuel s tkIdentifier).1 = { idem := true } ∧ At L (parseUpdateOp L fuel s tkIdentifier).2.p (b :: rest) := by
  have h1 := nextT_fst hA.2 hF.1
  have hp1 := nextT_p hA.2 hF.1
  obtain ⟨tlt, htl⟩ := render_head t (b :: rest)
  have hA2 := hA.2.2
  rw [htl] at hA2
  have c1 := nextT_congr L (mark (nextT L s).2) (nextT L s).2 rfl
  have hmaybe : (nextT L (mark (nextT L s).2)).1 = t.head.kind := by rw [c1.1]; exact nextT_fst hA2 hp1
  have hnot : ¬((nextT L (mark (nextT L s).2)).1 = tkIdentifier ∧
      ((nextT L (nextT L (mark (nextT L s).2)).2).1 = tkAdd ∨ (nextT L (nextT L (mark (nextT L s).2)).2).1 = tkSub)) := by
    rintro ⟨hid, _⟩
    rw [hmaybe] at hid
    exact plain_head t hpl hid
  have hfed : Fed (nextT L (remark (nextT L s).2)).2 (p + 2) t.head := nextT_fed (s := remark (nextT L s).2) hA2 hp1
  have hk : (nextT L (remark (nextT L s).2)).1 = t.head.kind := nextT_fst (s := remark (nextT L s).2) hA2 hp1
  rw [← htl] at hA2
  unfold parseUpdateOp
  simp only [ne_eq, not_true_eq_false, ↓reduceIte]
  generalize hs1 : nextT L s = o1 at h1 hp1 c1 hmaybe hnot hfed hk ⊢
  obtain ⟨t1, s1⟩ := o1
  simp only at h1 hp1 c1 hmaybe hnot hfed hk ⊢
  subst h1
  simp only [k, ↓reduceIte]
  have hr2 := rewind2 L s1
  generalize nextT L (mark s1) = o2 at hmaybe hnot hr2 ⊢
  obtain ⟨mb, s3⟩ := o2
  simp only at hmaybe hnot hr2 ⊢
  generalize nextT L s3 = o3 at hnot hr2 ⊢
  obtain ⟨ma, s4⟩ := o3
  simp only at hnot hr2 ⊢
  simp only [hnot, ↓reduceIte, hr2]
  generalize nextT L (remark s1) = o4 at hfed hk ⊢
  obtain ⟨t5, s6⟩ := o4
  simp only at hfed hk ⊢
  subst hk
  obtain ⟨hr, hA3⟩ := term_complete t hpl L fuel s6 (p + 2) (b :: rest) hf hA2 hfed
  generalize parseTerm L fuel s6 t.head.kind = o5 at hr hA3 ⊢
  obtain ⟨r, typ, s7⟩ := o5
  simp only at hr hA3 ⊢
  subst hr
  simp only [↓reduceIte]
  have c2 := nextT_congr L (mark s7) s7 rfl
  have hnb : (nextT L (mark s7)).1 = b.kind := by rw [c2.1]; exact nextT_fst hA3 rfl
  have hrw := rewind1 L s7
  generalize nextT L (mark s7) = o6 at hnb hrw ⊢
  obtain ⟨t8, s9⟩ := o6
  simp only at hnb hrw ⊢
  subst hnb
  simp only [hb, ↓reduceIte, true_and]
  rw [hrw]; exact hA3

theorem ops_fwd_step (L : Lexer) (n : Nat) (s : LS) (hop : (parseUpdateOp L n s tkIdentifier).1 = { idem := true }) :
    updateOpsLoop L (n+1) s tkIdentifier = contOf L (updateOpsLoop L) n (parseUpdateOp L n s tkIdentifier).2 := by
  conv => lhs; unfold updateOpsLoop
  simp only [show tkIdentifier ≠ tkIf by decide, show tkIdentifier ≠ tkWhere by decide, show isDMLTerminator tkIdentifier = false by decide,
    ne_eq, not_false_eq_true, Bool.not_false, and_self, ↓reduceIte, contOf]
  generalize parseUpdateOp L n s tkIdentifier = o at hop ⊢
  obtain ⟨r, s'⟩ := o
  simp only at hop ⊢
  subst hop
  simp

/-- the SET clause of plain assignments up to the token (`b0`, one that ends the statement) behind it -/
theorem assigns_fwd (L : Lexer) (b0 : Tok) (r0 : List Tok) (hb0 : isDMLTerminator b0.kind = true) :
    (as : Assigns) → ∀ (c : Ident) (t : Term) (fuel : Nat) (s : LS) (p : Nat),
    (Assigns.cons c t as).plain = true → 1 + (Assigns.cons c t as).size ≤ fuel →
    At L p ((Assigns.cons c t as).renderElems (b0 :: r0)) → Fed s p (idt c) →
    (updateOpsLoop L fuel s tkIdentifier).1 = { idem := true } ∧ (updateOpsLoop L fuel s tkIdentifier).2.1 = b0.kind
  | .nil, c, t, fuel, s, p, hpl, hf, hA, hF => by
    simp only [Assigns.plain, Bool.and_true] at hpl
    simp only [Assigns.size] at hf
    have hne : b0.kind ≠ tkAdd := by intro h; rw [h] at hb0; revert hb0; decide
    have hnc : b0.kind ≠ tkComma := by intro h; rw [h] at hb0; revert hb0; decide
    cases fuel with
    | zero => omega
    | succ n =>
      simp only [Assigns.renderElems, Assigns.renderTail] at hA
      obtain ⟨hop, hA2⟩ := assign_fwd L n s p c t b0 r0 hpl (by omega) hne hA hF
      rw [ops_fwd_step L n s hop]
      have h1 := nextT_fst hA2 rfl
      simp only [contOf]
      rw [h1]
      simp only [skip_ne hnc]
      cases n with
      | zero => omega
      | succ m =>
        unfold updateOpsLoop
        simp [hb0]
  | .cons c2 t2 as, c, t, fuel, s, p, hpl, hf, hA, hF => by
    simp only [Assigns.plain, Bool.and_eq_true] at hpl
    simp only [Assigns.size] at hf
    cases fuel with
    | zero => omega
    | succ n =>
      simp only [Assigns.renderElems, Assigns.renderTail] at hA
      obtain ⟨hop, hA2⟩ := assign_fwd L n s p c t (k tkComma) _ hpl.1 (by omega) (by decide) hA hF
      rw [ops_fwd_step L n s hop]
      obtain ⟨s', p', hcb, hF', hA'⟩ := cont_bridge (updateOpsLoop L) n _ _ _ (idt c2) _ (Or.inr rfl) hA2 rfl
      rw [hcb]
      exact assigns_fwd L b0 r0 hb0 as c2 t2 n s' p' (by simp [Assigns.plain, hpl.2]) (by simp only [Assigns.size]; omega)
        (by simpa [Assigns.renderElems] using hA') hF'

theorem updateTail_fwd (L : Lexer) (fuel : Nat) (s : LS) (p : Nat) (kw c : Ident) (t : Term) (as : Assigns) (semi : Bool)
    (hkw : kw.equal "set" = true) (hpl : (Assigns.cons c t as).plain = true) (hf : 1 + (Assigns.cons c t as).size ≤ fuel)
    (hA : At L p (idt kw :: (Assigns.cons c t as).renderElems (endToks semi))) (hF : Fed s p (idt kw)) :
    (updateTail L fuel s tkIdentifier).1 = { idem := true } ∧
      ((updateTail L fuel s tkIdentifier).2.1 = tkEOF ∨ (updateTail L fuel s tkIdentifier).2.1 = tkEOS) := by
  obtain ⟨b0, r0, hend, hterm, hk⟩ : ∃ b0 r0, endToks semi = b0 :: r0 ∧ isDMLTerminator b0.kind = true ∧ (b0.kind = tkEOF ∨ b0.kind = tkEOS) := by
    cases semi with
    | true => exact ⟨k tkEOS, [k tkEOF], rfl, by decide, Or.inr rfl⟩
    | false => exact ⟨k tkEOF, [], rfl, by decide, Or.inl rfl⟩
  rw [hend] at hA
  have hid : s.id = kw := hF.2 rfl
  have hset : isUnreservedKeyword s tkIdentifier "set" = true := by simp [isUnreservedKeyword, hid, hkw]
  have hA2 := hA.2
  have hAc : At L (p + 1) (idt c :: k tkEqual :: t.render (as.renderTail (b0 :: r0))) := by
    simpa [Assigns.renderElems] using hA2
  have h1 := nextT_fst hAc hF.1
  have hf1 := nextT_fed hAc hF.1
  unfold updateTail
  simp only [parseUsingClause, show tkIdentifier ≠ tkUsing by decide, ↓reduceIte, Bool.false_eq_true, hset, Bool.not_true]
  generalize nextT L s = o1 at h1 hf1 ⊢
  obtain ⟨t1, s1⟩ := o1
  simp only at h1 hf1 ⊢
  subst h1
  obtain ⟨hr, ht⟩ := assigns_fwd L b0 r0 hterm as c t fuel s1 (p + 1) hpl hf hA2 hf1
  generalize updateOpsLoop L fuel s1 tkIdentifier = o2 at hr ht ⊢
  obtain ⟨r, t2, s2⟩ := o2
  simp only at hr ht ⊢
  subst hr; subst ht
  have hnw : b0.kind ≠ tkWhere := by rcases hk with h | h <;> rw [h] <;> decide
  simp only [Bool.not_true, Bool.false_eq_true, ↓reduceIte, whereAndIf, hnw]
  cases fuel with
  | zero => omega
  | succ n =>
    unfold scanForIf
    simp only [hterm, ↓reduceIte, true_and]
    exact hk

theorem classify_update_ok (L : Lexer) (fuel : Nat) (h : (nextT L { p := 0 }).1 = tkUpdate)
    (hr : (updateStmt L fuel (nextT L { p := 0 }).2).1 = { idem := true })
    (ht : (updateStmt L fuel (nextT L { p := 0 }).2).2.1 = tkEOF ∨ (updateStmt L fuel (nextT L { p := 0 }).2).2.1 = tkEOS) :
    classify L fuel = { idem := true } := by
  unfold classify
  simp only [h, dispatch, tkInsert, tkUpdate, tkSelect, tkUse, tkCreate, tkAlter, tkDrop, tkBegin]
  generalize updateStmt L fuel (nextT L { p := 0 }).2 = o at hr ht ⊢
  obtain ⟨r, t, s'⟩ := o
  simp only at hr ht ⊢
  subst hr
  rcases ht with ht | ht <;> subst ht <;> simp

theorem plain_update (u : Update) (c : Ident) (t : Term) (as : Assigns) (semi : Bool) (hops : u.ops = .cons c t as)
    (hkw : u.setKw.equal "set" = true) (hpl : u.ops.plain = true) (htail : u.tail = endToks semi)
    (L : Lexer) (fuel : Nat) (hf : 1 + u.ops.size ≤ fuel) (hA : At L 0 u.render) : classify L fuel = { idem := true } := by
  have h0 := nextT_fst (s := { p := 0 }) hA rfl
  have hp0 := nextT_p (s := { p := 0 }) hA rfl
  rw [hops] at hpl hf
  cases hks : u.ks with
  | none =>
    simp only [Update.render, hks, renderName, hops, htail] at hA
    have h1 := nextT_fst hA.2 hp0
    have hp1 := nextT_p hA.2 hp0
    have h2 := nextT_fst hA.2.2 hp1
    have hf2 := nextT_fed hA.2.2 hp1
    have heq := updateStmt_plain L fuel (nextT L { p := 0 }).2 h1 (by rw [h2]; exact (by decide : tkIdentifier ≠ tkDot))
    rw [h2] at heq
    obtain ⟨hr, ht⟩ := updateTail_fwd L fuel _ _ u.setKw c t as semi hkw hpl hf hA.2.2 hf2
    exact classify_update_ok L fuel h0 (by rw [heq]; exact hr) (by rw [heq]; exact ht)
  | some q =>
    simp only [Update.render, hks, renderName, hops, htail] at hA
    have h1 := nextT_fst hA.2 hp0
    have hp1 := nextT_p hA.2 hp0
    have h2 := nextT_fst hA.2.2 hp1
    have hp2 := nextT_p hA.2.2 hp1
    have h3 := nextT_fst hA.2.2.2 hp2
    have hp3 := nextT_p hA.2.2.2 hp2
    have h4 := nextT_fst hA.2.2.2.2 hp3
    have hf4 := nextT_fed hA.2.2.2.2 hp3
    have heq := updateStmt_qualified L fuel (nextT L { p := 0 }).2 h1 h2 h3
    rw [h4] at heq
    obtain ⟨hr, ht⟩ := updateTail_fwd L fuel _ _ u.setKw c t as semi hkw hpl hf hA.2.2.2.2 hf4
    exact classify_update_ok L fuel h0 (by rw [heq]; exact hr) (by rw [heq]; exact ht)

end CqlVerif.Ast
