import CqlVerif.Lemmas.GrammarStmt
/-
Lemmas.GrammarBatch — `BEGIN BATCH insert [;] insert [;] … APPLY BATCH`: every child through `batchLoop`.
-/
namespace CqlVerif.Ast
open CqlVerif.Parser CqlVerif.Gen.Lex

theorem batch_zero (L : Lexer) (s : LS) (t : Nat) : (batchLoop L 0 s t).1.idem = false := by simp [batchLoop, R.fuel]

theorem batch_step (L : Lexer) (n : Nat) (s : LS) (hi : (batchLoop L (n+1) s tkInsert).1.idem = true) :
    (insertStmt L n s).1.idem = true ∧
    batchLoop L (n+1) s tkInsert =
      batchLoop L n (if (insertStmt L n s).2.1 = tkEOS then (nextT L (insertStmt L n s).2.2).2 else (insertStmt L n s).2.2)
        (if (insertStmt L n s).2.1 = tkEOS then (nextT L (insertStmt L n s).2.2).1 else (insertStmt L n s).2.1) := by
  unfold batchLoop at hi
  conv => rhs; lhs; unfold batchLoop
  simp only [show tkInsert ≠ tkApply by decide, show tkInsert ≠ tkEOF by decide, ne_eq, not_false_eq_true, and_self, ↓reduceIte,
    dispatch] at hi ⊢
  generalize insertStmt L n s = o at hi ⊢
  obtain ⟨r, t, s'⟩ := o
  simp only at hi ⊢
  by_cases hr : r.idem = true
  · refine ⟨hr, ?_⟩
    by_cases ht : t = tkEOS
    · subst ht; simp [hr]
    · simp [hr, ht]
  · simp [hr] at hi

/-- what follows a child: `;` or the next statement's first token; either ends the scan behind the child -/
theorem children_head (more : List (Insert × Bool)) (rest : List Tok) :
    ∃ b tl, renderChildren more (k tkApply :: rest) = b :: tl ∧ isDMLTerminator b.kind = true := by
  cases more with
  | nil => exact ⟨k tkApply, rest, rfl, by decide⟩
  | cons c more => obtain ⟨i, semi⟩ := c; exact ⟨k tkInsert, _, rfl, by decide⟩

theorem children_sound (L : Lexer) (rest : List Tok) :
    (children : List (Insert × Bool)) →
    (∀ c ∈ children, c.1.valuesKw.equal "values" = true ∧ ∀ x ∈ c.1.tail, isDMLTerminator x.kind = false) →
    ∀ (fuel : Nat) (s : LS) (p : Nat) (a : Tok) (tl : List Tok),
    renderChildren children (k tkApply :: rest) = a :: tl → At L p (a :: tl) → Fed s p a →
    (batchLoop L fuel s a.kind).1.idem = true → childrenNonIdem children = false
  | [], _, _, _, _, _, _, _, _, _, _ => rfl
  | (i, semi) :: more, hall, fuel, s, p, a, tl, he, hA, hF, hi => by
    obtain ⟨hkw, htail⟩ := hall (i, semi) (List.mem_cons_self ..)
    have hmore : ∀ c ∈ more, c.1.valuesKw.equal "values" = true ∧ ∀ x ∈ c.1.tail, isDMLTerminator x.kind = false :=
      fun c hc => hall c (List.mem_cons_of_mem _ hc)
    simp only [renderChildren, Insert.renderWith, List.cons.injEq] at he
    obtain ⟨ha, htl⟩ := he
    subst ha; subst htl
    simp only [] at hi
    cases fuel with
    | zero => simp [batch_zero] at hi
    | succ n =>
      obtain ⟨hins, heq⟩ := batch_step L n s hi
      rw [heq] at hi
      -- the terminator behind this child and what follows it
      obtain ⟨b2, tl2, hb2, hterm2⟩ := children_head more rest
      have hshape : ∃ b rest', (if semi then [k tkEOS] else []) ++ renderChildren more (k tkApply :: rest) = b :: rest' ∧
          isDMLTerminator b.kind = true ∧
          ((b.kind = tkEOS ∧ rest' = b2 :: tl2) ∨ (b.kind ≠ tkEOS ∧ b = b2 ∧ rest' = tl2)) := by
        cases semi with
        | true => exact ⟨k tkEOS, b2 :: tl2, by simp [hb2], by decide, Or.inl ⟨rfl, rfl⟩⟩
        | false =>
          refine ⟨b2, tl2, by simp [hb2], hterm2, Or.inr ⟨?_, rfl, rfl⟩⟩
          cases more with
          | nil => simp only [renderChildren, List.cons.injEq] at hb2; rw [← hb2.1]; decide
          | cons c more => obtain ⟨i2, s2⟩ := c; simp only [renderChildren, Insert.renderWith, List.cons.injEq] at hb2; rw [← hb2.1]; decide
      obtain ⟨b, rest', hafter, hterm, hcase⟩ := hshape
      rw [hafter] at hA
      have h1 := nextT_fst hA.2 hF.1
      have hp1 := nextT_p hA.2 hF.1
      have key : i.vals.nonIdem = false ∧ (insertStmt L n s).2.1 = b.kind ∧ ∃ q, Fed (insertStmt L n s).2.2 q b ∧ At L q (b :: rest') := by
        cases hks : i.ks with
        | none =>
          simp only [hks, renderName] at hA
          have h2 := nextT_fst hA.2.2 hp1
          have hp2 := nextT_p hA.2.2 hp1
          have h3 := nextT_fst hA.2.2.2 hp2
          have hp3 := nextT_p hA.2.2.2 hp2
          rw [insertStmt_plain L n _ h1 h2 h3] at hins ⊢
          exact insertTail_run L n _ _ i.cols i.valuesKw i.vals i.tail b rest' hkw htail hterm hA.2.2.2.2 hp3 hins
        | some q =>
          simp only [hks, renderName] at hA
          have h2 := nextT_fst hA.2.2 hp1
          have hp2 := nextT_p hA.2.2 hp1
          have h3 := nextT_fst hA.2.2.2 hp2
          have hp3 := nextT_p hA.2.2.2 hp2
          have h4 := nextT_fst hA.2.2.2.2 hp3
          have hp4 := nextT_p hA.2.2.2.2 hp3
          have h5 := nextT_fst hA.2.2.2.2.2 hp4
          have hp5 := nextT_p hA.2.2.2.2.2 hp4
          rw [insertStmt_qualified L n _ h1 h2 h3 h4 h5] at hins ⊢
          exact insertTail_run L n _ _ i.cols i.valuesKw i.vals i.tail b rest' hkw htail hterm hA.2.2.2.2.2.2 hp5 hins
      obtain ⟨hn, hret, q, hFq, hAq⟩ := key
      rw [hret] at hi
      have ih : childrenNonIdem more = false := by
        rcases hcase with ⟨hsemi, hr'⟩ | ⟨hns, hbb, hr'⟩
        · subst hr'
          simp only [hsemi, ↓reduceIte] at hi
          have h6 := nextT_fst hAq.2 hFq.1
          have hf6 := nextT_fed hAq.2 hFq.1
          rw [h6] at hi
          exact children_sound L rest more hmore n _ _ b2 tl2 hb2 hAq.2 hf6 hi
        · subst hbb; subst hr'
          simp only [hns, ↓reduceIte] at hi
          exact children_sound L rest more hmore n _ q _ _ hb2 hAq hFq hi
      simp only [childrenNonIdem, List.any_cons, hn, Bool.false_or] at ih ⊢
      exact ih

theorem classify_batch (L : Lexer) (fuel : Nat) (h : (nextT L { p := 0 }).1 = tkBegin) (hi : (classify L fuel).idem = true) :
    (batchStmt L fuel (nextT L { p := 0 }).2).1.idem = true := by
  unfold classify at hi
  simp only [h, tkSelect, tkUse, tkCreate, tkAlter, tkDrop, tkBegin] at hi
  simpa using hi

theorem batchStmt_plain (L : Lexer) (fuel : Nat) (s : LS) (h1 : (nextT L s).1 = tkBatch)
    (h2 : (nextT L (nextT L s).2).1 ≠ tkUsing) :
    batchStmt L fuel s = batchLoop L fuel (nextT L (nextT L s).2).2 (nextT L (nextT L s).2).1 := by
  unfold batchStmt
  generalize nextT L s = o1 at h1 h2 ⊢
  obtain ⟨t1, s1⟩ := o1
  simp only at h1 h2 ⊢
  subst h1
  simp only [isUnreservedKeyword, show tkBatch ≠ tkIdentifier by decide, decide_false, Bool.false_and, Bool.not_false, Bool.and_self,
    Bool.false_eq_true, ↓reduceIte, ne_eq, not_true_eq_false]
  generalize nextT L s1 = o2 at h2 ⊢
  obtain ⟨t2, s2⟩ := o2
  simp only at h2 ⊢
  simp [parseUsingClause, h2]

theorem batch_sound (children : List (Insert × Bool)) (rest : List Tok)
    (hall : ∀ c ∈ children, c.1.valuesKw.equal "values" = true ∧ ∀ x ∈ c.1.tail, isDMLTerminator x.kind = false)
    (L : Lexer) (fuel : Nat) (hA : At L 0 (renderBatch children rest)) (hi : (classify L fuel).idem = true) :
    childrenNonIdem children = false := by
  have h0 := nextT_fst (s := { p := 0 }) hA rfl
  have hp0 := nextT_p (s := { p := 0 }) hA rfl
  have hs := classify_batch L fuel h0 hi
  have h1 := nextT_fst hA.2 hp0
  have hp1 := nextT_p hA.2 hp0
  obtain ⟨a, tl, he, hterm⟩ := children_head children (k tkBatch :: rest)
  have hA2 := hA.2.2
  rw [he] at hA2
  have h2 := nextT_fst hA2 hp1
  have hf2 := nextT_fed hA2 hp1
  have hnu : a.kind ≠ tkUsing := by
    intro h; rw [h] at hterm; revert hterm; decide
  rw [batchStmt_plain L fuel _ h1 (by rw [h2]; exact hnu), h2] at hs
  exact children_sound L (k tkBatch :: rest) children hall fuel _ _ a tl he hA2 hf2 hs

end CqlVerif.Ast
