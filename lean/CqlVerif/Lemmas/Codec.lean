import CqlVerif.Model.PartialCodec
namespace CqlVerif.Wire

theorem readShort_write (bs : Bytes) (n : Nat) (r : Bytes) (h : readShort bs = some (n, r)) (hb : IsBytes bs) :
    writeShort n ++ r = bs := by
  match bs, h with
  | a :: b :: r', h =>
    simp only [readShort, Option.some.injEq, Prod.mk.injEq] at h
    obtain ⟨rfl, rfl⟩ := h
    have ha : a < 256 := hb a (by simp)
    have hb' : b < 256 := hb b (by simp)
    simp only [writeShort, List.cons_append, List.nil_append, List.cons.injEq, and_true]
    constructor <;> omega

theorem write_readShort (n : Nat) (r : Bytes) (h : n < 65536) : readShort (writeShort n ++ r) = some (n, r) := by
  simp only [writeShort, List.cons_append, List.nil_append, readShort, Option.some.injEq, Prod.mk.injEq, and_true]
  omega

theorem write_readInt (n : Nat) (r : Bytes) (h : n < 2147483648) : readInt (writeInt n ++ r) = some ((n : Int), r) := by
  simp only [writeInt, List.cons_append, List.nil_append, readInt, Option.some.injEq, Prod.mk.injEq, and_true]
  have : n / 16777216 % 256 * 16777216 + n / 65536 % 256 * 65536 + n / 256 % 256 * 256 + n % 256 = n := by omega
  rw [this]; simp [h]

theorem readInt_write (bs : Bytes) (l : Int) (r : Bytes) (h : readInt bs = some (l, r)) (hb : IsBytes bs) (hl : 0 ≤ l) :
    writeInt l.toNat ++ r = bs := by
  match bs, h with
  | a :: b :: c :: d :: r', h =>
    simp only [readInt, Option.some.injEq, Prod.mk.injEq] at h
    obtain ⟨hl', rfl⟩ := h
    have ha : a < 256 := hb a (by simp)
    have hb' : b < 256 := hb b (by simp)
    have hc : c < 256 := hb c (by simp)
    have hd : d < 256 := hb d (by simp)
    have hu : a * 16777216 + b * 65536 + c * 256 + d < 2147483648 := by
      by_cases hlt : a * 16777216 + b * 65536 + c * 256 + d < 2147483648
      · exact hlt
      · simp only [hlt, ↓reduceIte] at hl'; omega
    simp only [hu, ↓reduceIte] at hl'
    subst hl'
    simp only [Int.toNat_natCast, writeInt, List.cons_append, List.nil_append, List.cons.injEq, and_true]
    refine ⟨?_, ?_, ?_, ?_⟩ <;> omega

theorem takeN_spec (n : Nat) (bs x r : Bytes) (h : takeN n bs = some (x, r)) : x ++ r = bs ∧ x.length = n := by
  unfold takeN at h
  split at h
  · simp only [Option.some.injEq, Prod.mk.injEq] at h
    obtain ⟨rfl, rfl⟩ := h
    exact ⟨List.take_append_drop n bs, by simp; omega⟩
  · cases h

theorem takeN_append (x r : Bytes) : takeN x.length (x ++ r) = some (x, r) := by
  simp [takeN]

theorem isBytes_tail {a : Nat} {bs : Bytes} (h : IsBytes (a :: bs)) : IsBytes bs := fun b hb => h b (List.mem_cons_of_mem _ hb)

theorem write_readLongString (s r : Bytes) (h : s.length < 2147483648) :
    readLongString (writeLongString s ++ r) = some (s, r) := by
  unfold readLongString writeLongString
  rw [List.append_assoc, write_readInt _ _ h]
  by_cases h0 : s.length = 0
  · have : s = [] := List.length_eq_zero_iff.mp h0
    subst this; simp
  · have : ¬ ((s.length : Int) ≤ 0) := by omega
    simp only [this, ↓reduceIte, Int.toNat_natCast]
    exact takeN_append s r

theorem write_readShortBytes (x r : Bytes) (h : x.length < 65536) :
    readShortBytes (writeShortBytes x ++ r) = some (x, r) := by
  unfold readShortBytes writeShortBytes
  rw [List.append_assoc, write_readShort _ _ h]
  exact takeN_append x r

theorem readShortBytes_write (bs x r : Bytes) (h : readShortBytes bs = some (x, r)) (hb : IsBytes bs) :
    writeShortBytes x ++ r = bs := by
  unfold readShortBytes at h
  split at h
  · cases h
  · rename_i l r' hs
    have ht := takeN_spec l r' x r h
    have := readShort_write bs l r' hs hb
    unfold writeShortBytes
    rw [ht.2, List.append_assoc, ht.1]; exact this

end CqlVerif.Wire
