import CqlVerif.Lemmas.GrammarStmt
/-
Lemmas.GrammarUpdate — `UPDATE … SET column = term, …`: the SET clause through `parseUpdateOp` / `updateOpsLoop`.
-/
namespace CqlVerif.Ast
open CqlVerif.Parser CqlVerif.Gen.Lex

theorem rewind2 (L : Lexer) (s : LS) : rewind (nextT L (nextT L (mark s)).2).2 = remark s := by
  simp [rewind, nextT, mark, remark]

theorem rewind1 (L : Lexer) (s : LS) : (rewind (nextT L (mark s)).2).p = s.p := by
  simp [rewind, nextT, mark]

/-- one assignment `column = term`, the column name consumed; `b` is the token behind the term and is not `+` -/
theorem assign_sound (L : Lexer) (fuel : Nat) (s : LS) (p : Nat) (c : Ident) (t : Term) (b : Tok) (rest : List Tok)
    (ht : TermSound t) (hb : b.kind ≠ tkAdd)
    (hA : At L p (idt c :: k tkEqual :: t.render (b :: rest))) (hF : Fed s p (idt c))
    (hi : (parseUpdateOp L fuel s tkIdentifier).1.idem = true) :
    t.nonIdem = false ∧ At L (parseUpdateOp L fuel s tkIdentifier).2.p (b :: rest) := by
  have h1 := nextT_fst hA.2 hF.1
  have hp1 := nextT_p hA.2 hF.1
  obtain ⟨tlt, htl⟩ := render_head t (b :: rest)
  have hA2 := hA.2.2
  rw [htl] at hA2
  -- the look-ahead `column = other + …` does not apply
  have c1 := nextT_congr L (mark (nextT L s).2) (nextT L s).2 rfl
  have hmaybe : (nextT L (mark (nextT L s).2)).1 = t.head.kind := by rw [c1.1]; exact nextT_fst hA2 hp1
  have hp2 : (nextT L (mark (nextT L s).2)).2.p = p + 3 := by rw [c1.2]; exact nextT_p hA2 hp1
  have hnot : ¬((nextT L (mark (nextT L s).2)).1 = tkIdentifier ∧
      ((nextT L (nextT L (mark (nextT L s).2)).2).1 = tkAdd ∨ (nextT L (nextT L (mark (nextT L s).2)).2).1 = tkSub)) := by
    rintro ⟨hid, hop⟩
    rw [hmaybe] at hid
    obtain ⟨x, tlx, hx, hxk⟩ := ident_second t (b :: rest) hid
    rw [htl] at hx
    simp only [List.cons.injEq, true_and] at hx
    subst hx
    have := nextT_fst hA2.2 hp2
    rw [this] at hop
    rcases hxk with h | h <;> rw [h] at hop <;> revert hop <;> decide
  have hfed : Fed (nextT L (remark (nextT L s).2)).2 (p + 2) t.head := nextT_fed (s := remark (nextT L s).2) hA2 hp1
  have hk : (nextT L (remark (nextT L s).2)).1 = t.head.kind := nextT_fst (s := remark (nextT L s).2) hA2 hp1
  rw [← htl] at hA2
  unfold parseUpdateOp at hi ⊢
  simp only [ne_eq, not_true_eq_false, ↓reduceIte] at hi ⊢
  generalize hs1 : nextT L s = o1 at h1 hp1 c1 hmaybe hp2 hnot hfed hk hi ⊢
  obtain ⟨t1, s1⟩ := o1
  simp only at h1 hp1 c1 hmaybe hp2 hnot hfed hk hi ⊢
  subst h1
  simp only [k, ↓reduceIte] at hi ⊢
  have hr2 := rewind2 L s1
  generalize nextT L (mark s1) = o2 at hmaybe hp2 hnot hr2 hi ⊢
  obtain ⟨mb, s3⟩ := o2
  simp only at hmaybe hp2 hnot hr2 hi ⊢
  generalize nextT L s3 = o3 at hnot hr2 hi ⊢
  obtain ⟨ma, s4⟩ := o3
  simp only at hnot hr2 hi ⊢
  simp only [hnot, ↓reduceIte, hr2] at hi ⊢
  generalize nextT L (remark s1) = o4 at hfed hk hi ⊢
  obtain ⟨t5, s6⟩ := o4
  simp only at hfed hk hi ⊢
  subst hk
  have key := ht L fuel s6 (p + 2) (b :: rest) hA2 hfed
  generalize parseTerm L fuel s6 t.head.kind = o5 at key hi ⊢
  obtain ⟨r, typ, s7⟩ := o5
  simp only at key hi ⊢
  by_cases hr : r.idem = true
  · obtain ⟨hA3, hn⟩ := key hr
    simp only [hr, ↓reduceIte] at hi ⊢
    have c2 := nextT_congr L (mark s7) s7 rfl
    have hnb : (nextT L (mark s7)).1 = b.kind := by rw [c2.1]; exact nextT_fst hA3 rfl
    have hrw := rewind1 L s7
    generalize nextT L (mark s7) = o6 at hnb hrw hi ⊢
    obtain ⟨t8, s9⟩ := o6
    simp only at hnb hrw hi ⊢
    subst hnb
    simp only [hb, ↓reduceIte]
    exact ⟨hn, by rw [hrw]; exact hA3⟩
  · simp [hr] at hi

theorem ops_zero (L : Lexer) (s : LS) (t : Nat) : (updateOpsLoop L 0 s t).1.idem = false := by simp [updateOpsLoop, R.fuel]

theorem ops_step (L : Lexer) (n : Nat) (s : LS) (hi : (updateOpsLoop L (n+1) s tkIdentifier).1.idem = true) :
    (parseUpdateOp L n s tkIdentifier).1.idem = true ∧
    updateOpsLoop L (n+1) s tkIdentifier = contOf L (updateOpsLoop L) n (parseUpdateOp L n s tkIdentifier).2 := by
  unfold updateOpsLoop at hi
  conv => rhs; lhs; unfold updateOpsLoop
  simp only [show tkIdentifier ≠ tkIf by decide, show tkIdentifier ≠ tkWhere by decide, show isDMLTerminator tkIdentifier = false by decide,
    ne_eq, not_false_eq_true, Bool.not_false, and_self, ↓reduceIte, contOf] at hi ⊢
  generalize parseUpdateOp L n s tkIdentifier = o at hi ⊢
  obtain ⟨r, s'⟩ := o
  simp only at hi ⊢
  by_cases hr : r.idem = true
  · simp [hr]
  · simp [hr] at hi

theorem assigns_tail_head (as : Assigns) (b0 : Tok) (r0 : List Tok) (hb0 : b0.kind ≠ tkAdd) :
    ∃ b rest, as.renderTail (b0 :: r0) = b :: rest ∧ b.kind ≠ tkAdd := by
  cases as with
  | nil => exact ⟨b0, r0, rfl, hb0⟩
  | cons c t as => exact ⟨k tkComma, _, rfl, by decide⟩

theorem assigns_sound (L : Lexer) (b0 : Tok) (r0 : List Tok) (hb0 : b0.kind ≠ tkAdd) :
    (as : Assigns) → ∀ (c : Ident) (t : Term) (fuel : Nat) (s : LS) (p : Nat),
    At L p ((Assigns.cons c t as).renderElems (b0 :: r0)) → Fed s p (idt c) →
    (updateOpsLoop L fuel s tkIdentifier).1.idem = true → (Assigns.cons c t as).nonIdem = false
  | .nil, c, t, fuel, s, p, hA, hF, hi => by
    cases fuel with
    | zero => simp [ops_zero] at hi
    | succ n =>
      obtain ⟨hop, _⟩ := ops_step L n s hi
      simp only [Assigns.renderElems, Assigns.renderTail] at hA
      obtain ⟨hn, _⟩ := assign_sound L n s p c t b0 r0 (term_sound t) hb0 hA hF hop
      simp [Assigns.nonIdem, hn]
  | .cons c2 t2 as, c, t, fuel, s, p, hA, hF, hi => by
    cases fuel with
    | zero => simp [ops_zero] at hi
    | succ n =>
      obtain ⟨hop, heq⟩ := ops_step L n s hi
      simp only [Assigns.renderElems, Assigns.renderTail] at hA
      obtain ⟨hn, hA2⟩ := assign_sound L n s p c t (k tkComma) _ (term_sound t) (by decide) hA hF hop
      rw [heq] at hi
      obtain ⟨s', p', hcb, hF', hA'⟩ := cont_bridge (updateOpsLoop L) n _ _ _ (idt c2) _ (Or.inr rfl) hA2 rfl
      rw [hcb] at hi
      have ih := assigns_sound L b0 r0 hb0 as c2 t2 n s' p' (by simpa [Assigns.renderElems] using hA') hF' hi
      simp only [Assigns.nonIdem] at ih ⊢
      simp [hn, ih]

theorem classify_update (L : Lexer) (fuel : Nat) (h : (nextT L { p := 0 }).1 = tkUpdate) (hi : (classify L fuel).idem = true) :
    (updateStmt L fuel (nextT L { p := 0 }).2).1.idem = true := by
  unfold classify at hi
  simp only [h, dispatch, tkInsert, tkUpdate, tkSelect, tkUse, tkCreate, tkAlter, tkDrop, tkBegin] at hi
  simp at hi
  exact hi.1

/-- `updateStmt` once the table name is read: `t` is the token behind it, already consumed -/
def updateTail (L : Lexer) (fuel : Nat) (s : LS) (t : Nat) : R × Nat × LS :=
  let (t, e, s) := parseUsingClause L s t
  if e then (R.bad, tkInvalid, s)
  else if !(isUnreservedKeyword s t "set") then (R.bad, tkInvalid, s)
  else
    let (t, s) := nextT L s
    let (r, t, s) := updateOpsLoop L fuel s t
    if !r.idem then (r, tkInvalid, s) else whereAndIf L fuel s t

theorem updateStmt_plain (L : Lexer) (fuel : Nat) (s : LS) (h1 : (nextT L s).1 = tkIdentifier)
    (h2 : (nextT L (nextT L s).2).1 ≠ tkDot) :
    updateStmt L fuel s = updateTail L fuel (nextT L (nextT L s).2).2 (nextT L (nextT L s).2).1 := by
  unfold updateStmt
  generalize nextT L s = o1 at h1 h2 ⊢
  obtain ⟨t1, s1⟩ := o1
  simp only at h1 h2 ⊢
  subst h1
  simp only [ne_eq, not_true_eq_false, ↓reduceIte]
  rw [pqi_nodot L s1 h2]
  simp [updateTail]

theorem updateStmt_qualified (L : Lexer) (fuel : Nat) (s : LS) (h1 : (nextT L s).1 = tkIdentifier)
    (h2 : (nextT L (nextT L s).2).1 = tkDot) (h3 : (nextT L (nextT L (nextT L s).2).2).1 = tkIdentifier) :
    updateStmt L fuel s = updateTail L fuel (nextT L (nextT L (nextT L (nextT L s).2).2).2).2 (nextT L (nextT L (nextT L (nextT L s).2).2).2).1 := by
  unfold updateStmt
  generalize nextT L s = o1 at h1 h2 h3 ⊢
  obtain ⟨t1, s1⟩ := o1
  simp only at h1 h2 h3 ⊢
  subst h1
  simp only [ne_eq, not_true_eq_false, ↓reduceIte]
  rw [pqi_dot L s1 h2 h3]
  simp [updateTail]

theorem updateTail_sound (L : Lexer) (fuel : Nat) (s : LS) (p : Nat) (kw : Ident) (ops : Assigns) (b0 : Tok) (r0 : List Tok)
    (hkw : kw.equal "set" = true) (hb0 : b0.kind ≠ tkAdd)
    (hA : At L p (idt kw :: ops.renderElems (b0 :: r0))) (hF : Fed s p (idt kw))
    (hi : (updateTail L fuel s tkIdentifier).1.idem = true) : ops.nonIdem = false := by
  cases ops with
  | nil => rfl
  | cons c t as =>
    have hid : s.id = kw := hF.2 rfl
    have hset : isUnreservedKeyword s tkIdentifier "set" = true := by simp [isUnreservedKeyword, hid, hkw]
    have hA2 := hA.2
    simp only [Assigns.renderElems] at hA2
    have h1 := nextT_fst hA2 hF.1
    have hf1 := nextT_fed hA2 hF.1
    unfold updateTail at hi
    simp only [parseUsingClause, show tkIdentifier ≠ tkUsing by decide, ↓reduceIte, Bool.false_eq_true, hset, Bool.not_true] at hi
    generalize nextT L s = o1 at h1 hf1 hi
    obtain ⟨t1, s1⟩ := o1
    simp only at h1 hf1 hi
    subst h1
    have key := assigns_sound L b0 r0 hb0 as c t fuel s1 (p + 1) (by simpa [Assigns.renderElems] using hA2) hf1
    generalize updateOpsLoop L fuel s1 tkIdentifier = o2 at key hi
    obtain ⟨r, t2, s2⟩ := o2
    simp only at key hi
    by_cases hr : r.idem = true
    · exact key hr
    · simp [hr] at hi

theorem update_sound (u : Update) (hkw : u.setKw.equal "set" = true) (b0 : Tok) (r0 : List Tok) (htail : u.tail = b0 :: r0)
    (hb0 : b0.kind ≠ tkAdd) (L : Lexer) (fuel : Nat)
    (hA : At L 0 u.render) (hi : (classify L fuel).idem = true) : u.ops.nonIdem = false := by
  have h0 := nextT_fst (s := { p := 0 }) hA rfl
  have hp0 := nextT_p (s := { p := 0 }) hA rfl
  have hs := classify_update L fuel h0 hi
  cases hks : u.ks with
  | none =>
    simp only [Update.render, hks, renderName, htail] at hA
    have h1 := nextT_fst hA.2 hp0
    have hp1 := nextT_p hA.2 hp0
    have h2 := nextT_fst hA.2.2 hp1
    have hf2 := nextT_fed hA.2.2 hp1
    rw [updateStmt_plain L fuel _ h1 (by rw [h2]; exact (by decide : tkIdentifier ≠ tkDot)), h2] at hs
    exact updateTail_sound L fuel _ _ u.setKw u.ops b0 r0 hkw hb0 hA.2.2 hf2 hs
  | some q =>
    simp only [Update.render, hks, renderName, htail] at hA
    have h1 := nextT_fst hA.2 hp0
    have hp1 := nextT_p hA.2 hp0
    have h2 := nextT_fst hA.2.2 hp1
    have hp2 := nextT_p hA.2.2 hp1
    have h3 := nextT_fst hA.2.2.2 hp2
    have hp3 := nextT_p hA.2.2.2 hp2
    have h4 := nextT_fst hA.2.2.2.2 hp3
    have hf4 := nextT_fed hA.2.2.2.2 hp3
    rw [updateStmt_qualified L fuel _ h1 h2 h3, h4] at hs
    exact updateTail_sound L fuel _ _ u.setKw u.ops b0 r0 hkw hb0 hA.2.2.2.2 hf4 hs

/-! ### `SET c = c2 ± <integer | ?>`: counter updates and the ambiguous column-plus-marker form -/

theorem counter_op (L : Lexer) (fuel : Nat) (s : LS) (p : Nat) (c c2 : Ident) (op : Nat) (arg : Tok) (rest : List Tok)
    (hop : op = tkAdd ∨ op = tkSub) (harg : arg.kind = tkInteger ∨ arg.kind = tkQMark)
    (hA : At L p (idt c :: k tkEqual :: idt c2 :: k op :: arg :: rest)) (hF : Fed s p (idt c)) :
    (parseUpdateOp L fuel s tkIdentifier).1.idem = false := by
  have h1 := nextT_fst hA.2 hF.1
  have hp1 := nextT_p hA.2 hF.1
  have c1 := nextT_congr L (mark (nextT L s).2) (nextT L s).2 rfl
  have hmaybe : (nextT L (mark (nextT L s).2)).1 = tkIdentifier := by rw [c1.1]; exact nextT_fst hA.2.2 hp1
  have hp2 : (nextT L (mark (nextT L s).2)).2.p = p + 3 := by rw [c1.2]; exact nextT_p hA.2.2 hp1
  have hop2 : (nextT L (nextT L (mark (nextT L s).2)).2).1 = op := nextT_fst hA.2.2.2 hp2
  have hp3 : (nextT L (nextT L (mark (nextT L s).2)).2).2.p = p + 4 := nextT_p hA.2.2.2 hp2
  have harg2 : (nextT L (nextT L (nextT L (mark (nextT L s).2)).2).2).1 = arg.kind := nextT_fst hA.2.2.2.2 hp3
  unfold parseUpdateOp
  simp only [ne_eq, not_true_eq_false, ↓reduceIte]
  generalize nextT L s = o1 at h1 hmaybe hop2 harg2 ⊢
  obtain ⟨t1, s1⟩ := o1
  simp only at h1 hmaybe hop2 harg2 ⊢
  subst h1
  simp only [k, ↓reduceIte]
  generalize nextT L (mark s1) = o2 at hmaybe hop2 harg2 ⊢
  obtain ⟨mb, s3⟩ := o2
  simp only at hmaybe hop2 harg2 ⊢
  subst hmaybe
  generalize nextT L s3 = o3 at hop2 harg2 ⊢
  obtain ⟨ma, s4⟩ := o3
  simp only at hop2 harg2 ⊢
  subst hop2
  have hcond : (tkIdentifier = tkIdentifier ∧ (ma = tkAdd ∨ ma = tkSub)) := ⟨rfl, hop⟩
  simp only [hcond, and_self, ↓reduceIte, true_and]
  generalize nextT L s4 = o4 at harg2 ⊢
  obtain ⟨t5, s5⟩ := o4
  simp only at harg2 ⊢
  subst harg2
  cases fuel with
  | zero => simp [parseTerm, R.fuel]
  | succ n =>
    rcases harg with h | h <;> rw [h]
    · rw [pt_int]; simp [isIdempotentUpdateOpTermType]
    · rw [pt_q]; simp [isIdempotentUpdateOpTermType]

theorem updateTail_counter (L : Lexer) (fuel : Nat) (s : LS) (p : Nat) (kw c c2 : Ident) (op : Nat) (arg : Tok) (rest : List Tok)
    (hkw : kw.equal "set" = true) (hop : op = tkAdd ∨ op = tkSub) (harg : arg.kind = tkInteger ∨ arg.kind = tkQMark)
    (hA : At L p (idt kw :: idt c :: k tkEqual :: idt c2 :: k op :: arg :: rest)) (hF : Fed s p (idt kw)) :
    (updateTail L fuel s tkIdentifier).1.idem = false := by
  have hid : s.id = kw := hF.2 rfl
  have hset : isUnreservedKeyword s tkIdentifier "set" = true := by simp [isUnreservedKeyword, hid, hkw]
  have h1 := nextT_fst hA.2 hF.1
  have hf1 := nextT_fed hA.2 hF.1
  unfold updateTail
  simp only [parseUsingClause, show tkIdentifier ≠ tkUsing by decide, ↓reduceIte, Bool.false_eq_true, hset, Bool.not_true]
  generalize nextT L s = o1 at h1 hf1 ⊢
  obtain ⟨t1, s1⟩ := o1
  simp only at h1 hf1 ⊢
  subst h1
  cases fuel with
  | zero => simp [updateOpsLoop, R.fuel]
  | succ n =>
    have hop' := counter_op L n s1 (p + 1) c c2 op arg rest hop harg hA.2 hf1
    unfold updateOpsLoop
    simp only [show tkIdentifier ≠ tkIf by decide, show tkIdentifier ≠ tkWhere by decide, show isDMLTerminator tkIdentifier = false by decide,
      ne_eq, not_false_eq_true, Bool.not_false, and_self, ↓reduceIte]
    generalize parseUpdateOp L n s1 tkIdentifier = o at hop' ⊢
    obtain ⟨r, s'⟩ := o
    simp only at hop' ⊢
    simp [hop']

theorem classify_update_fwd (L : Lexer) (fuel : Nat) (h : (nextT L { p := 0 }).1 = tkUpdate)
    (hr : (updateStmt L fuel (nextT L { p := 0 }).2).1.idem = false) : (classify L fuel).idem = false := by
  unfold classify
  simp only [h, dispatch, tkInsert, tkUpdate, tkSelect, tkUse, tkCreate, tkAlter, tkDrop, tkBegin]
  generalize updateStmt L fuel (nextT L { p := 0 }).2 = o at hr ⊢
  obtain ⟨r, t, s'⟩ := o
  simp only at hr ⊢
  simp [hr]

theorem counter_update (ks : Option Ident) (table kw c c2 : Ident) (op : Nat) (arg : Tok) (rest : List Tok)
    (hkw : kw.equal "set" = true) (hop : op = tkAdd ∨ op = tkSub) (harg : arg.kind = tkInteger ∨ arg.kind = tkQMark)
    (L : Lexer) (fuel : Nat)
    (hA : At L 0 (k tkUpdate :: renderName ks table (idt kw :: idt c :: k tkEqual :: idt c2 :: k op :: arg :: rest))) :
    (classify L fuel).idem = false := by
  have h0 := nextT_fst (s := { p := 0 }) hA rfl
  have hp0 := nextT_p (s := { p := 0 }) hA rfl
  apply classify_update_fwd L fuel h0
  cases ks with
  | none =>
    simp only [renderName] at hA
    have h1 := nextT_fst hA.2 hp0
    have hp1 := nextT_p hA.2 hp0
    have h2 := nextT_fst hA.2.2 hp1
    have hf2 := nextT_fed hA.2.2 hp1
    rw [updateStmt_plain L fuel _ h1 (by rw [h2]; exact (by decide : tkIdentifier ≠ tkDot)), h2]
    exact updateTail_counter L fuel _ _ kw c c2 op arg rest hkw hop harg hA.2.2 hf2
  | some q =>
    simp only [renderName] at hA
    have h1 := nextT_fst hA.2 hp0
    have hp1 := nextT_p hA.2 hp0
    have h2 := nextT_fst hA.2.2 hp1
    have hp2 := nextT_p hA.2.2 hp1
    have h3 := nextT_fst hA.2.2.2 hp2
    have hp3 := nextT_p hA.2.2.2 hp2
    have h4 := nextT_fst hA.2.2.2.2 hp3
    have hf4 := nextT_fed hA.2.2.2.2 hp3
    rw [updateStmt_qualified L fuel _ h1 h2 h3, h4]
    exact updateTail_counter L fuel _ _ kw c c2 op arg rest hkw hop harg hA.2.2.2.2 hf4

end CqlVerif.Ast
