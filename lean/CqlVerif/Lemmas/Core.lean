import CqlVerif.Model.Core
namespace CqlVerif.Core
open CqlVerif.Retry

def cnt (l : List Rep) (r : Nat) : Nat := l.countP (fun e => e.rid = r)

/-- I1 ∧ I2 over the request view (requests, reply log):
 * every existing request has been answered exactly once iff it is done, nothing else is logged;
 * every reply is addressed to the client connection and stream of its request. -/
structure Inv (s : St) : Prop where
  one : ∀ r : Nat, cnt s.out r = (if r < s.nreq ∧ (s.req r).done = true then 1 else 0)
  addr : ∀ e ∈ s.out, e.client = (s.req e.rid).client ∧ e.cstream = (s.req e.rid).cstream
  orig : ∀ e ∈ s.out, ∀ hw, e.origin = some hw → hw.rid = e.rid

theorem Inv_of_eq (s t : St) (h1 : t.req = s.req) (h2 : t.out = s.out) (h3 : t.nreq = s.nreq) : Inv s → Inv t := by
  intro h
  exact ⟨by intro r; simp only [h1, h2, h3]; exact h.one r, by intro e he; rw [h2] at he; simp only [h1]; exact h.addr e he,
    by intro e he; rw [h2] at he; exact h.orig e he⟩

theorem sendTo_view (s : St) (c hd w) :
    (sendTo s c hd w).1.req = s.req ∧ (sendTo s c hd w).1.out = s.out ∧ (sendTo s c hd w).1.nreq = s.nreq := by
  unfold sendTo
  dsimp only
  split
  · simp
  · split
    · simp
    · split
      · split <;> simp [St.setConn]
      · simp [St.setConn]

theorem sendHost_view (s : St) (h hd w) :
    (sendHost s h hd w).1.req = s.req ∧ (sendHost s h hd w).1.out = s.out ∧ (sendHost s h hd w).1.nreq = s.nreq := by
  unfold sendHost
  split
  · simp
  · exact sendTo_view _ _ _ _

theorem Inv_setConn (s : St) (c k) : Inv s → Inv (s.setConn c k) :=
  Inv_of_eq s _ rfl rfl rfl

/-- changing a not-done request into a not-done request with the same address keeps the invariant -/
theorem Inv_setReq_notdone (s : St) (r : ReqId) (q : Req) (hnd : (s.req r).done = false) (hq : q.done = false)
    (hc : q.client = (s.req r).client) (hs : q.cstream = (s.req r).cstream) (h : Inv s) : Inv (s.setReq r q) := by
  constructor
  · intro x
    have hx := h.one x
    by_cases hxr : x = r
    · subst hxr
      simp only [St.setReq, upd_same, hq]
      simpa [hnd] using hx
    · simpa [St.setReq, upd_other _ _ _ _ hxr] using hx
  · intro e he
    have := h.addr e he
    by_cases her : e.rid = r
    · simp only [St.setReq, her, upd_same, hc, hs]; rw [her] at this; exact this
    · simpa [St.setReq, upd_other _ _ _ _ her] using this
  · intro e he; exact h.orig e he

/-- answering a not-yet-done request: exactly one more reply, addressed to its own stream -/
theorem Inv_finish (s : St) (r : ReqId) (o : Option Handle) (hr : r < s.nreq) (hnd : (s.req r).done = false)
    (ho : ∀ hw, o = some hw → hw.rid = r) (h : Inv s) : Inv (finish s r o) := by
  constructor
  · intro x
    have hx := h.one x
    by_cases hxr : x = r
    · subst hxr
      simp only [finish, cnt, St.setReq, upd_same, List.countP_append, List.countP_cons, List.countP_nil,
        decide_true, ↓reduceIte, hr, and_self]
      simp only [cnt, hnd, Bool.false_eq_true, and_false, ↓reduceIte] at hx
      omega
    · have hne : ¬ (r = x) := fun e => hxr e.symm
      simp only [finish, cnt, St.setReq, upd_other _ _ _ _ hxr, List.countP_append, List.countP_cons,
        List.countP_nil, hne, decide_false]
      simpa [cnt] using hx
  · intro e he
    simp only [finish, List.mem_append, List.mem_singleton] at he
    rcases he with he | he
    · have := h.addr e he
      by_cases her : e.rid = r
      · simp only [finish, St.setReq, her, upd_same]; rw [her] at this; exact this
      · simpa [finish, St.setReq, upd_other _ _ _ _ her] using this
    · subst he
      simp [finish, St.setReq]
  · intro e he
    simp only [finish, List.mem_append, List.mem_singleton] at he
    rcases he with he | he
    · exact h.orig e he
    · subst he; exact ho

theorem finish_nreq (s : St) (r o) : (finish s r o).nreq = s.nreq := rfl

theorem execNext_inv (plan : List Host) : ∀ (s : St) (r : ReqId) (ws : List Bool), r < s.nreq → (s.req r).done = false →
    Inv s → Inv (execNext s r ws plan) ∧ (execNext s r ws plan).nreq = s.nreq := by
  induction plan with
  | nil =>
    intro s r ws hr hnd h
    simp only [execNext]
    have h1 : Inv (s.setReq r { s.req r with plan := [], host := none }) :=
      Inv_setReq_notdone s r _ hnd (by simp [hnd]) rfl rfl h
    refine ⟨Inv_finish _ r none (by simpa [St.setReq] using hr) (by simp [St.setReq, hnd]) (by simp) h1, ?_⟩
    simp [finish_nreq, St.setReq]
  | cons hst rest ih =>
    intro s r ws hr hnd h
    simp only [execNext]
    have h1 : Inv (s.setReq r { s.req r with plan := rest, host := some hst }) :=
      Inv_setReq_notdone s r _ hnd (by simp [hnd]) rfl rfl h
    generalize hs1 : (s.setReq r { s.req r with plan := rest, host := some hst }) = s1 at h1 ⊢
    have hr1 : r < s1.nreq := by rw [← hs1]; simpa [St.setReq] using hr
    have hnd1 : (s1.req r).done = false := by rw [← hs1]; simp [St.setReq, hnd]
    have hn1 : s1.nreq = s.nreq := by rw [← hs1]; simp [St.setReq]
    have hsend := sendHost_view s1 hst (.req r) (ws.headD true)
    generalize sendHost s1 hst (.req r) (ws.headD true) = p at hsend ⊢
    obtain ⟨s', ok⟩ := p
    simp only at hsend ⊢
    have hs' : Inv s' := Inv_of_eq s1 _ hsend.1 hsend.2.1 hsend.2.2 h1
    have hn' : s'.nreq = s.nreq := by rw [hsend.2.2, hn1]
    split
    · exact ⟨hs', hn'⟩
    · have hr' : r < s'.nreq := by rw [hn']; exact hr
      have hnd' : (s'.req r).done = false := by rw [hsend.1]; exact hnd1
      have := ih s' r ws.tail hr' hnd' hs'
      exact ⟨this.1, by rw [this.2, hn']⟩

theorem execSame_inv (s : St) (r : ReqId) (ws : List Bool) (hr : r < s.nreq) (hnd : (s.req r).done = false) (h : Inv s) :
    Inv (execSame s r ws) ∧ (execSame s r ws).nreq = s.nreq := by
  unfold execSame
  split
  · exact ⟨Inv_finish s r none hr hnd (by simp) h, rfl⟩
  · rename_i hst _
    have hsend := sendHost_view s hst (.req r) (ws.headD true)
    generalize sendHost s hst (.req r) (ws.headD true) = p at hsend ⊢
    obtain ⟨s', ok⟩ := p
    simp only at hsend ⊢
    have hs' : Inv s' := Inv_of_eq s _ hsend.1 hsend.2.1 hsend.2.2 h
    split
    · exact ⟨hs', hsend.2.2⟩
    · have := execNext_inv (s'.req r).plan s' r ws.tail (by rw [hsend.2.2]; exact hr) (by rw [hsend.1]; exact hnd) hs'
      exact ⟨this.1, by rw [this.2, hsend.2.2]⟩

theorem onResult_inv (s : St) (r : ReqId) (o : Outcome) (og : Handle) (ws : List Bool) (hr : r < s.nreq)
    (hog : og.rid = r) (h : Inv s) :
    Inv (onResult s r o og ws) ∧ (onResult s r o og ws).nreq = s.nreq := by
  unfold onResult
  dsimp only
  split
  · exact ⟨h, rfl⟩
  · rename_i hnd
    have hnd : (s.req r).done = false := by simpa using hnd
    have hbump : Inv (s.setReq r { s.req r with rc := (s.req r).rc + 1 }) :=
      Inv_setReq_notdone s r _ hnd (by simp [hnd]) rfl rfl h
    have hrb : r < (s.setReq r { s.req r with rc := (s.req r).rc + 1 }).nreq := by simpa [St.setReq] using hr
    have hndb : ((s.setReq r { s.req r with rc := (s.req r).rc + 1 }).req r).done = false := by simp [St.setReq, hnd]
    have hso : ∀ hw, some og = some hw → hw.rid = r := by intro hw e; cases e; exact hog
    split
    · exact ⟨Inv_finish s r _ hr hnd hso h, rfl⟩
    · split
      · exact ⟨Inv_finish s r _ hr hnd hso h, rfl⟩
      · have := execSame_inv _ r ws hrb hndb hbump
        exact ⟨this.1, by rw [this.2]; simp [St.setReq]⟩
      · have := execNext_inv (s.req r).plan _ r ws hrb hndb hbump
        exact ⟨this.1, by rw [this.2]; simp [St.setReq]⟩

theorem onClose_inv (s : St) (r : ReqId) (ws : List Bool) (hr : r < s.nreq) (h : Inv s) :
    Inv (onClose s r ws) ∧ (onClose s r ws).nreq = s.nreq := by
  unfold onClose
  dsimp only
  split
  · exact ⟨h, rfl⟩
  · rename_i hnd
    have hnd : (s.req r).done = false := by simpa using hnd
    split
    · exact execNext_inv _ s r ws hr hnd h
    · exact ⟨Inv_finish s r none hr hnd (by simp) h, rfl⟩

theorem execute_inv (s : St) (r : ReqId) (next : Bool) (ws : List Bool) (hr : r < s.nreq) (h : Inv s) :
    Inv (execute s r next ws) ∧ (execute s r next ws).nreq = s.nreq := by
  unfold execute
  split
  · exact ⟨h, rfl⟩
  · rename_i hnd
    have hnd : (s.req r).done = false := by simpa using hnd
    split
    · exact execNext_inv _ s r ws hr hnd h
    · exact execSame_inv s r _ hr hnd h

end CqlVerif.Core

namespace CqlVerif.Core
open CqlVerif.Retry

/-- per-connection invariants: I0 (handles refer to existing requests), streams_partition
(`free ++ keys pending` has no duplicate), wire_matches_pending (every unanswered frame on the
wire is registered under its stream id) -/
structure CInv (n : Nat) (k : Conn) : Prop where
  rid : ∀ e, (e ∈ k.pending ∨ e ∈ k.wire) → e.2.rid < n
  nodup : (k.free ++ k.pending.map (·.1)).Nodup
  wire : ∀ e ∈ k.wire, e ∈ k.pending
  notif : ∀ e ∈ k.toNotify, e.2.rid < n

def ConnsOK (s : St) : Prop := ∀ c, CInv s.nreq (s.conn c)

theorem ConnsOK_of_eq (s t : St) (h1 : t.conn = s.conn) (h2 : t.nreq = s.nreq) : ConnsOK s → ConnsOK t := by
  intro h c; rw [h1, h2]; exact h c

theorem ConnsOK_setConn (s : St) (c : ConnId) (k : Conn) (h : ConnsOK s) (hk : CInv s.nreq k) : ConnsOK (s.setConn c k) := by
  intro c'
  by_cases hc : c' = c
  · subst hc; simpa [St.setConn] using hk
  · simpa [St.setConn, upd_other _ _ _ _ hc] using h c'

theorem sendTo_connsOK (s : St) (c hd w) (hh : hd.rid < s.nreq) (h : ConnsOK s) : ConnsOK (sendTo s c hd w).1 := by
  unfold sendTo
  dsimp only
  split
  · exact h
  · split
    · exact h
    · rename_i b fr hfree
      have hk := h c
      have hnd : (fr ++ ((b, hd) :: (s.conn c).pending).map (·.1)).Nodup := by
        have := hk.nodup
        rw [hfree] at this
        simp only [List.map_cons]
        have hp : (fr ++ b :: (s.conn c).pending.map (·.1)).Perm (b :: fr ++ (s.conn c).pending.map (·.1)) := by
          simpa using List.perm_middle
        exact hp.nodup_iff.mpr this
      split
      · split
        · apply ConnsOK_setConn _ _ _ h
          exact ⟨by intro e he; simp at he; rcases he with (rfl | he) | he
                    · exact hh
                    · exact hk.rid e (Or.inl he)
                    · exact hk.rid e (Or.inr he),
                 hnd, by intro e he; exact List.mem_cons_of_mem _ (hk.wire e he), hk.notif⟩
        · apply ConnsOK_setConn _ _ _ h
          exact ⟨by intro e he; simp at he; rcases he with (rfl | he) | he
                    · exact hh
                    · exact hk.rid e (Or.inl he)
                    · exact hk.rid e (Or.inr he),
                 hnd, by intro e he; exact List.mem_cons_of_mem _ (hk.wire e he), hk.notif⟩
      · apply ConnsOK_setConn _ _ _ h
        exact ⟨by intro e he; simp at he; rcases he with (rfl | he) | he | rfl
                  · exact hh
                  · exact hk.rid e (Or.inl he)
                  · exact hk.rid e (Or.inr he)
                  · exact hh,
               hnd, by intro e he; simp at he; rcases he with he | rfl
                       · exact List.mem_cons_of_mem _ (hk.wire e he)
                       · exact List.mem_cons_self, hk.notif⟩

theorem sendHost_connsOK (s : St) (h' hd w) (hh : hd.rid < s.nreq) (h : ConnsOK s) : ConnsOK (sendHost s h' hd w).1 := by
  unfold sendHost
  split
  · exact h
  · exact sendTo_connsOK _ _ _ _ hh h

theorem finish_connsOK (s : St) (r o) (h : ConnsOK s) : ConnsOK (finish s r o) :=
  ConnsOK_of_eq s _ rfl rfl h

theorem setReq_connsOK (s : St) (r q) (h : ConnsOK s) : ConnsOK (s.setReq r q) :=
  ConnsOK_of_eq s _ rfl rfl h

theorem execNext_connsOK (plan : List Host) : ∀ (s : St) (r : ReqId) (ws : List Bool), r < s.nreq →
    ConnsOK s → ConnsOK (execNext s r ws plan) := by
  induction plan with
  | nil => intro s r ws _ h; simp only [execNext]; exact finish_connsOK _ _ _ (setReq_connsOK _ _ _ h)
  | cons hst rest ih =>
    intro s r ws hr h
    simp only [execNext]
    have h1 := setReq_connsOK s r { s.req r with plan := rest, host := some hst } h
    generalize hs1 : (s.setReq r { s.req r with plan := rest, host := some hst }) = s1 at h1 ⊢
    have hr1 : r < s1.nreq := by rw [← hs1]; simpa [St.setReq] using hr
    have h2 := sendHost_connsOK s1 hst (.req r) (ws.headD true) hr1 h1
    have hv := sendHost_view s1 hst (.req r) (ws.headD true)
    generalize sendHost s1 hst (.req r) (ws.headD true) = p at h2 hv ⊢
    obtain ⟨s', ok⟩ := p
    simp only at h2 hv ⊢
    split
    · exact h2
    · exact ih s' r ws.tail (by rw [hv.2.2]; exact hr1) h2

theorem execSame_connsOK (s : St) (r : ReqId) (ws : List Bool) (hr : r < s.nreq) (h : ConnsOK s) : ConnsOK (execSame s r ws) := by
  unfold execSame
  split
  · exact finish_connsOK _ _ _ h
  · rename_i hst _
    have h2 := sendHost_connsOK s hst (.req r) (ws.headD true) hr h
    have hv := sendHost_view s hst (.req r) (ws.headD true)
    generalize sendHost s hst (.req r) (ws.headD true) = p at h2 hv ⊢
    obtain ⟨s', ok⟩ := p
    simp only at h2 hv ⊢
    split
    · exact h2
    · exact execNext_connsOK _ s' r ws.tail (by rw [hv.2.2]; exact hr) h2

theorem onResult_connsOK (s : St) (r o og ws) (hr : r < s.nreq) (h : ConnsOK s) : ConnsOK (onResult s r o og ws) := by
  unfold onResult
  dsimp only
  split
  · exact h
  · split
    · exact finish_connsOK _ _ _ h
    · split
      · exact finish_connsOK _ _ _ h
      · exact execSame_connsOK _ r _ (by simpa [St.setReq] using hr) (setReq_connsOK _ _ _ h)
      · exact execNext_connsOK _ _ r ws (by simpa [St.setReq] using hr) (setReq_connsOK _ _ _ h)

theorem onClose_connsOK (s : St) (r ws) (hr : r < s.nreq) (h : ConnsOK s) : ConnsOK (onClose s r ws) := by
  unfold onClose
  dsimp only
  split
  · exact h
  · split
    · exact execNext_connsOK _ s r ws hr h
    · exact finish_connsOK _ _ _ h

theorem execute_connsOK (s : St) (r next ws) (hr : r < s.nreq) (h : ConnsOK s) : ConnsOK (execute s r next ws) := by
  unfold execute
  split
  · exact h
  · split
    · exact execNext_connsOK _ s r ws hr h
    · exact execSame_connsOK s r _ hr h

theorem closeAll_inv (es : List (BS × Handle)) : ∀ (s : St) (ws : List Bool), (∀ e ∈ es, e.2.rid < s.nreq) →
    Inv s → ConnsOK s →
    Inv (closeAll s ws es) ∧ ConnsOK (closeAll s ws es) ∧ (closeAll s ws es).nreq = s.nreq := by
  induction es with
  | nil => intro s ws _ h h0; exact ⟨h, h0, rfl⟩
  | cons e es ih =>
    intro s ws hes h h0
    simp only [closeAll]
    have hr : e.2.rid < s.nreq := hes e (by simp)
    have h1 := onClose_inv s e.2.rid ws hr h
    have h2 := onClose_connsOK s e.2.rid ws hr h0
    have := ih (onClose s e.2.rid ws) ws (by intro e' he'; rw [h1.2]; exact hes e' (by simp [he'])) h1.1 h2
    exact ⟨this.1, this.2.1, by rw [this.2.2, h1.2]⟩

end CqlVerif.Core

namespace CqlVerif.Core
open CqlVerif.Retry

theorem CInv_mono {n m : Nat} {k : Conn} (h : CInv n k) (hnm : n ≤ m) : CInv m k :=
  ⟨fun e he => Nat.lt_of_lt_of_le (h.rid e he) hnm, h.nodup, h.wire, fun e he => Nat.lt_of_lt_of_le (h.notif e he) hnm⟩

theorem entry_unique {l : List (BS × Handle)} (hn : (l.map (·.1)).Nodup) {e w : BS × Handle}
    (he : e ∈ l) (hw : w ∈ l) (hk : e.1 = w.1) : e = w := by
  induction l with
  | nil => cases he
  | cons a t ih =>
    simp only [List.map_cons, List.nodup_cons, List.mem_map, not_exists, not_and] at hn
    rcases List.mem_cons.mp he with rfl | he' <;> rcases List.mem_cons.mp hw with rfl | hw'
    · rfl
    · exact absurd hk.symm (hn.1 w hw')
    · exact absurd hk (hn.1 e he')
    · exact ih hn.2 he' hw'

theorem find_some_mem {l : List (BS × Handle)} {b : BS} {e : BS × Handle}
    (h : l.find? (fun e => e.1 = b) = some e) : e ∈ l ∧ e.1 = b := by
  have h1 := List.mem_of_find?_eq_some h
  have h2 := List.find?_some h
  exact ⟨h1, by simpa using h2⟩

theorem release_nodup (free : List BS) (pend : List (BS × Handle)) (b : BS)
    (hn : (free ++ pend.map (·.1)).Nodup) (hb : b ∈ pend.map (·.1)) :
    (free ++ [b] ++ (removeEntry pend b).map (·.1)).Nodup := by
  have hsub : ∀ x, x ∈ (removeEntry pend b).map (·.1) → x ∈ pend.map (·.1) ∧ x ≠ b := by
    intro x hx
    simp only [removeEntry, List.mem_map, List.mem_filter] at hx
    obtain ⟨e, ⟨he, hne⟩, rfl⟩ := hx
    exact ⟨List.mem_map.mpr ⟨e, he, rfl⟩, by simpa using hne⟩
  rw [List.nodup_append] at hn
  obtain ⟨hf, hp, hdis⟩ := hn
  have hF : ((removeEntry pend b).map (·.1)).Nodup := by
    unfold removeEntry
    exact (List.Nodup.sublist (List.Sublist.map _ List.filter_sublist) hp)
  rw [List.append_assoc, List.nodup_append]
  refine ⟨hf, ?_, ?_⟩
  · simp only [List.singleton_append, List.nodup_cons]
    exact ⟨fun hx => (hsub b hx).2 rfl, hF⟩
  · intro x hx y hy
    simp only [List.singleton_append, List.mem_cons] at hy
    rcases hy with rfl | hy
    · exact hdis x hx y hb
    · exact hdis x hx y (hsub y hy).1

theorem step_inv (s : St) (a : Act) (h : Inv s) (h0 : ConnsOK s) : Inv (step s a) ∧ ConnsOK (step s a) := by
  cases a with
  | clientReq client cstream idem plan ws =>
    simp only [step]
    have hout : ∀ e ∈ s.out, e.rid < s.nreq := by
      intro e he
      have := h.one e.rid
      have hpos : 0 < cnt s.out e.rid := by
        simp only [cnt]; exact List.countP_pos_iff.mpr ⟨e, he, by simp⟩
      by_cases hge : e.rid < s.nreq
      · exact hge
      · simp only [hge, false_and, ↓reduceIte] at this
        omega
    let s1 : St := { s with nreq := s.nreq + 1, req := upd s.req s.nreq { client, cstream, idem, plan } }
    have h1 : Inv s1 := by
      constructor
      · intro x
        have hx := h.one x
        by_cases hxr : x = s.nreq
        · subst hxr
          simp only [s1, upd_same]
          simpa using hx
        · simp only [s1, upd_other _ _ _ _ hxr]
          have : (x < s.nreq + 1) ↔ (x < s.nreq) := by constructor <;> intro _ <;> omega
          simp only [this]; exact hx
      · intro e he
        have hne : e.rid ≠ s.nreq := Nat.ne_of_lt (hout e he)
        simp only [s1, upd_other _ _ _ _ hne]
        exact h.addr e he
      · exact h.orig
    have h01 : ConnsOK s1 := fun c => CInv_mono (h0 c) (Nat.le_succ _)
    have hr : s.nreq < s1.nreq := by simp [s1]
    have hnd : (s1.req s.nreq).done = false := by simp [s1]
    exact ⟨(execNext_inv plan s1 s.nreq ws hr hnd h1).1, execNext_connsOK plan s1 s.nreq ws hr h01⟩
  | backendReply c b o ws =>
    simp only [step]
    split
    · exact ⟨h, h0⟩
    · rename_i w hw
      obtain ⟨hwm, hwb⟩ := find_some_mem hw
      have hk := h0 c
      split
      · refine ⟨Inv_setConn _ _ _ h, ConnsOK_setConn _ _ _ h0 ?_⟩
        exact ⟨fun e he => hk.rid e (by
                 rcases he with he | he
                 · exact Or.inl he
                 · exact Or.inr (List.mem_filter.mp he).1), hk.nodup,
               fun e he => hk.wire e (List.mem_filter.mp he).1, hk.notif⟩
      · rename_i e he
        obtain ⟨hem, heb⟩ := find_some_mem he
        have hnodupkeys : ((s.conn c).pending.map (·.1)).Nodup := (List.nodup_append.mp hk.nodup).2.1
        have hew : e = w := entry_unique hnodupkeys hem (hk.wire w hwm) (by rw [heb, hwb])
        have hbkeys : b ∈ (s.conn c).pending.map (·.1) := List.mem_map.mpr ⟨e, hem, heb⟩
        have hk3 : CInv s.nreq (release (s.conn c) b) := by
          refine ⟨?_, release_nodup _ _ _ hk.nodup hbkeys, ?_, hk.notif⟩
          · intro e' he'
            rcases he' with he' | he'
            · exact hk.rid e' (Or.inl (List.mem_filter.mp he').1)
            · exact hk.rid e' (Or.inr (List.mem_filter.mp he').1)
          · intro e' he'
            have := List.mem_filter.mp he'
            exact List.mem_filter.mpr ⟨hk.wire e' this.1, this.2⟩
        have hs3 := ConnsOK_setConn s c _ h0 hk3
        have hi3 := Inv_setConn s c (release (s.conn c) b) h
        have hrid : e.2.rid < s.nreq := hk.rid e (Or.inl hem)
        generalize hs3def : s.setConn c (release (s.conn c) b) = s3 at hs3 hi3 ⊢
        have hn3 : s3.nreq = s.nreq := by rw [← hs3def]; rfl
        split
        · rename_i r her
          have hr3 : r < s3.nreq := by rw [hn3]; simpa [her, Handle.rid] using hrid
          have hog : w.2.rid = r := by rw [← hew, her]; rfl
          split
          · -- UNPREPARED with a cached PREPARE: re-prepare on this connection
            have hv := sendTo_view s3 c (.prep r) (ws.headD true)
            have hc := sendTo_connsOK s3 c (.prep r) (ws.headD true) (by simpa [Handle.rid] using hr3) hs3
            generalize sendTo s3 c (.prep r) (ws.headD true) = p at hv hc ⊢
            obtain ⟨s', ok⟩ := p
            simp only at hv hc ⊢
            have hi' : Inv s' := Inv_of_eq s3 _ hv.1 hv.2.1 hv.2.2 hi3
            split
            · exact ⟨hi', hc⟩
            · have hr' : r < s'.nreq := by rw [hv.2.2]; exact hr3
              exact ⟨(onResult_inv s' r _ w.2 ws.tail hr' hog hi').1, onResult_connsOK s' r _ w.2 ws.tail hr' hc⟩
          · exact ⟨(onResult_inv s3 r _ w.2 ws hr3 hog hi3).1, onResult_connsOK s3 r _ w.2 ws hr3 hs3⟩
        · rename_i r her
          have hr3 : r < s3.nreq := by rw [hn3]; simpa [her, Handle.rid] using hrid
          exact ⟨(execute_inv s3 r _ ws hr3 hi3).1, execute_connsOK s3 r _ ws hr3 hs3⟩
  | connDead c =>
    simp only [step]
    refine ⟨Inv_setConn _ _ _ h, ConnsOK_setConn _ _ _ h0 ?_⟩
    have hk := h0 c
    exact ⟨fun e he => hk.rid e (by
             rcases he with he | he
             · exact Or.inl he
             · simp at he), hk.nodup, by simp, hk.notif⟩
  | closing c =>
    simp only [step]
    split
    · exact ⟨h, h0⟩
    · have hk := h0 c
      refine ⟨Inv_setConn _ _ _ h, ConnsOK_setConn _ _ _ h0 ?_⟩
      exact ⟨hk.rid, hk.nodup, hk.wire, fun e he => hk.rid e (Or.inl he)⟩
  | notifyNext c ws =>
    simp only [step]
    split
    · exact ⟨h, h0⟩
    · rename_i e rest hnot
      have hk := h0 c
      have hr : e.2.rid < s.nreq := hk.notif e (by rw [hnot]; simp)
      have hk1 : CInv s.nreq { (s.conn c) with toNotify := rest } :=
        ⟨hk.rid, hk.nodup, hk.wire, fun e' he' => hk.notif e' (by rw [hnot]; exact List.mem_cons_of_mem _ he')⟩
      have hs1 := ConnsOK_setConn s c _ h0 hk1
      have hi1 := Inv_setConn s c { (s.conn c) with toNotify := rest } h
      generalize hs1def : s.setConn c { (s.conn c) with toNotify := rest } = s1 at hs1 hi1 ⊢
      have hr1 : e.2.rid < s1.nreq := by rw [← hs1def]; exact hr
      exact ⟨(onClose_inv s1 e.2.rid ws hr1 hi1).1, onClose_connsOK s1 e.2.rid ws hr1 hs1⟩
  | slotCleared hst slot =>
    simp only [step]
    exact ⟨Inv_of_eq s _ rfl rfl rfl h, ConnsOK_of_eq s _ rfl rfl h0⟩
  | connect hst slot maxStreams =>
    simp only [step]
    refine ⟨Inv_of_eq s _ rfl rfl rfl h, ?_⟩
    intro c
    by_cases hc : c = s.nconn
    · subst hc
      simp only [upd_same]
      exact ⟨by simp, by simpa using List.nodup_range, by simp, by simp⟩
    · simpa [upd_other _ _ _ _ hc] using h0 c

theorem init_inv : Inv init ∧ ConnsOK init := by
  refine ⟨⟨by intro r; simp [init, cnt], by simp [init], by simp [init]⟩, ?_⟩
  intro c
  exact ⟨by simp [init], by simp [init], by simp [init], by simp [init]⟩

theorem reachable_inv (as : List Act) : Inv (run as) ∧ ConnsOK (run as) := by
  unfold run
  suffices ∀ s, Inv s ∧ ConnsOK s → Inv (as.foldl step s) ∧ ConnsOK (as.foldl step s) from this init init_inv
  induction as with
  | nil => intro s h; exact h
  | cons a as ih => intro s h; exact ih (step s a) (step_inv s a h.1 h.2)

end CqlVerif.Core
