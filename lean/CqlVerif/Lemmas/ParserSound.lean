import CqlVerif.Model.Parser
/-
Lemmas.ParserSound — no verdict is dropped.  `LS.sawNonIdem` is a ghost flag that `termFunc` raises
when a function term it has parsed to its closing parenthesis is `now()` / `uuid()` (unqualified or
in keyspace `system`).  Every parser function hands the flag on untouched unless it answers "not
idempotent": whenever a function returns `idem = true` the flag is what it was on entry.
-/
namespace CqlVerif.Parser
open CqlVerif.Gen.Lex

@[simp] theorem nextT_saw (L : Lexer) (s : LS) : (nextT L s).2.sawNonIdem = s.sawNonIdem := rfl
@[simp] theorem mark_saw (s : LS) : (mark s).sawNonIdem = s.sawNonIdem := rfl
@[simp] theorem rewind_saw (s : LS) : (rewind s).sawNonIdem = s.sawNonIdem := rfl
@[simp] theorem skipToken_saw (L : Lexer) (s : LS) (t k : Nat) : (skipToken L s t k).2.sawNonIdem = s.sawNonIdem := by
  unfold skipToken; split <;> simp

@[simp] theorem pqi_saw (L : Lexer) (s : LS) : (parseQualifiedIdentifier L s).2.2.2.2.sawNonIdem = s.sawNonIdem := by
  unfold parseQualifiedIdentifier
  grind [nextT_saw]

@[simp] theorem parseIdentifiers_saw (L : Lexer) : ∀ fuel s t, (parseIdentifiers L fuel s t).2.sawNonIdem = s.sawNonIdem := by
  intro fuel
  induction fuel with
  | zero => intro s t; rfl
  | succ n ih => intro s t; unfold parseIdentifiers; grind [nextT_saw, skipToken_saw]

@[simp] theorem parseBindMarker_saw (L : Lexer) (s : LS) (t : Nat) : (parseBindMarker L s t).2.sawNonIdem = s.sawNonIdem := by
  unfold parseBindMarker; grind [nextT_saw]

@[simp] theorem parseTypeLoop_saw (L : Lexer) : ∀ fuel s t, (parseTypeLoop L fuel s t).2.2.sawNonIdem = s.sawNonIdem := by
  intro fuel
  induction fuel with
  | zero => intro s t; rfl
  | succ n ih => intro s t; unfold parseTypeLoop; grind [nextT_saw, skipToken_saw]

@[simp] theorem parseType_saw (L : Lexer) (fuel : Nat) (s : LS) : (parseType L fuel s).2.2.sawNonIdem = s.sawNonIdem := by
  unfold parseType; grind [nextT_saw, parseTypeLoop_saw]

@[simp] theorem parseTtlOrTimestamp_saw (L : Lexer) (s : LS) : (parseTtlOrTimestamp L s).2.sawNonIdem = s.sawNonIdem := by
  unfold parseTtlOrTimestamp; grind [nextT_saw, parseBindMarker_saw]

@[simp] theorem parseUsingClause_saw (L : Lexer) (s : LS) (t : Nat) : (parseUsingClause L s t).2.2.sawNonIdem = s.sawNonIdem := by
  unfold parseUsingClause; grind [nextT_saw, parseTtlOrTimestamp_saw]

theorem nextT_saw_eq (L : Lexer) (s s' : LS) (t : Nat) (h : nextT L s = (t, s')) : s'.sawNonIdem = s.sawNonIdem := by
  have := nextT_saw L s; rw [h] at this; exact this

/-- the term block: `idem = true` ⇒ the flag is unchanged -/
structure BlockS (L : Lexer) (fuel : Nat) : Prop where
  term : ∀ s t, (parseTerm L fuel s t).1.idem = true → (parseTerm L fuel s t).2.2.sawNonIdem = s.sawNonIdem
  list : ∀ s t, (parseListLoop L fuel s t).1.idem = true → (parseListLoop L fuel s t).2.2.sawNonIdem = s.sawNonIdem
  tuple : ∀ s t, (parseTupleLoop L fuel s t).1.idem = true → (parseTupleLoop L fuel s t).2.2.sawNonIdem = s.sawNonIdem
  udt : ∀ s t, (parseUDTLoop L fuel s t).1.idem = true → (parseUDTLoop L fuel s t).2.2.sawNonIdem = s.sawNonIdem
  setmap : ∀ s t, (parseSetOrMapLoop L fuel s t).1.idem = true → (parseSetOrMapLoop L fuel s t).2.2.sawNonIdem = s.sawNonIdem
  args : ∀ s t, (parseFuncArgs L fuel s t).1.idem = true → (parseFuncArgs L fuel s t).2.2.sawNonIdem = s.sawNonIdem
  curly : ∀ s, (termCurly L fuel s).1.idem = true → (termCurly L fuel s).2.2.sawNonIdem = s.sawNonIdem
  paren : ∀ s, (termParen L fuel s).1.idem = true → (termParen L fuel s).2.2.sawNonIdem = s.sawNonIdem
  func : ∀ s, (termFunc L fuel s).1.idem = true → (termFunc L fuel s).2.2.sawNonIdem = s.sawNonIdem

theorem term_block_sound (L : Lexer) : ∀ fuel, BlockS L fuel := by
  intro fuel
  induction fuel with
  | zero =>
    constructor <;> intros <;> simp_all [parseTerm, parseListLoop, parseTupleLoop, parseUDTLoop, parseSetOrMapLoop, parseFuncArgs, termCurly, termParen, termFunc, R.fuel]
  | succ n ih =>
    constructor
    · intro s t
      unfold parseTerm
      have h2 := ih.list; have h7 := ih.curly; have h8 := ih.paren; have h9 := ih.func
      repeat' split
      all_goals (intro h; grind [nextT_saw_eq, R.bad])
    · intro s t; have := ih.term; have := ih.list
      unfold parseListLoop; grind [nextT_saw, skipToken_saw, R.bad]
    · intro s t; have := ih.term; have := ih.tuple
      unfold parseTupleLoop; grind [nextT_saw, skipToken_saw, R.bad]
    · intro s t; have := ih.term; have := ih.udt
      unfold parseUDTLoop; grind [nextT_saw, skipToken_saw, pqi_saw, R.bad]
    · intro s t; have := ih.term; have := ih.setmap
      unfold parseSetOrMapLoop; grind [nextT_saw, skipToken_saw, R.bad]
    · intro s t; have := ih.term; have := ih.args
      unfold parseFuncArgs; grind [nextT_saw, skipToken_saw, mark_saw, rewind_saw, R.bad]
    · intro s; have := ih.udt; have := ih.setmap
      unfold termCurly; grind [nextT_saw, mark_saw, rewind_saw, pqi_saw, R.bad]
    · intro s; have := ih.term; have := ih.tuple
      unfold termParen; grind [nextT_saw, parseType_saw, R.bad]
    · intro s; have := ih.args
      unfold termFunc; grind [nextT_saw, pqi_saw, R.bad]

theorem parseTerm_sound (L : Lexer) (fuel : Nat) (s : LS) (t : Nat) :
    (parseTerm L fuel s t).1.idem = true → (parseTerm L fuel s t).2.2.sawNonIdem = s.sawNonIdem := (term_block_sound L fuel).term s t

@[simp] theorem scanForIf_saw (L : Lexer) : ∀ fuel s t, (scanForIf L fuel s t).2.2.sawNonIdem = s.sawNonIdem := by
  intro fuel
  induction fuel with
  | zero => intro s t; rfl
  | succ n ih => intro s t; unfold scanForIf; grind [nextT_saw]

macro "snd_leaves" : tactic => `(tactic| ((repeat' split) <;> (intro h; grind [nextT_saw, skipToken_saw, mark_saw, rewind_saw, pqi_saw, parseIdentifiers_saw, parseBindMarker_saw, parseType_saw, parseUsingClause_saw, parseTtlOrTimestamp_saw, scanForIf_saw, R.bad, R.fuel])))

theorem termsUntilRparen_sound (L : Lexer) : ∀ fuel s t,
    (parseTermsUntilRparen L fuel s t).1.idem = true → (parseTermsUntilRparen L fuel s t).2.2.sawNonIdem = s.sawNonIdem := by
  intro fuel
  induction fuel with
  | zero => intro s t; simp [parseTermsUntilRparen, R.fuel]
  | succ n ih =>
    intro s t
    have h1 := parseTerm_sound L n
    unfold parseTermsUntilRparen
    snd_leaves

theorem identifiersRelation_sound (L : Lexer) (fuel : Nat) (s : LS) :
    (parseIdentifiersRelation L fuel s).1.idem = true → (parseIdentifiersRelation L fuel s).2.sawNonIdem = s.sawNonIdem := by
  have h1 := termsUntilRparen_sound L fuel
  unfold parseIdentifiersRelation
  snd_leaves

theorem relation_sound (L : Lexer) : ∀ fuel s t,
    (parseRelation L fuel s t).1.idem = true → (parseRelation L fuel s t).2.sawNonIdem = s.sawNonIdem := by
  intro fuel
  induction fuel with
  | zero => intro s t; simp [parseRelation, R.fuel]
  | succ n ih =>
    intro s t
    have h1 := parseTerm_sound L n
    have h2 := termsUntilRparen_sound L n
    have h3 := identifiersRelation_sound L n
    unfold parseRelation
    snd_leaves

theorem whereLoop_sound (L : Lexer) : ∀ fuel s t,
    (parseWhereLoop L fuel s t).1.idem = true → (parseWhereLoop L fuel s t).2.2.sawNonIdem = s.sawNonIdem := by
  intro fuel
  induction fuel with
  | zero => intro s t; simp [parseWhereLoop, R.fuel]
  | succ n ih =>
    intro s t
    have h1 := relation_sound L n
    unfold parseWhereLoop
    snd_leaves

theorem whereClause_sound (L : Lexer) (fuel : Nat) (s : LS) :
    (parseWhereClause L fuel s).1.idem = true → (parseWhereClause L fuel s).2.2.sawNonIdem = s.sawNonIdem := by
  have h1 := whereLoop_sound L fuel
  unfold parseWhereClause
  snd_leaves

theorem updateOp_sound (L : Lexer) (fuel : Nat) (s : LS) (t : Nat) :
    (parseUpdateOp L fuel s t).1.idem = true → (parseUpdateOp L fuel s t).2.sawNonIdem = s.sawNonIdem := by
  have h1 := parseTerm_sound L fuel
  unfold parseUpdateOp
  snd_leaves

theorem updateOpsLoop_sound (L : Lexer) : ∀ fuel s t,
    (updateOpsLoop L fuel s t).1.idem = true → (updateOpsLoop L fuel s t).2.2.sawNonIdem = s.sawNonIdem := by
  intro fuel
  induction fuel with
  | zero => intro s t; simp [updateOpsLoop, R.fuel]
  | succ n ih =>
    intro s t
    have h1 := updateOp_sound L n
    unfold updateOpsLoop
    snd_leaves

theorem whereAndIf_sound (L : Lexer) (fuel : Nat) (s : LS) (t : Nat) :
    (whereAndIf L fuel s t).1.idem = true → (whereAndIf L fuel s t).2.2.sawNonIdem = s.sawNonIdem := by
  have h1 := whereClause_sound L fuel
  unfold whereAndIf
  snd_leaves

theorem insertStmt_sound (L : Lexer) (fuel : Nat) (s : LS) :
    (insertStmt L fuel s).1.idem = true → (insertStmt L fuel s).2.2.sawNonIdem = s.sawNonIdem := by
  have h1 := termsUntilRparen_sound L fuel
  unfold insertStmt
  snd_leaves

theorem updateStmt_sound (L : Lexer) (fuel : Nat) (s : LS) :
    (updateStmt L fuel s).1.idem = true → (updateStmt L fuel s).2.2.sawNonIdem = s.sawNonIdem := by
  have h1 := updateOpsLoop_sound L fuel
  have h2 := whereAndIf_sound L fuel
  unfold updateStmt
  snd_leaves

theorem deleteOpsLoop_sound (L : Lexer) : ∀ fuel s t,
    (deleteOpsLoop L fuel s t).1.idem = true → (deleteOpsLoop L fuel s t).2.2.sawNonIdem = s.sawNonIdem := by
  intro fuel
  induction fuel with
  | zero => intro s t; simp [deleteOpsLoop, R.fuel]
  | succ n ih =>
    intro s t
    have h1 := parseTerm_sound L n
    unfold deleteOpsLoop
    snd_leaves

theorem deleteStmt_sound (L : Lexer) (fuel : Nat) (s : LS) :
    (deleteStmt L fuel s).1.idem = true → (deleteStmt L fuel s).2.2.sawNonIdem = s.sawNonIdem := by
  have h1 := deleteOpsLoop_sound L fuel
  have h2 := whereAndIf_sound L fuel
  unfold deleteStmt
  snd_leaves

theorem dispatch_sound (L : Lexer) (fuel : Nat) (s : LS) (t : Nat) (x : R × Nat × LS)
    (h : dispatch L fuel s t = some x) : x.1.idem = true → x.2.2.sawNonIdem = s.sawNonIdem := by
  have h1 := insertStmt_sound L fuel s
  have h2 := updateStmt_sound L fuel s
  have h3 := deleteStmt_sound L fuel s
  unfold dispatch at h
  grind

theorem batchLoop_sound (L : Lexer) : ∀ fuel s t,
    (batchLoop L fuel s t).1.idem = true → (batchLoop L fuel s t).2.sawNonIdem = s.sawNonIdem := by
  intro fuel
  induction fuel with
  | zero => intro s t; simp [batchLoop, R.fuel]
  | succ n ih =>
    intro s t
    have h1 := dispatch_sound L n
    unfold batchLoop
    snd_leaves

theorem batchStmt_sound (L : Lexer) (fuel : Nat) (s : LS) :
    (batchStmt L fuel s).1.idem = true → (batchStmt L fuel s).2.sawNonIdem = s.sawNonIdem := by
  have h1 := batchLoop_sound L fuel
  unfold batchStmt
  snd_leaves

/-- `classify` with the final scanner state exposed -/
def classifyS (L : Lexer) (fuel : Nat) : R × LS :=
  let s : LS := { p := 0 }
  let (t, s) := nextT L s
  if t = tkSelect then ({ idem := true }, s)
  else if t = tkUse ∨ t = tkCreate ∨ t = tkAlter ∨ t = tkDrop then ({ idem := false }, s)
  else if t = tkBegin then batchStmt L fuel s
  else
    match dispatch L fuel s t with
    | none => (R.bad, s)
    | some (r, t, s') => ({ r with idem := r.idem && (t = tkEOF || t = tkEOS) }, s')

theorem classifyS_fst (L : Lexer) (fuel : Nat) : (classifyS L fuel).1 = classify L fuel := by
  unfold classifyS classify
  grind

theorem classify_sound_flag (L : Lexer) (fuel : Nat) (h : (classify L fuel).idem = true) :
    (classifyS L fuel).2.sawNonIdem = false := by
  rw [← classifyS_fst] at h
  have h1 := batchStmt_sound L fuel
  have h2 := dispatch_sound L fuel
  revert h
  unfold classifyS
  snd_leaves

end CqlVerif.Parser
