import CqlVerif.Lemmas.Core
/-
Lemmas.CoreLive — the liveness half of C01 as a safety invariant of the concurrent core: in every
reachable state every request that has not been answered is *owned* — a frame sent for it is on
the wire of a live backend connection (the backend will answer it or the connection will die), or
it is registered on a dead connection whose `Closing` has not run yet, or its `OnClose`
notification is still due.  Nothing the handlers do lets a request slip out of all three.
-/
namespace CqlVerif.Core
open CqlVerif.Retry

def OwnedBy (k : Conn) (r : ReqId) : Prop :=
  ∃ e : BS × Handle, e.2.rid = r ∧
    (e ∈ k.wire ∨ (e ∈ k.pending ∧ k.dead = true ∧ k.notified = false) ∨ e ∈ k.toNotify)

def Owned (s : St) (r : ReqId) : Prop := ∃ c, OwnedBy (s.conn c) r

def Settled (s : St) (r : ReqId) : Prop := (s.req r).done = true ∨ Owned s r

/-- facts about connections the ownership argument needs -/
structure CAux (fresh : Prop) (k : Conn) : Prop where
  deadWire : k.dead = true → k.wire = []
  notifDead : k.notified = true → k.dead = true ∧ k.closing = true
  notifNone : k.notified = false → k.toNotify = []
  unused : fresh → k.pending = [] ∧ k.wire = [] ∧ k.toNotify = [] ∧ k.closing = true ∧ k.notified = true ∧ k.dead = true

def Aux (s : St) : Prop := ∀ c, CAux (s.nconn ≤ c) (s.conn c)

/-- `t` extends `s`: same requests and connections, nothing registered has been removed, no flag
has changed, no answered request has become unanswered -/
structure CExt (k k' : Conn) : Prop where
  dead : k'.dead = k.dead
  notified : k'.notified = k.notified
  closing : k'.closing = k.closing
  wire : ∀ e ∈ k.wire, e ∈ k'.wire
  pending : ∀ e ∈ k.pending, e ∈ k'.pending
  toNotify : k'.toNotify = k.toNotify

structure Ext (s t : St) : Prop where
  nreq : t.nreq = s.nreq
  nconn : t.nconn = s.nconn
  done : ∀ r, (s.req r).done = true → (t.req r).done = true
  conn : ∀ c, CExt (s.conn c) (t.conn c)

theorem CExt.refl (k : Conn) : CExt k k := ⟨rfl, rfl, rfl, fun _ h => h, fun _ h => h, rfl⟩
theorem Ext.refl (s : St) : Ext s s := ⟨rfl, rfl, fun _ h => h, fun c => CExt.refl _⟩

theorem Ext.trans {s t u : St} (h1 : Ext s t) (h2 : Ext t u) : Ext s u :=
  ⟨by rw [h2.nreq, h1.nreq], by rw [h2.nconn, h1.nconn], fun r h => h2.done r (h1.done r h),
   fun c => ⟨by rw [(h2.conn c).dead, (h1.conn c).dead], by rw [(h2.conn c).notified, (h1.conn c).notified],
             by rw [(h2.conn c).closing, (h1.conn c).closing],
             fun e he => (h2.conn c).wire e ((h1.conn c).wire e he),
             fun e he => (h2.conn c).pending e ((h1.conn c).pending e he),
             by rw [(h2.conn c).toNotify, (h1.conn c).toNotify]⟩⟩

theorem OwnedBy_ext {k k' : Conn} (h : CExt k k') {r : ReqId} : OwnedBy k r → OwnedBy k' r := by
  rintro ⟨e, he, hc⟩
  refine ⟨e, he, ?_⟩
  rcases hc with hc | ⟨hp, hd, hn⟩ | hc
  · exact Or.inl (h.wire e hc)
  · exact Or.inr (Or.inl ⟨h.pending e hp, by rw [h.dead]; exact hd, by rw [h.notified]; exact hn⟩)
  · exact Or.inr (Or.inr (by rw [h.toNotify]; exact hc))

theorem Owned_ext {s t : St} (h : Ext s t) {r : ReqId} : Owned s r → Owned t r := by
  rintro ⟨c, hc⟩; exact ⟨c, OwnedBy_ext (h.conn c) hc⟩

theorem Settled_ext {s t : St} (h : Ext s t) {r : ReqId} : Settled s r → Settled t r := by
  rintro (hd | ho)
  · exact Or.inl (h.done r hd)
  · exact Or.inr (Owned_ext h ho)

theorem Ext_of_conn_eq (s t : St) (h1 : t.conn = s.conn) (h2 : t.nreq = s.nreq) (h3 : t.nconn = s.nconn)
    (h4 : ∀ r, (s.req r).done = true → (t.req r).done = true) : Ext s t :=
  ⟨h2, h3, h4, fun c => by rw [h1]; exact CExt.refl _⟩

theorem Aux_of_conn_eq (s t : St) (h1 : t.conn = s.conn) (h3 : t.nconn = s.nconn) : Aux s → Aux t := by
  intro h c; rw [h1, h3]; exact h c

theorem setReq_ext (s : St) (r : ReqId) (q : Req) (hq : (s.req r).done = true → q.done = true) : Ext s (s.setReq r q) := by
  refine Ext_of_conn_eq s _ rfl rfl rfl ?_
  intro x hx
  by_cases hxr : x = r
  · subst hxr; simpa [St.setReq] using hq hx
  · simpa [St.setReq, upd_other _ _ _ _ hxr] using hx

theorem finish_ext (s : St) (r : ReqId) (o : Option Handle) : Ext s (finish s r o) := by
  refine Ext_of_conn_eq s _ rfl rfl rfl ?_
  intro x hx
  by_cases hxr : x = r
  · subst hxr; simp [finish, St.setReq]
  · simpa [finish, St.setReq, upd_other _ _ _ _ hxr] using hx

theorem finish_done (s : St) (r : ReqId) (o : Option Handle) : ((finish s r o).req r).done = true := by
  simp [finish, St.setReq]

theorem Aux_setConn (s : St) (c : ConnId) (k : Conn) (h : Aux s) (hk : CAux (s.nconn ≤ c) k) : Aux (s.setConn c k) := by
  intro c'
  by_cases hc : c' = c
  · subst hc; simpa [St.setConn] using hk
  · simpa [St.setConn, upd_other _ _ _ _ hc] using h c'

theorem Ext_setConn (s : St) (c : ConnId) (k : Conn) (hk : CExt (s.conn c) k) : Ext s (s.setConn c k) := by
  refine ⟨rfl, rfl, fun _ h => h, ?_⟩
  intro c'
  by_cases hc : c' = c
  · subst hc; simpa [St.setConn] using hk
  · simp only [St.setConn, upd_other _ _ _ _ hc]; exact CExt.refl _

/-- `ClientConn.Send`: nothing is lost; a send reported successful leaves the request owned — on the
wire of a live connection, or on a dead one that has yet to run `Closing` (the `closing` flag is
what rules out registering on a connection whose notifications have already gone out) -/
theorem sendTo_good (s : St) (c : ConnId) (hd : Handle) (w : Bool) (ha : Aux s) :
    Ext s (sendTo s c hd w).1 ∧ Aux (sendTo s c hd w).1 ∧ ((sendTo s c hd w).2 = true → Owned (sendTo s c hd w).1 hd.rid) := by
  unfold sendTo
  dsimp only
  have hk := ha c
  split
  · exact ⟨Ext.refl _, ha, by simp⟩
  · rename_i hcl
    have hcl : (s.conn c).closing = false := by simpa using hcl
    have hnotif : (s.conn c).notified = false := by
      cases hn : (s.conn c).notified with
      | false => rfl
      | true => have := (hk.notifDead hn).2; rw [hcl] at this; cases this
    have hfresh : ¬ (s.nconn ≤ c) := by
      intro hf
      have := (hk.unused hf).2.2.2.1; rw [hcl] at this; cases this
    split
    · exact ⟨Ext.refl _, ha, by simp⟩
    · rename_i b fr hfree
      split
      · rename_i hdead
        split
        · refine ⟨Ext_setConn _ _ _ ⟨rfl, rfl, rfl, fun _ h => h, fun _ h => List.mem_cons_of_mem _ h, rfl⟩, ?_, ?_⟩
          · apply Aux_setConn _ _ _ ha
            exact ⟨hk.deadWire, hk.notifDead, hk.notifNone, fun hf => absurd hf hfresh⟩
          · intro _
            refine ⟨c, (b, hd), rfl, Or.inr (Or.inl ?_)⟩
            simp [St.setConn, hdead, hnotif]
        · refine ⟨Ext_setConn _ _ _ ⟨rfl, rfl, rfl, fun _ h => h, fun _ h => List.mem_cons_of_mem _ h, rfl⟩, ?_, by simp⟩
          apply Aux_setConn _ _ _ ha
          exact ⟨hk.deadWire, hk.notifDead, hk.notifNone, fun hf => absurd hf hfresh⟩
      · rename_i hdead
        have hdead : (s.conn c).dead = false := by simpa using hdead
        refine ⟨Ext_setConn _ _ _ ⟨rfl, rfl, rfl, fun _ h => List.mem_append_left _ h, fun _ h => List.mem_cons_of_mem _ h, rfl⟩, ?_, ?_⟩
        · apply Aux_setConn _ _ _ ha
          exact ⟨by simp [hdead], hk.notifDead, hk.notifNone, fun hf => absurd hf hfresh⟩
        · intro _
          exact ⟨c, (b, hd), rfl, Or.inl (by simp [St.setConn])⟩

theorem sendHost_good (s : St) (h : Host) (hd : Handle) (w : Bool) (ha : Aux s) :
    Ext s (sendHost s h hd w).1 ∧ Aux (sendHost s h hd w).1 ∧ ((sendHost s h hd w).2 = true → Owned (sendHost s h hd w).1 hd.rid) := by
  unfold sendHost
  split
  · exact ⟨Ext.refl _, ha, by simp⟩
  · exact sendTo_good _ _ _ _ ha

/-- what every handler guarantees about the request it runs for -/
def Good (s t : St) (r : ReqId) : Prop := Ext s t ∧ Aux t ∧ Settled t r

theorem execNext_good (plan : List Host) : ∀ (s : St) (r : ReqId) (ws : List Bool), Aux s → Good s (execNext s r ws plan) r := by
  induction plan with
  | nil =>
    intro s r ws ha
    simp only [execNext]
    have e1 : Ext s (s.setReq r { s.req r with plan := [], host := none }) := setReq_ext s r _ (fun h => h)
    exact ⟨e1.trans (finish_ext _ _ _), Aux_of_conn_eq s _ rfl rfl ha, Or.inl (finish_done _ _ _)⟩
  | cons hst rest ih =>
    intro s r ws ha
    simp only [execNext]
    have e1 : Ext s (s.setReq r { s.req r with plan := rest, host := some hst }) := setReq_ext s r _ (fun h => h)
    have a1 : Aux (s.setReq r { s.req r with plan := rest, host := some hst }) := Aux_of_conn_eq s _ rfl rfl ha
    generalize (s.setReq r { s.req r with plan := rest, host := some hst }) = s1 at e1 a1 ⊢
    have hg := sendHost_good s1 hst (.req r) (ws.headD true) a1
    generalize sendHost s1 hst (.req r) (ws.headD true) = p at hg ⊢
    obtain ⟨s', ok⟩ := p
    simp only at hg ⊢
    split
    · rename_i hok
      exact ⟨e1.trans hg.1, hg.2.1, Or.inr (hg.2.2 hok)⟩
    · have := ih s' r ws.tail hg.2.1
      exact ⟨(e1.trans hg.1).trans this.1, this.2.1, this.2.2⟩

theorem execSame_good (s : St) (r : ReqId) (ws : List Bool) (ha : Aux s) : Good s (execSame s r ws) r := by
  unfold execSame
  split
  · exact ⟨finish_ext _ _ _, Aux_of_conn_eq s _ rfl rfl ha, Or.inl (finish_done _ _ _)⟩
  · rename_i hst _
    have hg := sendHost_good s hst (.req r) (ws.headD true) ha
    generalize sendHost s hst (.req r) (ws.headD true) = p at hg ⊢
    obtain ⟨s', ok⟩ := p
    simp only at hg ⊢
    split
    · rename_i hok
      exact ⟨hg.1, hg.2.1, Or.inr (hg.2.2 hok)⟩
    · have := execNext_good (s'.req r).plan s' r ws.tail hg.2.1
      exact ⟨hg.1.trans this.1, this.2.1, this.2.2⟩

theorem bump_ext (s : St) (r : ReqId) : Ext s (s.setReq r { s.req r with rc := (s.req r).rc + 1 }) :=
  setReq_ext s r _ (fun h => h)

theorem onResult_good (s : St) (r : ReqId) (o : Outcome) (og : Handle) (ws : List Bool) (ha : Aux s) :
    Good s (onResult s r o og ws) r := by
  unfold onResult
  dsimp only
  split
  · rename_i hd; exact ⟨Ext.refl _, ha, Or.inl hd⟩
  · have hfin : ∀ x, Good s (finish s r x) r := fun x =>
      ⟨finish_ext _ _ _, Aux_of_conn_eq s _ rfl rfl ha, Or.inl (finish_done _ _ _)⟩
    split
    · exact hfin _
    · split
      · exact hfin _
      · have := execSame_good _ r ws (Aux_of_conn_eq s (s.setReq r { s.req r with rc := (s.req r).rc + 1 }) rfl rfl ha)
        exact ⟨(bump_ext s r).trans this.1, this.2.1, this.2.2⟩
      · have := execNext_good (s.req r).plan _ r ws (Aux_of_conn_eq s (s.setReq r { s.req r with rc := (s.req r).rc + 1 }) rfl rfl ha)
        exact ⟨(bump_ext s r).trans this.1, this.2.1, this.2.2⟩

theorem onClose_good (s : St) (r : ReqId) (ws : List Bool) (ha : Aux s) : Good s (onClose s r ws) r := by
  unfold onClose
  dsimp only
  split
  · rename_i hd; exact ⟨Ext.refl _, ha, Or.inl hd⟩
  · split
    · exact execNext_good _ s r ws ha
    · exact ⟨finish_ext _ _ _, Aux_of_conn_eq s _ rfl rfl ha, Or.inl (finish_done _ _ _)⟩

theorem execute_good (s : St) (r : ReqId) (next : Bool) (ws : List Bool) (ha : Aux s) : Good s (execute s r next ws) r := by
  unfold execute
  split
  · rename_i hd; exact ⟨Ext.refl _, ha, Or.inl hd⟩
  · split
    · exact execNext_good _ s r ws ha
    · exact execSame_good s r _ ha

/-- every request below `n` other than `R` is settled -/
def LiveExcept (s : St) (n : Nat) (R : Option ReqId) : Prop := ∀ r, r < n → some r ≠ R → Settled s r

def Live (s : St) : Prop := LiveExcept s s.nreq none

theorem live_of_good {s t : St} {R : ReqId} (hl : LiveExcept s s.nreq (some R)) (hg : Good s t R) : Live t := by
  intro r hr _
  by_cases hR : r = R
  · subst hR; exact hg.2.2
  · exact Settled_ext hg.1 (hl r (by rw [← hg.1.nreq]; exact hr) (by simpa using hR))

theorem find_none_not_mem {l : List (BS × Handle)} {b : BS} (h : l.find? (fun e => e.1 = b) = none) :
    ∀ e ∈ l, e.1 ≠ b := by
  intro e he
  have := List.find?_eq_none.mp h e he
  simpa using this

theorem step_live (s : St) (a : Act) (hl : Live s) (ha : Aux s) (h0 : ConnsOK s) : Live (step s a) ∧ Aux (step s a) := by
  cases a with
  | clientReq client cstream idem plan ws =>
    simp only [step]
    let s1 : St := { s with nreq := s.nreq + 1, req := upd s.req s.nreq { client, cstream, idem, plan } }
    have a1 : Aux s1 := Aux_of_conn_eq s s1 rfl rfl ha
    have l1 : LiveExcept s1 s1.nreq (some s.nreq) := by
      intro r hr hne
      have hne : r ≠ s.nreq := by simpa using hne
      have hr' : r < s.nreq := by simp [s1] at hr; omega
      rcases hl r hr' (by simp) with hd | ⟨c, hc⟩
      · exact Or.inl (by simpa [s1, upd_other _ _ _ _ hne] using hd)
      · exact Or.inr ⟨c, hc⟩
    have hg := execNext_good plan s1 s.nreq ws a1
    exact ⟨live_of_good l1 hg, hg.2.1⟩
  | backendReply c b o ws =>
    simp only [step]
    split
    · exact ⟨hl, ha⟩
    · rename_i w hw
      obtain ⟨hwm, hwb⟩ := find_some_mem hw
      have hk := h0 c
      have hka := ha c
      split
      · rename_i hnone
        exact absurd hwb (find_none_not_mem hnone w (hk.wire w hwm))
      · rename_i e he
        obtain ⟨hem, heb⟩ := find_some_mem he
        have hnodupkeys : ((s.conn c).pending.map (·.1)).Nodup := (List.nodup_append.mp hk.nodup).2.1
        have hew : e = w := entry_unique hnodupkeys hem (hk.wire w hwm) (by rw [heb, hwb])
        have hndead : (s.conn c).dead = false := by
          cases hd : (s.conn c).dead with
          | false => rfl
          | true => have := hka.deadWire hd; rw [this] at hwm; cases hwm
        have hfresh : ¬ (s.nconn ≤ c) := by
          intro hf
          have := (hka.unused hf).2.1; rw [this] at hwm; cases hwm
        have a3 : Aux (s.setConn c (release (s.conn c) b)) := by
          apply Aux_setConn _ _ _ ha
          exact ⟨by simp [release, hndead], by simpa [release] using hka.notifDead, by simpa [release] using hka.notifNone, fun hf => absurd hf hfresh⟩
        have l3 : LiveExcept (s.setConn c (release (s.conn c) b)) s.nreq (some e.2.rid) := by
          intro r hr hne
          have hne : r ≠ e.2.rid := by simpa using hne
          rcases hl r hr (by simp) with hd | ⟨c', e', her, hc'⟩
          · exact Or.inl hd
          · refine Or.inr ⟨c', ?_⟩
            by_cases hcc : c' = c
            · subst hcc
              simp only [St.setConn, upd_same]
              refine ⟨e', her, ?_⟩
              rcases hc' with hc' | ⟨_, hd, _⟩ | hc'
              · refine Or.inl ?_
                have hne' : e'.1 ≠ b := by
                  intro hb
                  have : e' = e := entry_unique hnodupkeys (hk.wire e' hc') hem (by rw [hb, heb])
                  exact hne (by rw [← her, this])
                simp only [release, List.mem_filter]
                exact ⟨hc', by simpa using hne'⟩
              · rw [hndead] at hd; cases hd
              · exact Or.inr (Or.inr (by simpa [release] using hc'))
            · simp only [St.setConn, upd_other _ _ _ _ hcc]
              exact ⟨e', her, hc'⟩
        generalize hs3 : s.setConn c (release (s.conn c) b) = s3 at a3 l3 ⊢
        have hn3 : s3.nreq = s.nreq := by rw [← hs3]; rfl
        rw [← hn3] at l3
        split
        · rename_i r her
          have hrid : e.2.rid = r := by rw [her]; rfl
          rw [hrid] at l3
          split
          · have hg := sendTo_good s3 c (.prep r) (ws.headD true) a3
            generalize sendTo s3 c (.prep r) (ws.headD true) = p at hg ⊢
            obtain ⟨s', ok⟩ := p
            simp only at hg ⊢
            split
            · rename_i hok
              exact ⟨live_of_good l3 ⟨hg.1, hg.2.1, Or.inr (hg.2.2 hok)⟩, hg.2.1⟩
            · have hg2 := onResult_good s' r (Outcome.unprepared true ‹_›) w.2 ws.tail hg.2.1
              exact ⟨live_of_good l3 ⟨hg.1.trans hg2.1, hg2.2.1, hg2.2.2⟩, hg2.2.1⟩
          · have hg := onResult_good s3 r o w.2 ws a3
            exact ⟨live_of_good l3 hg, hg.2.1⟩
        · rename_i r her
          have hrid : e.2.rid = r := by rw [her]; rfl
          rw [hrid] at l3
          have hg := execute_good s3 r (o != .success) ws a3
          exact ⟨live_of_good l3 hg, hg.2.1⟩
  | connDead c =>
    simp only [step]
    have hk := h0 c
    have hka := ha c
    constructor
    · intro r hr _
      rcases hl r hr (by simp) with hd | ⟨c', e', her, hc'⟩
      · exact Or.inl hd
      · refine Or.inr ⟨c', ?_⟩
        by_cases hcc : c' = c
        · subst hcc
          simp only [St.setConn, upd_same]
          refine ⟨e', her, ?_⟩
          rcases hc' with hc' | ⟨hp, _, hn⟩ | hc'
          · have hn : (s.conn c').notified = false := by
              cases hn : (s.conn c').notified with
              | false => rfl
              | true => have := hka.deadWire (hka.notifDead hn).1; rw [this] at hc'; cases hc'
            exact Or.inr (Or.inl ⟨hk.wire e' hc', rfl, hn⟩)
          · exact Or.inr (Or.inl ⟨hp, rfl, hn⟩)
          · exact Or.inr (Or.inr hc')
        · simp only [St.setConn, upd_other _ _ _ _ hcc]
          exact ⟨e', her, hc'⟩
    · apply Aux_setConn _ _ _ ha
      refine ⟨fun _ => rfl, fun hn => ⟨rfl, (hka.notifDead hn).2⟩, hka.notifNone, ?_⟩
      intro hf
      have := hka.unused hf
      exact ⟨this.1, rfl, this.2.2.1, this.2.2.2.1, this.2.2.2.2.1, rfl⟩
  | closing c =>
    simp only [step]
    have hka := ha c
    split
    · exact ⟨hl, ha⟩
    · rename_i hcond
      have hnn : (s.conn c).notified = false ∧ (s.conn c).dead = true := by
        cases hn : (s.conn c).notified <;> cases hd : (s.conn c).dead <;> simp_all
      constructor
      · intro r hr _
        rcases hl r hr (by simp) with hd | ⟨c', e', her, hc'⟩
        · exact Or.inl hd
        · refine Or.inr ⟨c', ?_⟩
          by_cases hcc : c' = c
          · subst hcc
            simp only [St.setConn, upd_same]
            refine ⟨e', her, ?_⟩
            rcases hc' with hc' | ⟨hp, _, _⟩ | hc'
            · have := hka.deadWire hnn.2; rw [this] at hc'; cases hc'
            · exact Or.inr (Or.inr hp)
            · have := hka.notifNone hnn.1; rw [this] at hc'; cases hc'
          · simp only [St.setConn, upd_other _ _ _ _ hcc]
            exact ⟨e', her, hc'⟩
      · apply Aux_setConn _ _ _ ha
        refine ⟨hka.deadWire, fun _ => ⟨hnn.2, rfl⟩, by simp, ?_⟩
        intro hf
        have := (hka.unused hf).2.2.2.2.1
        rw [hnn.1] at this; cases this
  | notifyNext c ws =>
    simp only [step]
    have hka := ha c
    split
    · exact ⟨hl, ha⟩
    · rename_i e rest hnot
      have a1 : Aux (s.setConn c { (s.conn c) with toNotify := rest }) := by
        apply Aux_setConn _ _ _ ha
        refine ⟨hka.deadWire, hka.notifDead, ?_, ?_⟩
        · intro hn; have := hka.notifNone hn; rw [hnot] at this; cases this
        · intro hf; have := (hka.unused hf).2.2.1; rw [hnot] at this; cases this
      have l1 : LiveExcept (s.setConn c { (s.conn c) with toNotify := rest }) s.nreq (some e.2.rid) := by
        intro r hr hne
        have hne : r ≠ e.2.rid := by simpa using hne
        rcases hl r hr (by simp) with hd | ⟨c', e', her, hc'⟩
        · exact Or.inl hd
        · refine Or.inr ⟨c', ?_⟩
          by_cases hcc : c' = c
          · subst hcc
            simp only [St.setConn, upd_same]
            refine ⟨e', her, ?_⟩
            rcases hc' with hc' | hc' | hc'
            · exact Or.inl hc'
            · exact Or.inr (Or.inl hc')
            · rw [hnot] at hc'
              rcases List.mem_cons.mp hc' with rfl | hc''
              · exact absurd her.symm hne
              · exact Or.inr (Or.inr hc'')
          · simp only [St.setConn, upd_other _ _ _ _ hcc]
            exact ⟨e', her, hc'⟩
      have hg := onClose_good _ e.2.rid ws a1
      exact ⟨live_of_good l1 hg, hg.2.1⟩
  | slotCleared hst slot =>
    simp only [step]
    exact ⟨fun r hr hn => hl r hr hn, fun c => ha c⟩
  | connect hst slot maxStreams =>
    simp only [step]
    constructor
    · intro r hr _
      rcases hl r hr (by simp) with hd | ⟨c', e', her, hc'⟩
      · exact Or.inl hd
      · refine Or.inr ⟨c', ?_⟩
        by_cases hcc : c' = s.nconn
        · subst hcc
          have hu := (ha s.nconn).unused (by simp)
          rcases hc' with hc' | ⟨hp, _, _⟩ | hc'
          · rw [hu.2.1] at hc'; cases hc'
          · rw [hu.1] at hp; cases hp
          · rw [hu.2.2.1] at hc'; cases hc'
        · simp only [upd_other _ _ _ _ hcc]
          exact ⟨e', her, hc'⟩
    · intro c
      by_cases hc : c = s.nconn
      · subst hc
        simp only [upd_same]
        exact ⟨by simp, by simp, by simp, by simp⟩
      · simp only [upd_other _ _ _ _ hc]
        have := ha c
        refine ⟨this.deadWire, this.notifDead, this.notifNone, ?_⟩
        intro hf
        apply this.unused
        show s.nconn ≤ c
        have : s.nconn + 1 ≤ c := hf
        omega

theorem init_live : Live init ∧ Aux init := by
  refine ⟨fun r hr _ => by simp [init] at hr, ?_⟩
  intro c
  exact ⟨by simp [init], by simp [init], by simp [init], by simp [init]⟩

theorem reachable_live (as : List Act) : Live (run as) ∧ Aux (run as) := by
  unfold run
  suffices ∀ s, Live s ∧ Aux s ∧ Inv s ∧ ConnsOK s →
      Live (as.foldl step s) ∧ Aux (as.foldl step s) from this init ⟨init_live.1, init_live.2, init_inv.1, init_inv.2⟩
  induction as with
  | nil => intro s h; exact ⟨h.1, h.2.1⟩
  | cons a as ih =>
    intro s h
    have h1 := step_live s a h.1 h.2.1 h.2.2.2
    have h2 := step_inv s a h.2.2.1 h.2.2.2
    exact ih (step s a) ⟨h1.1, h1.2, h2.1, h2.2⟩

end CqlVerif.Core
