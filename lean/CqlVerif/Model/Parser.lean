import CqlVerif.Gen.LexTables
/-
Model.Parser — the idempotency classifier of parser/*.go, function by function
(`isIdempotentStmt`, `…InsertStmt`, `…UpdateStmt`, `parseUpdateOp`, `…DeleteStmt`, `…BatchStmt`,
`parseTerm` and its helpers, `parseWhereClause`, `parseRelation`, `parseIdentifiersRelation`,
`parseUsingClause`, `parseType`) over an abstract lexer interface: `L p` is the token starting
at position `p` (kind, position after it, identifier payload). The lexer state threaded through
is `(position, single mark register, last identifier)` exactly as `lexer.p`, `lexer.m`, `lexer.id`.
Every Go `for` loop is a recursion on `fuel`; running out of fuel is reported, never hidden.
-/
namespace CqlVerif.Parser
open CqlVerif.Gen.Lex

/-- `Identifier` of identifier.go -/
structure Ident where
  text : List Nat := []       -- bytes, without the surrounding quotes if quoted
  ignoreCase : Bool := true
  deriving Repr, DecidableEq

def lowerB (c : Nat) : Nat := if 65 ≤ c ∧ c ≤ 90 then c + 32 else c

/-- `Identifier.equal(s)` for an ASCII keyword `s` -/
def Ident.equal (i : Ident) (s : String) : Bool :=
  let sb := s.toList.map Char.toNat
  if i.ignoreCase then i.text.map lowerB == sb.map lowerB else i.text == sb

def Ident.isEmpty (i : Ident) : Bool := i.text.isEmpty

/-- a token as the parser sees it -/
structure Tk where
  kind : Nat
  stop : Nat
  id : Ident := {}
  deriving Repr

/-- lexer state: `l.p`, `l.m`, `l.id`, `l.mid` -/
structure LS where
  p : Nat
  m : Nat := 0
  id : Ident := {}
  mid : Ident := {}       -- `lexer.mid`: the identifier at the marked position
  /-- ghost (not in the code): a function term that was parsed to its closing parenthesis called one of the
  system's non-deterministic functions. Nothing reads it; `C06.no_verdict_dropped` is about it. -/
  sawNonIdem : Bool := false
  deriving Repr

abbrev Lexer := Nat → Tk

def nextT (L : Lexer) (s : LS) : Nat × LS :=
  let t := L s.p
  (t.kind, { s with p := t.stop, id := if t.kind = tkIdentifier then t.id else s.id })

def mark (s : LS) : LS := { s with m := s.p, mid := s.id }
def rewind (s : LS) : LS := { s with p := s.m, id := s.mid }

def isUnreservedKeyword (s : LS) (t : Nat) (kw : String) : Bool := t = tkIdentifier && s.id.equal kw

def skipToken (L : Lexer) (s : LS) (t : Nat) (toSkip : Nat) : Nat × LS :=
  if t = toSkip then nextT L s else (t, s)

def isDMLTerminator (t : Nat) : Bool :=
  t = tkEOF || t = tkEOS || t = tkInsert || t = tkUpdate || t = tkDelete || t = tkApply

def isOperator (t : Nat) : Bool :=
  t = tkEqual || t = tkLt || t = tkLtEqual || t = tkGt || t = tkGtEqual || t = tkNotEqual

def isNonIdempotentFunc (i : Ident) : Bool := i.equal "uuid" || i.equal "now"

inductive TermType where
  | invalid | integerLiteral | primitiveLiteral | listLiteral | setMapUdtLiteral | tupleLiteral
  | bindMarker | functionCall | cast
  deriving Repr, DecidableEq

def isIdempotentUpdateOpTermType (t : TermType) : Bool := t = .setMapUdtLiteral || t = .tupleLiteral
def isIdempotentDeleteElementTermType (t : TermType) : Bool :=
  t ≠ .integerLiteral && t ≠ .bindMarker && t ≠ .functionCall && t ≠ .cast

/-- result of a sub-parser: idempotent?, error?, out of fuel? -/
structure R where
  idem : Bool
  err : Bool := false
  oof : Bool := false
  deriving Repr, DecidableEq

def R.bad : R := { idem := false, err := true }
def R.fuel : R := { idem := false, err := true, oof := true }

/-- `parseQualifiedIdentifier`: (keyspace, target, next token, error) -/
def parseQualifiedIdentifier (L : Lexer) (s : LS) : Ident × Ident × Nat × Bool × LS :=
  let temp := s.id
  let (t, s) := nextT L s
  if t = tkDot then
    let (t, s) := nextT L s
    if t ≠ tkIdentifier then ({}, {}, tkInvalid, true, s)
    else
      let target := s.id
      let (t, s) := nextT L s
      (temp, target, t, false, s)
  else ({}, temp, t, false, s)

/-- `parseIdentifiers(l, t)`: true = error -/
def parseIdentifiers (L : Lexer) : Nat → LS → Nat → Bool × LS
  | 0, s, _ => (true, s)
  | fuel+1, s, t =>
    if t ≠ tkRparen ∧ t ≠ tkEOF then
      if t ≠ tkIdentifier then (true, s)
      else
        let (t, s) := nextT L s
        let (t, s) := skipToken L s t tkComma
        parseIdentifiers L fuel s t
    else (t ≠ tkRparen, s)

def parseBindMarker (L : Lexer) (s : LS) (t : Nat) : Bool × LS :=
  if t = tkColon then
    let (t, s) := nextT L s
    (t ≠ tkIdentifier, s)
  else if t = tkQMark then (false, s)
  else (true, s)

/-- `parseType`: (next token, error) -/
def parseTypeLoop (L : Lexer) : Nat → LS → Nat → Nat × Bool × LS
  | 0, s, _ => (tkInvalid, true, s)
  | fuel+1, s, t =>
    if t ≠ tkGt ∧ t ≠ tkEOF then
      if t ≠ tkIdentifier then (tkInvalid, true, s)
      else
        let (t, s) := nextT L s
        let (t, s) := skipToken L s t tkComma
        parseTypeLoop L fuel s t
    else if t ≠ tkGt then (tkInvalid, true, s)
    else let (t, s) := nextT L s; (t, false, s)

def parseType (L : Lexer) (fuel : Nat) (s : LS) : Nat × Bool × LS :=
  let (t, s) := nextT L s
  if t = tkLt then
    let (t, s) := nextT L s
    parseTypeLoop L fuel s t
  else (t, false, s)

mutual
/-- `parseTerm(l, t)` -/
def parseTerm (L : Lexer) : Nat → LS → Nat → R × TermType × LS
  | 0, s, _ => (R.fuel, .invalid, s)
  | fuel+1, s, t =>
    if t = tkInteger then ({ idem := true }, .integerLiteral, s)
    else if t = tkFloat ∨ t = tkBool ∨ t = tkNull ∨ t = tkStringLiteral ∨ t = tkHexNumber ∨ t = tkUuid ∨ t = tkDuration ∨ t = tkNan ∨ t = tkInfinity then
      ({ idem := true }, .primitiveLiteral, s)
    else if t = tkColon then
      let (t, s) := nextT L s
      if t ≠ tkIdentifier then (R.bad, .bindMarker, s) else ({ idem := true }, .bindMarker, s)
    else if t = tkQMark then ({ idem := true }, .bindMarker, s)
    else if t = tkLsquare then
      let (t, s) := nextT L s
      parseListLoop L fuel s t
    else if t = tkLcurly then termCurly L fuel s
    else if t = tkLparen then termParen L fuel s
    else if t = tkIdentifier then termFunc L fuel s
    else (R.bad, .invalid, s)

/-- `case tkLcurly:` set, map or UDT literal -/
def termCurly (L : Lexer) : Nat → LS → R × TermType × LS
  | 0, s => (R.fuel, .setMapUdtLiteral, s)
  | fuel+1, s =>
    let (t, s) := nextT L s
    if t = tkIdentifier then
      let s := mark s
      let (_, _, maybeColon, e, s) := parseQualifiedIdentifier L s
      if e then (R.bad, .setMapUdtLiteral, s)
      else
        let s := rewind s
        if maybeColon = tkColon then parseUDTLoop L fuel s t else parseSetOrMapLoop L fuel s t
    else parseSetOrMapLoop L fuel s t

/-- `case tkLparen:` type cast or tuple literal -/
def termParen (L : Lexer) : Nat → LS → R × TermType × LS
  | 0, s => (R.fuel, .tupleLiteral, s)
  | fuel+1, s =>
    let (t, s) := nextT L s
    if t = tkIdentifier then
      -- parseCastTerm
      let (t, e, s) := parseType L fuel s
      if e then (R.bad, .cast, s)
      else if t ≠ tkRparen then (R.bad, .cast, s)
      else
        let (t, s) := nextT L s
        let (r, _, s) := parseTerm L fuel s t
        if !r.idem then (r, .cast, s) else ({ idem := true, err := r.err }, .cast, s)
    else parseTupleLoop L fuel s t

/-- `parseFunctionTerm` -/
def termFunc (L : Lexer) : Nat → LS → R × TermType × LS
  | 0, s => (R.fuel, .functionCall, s)
  | fuel+1, s =>
    let (keyspace, target, t, e, s) := parseQualifiedIdentifier L s
    if e then (R.bad, .functionCall, s)
    else if t ≠ tkLparen then (R.bad, .functionCall, s)
    else
      let (t, s) := nextT L s
      let (r, t, s) := parseFuncArgs L fuel s t
      if !r.idem then (r, .functionCall, s)
      else if t ≠ tkRparen then (R.bad, .functionCall, s)
      else
        let bad := isNonIdempotentFunc target && (keyspace.isEmpty || keyspace.equal "system")
        ({ idem := !bad }, .functionCall, { s with sawNonIdem := s.sawNonIdem || bad })

/-- `for t = l.next(); t != ']' && t != EOF; t = skipToken(l, l.next(), ',') { parseTerm }` -/
def parseListLoop (L : Lexer) : Nat → LS → Nat → R × TermType × LS
  | 0, s, _ => (R.fuel, .listLiteral, s)
  | fuel+1, s, t =>
    if t ≠ tkRsquare ∧ t ≠ tkEOF then
      let (r, _, s) := parseTerm L fuel s t
      if !r.idem then (r, .listLiteral, s)
      else
        let (t, s) := nextT L s
        let (t, s) := skipToken L s t tkComma
        parseListLoop L fuel s t
    else if t ≠ tkRsquare then (R.bad, .listLiteral, s)
    else ({ idem := true }, .listLiteral, s)

def parseTupleLoop (L : Lexer) : Nat → LS → Nat → R × TermType × LS
  | 0, s, _ => (R.fuel, .tupleLiteral, s)
  | fuel+1, s, t =>
    if t ≠ tkRparen ∧ t ≠ tkEOF then
      let (r, _, s) := parseTerm L fuel s t
      if !r.idem then (r, .tupleLiteral, s)
      else
        let (t, s) := nextT L s
        let (t, s) := skipToken L s t tkComma
        parseTupleLoop L fuel s t
    else if t ≠ tkRparen then (R.bad, .tupleLiteral, s)
    else ({ idem := true }, .tupleLiteral, s)

def parseUDTLoop (L : Lexer) : Nat → LS → Nat → R × TermType × LS
  | 0, s, _ => (R.fuel, .setMapUdtLiteral, s)
  | fuel+1, s, t =>
    if t ≠ tkRcurly ∧ t ≠ tkEOF then
      if t ≠ tkIdentifier then (R.bad, .setMapUdtLiteral, s)
      else
        let (_, _, t, e, s) := parseQualifiedIdentifier L s
        if e then (R.bad, .setMapUdtLiteral, s)
        else
          -- `t = skipToken(l, l.next(), tkColon)`: the token returned by parseQualifiedIdentifier is dropped
          let _ := t
          let (t, s) := nextT L s
          let (t, s) := skipToken L s t tkColon
          let (r, _, s) := parseTerm L fuel s t
          if !r.idem then (r, .setMapUdtLiteral, s)
          else
            let (t, s) := nextT L s
            let (t, s) := skipToken L s t tkComma
            parseUDTLoop L fuel s t
    else if t ≠ tkRcurly then (R.bad, .setMapUdtLiteral, s)
    else ({ idem := true }, .setMapUdtLiteral, s)

def parseSetOrMapLoop (L : Lexer) : Nat → LS → Nat → R × TermType × LS
  | 0, s, _ => (R.fuel, .setMapUdtLiteral, s)
  | fuel+1, s, t =>
    if t ≠ tkRcurly ∧ t ≠ tkEOF then
      let (r, _, s) := parseTerm L fuel s t
      if !r.idem then (r, .setMapUdtLiteral, s)
      else
        let (t, s) := nextT L s
        if t = tkColon then
          let (t, s) := nextT L s
          let (r, _, s) := parseTerm L fuel s t
          if !r.idem then (r, .setMapUdtLiteral, s)
          else
            let (t, s) := nextT L s
            let (t, s) := skipToken L s t tkComma
            parseSetOrMapLoop L fuel s t
        else
          let (t, s) := skipToken L s t tkComma
          parseSetOrMapLoop L fuel s t
    else if t ≠ tkRcurly then (R.bad, .setMapUdtLiteral, s)
    else ({ idem := true }, .setMapUdtLiteral, s)

/-- argument loop of `parseFunctionTerm`; returns the token that ended it -/
def parseFuncArgs (L : Lexer) : Nat → LS → Nat → R × Nat × LS
  | 0, s, t => (R.fuel, t, s)
  | fuel+1, s, t =>
    if t ≠ tkRparen ∧ t ≠ tkEOF then
      let s := mark s
      let (maybe, s) := nextT L s
      let s := rewind s
      if t = tkIdentifier ∧ (maybe = tkComma ∨ maybe = tkRparen) then
        let (t, s) := nextT L s
        let (t, s) := skipToken L s t tkComma
        parseFuncArgs L fuel s t
      else
        let (r, _, s) := parseTerm L fuel s t
        if !r.idem then (r, t, s)
        else
          let (t, s) := nextT L s
          let (t, s) := skipToken L s t tkComma
          parseFuncArgs L fuel s t
    else ({ idem := true }, t, s)
end

/-- term list `( t, t, … )` used by VALUES / IN: returns the token that ended it -/
def parseTermsUntilRparen (L : Lexer) : Nat → LS → Nat → R × Nat × LS
  | 0, s, t => (R.fuel, t, s)
  | fuel+1, s, t =>
    if t ≠ tkRparen ∧ t ≠ tkEOF then
      let (r, _, s) := parseTerm L fuel s t
      if !r.idem then (r, t, s)
      else
        let (t, s) := nextT L s
        let (t, s) := skipToken L s t tkComma
        parseTermsUntilRparen L fuel s t
    else ({ idem := true }, t, s)

/-- `parseTtlOrTimestamp`: true = error -/
def parseTtlOrTimestamp (L : Lexer) (s : LS) : Bool × LS :=
  let (t, s) := nextT L s
  if !(isUnreservedKeyword s t "ttl") && !(isUnreservedKeyword s t "timestamp") then (true, s)
  else
    let (t, s) := nextT L s
    if t = tkInteger then (false, s)
    else if t = tkColon ∨ t = tkQMark then parseBindMarker L s t
    else (true, s)

/-- `parseUsingClause(l, t)`: (next token, error) -/
def parseUsingClause (L : Lexer) (s : LS) (t : Nat) : Nat × Bool × LS :=
  if t = tkUsing then
    let (e, s) := parseTtlOrTimestamp L s
    if e then (tkInvalid, true, s)
    else
      let (t, s) := nextT L s
      if t = tkAnd then
        let (e, s) := parseTtlOrTimestamp L s
        if e then (tkInvalid, true, s)
        else let (t, s) := nextT L s; (t, false, s)
      else (t, false, s)
  else (t, false, s)

/-- `for ; !isDMLTerminator(t); t = l.next() { if tkIf == t { return false } }` -/
def scanForIf (L : Lexer) : Nat → LS → Nat → R × Nat × LS
  | 0, s, t => (R.fuel, t, s)
  | fuel+1, s, t =>
    if isDMLTerminator t then ({ idem := true }, t, s)
    else if t = tkIf then ({ idem := false }, tkInvalid, s)
    else let (t, s) := nextT L s; scanForIf L fuel s t

def parseIdentifiersRelation (L : Lexer) (fuel : Nat) (s : LS) : R × LS :=
  let (t, s) := nextT L s
  if t = tkIn ∨ t = tkEqual ∨ t = tkLt ∨ t = tkLtEqual ∨ t = tkGt ∨ t = tkGtEqual ∨ t = tkNotEqual then
    let (t, s) := nextT L s
    if t = tkColon ∨ t = tkQMark then
      let (e, s) := parseBindMarker L s t
      ({ idem := !e, err := e }, s)
    else if t = tkLparen then
      let (t, s) := nextT L s
      let (r, t, s) := parseTermsUntilRparen L fuel s t
      if !r.idem then (r, s)
      else if t ≠ tkRparen then (R.bad, s)
      else ({ idem := true }, s)
    else (R.bad, s)
  else (R.bad, s)

/-- `parseRelation(l, t)` -/
def parseRelation (L : Lexer) : Nat → LS → Nat → R × LS
  | 0, s, _ => (R.fuel, s)
  | fuel+1, s, t =>
    if t = tkIdentifier then
      let (t, s) := nextT L s
      if t = tkIdentifier then
        if isUnreservedKeyword s t "contains" then
          let (t, s) := nextT L s
          let (t, s) := if isUnreservedKeyword s t "key" then nextT L s else (t, s)
          let (r, _, s) := parseTerm L fuel s t
          if !r.idem then (r, s) else ({ idem := true }, s)
        else if isUnreservedKeyword s t "like" then
          let (t, s) := nextT L s
          let (r, _, s) := parseTerm L fuel s t
          if !r.idem then (r, s) else ({ idem := true }, s)
        else (R.bad, s)
      else if t = tkEqual ∨ t = tkGt ∨ t = tkLtEqual ∨ t = tkLt ∨ t = tkGtEqual ∨ t = tkNotEqual then
        let (t, s) := nextT L s
        let (r, _, s) := parseTerm L fuel s t
        if !r.idem then (r, s) else ({ idem := true }, s)
      else if t = tkIs then
        let (t, s) := nextT L s
        if t ≠ tkNot then (R.bad, s)
        else
          let (t, s) := nextT L s
          if t ≠ tkNull then (R.bad, s) else ({ idem := true }, s)
      else if t = tkLsquare then
        let (t, s) := nextT L s
        let (r, _, s) := parseTerm L fuel s t
        if !r.idem then (r, s)
        else
          let (t, s) := nextT L s
          if t ≠ tkRsquare then (R.bad, s)
          else
            let (t, s) := nextT L s
            if !isOperator t then (R.bad, s)
            else
              let (t, s) := nextT L s
              let (r, _, s) := parseTerm L fuel s t
              if !r.idem then (r, s) else ({ idem := true }, s)
      else if t = tkIn then
        let (t, s) := nextT L s
        if t = tkLparen then
          let (t, s) := nextT L s
          let (r, t, s) := parseTermsUntilRparen L fuel s t
          if !r.idem then (r, s)
          else if t ≠ tkRparen then (R.bad, s)
          else ({ idem := true }, s)
        else if t = tkColon ∨ t = tkQMark then
          let (e, s) := parseBindMarker L s t
          ({ idem := !e, err := e }, s)
        else (R.bad, s)
      else (R.bad, s)
    else if t = tkToken then
      let (t, s) := nextT L s
      if t ≠ tkLparen then (R.bad, s)
      else
        let (t, s) := nextT L s
        let (e, s) := parseIdentifiers L fuel s t
        if e then (R.bad, s)
        else
          let (t, s) := nextT L s
          if !isOperator t then (R.bad, s)
          else
            let (t, s) := nextT L s
            let (r, _, s) := parseTerm L fuel s t
            if !r.idem then (r, s) else ({ idem := true }, s)
    else if t = tkLparen then
      let s := mark s
      let (maybeId, s) := nextT L s
      let (maybeCommaOrRparen, s) := nextT L s
      if maybeId = tkIdentifier ∧ (maybeCommaOrRparen = tkComma ∨ maybeCommaOrRparen = tkRparen) then
        let (t, s) := skipToken L s maybeCommaOrRparen tkComma
        let (e, s) := parseIdentifiers L fuel s t
        if e then (R.bad, s) else parseIdentifiersRelation L fuel s
      else
        let s := rewind s
        let (t, s) := nextT L s
        let (r, s) := parseRelation L fuel s t
        if !r.idem then (r, s)
        else
          let (t, s) := nextT L s
          if t ≠ tkRparen then (R.bad, s) else ({ idem := true }, s)
    else (R.bad, s)

/-- `parseWhereClause`: (result, token that ended the clause) -/
def parseWhereLoop (L : Lexer) : Nat → LS → Nat → R × Nat × LS
  | 0, s, t => (R.fuel, t, s)
  | fuel+1, s, t =>
    if t ≠ tkIf ∧ !isDMLTerminator t then
      let (r, s) := parseRelation L fuel s t
      if !r.idem then (r, tkInvalid, s)
      else
        let (t, s) := nextT L s
        let (t, s) := skipToken L s t tkAnd
        parseWhereLoop L fuel s t
    else ({ idem := true }, t, s)

def parseWhereClause (L : Lexer) (fuel : Nat) (s : LS) : R × Nat × LS :=
  let (t, s) := nextT L s
  parseWhereLoop L fuel s t

/-- `parseUpdateOp(l, t)` -/
def parseUpdateOp (L : Lexer) (fuel : Nat) (s : LS) (t : Nat) : R × LS :=
  if t ≠ tkIdentifier then (R.bad, s)
  else
    let (t, s) := nextT L s
    if t = tkEqual then
      let s := mark s
      let (maybeId, s) := nextT L s
      let (maybeAddOrSub, s) := nextT L s
      if maybeId = tkIdentifier ∧ (maybeAddOrSub = tkAdd ∨ maybeAddOrSub = tkSub) then
        let (t, s) := nextT L s
        let (r, typ, s) := parseTerm L fuel s t
        if !r.idem then (r, s) else ({ idem := isIdempotentUpdateOpTermType typ }, s)
      else
        let s := rewind s
        let (t, s) := nextT L s
        let (r, typ, s) := parseTerm L fuel s t
        if r.idem then
          let s := mark s
          let (t, s) := nextT L s
          if t = tkAdd then
            let (t, s) := nextT L s
            if t ≠ tkIdentifier then (R.bad, s) else ({ idem := isIdempotentUpdateOpTermType typ }, s)
          else ({ idem := true }, rewind s)
        else (r, s)
    else if t = tkAddEqual ∨ t = tkSubEqual then
      let (t, s) := nextT L s
      let (r, typ, s) := parseTerm L fuel s t
      if !r.idem then (r, s) else ({ idem := isIdempotentUpdateOpTermType typ }, s)
    else if t = tkLsquare then
      let (t, s) := nextT L s
      let (r, _, s) := parseTerm L fuel s t
      if !r.idem then (r, s)
      else
        let (t, s) := nextT L s
        if t ≠ tkRsquare then (R.bad, s)
        else
          let (t, s) := nextT L s
          if t ≠ tkEqual then (R.bad, s)
          else
            let (t, s) := nextT L s
            let (r, _, s) := parseTerm L fuel s t
            if !r.idem then (r, s) else ({ idem := true }, s)
    else if t = tkDot then
      let (t, s) := nextT L s
      if t ≠ tkIdentifier then (R.bad, s)
      else
        let (t, s) := nextT L s
        if t ≠ tkEqual then (R.bad, s)
        else
          let (t, s) := nextT L s
          let (r, _, s) := parseTerm L fuel s t
          if !r.idem then (r, s) else ({ idem := true }, s)
    else (R.bad, s)

/-- the `SET` loop of an UPDATE: returns the token that ended it -/
def updateOpsLoop (L : Lexer) : Nat → LS → Nat → R × Nat × LS
  | 0, s, t => (R.fuel, t, s)
  | fuel+1, s, t =>
    if t ≠ tkIf ∧ t ≠ tkWhere ∧ !isDMLTerminator t then
      let (r, s) := parseUpdateOp L fuel s t
      if !r.idem then (r, tkInvalid, s)
      else
        let (t, s) := nextT L s
        let (t, s) := skipToken L s t tkComma
        updateOpsLoop L fuel s t
    else ({ idem := true }, t, s)

/-- WHERE (optional) then the scan for IF; shared tail of UPDATE and DELETE -/
def whereAndIf (L : Lexer) (fuel : Nat) (s : LS) (t : Nat) : R × Nat × LS :=
  if t = tkWhere then
    let (r, t, s) := parseWhereClause L fuel s
    if !r.idem then (r, tkInvalid, s) else scanForIf L fuel s t
  else scanForIf L fuel s t

/-- `isIdempotentInsertStmt`: (result, next token) -/
def insertStmt (L : Lexer) (fuel : Nat) (s : LS) : R × Nat × LS :=
  let (t, s) := nextT L s
  if t ≠ tkInto then (R.bad, tkInvalid, s)
  else
    let (t, s) := nextT L s
    if t ≠ tkIdentifier then (R.bad, tkInvalid, s)
    else
      let (_, _, t, e, s) := parseQualifiedIdentifier L s
      if e then (R.bad, tkInvalid, s)
      else if !(isUnreservedKeyword s t "json") then
        if t ≠ tkLparen then (R.bad, tkInvalid, s)
        else
          let (t1, s) := nextT L s
          let (e, s) := parseIdentifiers L fuel s t1
          if e then (R.bad, tkInvalid, s)
          else
            let (t2, s) := nextT L s
            if !(isUnreservedKeyword s t2 "values") then (R.bad, tkInvalid, s)
            else
              let (t3, s) := nextT L s
              if t ≠ t3 then (R.bad, tkInvalid, s)        -- `if t != l.next()`: t is still '('
              else
                let (t4, s) := nextT L s
                let (r, t5, s) := parseTermsUntilRparen L fuel s t4
                if !r.idem then (r, tkInvalid, s)
                else if t5 ≠ tkRparen then (R.bad, tkInvalid, s)
                else let (t, s) := nextT L s; scanForIf L fuel s t
      else let (t, s) := nextT L s; scanForIf L fuel s t

def updateStmt (L : Lexer) (fuel : Nat) (s : LS) : R × Nat × LS :=
  let (t, s) := nextT L s
  if t ≠ tkIdentifier then (R.bad, tkInvalid, s)
  else
    let (_, _, t, e, s) := parseQualifiedIdentifier L s
    if e then (R.bad, tkInvalid, s)
    else
      let (t, e, s) := parseUsingClause L s t
      if e then (R.bad, tkInvalid, s)
      else if !(isUnreservedKeyword s t "set") then (R.bad, tkInvalid, s)
      else
        let (t, s) := nextT L s
        let (r, t, s) := updateOpsLoop L fuel s t
        if !r.idem then (r, tkInvalid, s) else whereAndIf L fuel s t

/-- the selection loop of a DELETE: returns the token that ended it -/
def deleteOpsLoop (L : Lexer) : Nat → LS → Nat → R × Nat × LS
  | 0, s, t => (R.fuel, t, s)
  | fuel+1, s, t =>
    if t ≠ tkFrom ∧ t ≠ tkEOF then
      if t ≠ tkIdentifier then (R.bad, tkInvalid, s)
      else
        let s := mark s
        let (t, s) := nextT L s
        if t = tkLsquare then
          let (t, s) := nextT L s
          let (r, typ, s) := parseTerm L fuel s t
          if !r.idem then (r, tkInvalid, s)
          else
            let (t, s) := nextT L s
            if t ≠ tkRsquare then (R.bad, tkInvalid, s)
            else if !(isIdempotentDeleteElementTermType typ) then ({ idem := false }, tkInvalid, s)
            else
              let (t, s) := nextT L s
              let (t, s) := skipToken L s t tkComma
              deleteOpsLoop L fuel s t
        else if t = tkDot then
          let (t, s) := nextT L s
          if t ≠ tkIdentifier then (R.bad, tkInvalid, s)
          else
            let (t, s) := nextT L s
            let (t, s) := skipToken L s t tkComma
            deleteOpsLoop L fuel s t
        else
          let s := rewind s
          let (t, s) := nextT L s
          let (t, s) := skipToken L s t tkComma
          deleteOpsLoop L fuel s t
    else ({ idem := true }, t, s)

def deleteStmt (L : Lexer) (fuel : Nat) (s : LS) : R × Nat × LS :=
  let (t, s) := nextT L s
  let (r, t, s) := deleteOpsLoop L fuel s t
  if !r.idem then (r, tkInvalid, s)
  else if t ≠ tkFrom then (R.bad, tkInvalid, s)
  else
    let (t, s) := nextT L s
    if t ≠ tkIdentifier then (R.bad, tkInvalid, s)
    else
      let (_, _, t, e, s) := parseQualifiedIdentifier L s
      if e then (R.bad, tkInvalid, s)
      else
        let (t, e, s) := parseUsingClause L s t
        if e then (R.bad, tkInvalid, s) else whereAndIf L fuel s t

/-- dispatch on INSERT / UPDATE / DELETE -/
def dispatch (L : Lexer) (fuel : Nat) (s : LS) (t : Nat) : Option (R × Nat × LS) :=
  if t = tkInsert then some (insertStmt L fuel s)
  else if t = tkUpdate then some (updateStmt L fuel s)
  else if t = tkDelete then some (deleteStmt L fuel s)
  else none

/-- the child-statement loop of a batch -/
def batchLoop (L : Lexer) : Nat → LS → Nat → R × LS
  | 0, s, _ => (R.fuel, s)
  | fuel+1, s, t =>
    if t ≠ tkApply ∧ t ≠ tkEOF then
      match dispatch L fuel s t with
      | none => (R.bad, s)
      | some (r, t, s) =>
        let (t, s) := if t = tkEOS then nextT L s else (t, s)
        if !r.idem then (r, s) else batchLoop L fuel s t
    else if t ≠ tkApply then (R.bad, s)
    else
      let (t, s) := nextT L s
      if t ≠ tkBatch then (R.bad, s) else ({ idem := true }, s)

def batchStmt (L : Lexer) (fuel : Nat) (s : LS) : R × LS :=
  let (t, s) := nextT L s
  if isUnreservedKeyword s t "counter" && !(isUnreservedKeyword s t "unlogged") then ({ idem := false }, s)
  else
    let (t, s) := if isUnreservedKeyword s t "unlogged" then nextT L s else (t, s)
    if t ≠ tkBatch then (R.bad, s)
    else
      let (t, s) := nextT L s
      let (t, e, s) := parseUsingClause L s t
      if e then (R.bad, s) else batchLoop L fuel s t

/-- `IsQueryIdempotent`: (verdict, error, out-of-fuel) -/
def classify (L : Lexer) (fuel : Nat) : R :=
  let s : LS := { p := 0 }
  let (t, s) := nextT L s
  if t = tkSelect then { idem := true }
  else if t = tkUse ∨ t = tkCreate ∨ t = tkAlter ∨ t = tkDrop then { idem := false }
  else if t = tkBegin then (batchStmt L fuel s).1
  else
    match dispatch L fuel s t with
    | none => R.bad
    | some (r, t, _) => { r with idem := r.idem && (t = tkEOF || t = tkEOS) }

end CqlVerif.Parser
