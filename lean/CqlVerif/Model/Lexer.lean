import CqlVerif.Gen.LexTables
/-
Model.Lexer — a generic interpreter of the scanner tables extracted from parser/lexer.go
(`lexer.next()`), plus `lexAll`. Its semantics (how actions, state entries and EOF are applied)
is hand-written and validated against the real `lexer.next()` on every run (`lex` stream).
-/
namespace CqlVerif.Lexer
open CqlVerif.LexTypes CqlVerif.Gen.Lex

structure LS where
  p : Nat
  te : Nat := 0
  ts : Nat := 0
  act : Nat := 0
  tk : Nat := 0
  idLo : Nat := 0
  idHi : Nat := 0
  deriving Repr

def findRng (rs : List Rng) (b : Nat) : Nat :=
  match rs with
  | [] => 0
  | r :: rs => if (Nat.ble r.lo b && Nat.ble b r.hi) = true then r.e else findRng rs b

/-- apply one action; the Bool says "leave the scanner now" -/
def applyA1 (a : A) (s : LS) : LS :=
  match a with
  | .teP1 => { s with te := s.p + 1 }
  | .teP => { s with te := s.p }
  | .pTeM1 => { s with p := s.te - 1 }
  | .pInc => { s with p := s.p + 1 }
  | .pDec => { s with p := s.p - 1 }
  | .tsP => { s with ts := s.p }
  | .ts0 => { s with ts := 0 }
  | .setId => { s with idLo := s.ts, idHi := s.te }
  | .setAct k => { s with act := k }
  | .setTk k => { s with tk := k }
  | .byAct _ => s

def applyFlat (as : List A) (s : LS) : LS := as.foldl (fun s a => applyA1 a s) s

def applyAlts (alts : List (Nat × List A × Bool)) (s : LS) : LS × Bool :=
  match alts with
  | [] => (s, false)
  | (k, as, out) :: rest => if k = s.act then (applyFlat as s, out) else applyAlts rest s

def applyAs (as : List A) (s : LS) : LS × Bool :=
  match as with
  | [] => (s, false)
  | .byAct alts :: rest =>
    let (s', o) := applyAlts alts s
    if o then (s', true) else applyAs rest s'
  | a :: rest => applyAs rest (applyA1 a s)

/-- one scanner call; fuel bounds the number of DFA steps -/
def scan (data : Array Nat) : Nat → Nat → Bool → LS → LS
  | 0, _, _, s => s
  | fuel+1, cs, enter, s =>
    let s := if enter then { s with p := s.p + 1 } else s
    if enter && s.p == data.size then
      match eofs.getD cs none with
      | none => s
      | some e =>
        let (s', o) := applyAs e.acts s
        if o then s' else
        match e.next with
        | .out => s'
        | .st n => scan data fuel n true s'
        | .caseSt n => scan data fuel n false s'
    else
      let e := edges.getD (findRng (rows.getD cs []) (data.getD s.p 0)) ⟨[], .out⟩
      let (s', o) := applyAs e.acts s
      if o then s' else
      match e.next with
      | .out => s'
      | .st n => scan data fuel n true s'
      | .caseSt n => scan data fuel n false s'

structure Tok where
  kind : Nat
  stop : Nat      -- position after the token
  idLo : Nat := 0
  idHi : Nat := 0
  deriving Repr, DecidableEq

/-- `lexer.next()` at position p (1 = tkEOF, 0 = tkInvalid) -/
def next (data : Array Nat) (p : Nat) : Tok :=
  if p == data.size then ⟨1, p, 0, 0⟩ else
  let s := scan data (2 * data.size + 4) start false { p := p }
  if s.tk == 0 && s.p == data.size then ⟨1, s.p, 0, 0⟩ else ⟨s.tk, s.p, s.idLo, s.idHi⟩

def lexAll (data : Array Nat) : Nat → Nat → List Tok
  | 0, _ => []
  | fuel+1, p =>
    let t := next data p
    t :: (if t.kind == 1 then [] else lexAll data fuel t.stop)

end CqlVerif.Lexer
