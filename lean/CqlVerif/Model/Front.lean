/-
Model.Front — the front door of the proxy: `client.Receive` in proxy/proxy.go up to the point
where a request is routed (header decode by the pinned protocol library, the version gate,
OPTIONS / STARTUP / REGISTER handled locally, everything else dispatched).
-/
namespace CqlVerif.Front

def knownVersions : List Nat := [2, 3, 4, 5, 65, 66]

def requestOps : List Nat := [1, 5, 7, 9, 10, 11, 13, 15, 255]   -- STARTUP OPTIONS QUERY PREPARE EXECUTE REGISTER BATCH AUTH_RESPONSE DSE_REVISE
def responseOps : List Nat := [0, 2, 3, 6, 8, 12, 14, 16]        -- ERROR READY AUTHENTICATE SUPPORTED RESULT EVENT AUTH_CHALLENGE AUTH_SUCCESS

inductive Out where
  | closed                 -- the connection is closed without an answer
  | perrVersion            -- PROTOCOL_ERROR "Invalid or unsupported protocol version <v>"
  | perrCompression        -- PROTOCOL_ERROR "Unsupported compression type …"
  | perr                   -- PROTOCOL_ERROR "Unsupported operation"
  | supported | ready
  | routed                 -- QUERY / PREPARE / EXECUTE / BATCH: answered locally or forwarded (C09 decides which)
  deriving Repr, DecidableEq

/-- a frame as the gate sees it; `bodyOk`: the pinned library decodes the body for that opcode -/
structure Probe where
  vbyte : Nat      -- version-and-direction byte
  opcode : Nat
  bodyOk : Bool
  deriving Repr

/-- what the gate looks at in the version-and-direction byte -/
structure VClass where
  known : Bool        -- one of the versions the pinned library decodes (2, 3, 4, 5, DSEv1, DSEv2)
  outOfRange : Bool   -- `raw.Header.Version > MaxVersion || raw.Header.Version < ProtocolVersion3`
  resp : Bool         -- direction bit set
  deriving Repr, DecidableEq

def vclass (max vbyte : Nat) : VClass :=
  { known := knownVersions.contains (vbyte % 128),
    outOfRange := decide (vbyte % 128 > max ∨ vbyte % 128 < 3),
    resp := decide (vbyte ≥ 128) }

/-- `codec.DecodeRawFrame` (library header checks) then the gate of `client.Receive`, then
`DecodeBody` and the dispatch on the message type. -/
def gateC (c : VClass) (opcode : Nat) (bodyOk : Bool) : Out :=
  if !c.known then .closed
  else if !(requestOps.contains opcode || responseOps.contains opcode) then .closed
  else if c.resp && !(responseOps.contains opcode) then .closed
  else if !c.resp && !(requestOps.contains opcode) then .closed
  else if c.outOfRange then .perrVersion
  else if !bodyOk then .closed
  else match opcode with
    | 5 => .supported
    | 1 => .ready            -- STARTUP without COMPRESSION option
    | 11 => .ready
    | 7 | 9 | 10 | 13 => .routed
    | _ => .perr             -- any other decodable message: "Unsupported operation"

def gate (max : Nat) (p : Probe) : Out := gateC (vclass max p.vbyte) p.opcode p.bodyOk

/-- per-client-connection state relevant to the handshake -/
structure Conn where
  compression : String := ""     -- "" = none; the codec of *this* connection only
  deriving Repr, DecidableEq

def lowerAscii (s : String) : String := s.map fun c => if 'A' ≤ c ∧ c ≤ 'Z' then Char.ofNat (c.toNat + 32) else c

def supportedCompressions : List String := ["lz4", "snappy"]

/-- STARTUP: `msg.Options["COMPRESSION"]` looked up case-insensitively in the codec table -/
def startup (c : Conn) (compression : Option String) : List Out × Conn :=
  match compression with
  | none => ([.ready], c)
  | some v =>
    if supportedCompressions.contains (lowerAscii v) then ([.ready], { c with compression := lowerAscii v })
    else ([.perrCompression], c)

end CqlVerif.Front
