/-
Model of the start-up validation in proxy/run.go (`Run`) and proxy/proxy.go (`buildNodes`),
in the order the code performs the checks. Durations are nanoseconds (Int), as time.Duration.
-/
namespace CqlVerif.Config

structure Peer where
  rpcAddr : String
  dc : String := ""
  tokens : List String := []
  deriving Repr, DecidableEq

structure Cfg where
  hasBackend : Bool            -- bundle path, token or contact points given
  heartbeat : Int
  idleTimeout : Int
  numConns : Int
  version : Option Nat         -- parseProtocolVersion result (none = unknown name)
  maxVersion : Option Nat
  rpcAddr : String := ""
  tokens : List String := []
  peers : List Peer := []
  namesOk : Bool := true       -- every consistency name given was a known one
  deriving Repr

inductive Refusal where
  | noBackend | heartbeat | numConns | version | maxVersion | versionAboveMax
  | unknownName | peersWithoutRpc | peerWithoutRpc (i : Nat) | peerWithoutTokens
  deriving Repr, DecidableEq

/-- first peer (1-based) without rpc-address that the loop reaches -/
def firstPeerProblem (self : String) (ownTokens : Bool) : List Peer → Nat → Option Refusal
  | [], _ => none
  | p :: ps, i =>
    if p.rpcAddr = "" then some (.peerWithoutRpc i)
    else if p.rpcAddr = self then firstPeerProblem self ownTokens ps (i + 1)   -- own entry is skipped
    else if ownTokens ∧ p.tokens = [] then some .peerWithoutTokens
    else firstPeerProblem self ownTokens ps (i + 1)

/-- `Run` then `Proxy.Connect → buildNodes`; `none` = start-up proceeds. -/
def validate (c : Cfg) : Option Refusal :=
  if !c.namesOk then some .unknownName
  else if !c.hasBackend then some .noBackend
  else if c.heartbeat ≥ c.idleTimeout then some .heartbeat
  else if c.numConns < 1 then some .numConns
  else match c.version, c.maxVersion with
    | none, _ => some .version
    | some _, none => some .maxVersion
    | some v, some m =>
      if v > m then some .versionAboveMax
      else if c.rpcAddr = "" ∧ c.peers ≠ [] then some .peersWithoutRpc
      else firstPeerProblem c.rpcAddr (c.tokens ≠ []) c.peers 1

end CqlVerif.Config
