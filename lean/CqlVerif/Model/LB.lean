/-
Model of proxycore/lb.go: roundRobinLoadBalancer / roundRobinQueryPlan.
Hosts are represented by their keys (`Host.Key()`); the host slice is an immutable list
(the code's copy-on-write discipline is what the correspondence and the C18 facts check).
`index`/`offset` are uint64 in the code: the counter is incremented mod 2^64 exactly as Go does;
`Next` reduces the offset modulo the host count before adding the position, so the sum stays
below 2·len and cannot wrap (len < 2^63).
-/
namespace CqlVerif.LB

abbrev Key := String

def U64 : Nat := 18446744073709551616

structure LB where
  hosts : List Key := []
  index : Nat := 0          -- value of the uint64 counter, < 2^64
  deriving Repr, DecidableEq

inductive Ev where
  | bootstrap (hs : List Key)
  | add (h : Key)
  | remove (h : Key)
  deriving Repr, DecidableEq

/-- `for i, h := range cpy { if h.Key() == k { store(append(cpy[:i], cpy[i+1:]...)); break } }` -/
def removeFirst (k : Key) : List Key → List Key
  | [] => []
  | h :: t => if h = k then t else h :: removeFirst k t

def onEvent (lb : LB) : Ev → LB
  | .bootstrap hs => { lb with hosts := hs }
  | .add h => { lb with hosts := lb.hosts ++ [h] }
  | .remove h => { lb with hosts := removeFirst h lb.hosts }

structure Plan where
  hosts : List Key
  offset : Nat
  index : Nat := 0
  deriving Repr, DecidableEq

/-- `offset: atomic.AddUint32(&l.index, 1) - 1` -/
def newPlan (lb : LB) : Plan × LB :=
  ({ hosts := lb.hosts, offset := lb.index, index := 0 }, { lb with index := (lb.index + 1) % U64 })

/-- `Next()`; `l := uint64(len(p.hosts))`; `p.hosts[(p.offset%l+p.index)%l]`. -/
def Plan.next (p : Plan) : Option Key × Plan :=
  let l := p.hosts.length
  if p.index ≥ l then (none, p)
  else (p.hosts[(p.offset % l + p.index) % l]?, { p with index := p.index + 1 })

/-- call `Next` n times, collecting the results -/
def Plan.take : Nat → Plan → List (Option Key) × Plan
  | 0, p => ([], p)
  | n+1, p => let (h, p') := p.next; let (hs, p'') := Plan.take n p'; (h :: hs, p'')

/-- the hosts a fresh plan yields before exhaustion -/
def Plan.drain (p : Plan) : List (Option Key) := (Plan.take p.hosts.length p).1

end CqlVerif.LB
