/-
Model.Handshake — `ClientConn.Handshake` (proxycore/clientconn.go): what the proxy sends on a fresh
backend connection (pooled or control) and how it reads the answers: STARTUP at the wanted version,
stepping down on "Invalid or unsupported protocol version" (DSEv2 → DSEv1 → v4 → v3 → v2, never
below), AUTHENTICATE answered with the authenticator's initial response and, for a challenge, one
more AUTH_RESPONSE; and, when the connection has an event handler (the control connection), a
REGISTER for all event types as the last step, whichever way authentication went.

The server is a script: the answer to the i-th frame the proxy sends.  A script that runs out is a
connection that stops answering (the request times out).
-/
namespace CqlVerif.Handshake

inductive Srv where
  | ready
  | authenticate (dse : Bool)        -- the authenticator named: DseAuthenticator or not
  | authChallenge (plainStart : Bool) -- the token is "PLAIN-START" or something else
  | authSuccess
  | versionError                     -- PROTOCOL_ERROR "Invalid or unsupported protocol version"
  | otherError
  | other                            -- any other message
  deriving Repr, DecidableEq

inductive Sent where
  | startup (version : Nat)
  | authResponse (mechanismName : Bool)   -- "PLAIN" (true) or the credentials token (false)
  | register
  deriving Repr, DecidableEq

inductive Outcome where
  | ok (version : Nat)
  | authExpected
  | cqlError
  | unexpected
  | badChallenge
  | timeout
  deriving Repr, DecidableEq

/-- the next lower version, if there is one (v2 is the floor) -/
def stepDown : Nat → Option Nat
  | 66 => some 65
  | 65 => some 4
  | 2 => none
  | v => some (v - 1)

/-- `registerForEvents` -/
def register (version : Nat) (sent : List Sent) : List Srv → List Sent × Outcome
  | [] => (sent ++ [.register], .timeout)
  | .ready :: _ => (sent ++ [.register], .ok version)
  | .versionError :: _ => (sent ++ [.register], .cqlError)
  | .otherError :: _ => (sent ++ [.register], .cqlError)
  | _ :: _ => (sent ++ [.register], .unexpected)

def finish (version : Nat) (handler : Bool) (sent : List Sent) (rest : List Srv) : List Sent × Outcome :=
  if handler then register version sent rest else (sent, .ok version)

/-- `authChallenge` -/
def challenge (version : Nat) (handler : Bool) (sent : List Sent) (plainStart : Bool) : List Srv → List Sent × Outcome :=
  fun rest =>
  if !plainStart then (sent, .badChallenge) else
  let sent := sent ++ [.authResponse false]
  match rest with
  | [] => (sent, .timeout)
  | .authSuccess :: rest => finish version handler sent rest
  | .versionError :: _ => (sent, .cqlError)
  | .otherError :: _ => (sent, .cqlError)
  | _ :: _ => (sent, .unexpected)

/-- `authInitialResponse` -/
def initialResponse (version : Nat) (handler : Bool) (sent : List Sent) (dse : Bool) : List Srv → List Sent × Outcome :=
  fun rest =>
  let sent := sent ++ [.authResponse dse]
  match rest with
  | [] => (sent, .timeout)
  | .authChallenge ps :: rest => challenge version handler sent ps rest
  | .authSuccess :: rest => finish version handler sent rest
  | .versionError :: _ => (sent, .cqlError)
  | .otherError :: _ => (sent, .cqlError)
  | _ :: _ => (sent, .unexpected)

/-- the STARTUP loop; `fuel` bounds the number of STARTUPs (five versions at most) -/
def startup : Nat → Nat → Bool → Bool → List Sent → List Srv → List Sent × Outcome
  | 0, _, _, _, sent, _ => (sent, .timeout)
  | fuel + 1, version, handler, hasAuth, sent, srv =>
    let sent := sent ++ [.startup version]
    match srv with
    | [] => (sent, .timeout)
    | .ready :: rest => finish version handler sent rest
    | .authenticate dse :: rest => if hasAuth then initialResponse version handler sent dse rest else (sent, .authExpected)
    | .versionError :: rest =>
      match stepDown version with
      | some v => startup fuel v handler hasAuth sent rest
      | none => (sent, .cqlError)
    | .otherError :: _ => (sent, .cqlError)
    | _ :: _ => (sent, .unexpected)

def handshake (version : Nat) (handler hasAuth : Bool) (srv : List Srv) : List Sent × Outcome :=
  startup 6 version handler hasAuth [] srv

end CqlVerif.Handshake
