/-
Model.Wire — native-protocol primitives as the pinned go-cassandra-native-protocol library reads
and writes them, over byte lists (`List Nat`, every element < 256 for real inputs).
-/
namespace CqlVerif.Wire

abbrev Bytes := List Nat

def readByte : Bytes → Option (Nat × Bytes)
  | b :: r => some (b, r)
  | [] => none

/-- `[short]`: 2 bytes, big endian, unsigned -/
def readShort : Bytes → Option (Nat × Bytes)
  | a :: b :: r => some (a * 256 + b, r)
  | _ => none

/-- `[int]`: 4 bytes, big endian, signed -/
def readInt : Bytes → Option (Int × Bytes)
  | a :: b :: c :: d :: r =>
    let u := a * 16777216 + b * 65536 + c * 256 + d
    some (if u < 2147483648 then (u : Int) else (u : Int) - 4294967296, r)
  | _ => none

def takeN (n : Nat) (bs : Bytes) : Option (Bytes × Bytes) :=
  if n ≤ bs.length then some (bs.take n, bs.drop n) else none

/-- `ReadLongString`: a non-positive length yields the empty string -/
def readLongString (bs : Bytes) : Option (Bytes × Bytes) :=
  match readInt bs with
  | none => none
  | some (l, r) => if l ≤ 0 then some ([], r) else takeN l.toNat r

/-- `ReadShortBytes` -/
def readShortBytes (bs : Bytes) : Option (Bytes × Bytes) :=
  match readShort bs with
  | none => none
  | some (l, r) => takeN l r

def writeShort (n : Nat) : Bytes := [n / 256 % 256, n % 256]
def writeInt (n : Nat) : Bytes := [n / 16777216 % 256, n / 65536 % 256, n / 256 % 256, n % 256]
def writeLongString (s : Bytes) : Bytes := writeInt s.length ++ s
def writeShortBytes (b : Bytes) : Bytes := writeShort b.length ++ b

/-- all elements are bytes -/
def IsBytes (bs : Bytes) : Prop := ∀ b ∈ bs, b < 256

end CqlVerif.Wire
