import CqlVerif.Model.Wire
/-
Model.PartialCodec — codecs/partial_codecs.go: the proxy decodes only the head of QUERY / EXECUTE /
BATCH bodies (what it needs for routing, classification and the consistency override) and keeps
the rest as raw bytes.
-/
namespace CqlVerif.PartialCodec
open CqlVerif.Wire

structure PQuery where
  query : Bytes
  consistency : Nat
  params : Bytes
  deriving Repr, DecidableEq

def decodeQuery (bs : Bytes) : Option PQuery :=
  match readLongString bs with
  | none => none
  | some (q, r) =>
    match readShort r with
    | none => none
    | some (c, r) => some { query := q, consistency := c, params := r }

def encodeQuery (p : PQuery) : Bytes := writeLongString p.query ++ writeShort p.consistency ++ p.params

structure PExecute where
  id : Bytes
  resultMetadataId : Bytes := []
  consistency : Nat
  params : Bytes
  deriving Repr, DecidableEq

/-- `rmid`: the version supports a result-metadata id (v5, DSEv2) -/
def decodeExecute (rmid : Bool) (bs : Bytes) : Option PExecute :=
  match readShortBytes bs with
  | none => none
  | some (id, r) =>
    if id = [] then none
    else if rmid then
      match readShortBytes r with
      | none => none
      | some (rm, r) =>
        if rm = [] then none
        else match readShort r with
          | none => none
          | some (c, r) => some { id, resultMetadataId := rm, consistency := c, params := r }
    else match readShort r with
      | none => none
      | some (c, r) => some { id, consistency := c, params := r }

def encodeExecute (rmid : Bool) (p : PExecute) : Bytes :=
  writeShortBytes p.id ++ (if rmid then writeShortBytes p.resultMetadataId else []) ++ writeShort p.consistency ++ p.params

/-- `skipValue`: `[int]` length, then that many bytes if positive; returns the bytes consumed -/
def skipValue (bs : Bytes) : Option (Bytes × Bytes) :=
  match readInt bs with
  | none => none
  | some (l, r) =>
    if l ≤ 0 then some (bs.take 4, r)
    else match takeN l.toNat r with
      | none => none
      | some (v, r') => some (bs.take 4 ++ v, r')

def skipValues : Nat → Bytes → Option (Bytes × Bytes)
  | 0, bs => some ([], bs)
  | n+1, bs =>
    match skipValue bs with
    | none => none
    | some (v, r) =>
      match skipValues n r with
      | none => none
      | some (vs, r') => some (v ++ vs, r')

/-- `skipPositionalValues`: `[short]` count, then the values; returns the raw bytes consumed -/
def skipPositionalValues (bs : Bytes) : Option (Bytes × Bytes) :=
  match readShort bs with
  | none => none
  | some (n, r) =>
    match skipValues n r with
    | none => none
    | some (vs, r') => some (bs.take 2 ++ vs, r')

inductive Child where
  | query (q : Bytes) (values : Bytes)
  | prepared (id : Bytes) (values : Bytes)
  deriving Repr, DecidableEq

structure PBatch where
  type : Nat
  children : List Child
  consistency : Nat
  params : Bytes
  deriving Repr, DecidableEq

def decodeChild (bs : Bytes) : Option (Child × Bytes) :=
  match readByte bs with
  | none => none
  | some (k, r) =>
    if k = 0 then
      match readLongString r with
      | none => none
      | some (q, r) => match skipPositionalValues r with
        | none => none
        | some (v, r) => some (.query q v, r)
    else if k = 1 then
      match readShortBytes r with
      | none => none
      | some (id, r) => match skipPositionalValues r with
        | none => none
        | some (v, r) => some (.prepared id v, r)
    else none

def decodeChildren : Nat → Bytes → Option (List Child × Bytes)
  | 0, bs => some ([], bs)
  | n+1, bs =>
    match decodeChild bs with
    | none => none
    | some (c, r) =>
      match decodeChildren n r with
      | none => none
      | some (cs, r') => some (c :: cs, r')

def decodeBatch (bs : Bytes) : Option PBatch :=
  match readByte bs with
  | none => none
  | some (t, r) =>
    if t > 2 then none           -- CheckValidBatchType: logged / unlogged / counter
    else match readShort r with
      | none => none
      | some (n, r) =>
        match decodeChildren n r with
        | none => none
        | some (cs, r) =>
          match readShort r with
          | none => none
          | some (c, r) => some { type := t, children := cs, consistency := c, params := r }

def encodeChild : Child → Bytes
  | .query q v => [0] ++ writeLongString q ++ v
  | .prepared id v => [1] ++ writeShortBytes id ++ v

def encodeBatch (p : PBatch) : Bytes :=
  [p.type] ++ writeShort p.children.length ++ (p.children.map encodeChild).flatten ++ writeShort p.consistency ++ p.params

end CqlVerif.PartialCodec
