/- types of the generated lexer tables (Gen/LexTables.lean) -/
namespace CqlVerif.LexTypes

/-- primitive actions of the ragel scanner -/
inductive A where
  | teP1 | teP | pTeM1 | pInc | pDec | tsP | ts0 | setId
  | setAct (k : Nat)
  | setTk (k : Nat)
  | byAct (alts : List (Nat × List A × Bool))   -- `switch act`: (case, actions, leaves the scanner)
  deriving Repr

inductive Nx where
  | out | st (n : Nat) | caseSt (n : Nat)
  deriving Repr, DecidableEq

structure Edge where
  acts : List A
  next : Nx
  deriving Repr

structure Rng where
  lo : Nat
  hi : Nat
  e : Nat
  deriving Repr

end CqlVerif.LexTypes
