import CqlVerif.Gen.RetryPolicy
/-
Model of the request life-cycle in proxy/request.go (`Execute`, `executeInternal`, `OnResult`,
`OnClose`, `handleErrorResult`, `checkIdempotent`) together with the UNPREPARED recovery of
proxycore/clientconn.go (`maybePrepareAndExecute`, `prepareRequest`).

One request, its query plan (the hosts the plan will yield, in order), the hosts on which
`Session.Send` fails (no live connection) *at the time of the n-th attempt* (`down n h`: hosts
may die or be removed between attempts), and the script of backend outcomes — one per attempt
that actually reaches a backend. The policy decisions are the *generated* `Gen.RetryPolicy`
functions (translated from proxy/retrypolicy.go on every run).
-/
namespace CqlVerif.Retry
open CqlVerif.Gen.RetryPolicy

abbrev Host := Nat

/-- what happens to the PREPARE the proxy sends after an UNPREPARED answer -/
inductive Reprep where
  | ok | err | lost
  | unsent      -- the PREPARE could not be written (connection already closing)
  deriving Repr, DecidableEq

inductive Outcome where
  | success
  | silent                                  -- never answered (and the connection stays up)
  | connLost                                -- connection dropped before an answer
  | readTimeout (received blockFor : Int) (dataPresent : Bool)
  | writeTimeout (writeType : String)
  | unavailable
  | bootstrapping
  | errResp (code : String)                 -- server / overloaded / truncate / read failure / write failure
  | otherErr                                -- any other error code
  | unprepared (cached : Bool) (r : Reprep) -- UNPREPARED; `cached`: the proxy holds the PREPARE frame for the id
  deriving Repr, DecidableEq

inductive Reply where
  | result (attempt : Nat)                  -- the backend's successful result of attempt #n
  | forwarded (attempt : Nat)               -- the backend's error of attempt #n
  | noMoreHosts
  | connClosed                              -- "unable to retry non-idempotent query after connection ... closed"
  deriving Repr, DecidableEq

structure St where
  plan : List Host                          -- hosts the plan has not yielded yet
  host : Option Host := none
  idem : Bool                               -- what `checkIdempotent` answers for this request
  retryCount : Nat := 0
  done : Bool := false
  attempts : List Host := []                -- frames that reached a backend, in order
  prepares : List Host := []                -- re-prepare frames that reached a backend
  reply : Option Reply := none
  deriving Repr, DecidableEq

def decide (idem : Bool) (rc : Nat) : Outcome → Decision
  | .readTimeout r b d => onReadTimeout r b d rc
  | .writeTimeout t => if idem then onWriteTimeout t rc else .returnError
  | .unavailable => onUnavailable rc
  | .bootstrapping => .retryNext
  | .errResp c => if idem then onErrorResponse c rc else .returnError
  | _ => .returnError

def skipDown (down : Host → Bool) : List Host → Option Host × List Host
  | [] => (none, [])
  | h :: t => if down h then skipDown down t else (some h, t)

/-- how the next attempt chooses its host -/
inductive Mode where
  | next        -- `executeInternal(true)`: the plan's next host on which Send succeeds
  | same        -- `executeInternal(false)`: the current host again
  deriving Repr, DecidableEq

/-- what a handler (`OnResult` / `OnClose` / `prepareRequest.OnResult`) does with an outcome -/
inductive Reaction where
  | finish (reply : Nat → Reply) (prep : Bool)   -- done := true, one frame to the client
  | pending                                       -- nothing happens (no answer yet)
  | cont (mode : Mode) (incRc : Bool) (prep : Bool)
  -- `prep`: a re-prepare PREPARE reached the backend on this host before the reaction

def react (idem : Bool) (rc : Nat) : Outcome → Reaction
  | .success => .finish .result false
  | .silent => .pending
  | .connLost => if idem then .cont .next false false else .finish (fun _ => .connClosed) false
  | .unprepared true .unsent => .finish .forwarded false
  | .unprepared true .ok => .cont .same false true
  | .unprepared true .err => .cont .next false true
  | .unprepared true .lost => if idem then .cont .next false true else .finish (fun _ => .connClosed) true
  | o =>
    match decide idem rc o with
    | .retryNext => .cont .next true false
    | .retrySame => .cont .same true false
    | .returnError => .finish .forwarded false

inductive Pick where
  | noHost | host (h : Host) (plan : List Host)

def pickNext (down : Host → Bool) (plan : List Host) : Pick :=
  match skipDown down plan with
  | (none, _) => .noHost
  | (some h, rest) => .host h rest

/-- `for !r.done { if next { r.host = r.qp.Next() }; if r.host == nil {…} else { err := Send(…);
if err == nil { break } else { next = true } } }` — the loop walks on over hosts whose Send fails;
a failing Send to the *same* host also moves on to the plan's next host. -/
def pick (down : Nat → Host → Bool) (st : St) : Mode → Pick
  | .next => pickNext (down st.attempts.length) st.plan
  | .same => match st.host with
    | none => .noHost
    | some h => if down st.attempts.length h then pickNext (down st.attempts.length) st.plan else .host h st.plan

/-- the request's life from one `executeInternal(mode)` on; structural recursion on the script
(one outcome per attempt that reaches a backend) -/
def go (down : Nat → Host → Bool) : List Outcome → Mode → St → St
  | script, mode, st =>
    if st.done then st else
    match pick down st mode with
    | .noHost => { st with plan := [], host := none, done := true, reply := some .noMoreHosts }
    | .host h plan =>
      let n := st.attempts.length
      let st := { st with plan := plan, host := some h, attempts := st.attempts ++ [h] }
      match script with
      | [] => st                                   -- in flight, nothing more scripted
      | o :: rest =>
        match react st.idem st.retryCount o with
        | .pending => st
        | .finish r prep =>
          { st with done := true, reply := some (r n), prepares := if prep then st.prepares ++ [h] else st.prepares }
        | .cont mode' inc prep =>
          go down rest mode' { st with retryCount := if inc then st.retryCount + 1 else st.retryCount,
                                       prepares := if prep then st.prepares ++ [h] else st.prepares }

/-- `client.execute`: a fresh request, `Execute(true)` -/
def run (down : Nat → Host → Bool) (idem : Bool) (plan : List Host) (script : List Outcome) : St :=
  go down script .next { plan := plan, idem := idem }

end CqlVerif.Retry
