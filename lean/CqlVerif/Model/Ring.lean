import CqlVerif.Model.Select
/-
Model.Ring — the virtual ring of proxy/proxy.go: `buildNodes` (node list, address order, token
assignment), `buildLocalRow`, `filterSystemLocalValues` / `filterSystemPeerValues`,
`interceptSystemQuery` with the selectors of parser.go (`FilterColumns`, `FilterValues`).
Addresses are the byte strings `compareIPAddr` compares (16-byte form); host ids are
`hostId name`, rendered by the driver as `Md5.nameBasedUUID` of the address text (Model/Md5: MD5 itself and the
version / variant stamping; the stream compares the bytes with what the proxy presents).
-/
namespace CqlVerif.Ring
open CqlVerif.Select

abbrev Addr := List Nat

structure PeerCfg where
  addr : Option Addr          -- none: no rpc-address given
  name : String := ""         -- the address as configured (for rendering)
  dc : String := ""
  tokens : List String := []
  deriving Repr, DecidableEq

structure Cfg where
  rpc : Option Addr
  rpcName : String := ""
  dc : String := ""            -- "" = use the cluster's local DC
  clusterDC : String := "dc1"
  tokens : List String := []
  peers : List PeerCfg := []
  dse : Bool := false
  deriving Repr

structure Node where
  addr : Option Addr
  name : String
  dc : String
  tokens : List String
  isLocal : Bool := false
  deriving Repr, DecidableEq

inductive BuildErr where
  | peersWithoutRpc | peerWithoutRpc | peerWithoutTokens
  deriving Repr, DecidableEq

/-- `bytes.Compare(a.IP, b.IP) < 0` -/
def addrLt : Addr → Addr → Bool
  | [], [] => false
  | [], _ :: _ => true
  | _ :: _, [] => false
  | a :: as, b :: bs => if a < b then true else if b < a then false else addrLt as bs

def nodeLt (a b : Node) : Bool := addrLt (a.addr.getD []) (b.addr.getD [])

def insertSorted (n : Node) : List Node → List Node
  | [] => [n]
  | h :: t => if nodeLt n h then n :: h :: t else h :: insertSorted n t

def sortNodes (l : List Node) : List Node := l.foldr insertSorted []

def minInt64 : Int := -9223372036854775808

/-- `math.MaxUint64/uint64(numPeers+1) + 1` -/
def tokenStep (numPeers : Nat) : Nat := 18446744073709551615 / (numPeers + 1) + 1

/-- the token of the node at sorted position `i` -/
def token (numPeers i : Nat) : Int := minInt64 + (i : Int) * (tokenStep numPeers : Int)

def assignTokens (numPeers : Nat) : Nat → List Node → List Node
  | _, [] => []
  | i, n :: t => { n with tokens := [toString (token numPeers i)] } :: assignTokens numPeers (i + 1) t

/-- the peer loop of `buildNodes` -/
def peerNodes (localAddr : Option Addr) (localDC : String) (ownTokens : Bool) : List PeerCfg → Except BuildErr (List Node)
  | [] => .ok []
  | p :: ps =>
    match p.addr with
    | none => .error .peerWithoutRpc
    | some a =>
      if localAddr = some a then peerNodes localAddr localDC ownTokens ps      -- "ignoring local address in peers configuration"
      else if ownTokens ∧ p.tokens = [] then .error .peerWithoutTokens
      else match peerNodes localAddr localDC ownTokens ps with
        | .error e => .error e
        | .ok rest => .ok ({ addr := some a, name := p.name, dc := if p.dc = "" then localDC else p.dc, tokens := p.tokens } :: rest)

/-- `buildNodes` -/
def buildNodes (c : Cfg) : Except BuildErr (List Node) :=
  if c.rpc = none ∧ c.peers ≠ [] then .error .peersWithoutRpc
  else
    let localDC := if c.dc = "" then c.clusterDC else c.dc
    let calcTok := c.tokens = []
    let localNode : Node := { addr := c.rpc, name := c.rpcName, dc := localDC,
                              tokens := if calcTok then [toString minInt64] else c.tokens, isLocal := true }
    match peerNodes c.rpc localDC (!calcTok) c.peers with
    | .error e => .error e
    | .ok ps =>
      let nodes := localNode :: ps
      if calcTok ∧ nodes.length > 1 then .ok (assignTokens c.peers.length 0 (sortNodes nodes)) else .ok nodes

/-- a cell of a virtual row, rendered canonically -/
inductive Val where
  | str (s : String) | ip (name : String) | uuidSchema | hostId (name : String) | int (n : Int)
  | strList (l : List String) | timeuuid
  deriving Repr, DecidableEq

structure Col where
  table : String
  name : String
  type : Nat          -- data type code
  deriving Repr, DecidableEq

def tVarchar := 13
def tInet := 16
def tUuid := 12
def tSet := 34
def tInt := 9
def tTimeuuid := 15

def localCols (dse : Bool) : List Col :=
  [⟨"local", "key", tVarchar⟩, ⟨"local", "rpc_address", tInet⟩, ⟨"local", "data_center", tVarchar⟩] ++
  (if dse then [⟨"local", "dse_version", tVarchar⟩] else []) ++
  [⟨"local", "rack", tVarchar⟩, ⟨"local", "tokens", tSet⟩, ⟨"local", "release_version", tVarchar⟩, ⟨"local", "partitioner", tVarchar⟩,
   ⟨"local", "cluster_name", tVarchar⟩, ⟨"local", "cql_version", tVarchar⟩, ⟨"local", "schema_version", tUuid⟩,
   ⟨"local", "native_protocol_version", tVarchar⟩, ⟨"local", "host_id", tUuid⟩]

def peersCols (dse : Bool) : List Col :=
  [⟨"peers", "peer", tInet⟩, ⟨"peers", "rpc_address", tInet⟩, ⟨"peers", "data_center", tVarchar⟩] ++
  (if dse then [⟨"peers", "dse_version", tVarchar⟩] else []) ++
  [⟨"peers", "rack", tVarchar⟩, ⟨"peers", "tokens", tSet⟩, ⟨"peers", "release_version", tVarchar⟩, ⟨"peers", "schema_version", tUuid⟩,
   ⟨"peers", "host_id", tUuid⟩]

def strOf (bs : List Nat) : String := String.ofList (bs.map Char.ofNat)

/-- `Selector.Columns` -/
def selCols (table : String) (cols : List Col) : Sel → Option (List Col)
  | .star => some cols
  | .id n => (cols.find? (·.name = strOf n)).map ([·])
  | .count a => some [⟨table, if a = [42] then "count" else "system.count(" ++ strOf (a.map Parser.lowerB) ++ ")", tInt⟩]
  | .now => some [⟨table, "system.now()", tTimeuuid⟩]
  | .alias s a => (selCols table cols s).map fun cs => cs.map fun c => { c with name := strOf a }

/-- `FilterColumns`: none = "invalid column" -/
def filterColumns (table : String) (cols : List Col) : List Sel → Option (List Col)
  | [] => some []
  | s :: ss => match selCols table cols s, filterColumns table cols ss with
    | some a, some b => some (a ++ b)
    | _, _ => none

/-- the names a selector asks values for (`Selector.Values`) -/
def selNames (cols : List Col) : Sel → List String
  | .star => cols.map (·.name)
  | .id n => [strOf n]
  | .count _ => ["count(*)"]
  | .now => ["now()"]
  | .alias s _ => selNames cols s

/-- values common to local and peers rows (`systemLocalValues`) -/
def commonVal (c : Cfg) (localNode : Node) (name : String) : Option Val :=
  match name with
  | "key" => some (.str "local")
  | "data_center" => some (.str localNode.dc)
  | "rack" => some (.str "rack1")
  | "tokens" => some (.strList localNode.tokens)
  | "release_version" => some (.str "4.0.0")
  | "partitioner" => some (.str "org.apache.cassandra.dht.Murmur3Partitioner")
  | "cluster_name" => some (.str "cql-proxy")
  | "cql_version" => some (.str "3.4.5")
  | "schema_version" => some .uuidSchema
  | "native_protocol_version" => some (.str "ProtocolVersion OSS 4")
  | "dse_version" => some (.str (if c.dse then "6.8.0" else ""))
  | _ => none

/-- `filterSystemLocalValues` -/
def localVal (c : Cfg) (localNode : Node) (listenName : String) (name : String) : Option Val :=
  let ipName := if localNode.addr.isSome then localNode.name else listenName
  match name with
  | "rpc_address" => some (.ip ipName)
  | "host_id" => some (.hostId ipName)
  | "count(*)" => some (.int 1)
  | "now()" => some .timeuuid
  | n => commonVal c localNode n

/-- `filterSystemPeerValues` -/
def peerVal (c : Cfg) (localNode peer : Node) (peerCount : Nat) (name : String) : Option Val :=
  match name with
  | "data_center" => some (.str peer.dc)
  | "host_id" => some (.hostId peer.name)
  | "tokens" => some (.strList peer.tokens)
  | "peer" => some (.ip peer.name)
  | "rpc_address" => some (.ip peer.name)
  | "count(*)" => some (.int peerCount)
  | "now()" => some .timeuuid
  | n => commonVal c localNode n

inductive Answer where
  | rows (cols : List Col) (rows : List (List Val))
  | invalidColumn
  | doesntExist
  | noValue             -- "no column value for …"
  | legacyEmpty         -- schema_* tables of Cassandra 2: metadata only, no rows
  deriving Repr, DecidableEq

def mapOpt {α β : Type} (f : α → Option β) : List α → Option (List β)
  | [] => some []
  | a :: t => match f a, mapOpt f t with
    | some b, some bs => some (b :: bs)
    | _, _ => none

def rowOf (names : List String) (f : String → Option Val) : Option (List Val) := mapOpt f names

/-- `interceptSystemQuery` for a handled SELECT on table `t` -/
def answer (c : Cfg) (nodes : List Node) (listenName : String) (table : String) (sels : List Sel) : Answer :=
  let localNode := (nodes.find? (·.isLocal)).getD { addr := none, name := "", dc := "", tokens := [] }
  if table = "local" then
    let cols := localCols c.dse
    match filterColumns "local" cols sels with
    | none => .invalidColumn
    | some fc =>
      match rowOf (sels.flatMap (selNames cols)) (localVal c localNode listenName) with
      | none => .noValue
      | some r => .rows fc [r]
  else if table = "peers" then
    let cols := peersCols c.dse
    match filterColumns "peers" cols sels with
    | none => .invalidColumn
    | some fc =>
      let peers := nodes.filter (!·.isLocal)
      match mapOpt (fun p => rowOf (sels.flatMap (selNames cols)) (peerVal c localNode p peers.length)) peers with
      | none => .noValue
      | some rs => .rows fc rs
  else if ["schema_keyspaces", "schema_columnfamilies", "schema_columns", "schema_usertypes"].contains table then .legacyEmpty
  else .doesntExist

end CqlVerif.Ring
