/-
Model.Events — the event registry of proxy/proxy.go (`registerForEvents`, `removeClient`,
`Proxy.OnEvent`) and the listener fan-out of proxycore/cluster.go (`stayConnected`: only
SchemaChangeEvent is handed to listeners; topology/status events only schedule a refresh).
-/
namespace CqlVerif.Events

abbrev Client := Nat

inductive EvType where | schema | topology | status deriving Repr, DecidableEq

inductive Act where
  | connect (c : Client)
  | register (c : Client) (types : List EvType)
  | disconnect (c : Client)
  | backendEvent (id : Nat) (t : EvType)
  | controlFailover                       -- the control connection is replaced
  deriving Repr

structure St where
  connected : List Client := []
  registered : List Client := []          -- Proxy.eventClients (a set)
  delivered : List (Client × Nat) := []   -- EVENT frames written: (client, event id)
  deriving Repr

def step (s : St) : Act → St
  | .connect c => if s.connected.contains c then s else { s with connected := c :: s.connected }
  | .register c types =>
    if s.connected.contains c ∧ types.contains .schema ∧ !s.registered.contains c
    then { s with registered := c :: s.registered } else s
  | .disconnect c => { s with connected := s.connected.erase c, registered := s.registered.erase c }
  | .backendEvent id .schema => { s with delivered := s.delivered ++ s.registered.reverse.map (fun c => (c, id)) }
  | .backendEvent _ _ => s
  | .controlFailover => s

def run (as : List Act) : St := as.foldl step {}

end CqlVerif.Events
