/-
Model.Events — the event registry of proxy/proxy.go (`registerForEvents`, `removeClient`,
`Proxy.OnEvent`) and the listener fan-out of proxycore/cluster.go (`stayConnected`: only
SchemaChangeEvent is handed to listeners; topology/status events only schedule a refresh).
-/
namespace CqlVerif.Events

abbrev Client := Nat

inductive EvType where | schema | topology | status deriving Repr, DecidableEq

inductive Act where
  | connect (c : Client)
  | register (c : Client) (types : List EvType)
  | disconnect (c : Client)
  | backendEvent (id : Nat) (t : EvType)
  | controlFailover                       -- the control connection is replaced
  deriving Repr

structure St where
  connected : List Client := []
  registered : List Client := []          -- Proxy.eventClients (a set)
  delivered : List (Client × Nat) := []   -- EVENT frames written: (client, event id)
  deriving Repr

def step (s : St) : Act → St
  | .connect c => if s.connected.contains c then s else { s with connected := c :: s.connected }
  | .register c types =>
    if s.connected.contains c ∧ types.contains .schema ∧ !s.registered.contains c
    then { s with registered := c :: s.registered } else s
  | .disconnect c => { s with connected := s.connected.erase c, registered := s.registered.erase c }
  | .backendEvent id .schema => { s with delivered := s.delivered ++ s.registered.reverse.map (fun c => (c, id)) }
  | .backendEvent _ _ => s
  | .controlFailover => s

def run (as : List Act) : St := as.foldl step {}

end CqlVerif.Events

/-!
## The hand-over of backend events to the cluster's event loop

`Cluster.OnEvent` (called by the control connection's reader) puts the frame into the bounded channel
`Cluster.events`; `stayConnected` takes frames out one at a time.  A full channel makes the reader
wait (`put` is refused and tried again): nothing is ever discarded.
-/
namespace CqlVerif.Events

structure EvQ where
  cap : Nat
  emitted : List Nat := []     -- events the backend has written on the control connection, oldest first
  accepted : Nat := 0          -- how many of them the reader has handed over so far
  queue : List Nat := []       -- frames in the channel
  handled : List Nat := []     -- frames the event loop has taken out
  deriving Repr

inductive QAct where
  | emit (id : Nat)      -- the backend writes an event
  | put                  -- the reader tries to hand over the next event it has read
  | get                  -- the event loop takes one
  deriving Repr

def qstep (s : EvQ) : QAct → EvQ
  | .emit id => { s with emitted := s.emitted ++ [id] }
  | .put =>
    match s.emitted[s.accepted]? with
    | none => s
    | some e => if s.queue.length < s.cap then { s with queue := s.queue ++ [e], accepted := s.accepted + 1 } else s   -- full: the reader waits
  | .get =>
    match s.queue with
    | [] => s
    | e :: rest => { s with queue := rest, handled := s.handled ++ [e] }

def qrun (cap : Nat) (as : List QAct) : EvQ := as.foldl qstep { cap := cap }

end CqlVerif.Events
