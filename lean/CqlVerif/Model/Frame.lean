import CqlVerif.Model.PartialCodec
/-
Model.Frame — raw frames (protocol v3+ header layout) as the proxy forwards them
(`DecodeRawFrame` / `EncodeRawFrame` of the pinned library, `requestSender.Send`,
`request.sendRaw`), and the write-consistency override of proxy.go.
-/
namespace CqlVerif.Frame
open CqlVerif.Wire CqlVerif.PartialCodec

structure Header where
  vbyte : Nat        -- version and direction
  flags : Nat
  stream : Nat       -- the two stream bytes as an unsigned number
  opcode : Nat
  length : Nat       -- declared body length
  deriving Repr, DecidableEq

def decodeHeader : Bytes → Option (Header × Bytes)
  | v :: f :: s1 :: s2 :: o :: l1 :: l2 :: l3 :: l4 :: r =>
    some ({ vbyte := v, flags := f, stream := s1 * 256 + s2, opcode := o,
            length := l1 * 16777216 + l2 * 65536 + l3 * 256 + l4 }, r)
  | _ => none

def encodeHeader (h : Header) : Bytes :=
  [h.vbyte, h.flags] ++ writeShort h.stream ++ [h.opcode] ++ writeInt h.length

/-- a raw frame: header and exactly `length` body bytes -/
def decodeRaw (bs : Bytes) : Option (Header × Bytes × Bytes) :=
  match decodeHeader bs with
  | none => none
  | some (h, r) => match takeN h.length r with
    | none => none
    | some (body, rest) => some (h, body, rest)

/-- `requestSender.Send` / `request.sendRaw`: `frm.Header.StreamId = stream; EncodeRawFrame(frm)` -/
def restream (h : Header) (body : Bytes) (stream : Nat) : Bytes := encodeHeader { h with stream := stream } ++ body

/-- `Transparent a c b`: `c` is `a` with the two stream bytes replaced by `b` -/
def transparent (a c : Bytes) (b : Nat) : Prop := c = a.take 2 ++ writeShort b ++ a.drop 4

/-- configuration of the write-consistency override -/
structure Override where
  unsupported : List Nat
  override : Nat

/-- `maybeOverrideUnsupportedWriteConsistency`, on a message body -/
def overrideQuery (o : Override) (isSelect : Bool) (body : Bytes) : Option Bytes :=
  match decodeQuery body with
  | none => none
  | some p => if !isSelect && o.unsupported.contains p.consistency then some (encodeQuery { p with consistency := o.override }) else some body

def overrideExecute (o : Override) (rmid isSelect : Bool) (body : Bytes) : Option Bytes :=
  match decodeExecute rmid body with
  | none => none
  | some p => if !isSelect && o.unsupported.contains p.consistency then some (encodeExecute rmid { p with consistency := o.override }) else some body

def overrideBatch (o : Override) (body : Bytes) : Option Bytes :=
  match decodeBatch body with
  | none => none
  | some p => if o.unsupported.contains p.consistency then some (encodeBatch { p with consistency := o.override }) else some body

end CqlVerif.Frame
