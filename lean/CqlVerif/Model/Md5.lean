/-
Model.Md5 — MD5 (RFC 1321) over byte lists, and `nameBasedUUID` of proxy/proxy.go: the version-3 UUID the proxy
derives from a node's address text and presents as its `host_id`.  Core Lean only (the driver links it).
-/
namespace CqlVerif.Md5

def K : Array UInt32 := #[0xd76aa478, 0xe8c7b756, 0x242070db, 0xc1bdceee, 0xf57c0faf, 0x4787c62a, 0xa8304613, 0xfd469501, 0x698098d8, 0x8b44f7af, 0xffff5bb1, 0x895cd7be, 0x6b901122, 0xfd987193, 0xa679438e, 0x49b40821, 0xf61e2562, 0xc040b340, 0x265e5a51, 0xe9b6c7aa, 0xd62f105d, 0x02441453, 0xd8a1e681, 0xe7d3fbc8, 0x21e1cde6, 0xc33707d6, 0xf4d50d87, 0x455a14ed, 0xa9e3e905, 0xfcefa3f8, 0x676f02d9, 0x8d2a4c8a, 0xfffa3942, 0x8771f681, 0x6d9d6122, 0xfde5380c, 0xa4beea44, 0x4bdecfa9, 0xf6bb4b60, 0xbebfbc70, 0x289b7ec6, 0xeaa127fa, 0xd4ef3085, 0x04881d05, 0xd9d4d039, 0xe6db99e5, 0x1fa27cf8, 0xc4ac5665, 0xf4292244, 0x432aff97, 0xab9423a7, 0xfc93a039, 0x655b59c3, 0x8f0ccc92, 0xffeff47d, 0x85845dd1, 0x6fa87e4f, 0xfe2ce6e0, 0xa3014314, 0x4e0811a1, 0xf7537e82, 0xbd3af235, 0x2ad7d2bb, 0xeb86d391]

def S : Array UInt32 := #[7, 12, 17, 22, 7, 12, 17, 22, 7, 12, 17, 22, 7, 12, 17, 22,
  5, 9, 14, 20, 5, 9, 14, 20, 5, 9, 14, 20, 5, 9, 14, 20,
  4, 11, 16, 23, 4, 11, 16, 23, 4, 11, 16, 23, 4, 11, 16, 23,
  6, 10, 15, 21, 6, 10, 15, 21, 6, 10, 15, 21, 6, 10, 15, 21]

def rotl (x n : UInt32) : UInt32 := (x <<< n) ||| (x >>> (32 - n))

/-- message padding: 0x80, zeros up to 56 mod 64, the bit length as 64 bits little-endian -/
def pad (msg : List UInt8) : List UInt8 :=
  let n := msg.length
  let zeros := (55 + 64 - n % 64) % 64
  let bits := n * 8
  msg ++ [(0x80 : UInt8)] ++ List.replicate zeros (0 : UInt8) ++ ((List.range 8).map fun i => UInt8.ofNat ((bits >>> (8 * i)) % 256))

def word (bs : List UInt8) : UInt32 :=
  match bs with
  | [a, b, c, d] => a.toUInt32 ||| (b.toUInt32 <<< 8) ||| (c.toUInt32 <<< 16) ||| (d.toUInt32 <<< 24)
  | _ => 0

def wordsOf : Nat → List UInt8 → List UInt32
  | 0, _ => []
  | n+1, bs => word (bs.take 4) :: wordsOf n (bs.drop 4)

structure St where
  a : UInt32
  b : UInt32
  c : UInt32
  d : UInt32

def round (m : Array UInt32) (s : St) (i : Nat) : St :=
  let (f, g) :=
    if i < 16 then ((s.b &&& s.c) ||| (~~~s.b &&& s.d), i)
    else if i < 32 then ((s.d &&& s.b) ||| (~~~s.d &&& s.c), (5 * i + 1) % 16)
    else if i < 48 then (s.b ^^^ s.c ^^^ s.d, (3 * i + 5) % 16)
    else (s.c ^^^ (s.b ||| ~~~s.d), (7 * i) % 16)
  let f := f + s.a + K[i]! + m[g]!
  { a := s.d, d := s.c, c := s.b, b := s.b + rotl f S[i]! }

def chunk (s : St) (block : List UInt8) : St :=
  let m := (wordsOf 16 block).toArray
  let r := (List.range 64).foldl (round m) s
  { a := s.a + r.a, b := s.b + r.b, c := s.c + r.c, d := s.d + r.d }

def chunks : Nat → St → List UInt8 → St
  | 0, s, _ => s
  | n+1, s, bs => chunks n (chunk s (bs.take 64)) (bs.drop 64)

def le32 (x : UInt32) : List UInt8 := [x.toUInt8, (x >>> 8).toUInt8, (x >>> 16).toUInt8, (x >>> 24).toUInt8]

def md5 (msg : List UInt8) : List UInt8 :=
  let p := pad msg
  let s := chunks (p.length / 64) { a := 0x67452301, b := 0xefcdab89, c := 0x98badcfe, d := 0x10325476 } p
  le32 s.a ++ le32 s.b ++ le32 s.c ++ le32 s.d

/-- `uuid[6] &= 0x0F; uuid[6] |= 0x30; uuid[8] &= 0x3F; uuid[8] |= 0x80` -/
def stamp (h : List UInt8) : List UInt8 :=
  (h.set 6 ((h.getD 6 0 &&& 0x0F) ||| 0x30)).set 8 ((h.getD 8 0 &&& 0x3F) ||| 0x80)

/-- `nameBasedUUID(name)` -/
def nameBasedUUID (name : List UInt8) : List UInt8 := stamp (md5 name)

def hexDigit (n : Nat) : Char := if n < 10 then Char.ofNat (48 + n) else Char.ofNat (87 + n)
def hex (bs : List UInt8) : String := String.ofList (bs.flatMap fun b => [hexDigit (b.toNat / 16), hexDigit (b.toNat % 16)])

end CqlVerif.Md5
