/-
Model.Fanout — how answers leave the proxy: the reader goroutine of a backend connection takes the
answers off the connection in order and hands each to the outbound queue of the client that asked
(`request.OnResult` → `request.sendRaw` → `proxycore.Conn.Write`, a channel of `MaxMessages`
entries); the client connection's writer goroutine takes them off that queue as fast as the client
reads.  `Conn.Write` waits while the queue is full - and the goroutine that waits is the backend
connection's reader, which serves every client.
-/
namespace CqlVerif.Fanout

structure St where
  cap : Nat                          -- MaxMessages
  inbox : List (Nat × Nat) := []     -- answers on the backend connection, oldest first: (client, tag)
  queue : Nat → List Nat := fun _ => []
  delivered : Nat → List Nat := fun _ => []

inductive Act where
  | deliver          -- the backend connection's reader handles the next answer (or stays blocked on a full queue)
  | drain (c : Nat)  -- client c reads: its writer sends the oldest queued answer
  deriving DecidableEq

def set {α} (f : Nat → α) (i : Nat) (v : α) : Nat → α := fun j => if j = i then v else f j

def step (s : St) : Act → St
  | .deliver =>
    match s.inbox with
    | [] => s
    | (c, t) :: rest =>
      if (s.queue c).length < s.cap then { s with inbox := rest, queue := set s.queue c (s.queue c ++ [t]) }
      else s                                                  -- `Conn.Write` blocks: nothing else is read
  | .drain c =>
    match s.queue c with
    | [] => s
    | t :: rest => { s with queue := set s.queue c rest, delivered := set s.delivered c (s.delivered c ++ [t]) }

def run (s : St) (as : List Act) : St := as.foldl step s

end CqlVerif.Fanout
