import CqlVerif.Model.Reconnect
/-
Model.Slot — the `stayConnected` loops that keep a backend connection alive:
`connPool.stayConnected(idx)` (proxycore/connpool.go, one per pool slot) and the connection part of
`Cluster.stayConnected` (proxycore/cluster.go, the control connection).  Both are the same little
machine around a private clone of the reconnect policy:

    for !done {
      if conn == nil {
        if !pendingConnect { arm a timer with NextDelay(); pendingConnect = true }
        else select { ctx.Done: done | timer: try to connect; on success conn = c, policy.Reset(); pendingConnect = false }
      } else select { ctx.Done: done, close | conn.IsClosed: conn = nil; pendingConnect = false }
    }

The pool's loop asks the policy twice per re-arm (once for the log line, once for the timer), so it
steps through every other delay of the sequence; it also starts with a zero timer pending (the first
connect is immediate), while the cluster's loop starts connected.  `armed` is a ghost log of the
delays the timers were armed with (for the jitter that was drawn), oldest first.
-/
namespace CqlVerif.Slot
open CqlVerif.Reconnect

structure St where
  double : Bool            -- true: connPool (two NextDelay calls per re-arm), false: Cluster
  pol : Policy
  connected : Bool
  pending : Bool
  done : Bool := false
  armed : List Int := []
  deriving Repr

inductive Ev where
  | ctxDone
  | timer (ok : Bool)       -- the connect timer fires; `ok`: the connection attempt succeeds
  | closed                  -- the connection is reported closed (lost, idle, closed by a failed refresh)
  deriving Repr, DecidableEq

/-- the branch that consumes no event: arm the timer (`j1`, `j2`: the jitters drawn) -/
def settle (j1 j2 : Int) (s : St) : St :=
  if s.done || s.connected || s.pending then s
  else
    let r1 := nextDelay s.pol j1
    if s.double then
      let r2 := nextDelay r1.2 j2
      { s with pol := r2.2, pending := true, armed := s.armed ++ [r2.1] }
    else { s with pol := r1.2, pending := true, armed := s.armed ++ [r1.1] }

/-- the `select` of a settled state -/
def react (s : St) : Ev → St
  | .ctxDone => { s with done := true }
  | .timer ok =>
    if s.done || s.connected || !s.pending then s      -- no timer is armed: nothing fires
    else if ok then { s with connected := true, pol := reset s.pol, pending := false }
    else { s with pending := false }
  | .closed =>
    if s.done || !s.connected then s else { s with connected := false, pending := false }

/-- one turn: an event, then whatever the loop does without waiting -/
def step (j1 j2 : Int) (s : St) (e : Ev) : St := settle j1 j2 (react s e)

def poolInit (base max : Int) : St :=
  { double := true, pol := clone (new base max), connected := false, pending := true }
def ctlInit (base max : Int) : St :=
  { double := false, pol := clone (new base max), connected := true, pending := false }

/-- a run under a jitter oracle (`js i` = the two jitters drawn at turn `i`) -/
def run (js : Nat → Int × Int) : St → Nat → List Ev → St
  | s, _, [] => s
  | s, i, e :: es => run js (step (js i).1 (js i).2 s e) (i + 1) es

end CqlVerif.Slot
