import CqlVerif.Model.Frame
import CqlVerif.Model.Front
/-
Model.Hostile — what untrusted bytes can make the proxy do.

Part A: Go's partial operations made explicit.  `Go α` is a computation that either returns or
panics at a named site; `goIndex` / `goSlice` panic exactly when Go's `s[i]` / `s[lo:hi]` do.  The
functions of the proxy that apply such an operation to peer-controlled data are written in this
monad, operation for operation (`IdentifierFromString`, `Cluster.queryHosts`' use of the decoded
rows, `connPool.leastBusyConn`, the BATCH child loop, `parseSelector`'s `args[0]`, the round-robin
plan), so that "cannot panic" is a theorem about every input rather than a property of a totalised
definition.

Part B: the client byte stream.  `clientStream` is `proxycore.Conn.read` + `client.Receive` as a
function from the bytes received so far to the sequence of outcomes (answers, close, waiting for
more bytes), with the pinned library's header and body decoders for every request opcode
(`bodyOk`) instead of the abstract `bodyOk` flag of Model.Front.
-/
namespace CqlVerif.Hostile
open CqlVerif.Wire CqlVerif.PartialCodec CqlVerif.Frame CqlVerif.Front

/-! ## Part A -/

inductive Go (α : Type) where
  | ret (a : α)
  | panic (site : String)
  deriving Repr, DecidableEq

def Go.bind {α β : Type} (x : Go α) (f : α → Go β) : Go β :=
  match x with
  | .ret a => f a
  | .panic s => .panic s

instance : Monad Go where
  pure := .ret
  bind := Go.bind

def Go.ok {α : Type} : Go α → Bool
  | .ret _ => true
  | .panic _ => false

/-- `l[i]` -/
def goIndex {α : Type} (l : List α) (i : Int) (dflt : α) (site : String) : Go α :=
  if 0 ≤ i ∧ i < l.length then .ret (l.getD i.toNat dflt) else .panic site

/-- `l[lo:hi]` (the capacity equals the length for the values concerned) -/
def goSlice {α : Type} (l : List α) (lo hi : Int) (site : String) : Go (List α) :=
  if 0 ≤ lo ∧ lo ≤ hi ∧ hi ≤ l.length then .ret ((l.take hi.toNat).drop lo.toNat) else .panic site

/-- `a % b` on ints -/
def goMod (a b : Int) (site : String) : Go Int := if b = 0 then .panic site else .ret (a % b)

structure Ident where
  id : Bytes
  ignoreCase : Bool
  deriving Repr, DecidableEq

/-- `parser.IdentifierFromString` -/
def identifierFromString (id : Bytes) : Go Ident := do
  let l : Int := id.length
  let quoted ← if l > 1 then (do let c ← goIndex id 0 0 "id[0]"; pure (c == 34)) else pure false
  if quoted then do
    let s ← goSlice id 1 (l - 1) "id[1:l-1]"
    pure ⟨s, false⟩
  else pure ⟨id, true⟩

/-- a row of the backend's `system.local` / `system.peers` as `addHosts` sees it -/
structure SysRow where
  endpointOk : Bool     -- `Resolver.NewEndpoint(row)` succeeds (rpc_address / host_id present and well typed)
  dc : Option Nat       -- `row.StringByName("data_center")`: none = missing, null or not a string
  deriving Repr, DecidableEq

def addHosts (rows : List SysRow) : List Nat :=
  rows.filterMap fun r => if r.endpointOk then r.dc else none

/-- the use `Cluster.queryHosts` makes of the decoded `system.local` rows: `none` = an error is
returned (the connection attempt fails and is retried), `some dc` = the local data centre -/
def queryHostsLocal (rows : List SysRow) : Go (Option Nat) := do
  if rows.length = 0 then return none            -- "empty result set returned for system.local"
  let hosts := addHosts rows
  if hosts.length = 0 then return none           -- no usable row
  let dc ← goIndex hosts 0 0 "hosts[0]"
  return some dc

/-- `connPool.leastBusyConn`: `conns` with the in-flight count of each live connection -/
def leastBusyIdx : List (Option Int) → Nat → Nat → Int → Nat
  | [], _, idx, _ => idx
  | none :: t, i, idx, m => leastBusyIdx t (i + 1) idx m
  | some f :: t, i, idx, m => if f < m then leastBusyIdx t (i + 1) i f else leastBusyIdx t (i + 1) idx m

def leastBusyConn (conns : List (Option Int)) : Go (Option (Option Int)) := do
  let count := conns.length
  if count = 0 then return none
  else if count = 1 then
    let c ← goIndex conns 0 none "p.conns[0]"
    return some c
  else
    let idx := leastBusyIdx conns 0 0 2147483647
    let c ← goIndex conns idx none "p.conns[idx]"
    return some c

/-- the BATCH child loop of `partialBatchCodec.Decode`: `queryOrIds := make(…, count)` and
`queryOrIds[i] = …` for `i < count`; returns the filled slice -/
def fillChildren (count : Nat) : Nat → Bytes → List (Option Child) → Go (Option (List (Option Child) × Bytes))
  | 0, bs, acc => .ret (some (acc, bs))
  | fuel + 1, bs, acc =>
    let i := count - (fuel + 1)
    match decodeChild bs with
    | none => .ret none
    | some (c, r) =>
      if (i : Int) < acc.length then fillChildren count fuel r (acc.set i (some c))
      else .panic "queryOrIds[i]"

/-- `parseSelector`: `COUNT(args…)` -/
def countArg (args : List Bytes) : Go (Option Bytes) := do
  if args.length = 0 then return none            -- "expected * or identifier in argument 'COUNT(...)'"
  let a ← goIndex args 0 [] "args[0]"
  return some a

/-- `roundRobinQueryPlan.Next` -/
def planNext (hosts : List Nat) (offset index : Nat) : Go (Option Nat) := do
  let l : Int := hosts.length
  if index ≥ hosts.length then return none
  let a ← goMod offset l "p.offset % l"
  let b ← goMod (a + index) l "(p.offset%l + p.index) % l"
  let h ← goIndex hosts b 0 "p.hosts[…]"
  return some h

/-! ## Part B -/

/-- `[string]` -/
def readString (bs : Bytes) : Option (Bytes × Bytes) := readShortBytes bs

/-- `[bytes]`: a negative length is nil -/
def readBytes (bs : Bytes) : Option (Bytes × Bytes) :=
  match readInt bs with
  | none => none
  | some (l, r) => if l < 0 then some ([], r) else takeN l.toNat r

def readStringListN : Nat → Bytes → Option (List Bytes × Bytes)
  | 0, bs => some ([], bs)
  | n + 1, bs =>
    match readString bs with
    | none => none
    | some (s, r) => match readStringListN n r with
      | none => none
      | some (l, r') => some (s :: l, r')

def readStringList (bs : Bytes) : Option (List Bytes × Bytes) :=
  match readShort bs with
  | none => none
  | some (n, r) => readStringListN n r

def readStringMapN : Nat → Bytes → Option (List (Bytes × Bytes) × Bytes)
  | 0, bs => some ([], bs)
  | n + 1, bs =>
    match readString bs with
    | none => none
    | some (k, r) => match readString r with
      | none => none
      | some (v, r') => match readStringMapN n r' with
        | none => none
        | some (l, r'') => some ((k, v) :: l, r'')

def readStringMap (bs : Bytes) : Option (List (Bytes × Bytes) × Bytes) :=
  match readShort bs with
  | none => none
  | some (n, r) => readStringMapN n r

def skipBytesMapN : Nat → Bytes → Option Bytes
  | 0, bs => some bs
  | n + 1, bs =>
    match readString bs with
    | none => none
    | some (_, r) => match readBytes r with
      | none => none
      | some (_, r') => skipBytesMapN n r'

def skipBytesMap (bs : Bytes) : Option Bytes :=
  match readShort bs with
  | none => none
  | some (n, r) => skipBytesMapN n r

def bit (flags k : Nat) : Bool := flags / k % 2 = 1

/-- the part of `DecodeBody` in front of the message, for a request on a connection without
negotiated compression: none = error -/
def envelope (flags : Nat) (body : Bytes) : Option Bytes :=
  if bit flags 1 then none                              -- "cannot decompress body: no compressor available"
  else if bit flags 4 then skipBytesMap body            -- custom payload
  else some body                                        -- tracing / warning flags mean nothing on a request

def eventTypes : List Bytes :=
  [[84,79,80,79,76,79,71,89,95,67,72,65,78,71,69], [83,84,65,84,85,83,95,67,72,65,78,71,69], [83,67,72,69,77,65,95,67,72,65,78,71,69]]

/-- versions with PREPARE flags / result-metadata ids: v5 and DSEv2 -/
def modern (v : Nat) : Bool := v = 5 ∨ v = 66

/-- the decoded request, as far as `client.Receive` looks at it -/
inductive Msg where
  | startup (opts : List (Bytes × Bytes))
  | options
  | register (types : List Bytes)
  | prepare (query : Bytes) (keyspace : Bytes)
  | query | execute | batch
  | other                                -- AUTH_RESPONSE, DSE REVISE: "Unsupported operation"
  deriving Repr, DecidableEq

/-- `DecodeBody` with the proxy's codec set (partial codecs for QUERY / EXECUTE / BATCH) -/
def decodeMsg (v opcode : Nat) (bs : Bytes) : Option Msg :=
  match opcode with
  | 1 => (readStringMap bs).map fun (m, _) => .startup m
  | 5 => some .options
  | 11 => match readStringList bs with
    | none => none
    | some (l, _) => if l.all eventTypes.contains then some (.register l) else none
  | 9 => match readLongString bs with
    | none => none
    | some (q, r) =>
      if modern v then
        match readInt r with
        | none => none
        | some (f, r') =>
          if f % 2 = 1 then (readString r').map fun (k, _) => .prepare q k
          else some (.prepare q [])
      else some (.prepare q [])
  | 7 => (decodeQuery bs).map fun _ => .query
  | 10 => (decodeExecute (modern v) bs).map fun _ => .execute
  | 13 => (decodeBatch bs).map fun _ => .batch
  | 15 => (readBytes bs).map fun _ => .other
  | _ => none

def bodyMsg (v flags opcode : Nat) (body : Bytes) : Option Msg :=
  match envelope flags body with
  | none => none
  | some b => decodeMsg v opcode b

/-- events the attacker's connection can observe -/
inductive Ev where
  | out (o : Out)
  | waiting            -- an incomplete frame: the proxy waits for more bytes
  | unmodelled         -- behaviour left out of the model (compressed bodies after negotiation)
  deriving Repr, DecidableEq

def lookupLast (k : Bytes) : List (Bytes × Bytes) → Option Bytes
  | [] => none
  | (a, b) :: t => match lookupLast k t with
    | some v => some v
    | none => if a = k then some b else none

def compressionKey : Bytes := [67,79,77,80,82,69,83,83,73,79,78]

def lowerB (b : Nat) : Nat := if 65 ≤ b ∧ b ≤ 90 then b + 32 else b

def supportedB : List Bytes := [[108,122,52], [115,110,97,112,112,121]]

/-- one frame whose header and body have arrived. `compressed`: a codec with compression was
negotiated on this connection. Returns the outcome, whether the connection goes on, and the flag. -/
def receive (max : Nat) (compressed : Bool) (vbyte flags opcode : Nat) (body : Bytes) : Ev × Bool × Bool :=
  let c := vclass max vbyte
  if c.outOfRange then (.out .perrVersion, true, compressed)
  else if compressed ∧ bit flags 1 then (.unmodelled, false, compressed)
  else match bodyMsg (vbyte % 128) flags opcode body with
    | none => (.out .closed, false, compressed)
    | some m => match m with
      | .options => (.out .supported, true, compressed)
      | .startup opts =>
        match lookupLast compressionKey opts with
        | none => (.out .ready, true, compressed)
        | some v => if supportedB.contains (v.map lowerB) then (.out .ready, true, true) else (.out .perrCompression, true, compressed)
      | .register _ => (.out .ready, true, compressed)
      | .prepare _ _ | .query | .execute | .batch => (.out .routed, true, compressed)
      | .other => (.out .perr, true, compressed)

/-- `Conn.read` looping over `client.Receive` on the bytes received so far -/
def clientStream (max : Nat) : Nat → Bool → Bytes → List Ev
  | 0, _, _ => []
  | fuel + 1, compressed, bs =>
    match bs with
    | [] => []
    | [_] => [.waiting]
    | vbyte :: flags :: rest =>
      let v := vbyte % 128
      if !knownVersions.contains v then [.out .closed]
      else
        let hdr : Option (Nat × Int × Bytes) :=      -- opcode, length, after the header
          if v ≤ 2 then match rest with
            | _ :: o :: r => (readInt r).map fun (l, r') => (o, l, r')
            | _ => none
          else match rest with
            | _ :: _ :: o :: r => (readInt r).map fun (l, r') => (o, l, r')
            | _ => none
        match hdr with
        | none => [.waiting]
        | some (opcode, len, r) =>
          let resp := decide (vbyte ≥ 128)
          if !(requestOps.contains opcode || responseOps.contains opcode) then [.out .closed]
          else if resp && !(responseOps.contains opcode) then [.out .closed]
          else if !resp && !(requestOps.contains opcode) then [.out .closed]
          else if len < 0 then [.out .closed]
          else match takeN len.toNat r with
            | none => [.waiting]
            | some (body, r') =>
              if resp then
                -- a response frame sent by a client: the version gate answers first, then the body decoders of the
                -- response messages run; none of them is dispatched ("Unsupported operation")
                if (vclass max vbyte).outOfRange then .out .perrVersion :: clientStream max fuel compressed r'
                else [.unmodelled]
              else
                let (e, go, c') := receive max compressed vbyte flags opcode body
                if go then e :: clientStream max fuel c' r' else [e]

end CqlVerif.Hostile
