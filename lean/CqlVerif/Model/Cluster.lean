/-
Model.Cluster — proxycore/cluster.go `mergeHosts` and its listeners as `Proxy.Connect` wires
them: the round-robin load balancer (lb.go) and a bootstrapped session's pool map (session.go).
-/
namespace CqlVerif.Cluster

abbrev Host := Nat

structure St where
  hosts : List Host := []       -- Cluster.hosts as of the last refresh
  lb : List Host := []          -- the load balancer's host list
  pools : List Host := []       -- keys of the bootstrapped session's pool map
  connected : Bool := true      -- a control connection exists
  outageStarted : Bool := false -- outageTime is non-zero
  deriving Repr, DecidableEq

/-- events `mergeHosts` emits: Add for every host not known before, Remove for every known host missing now -/
def adds (old new : List Host) : List Host := new.filter (fun h => !old.contains h)
def removes (old new : List Host) : List Host := old.filter (fun h => !new.contains h)

def applyLB (lb : List Host) (a r : List Host) : List Host := r.foldl (fun l h => l.erase h) (lb ++ a)

/-- `mergeHosts(new)`: error (control connection closed, nothing changes) iff the current endpoint is not listed -/
def mergeHosts (s : St) (current : Host) (new : List Host) : St :=
  if !new.contains current then { s with connected := false, outageStarted := true }
  else
    let a := adds s.hosts new
    let r := removes s.hosts new
    { s with hosts := new, lb := applyLB s.lb a r, pools := applyLB s.pools a r }

inductive Ev where
  | refresh (current : Host) (peers : List Host)   -- refresh timer fired / reconnect queried the system tables
  | controlLost
  | controlRestored (current : Host) (peers : List Host)

def step (s : St) : Ev → St
  | .refresh c peers => if s.connected then mergeHosts s c peers else s
  | .controlLost => { s with connected := false, outageStarted := true }
  | .controlRestored c peers => mergeHosts { s with connected := true, outageStarted := false } c peers

/-- `OutageDuration() != 0` -/
def outage (s : St) : Bool := s.outageStarted

end CqlVerif.Cluster
