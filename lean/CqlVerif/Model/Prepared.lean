/-
Model.Prepared — prepared statements across backend hosts: the proxy's prepared cache
(`maybeCachePrepared`), UNPREPARED recovery (`maybePrepareAndExecute`, `prepareRequest`) and the
walk over the query plan, against backends that execute an id only if a PREPARE reached them.
-/
namespace CqlVerif.Prepared

abbrev Host := Nat
abbrev Stmt := Nat

/-- `err`: a retryable server error; `inv`: INVALID (never retried); `drop`: the connection is lost -/
inductive Fail where | err | inv | drop deriving Repr, DecidableEq

/-- statements 1, 2 are idempotent; 3 and above use `now()` -/
def idem (k : Nat) : Bool := k < 3

structure PState where
  hosts : List Host                       -- the load balancer's host list
  has : Host → Stmt → Bool                -- the node holds the statement
  cache : Stmt → Bool                     -- the proxy's prepared cache holds its PREPARE frame
  down : Host → Bool                      -- no live connection to the host (dropped, not yet reconnected)
  failNext : Host → Option Fail           -- scripted failure of the next PREPARE reaching the node
  rr : Nat := 0                           -- query plans created so far

inductive Reply where
  | ok | prepared | unprepared | proxyerr | err
  deriving Repr, DecidableEq

def setHas (f : Host → Stmt → Bool) (h : Host) (k : Stmt) (v : Bool) : Host → Stmt → Bool :=
  fun h' k' => if h' = h ∧ k' = k then v else f h' k'

def plan (s : PState) : List Host := s.hosts.rotateLeft (s.rr % (if s.hosts.length = 0 then 1 else s.hosts.length))

/-- EXECUTE / BATCH of a statement prepared through the proxy, walking the plan -/
def execPlan (s : PState) (k : Stmt) : List Host → Reply × PState × List Host
  | [] => (.proxyerr, s, [])
  | h :: rest =>
    if s.down h then execPlan s k rest
    else if s.has h k then (.ok, s, [])
    else if !s.cache k then (.unprepared, s, [])          -- not cached: the error goes to the client
    else
      -- UNPREPARED intercepted: PREPARE on the same connection, then re-execute there
      match s.failNext h with
      | none => (.ok, { s with has := setHas s.has h k true }, [h])
      | some .err | some .inv =>
        -- a failed re-PREPARE moves the request on to the next host, whatever the error and whether or
        -- not the statement is idempotent: the EXECUTE itself has not run anywhere
        let (r, s', hs) := execPlan { s with failNext := fun h' => if h' = h then none else s.failNext h' } k rest
        (r, s', h :: hs)
      | some .drop =>
        if !idem k then
          -- the connection is lost while the re-PREPARE is outstanding: OnClose of a non-idempotent request
          (.proxyerr, { s with failNext := (fun h' => if h' = h then none else s.failNext h'), down := fun h' => h' = h ∨ s.down h' }, [h])
        else
        let (r, s', hs) := execPlan { s with failNext := (fun h' => if h' = h then none else s.failNext h'),
                                             down := fun h' => h' = h ∨ s.down h' } k rest
        (r, s', h :: hs)

/-- a client's PREPARE forwarded along the plan (PREPARE requests are retried like idempotent ones) -/
def prepPlan (s : PState) (k : Stmt) : List Host → Reply × PState
  | [] => (.proxyerr, s)
  | h :: rest =>
    if s.down h then prepPlan s k rest
    else match s.failNext h with
      | none => (.prepared, { s with has := setHas s.has h k true, cache := fun k' => k' = k ∨ s.cache k' })
      | some .err => prepPlan { s with failNext := fun h' => if h' = h then none else s.failNext h' } k rest
      | some .inv => (.err, { s with failNext := fun h' => if h' = h then none else s.failNext h' })
      | some .drop => prepPlan { s with failNext := (fun h' => if h' = h then none else s.failNext h'),
                                        down := fun h' => h' = h ∨ s.down h' } k rest

inductive Act where
  | prepare (k : Stmt) | execute (k : Stmt)
  | forget (h : Host)                 -- node restart: loses its prepared statements
  | failNext (h : Host) (f : Fail)
  | addHost                            -- a node joins after start-up
  deriving Repr

def step (s : PState) : Act → Option Reply × PState × List Host
  | .prepare k => let (r, s') := prepPlan s k (plan s); (some r, { s' with rr := s.rr + 1 }, [])
  | .execute k => let (r, s', hs) := execPlan s k (plan s); (some r, { s' with rr := s.rr + 1 }, hs)
  | .forget h => (none, { s with has := fun h' k => if h' = h then false else s.has h' k }, [])
  | .failNext h f => (none, { s with failNext := fun h' => if h' = h then some f else s.failNext h' }, [])
  | .addHost => (none, { s with hosts := s.hosts ++ [s.hosts.length] }, [])

def init (n : Nat) : PState :=
  { hosts := List.range n, has := fun _ _ => false, cache := fun _ => false, down := fun _ => false, failNext := fun _ => none }

end CqlVerif.Prepared
