import CqlVerif.Model.Parser
/-
Model.CqlAst — the term grammar of CQL as a syntax tree, its rendering as a token sequence, and the
ground truth the classifier has to respect: does the term contain a call of `now()` / `uuid()`
(unqualified or in keyspace `system`) anywhere, at any depth.

This is the *other* side of `Model.Parser`: that file mirrors parser/*.go function by function; this
file says what the input language is.  `Lemmas/Grammar.lean` proves, by mutual induction over these
trees, that the mirrored parser, run on the rendering of any term inside any context, either answers
"not idempotent" or has consumed exactly the term's tokens and the term contains no such call.

Rendering is in difference-list style (`render t rest` = the tokens of `t` followed by `rest`) so that no
list append appears in the proofs.
-/
namespace CqlVerif.Ast
open CqlVerif.Parser CqlVerif.Gen.Lex

/-- a token as the scanner produces it: kind and, for identifiers, the identifier -/
structure Tok where
  kind : Nat
  id : Ident := {}
  deriving Repr, DecidableEq

@[reducible] def k (n : Nat) : Tok := { kind := n }
@[reducible] def idt (i : Ident) : Tok := { kind := tkIdentifier, id := i }

/-- the primitive literals other than integers (`parseTerm` gives integers a type of their own) -/
inductive Prim where
  | float | bool | null | str | hex | uuid | duration | nan | infinity
  deriving Repr, DecidableEq

def Prim.kind : Prim → Nat
  | .float => tkFloat | .bool => tkBool | .null => tkNull | .str => tkStringLiteral | .hex => tkHexNumber
  | .uuid => tkUuid | .duration => tkDuration | .nan => tkNan | .infinity => tkInfinity

mutual
/-- CQL terms (the `term` production of the CQL grammar, with collection, UDT and tuple literals, type
casts with an optionally parameterised type name, and function calls whose arguments are terms or bare
column names) -/
inductive Term where
  | int
  | prim (p : Prim)
  | bindQ
  | bindNamed (name : Ident)
  | list (xs : Terms)
  | set (xs : Terms)
  | map (kvs : Pairs)
  | udt (fs : Fields)
  | tuple (xs : Terms)
  | cast (ty : Ident) (params : List Ident) (t : Term)
  | call (ks : Option Ident) (name : Ident) (args : Args)
inductive Terms where
  | nil
  | cons (t : Term) (ts : Terms)
inductive Pairs where
  | nil
  | cons (key val : Term) (ps : Pairs)
inductive Fields where
  | nil
  | cons (name : Ident) (val : Term) (fs : Fields)
inductive Args where
  | nil
  | term (t : Term) (as : Args)
  | col (c : Ident) (as : Args)
end

/-- `a, b, c` inside a type's angle brackets, then `>` -/
def renderParams : List Ident → List Tok → List Tok
  | [], rest => k tkGt :: rest
  | [a], rest => idt a :: k tkGt :: rest
  | a :: b :: more, rest => idt a :: k tkComma :: renderParams (b :: more) rest

/-- the type of a cast: `name` or `name<a, b>` -/
def renderType (ty : Ident) (params : List Ident) (rest : List Tok) : List Tok :=
  match params with
  | [] => idt ty :: rest
  | ps => idt ty :: k tkLt :: renderParams ps rest

def renderName (ks : Option Ident) (name : Ident) (rest : List Tok) : List Tok :=
  match ks with
  | none => idt name :: rest
  | some q => idt q :: k tkDot :: idt name :: rest

mutual
def Term.render : Term → List Tok → List Tok
  | .int, rest => k tkInteger :: rest
  | .prim p, rest => k p.kind :: rest
  | .bindQ, rest => k tkQMark :: rest
  | .bindNamed n, rest => k tkColon :: idt n :: rest
  | .list xs, rest => k tkLsquare :: xs.renderElems (k tkRsquare :: rest)
  | .set xs, rest => k tkLcurly :: xs.renderElems (k tkRcurly :: rest)
  | .map kvs, rest => k tkLcurly :: kvs.renderElems (k tkRcurly :: rest)
  | .udt fs, rest => k tkLcurly :: fs.renderElems (k tkRcurly :: rest)
  | .tuple xs, rest => k tkLparen :: xs.renderElems (k tkRparen :: rest)
  | .cast ty ps t, rest => k tkLparen :: renderType ty ps (k tkRparen :: t.render rest)
  | .call ks name args, rest => renderName ks name (k tkLparen :: args.renderElems (k tkRparen :: rest))
/-- first element without, every later element with a leading comma -/
def Terms.renderElems : Terms → List Tok → List Tok
  | .nil, rest => rest
  | .cons t ts, rest => t.render (ts.renderTail rest)
def Terms.renderTail : Terms → List Tok → List Tok
  | .nil, rest => rest
  | .cons t ts, rest => k tkComma :: t.render (ts.renderTail rest)
def Pairs.renderElems : Pairs → List Tok → List Tok
  | .nil, rest => rest
  | .cons a b ps, rest => a.render (k tkColon :: b.render (ps.renderTail rest))
def Pairs.renderTail : Pairs → List Tok → List Tok
  | .nil, rest => rest
  | .cons a b ps, rest => k tkComma :: a.render (k tkColon :: b.render (ps.renderTail rest))
def Fields.renderElems : Fields → List Tok → List Tok
  | .nil, rest => rest
  | .cons n v fs, rest => idt n :: k tkColon :: v.render (fs.renderTail rest)
def Fields.renderTail : Fields → List Tok → List Tok
  | .nil, rest => rest
  | .cons n v fs, rest => k tkComma :: idt n :: k tkColon :: v.render (fs.renderTail rest)
def Args.renderElems : Args → List Tok → List Tok
  | .nil, rest => rest
  | .term t as, rest => t.render (as.renderTail rest)
  | .col c as, rest => idt c :: as.renderTail rest
def Args.renderTail : Args → List Tok → List Tok
  | .nil, rest => rest
  | .term t as, rest => k tkComma :: t.render (as.renderTail rest)
  | .col c as, rest => k tkComma :: idt c :: as.renderTail rest
end

/-- the call is one of the functions whose value differs from one execution to the next -/
def callNonIdem (ks : Option Ident) (name : Ident) : Bool :=
  isNonIdempotentFunc name && (match ks with | none => true | some q => q.isEmpty || q.equal "system")

mutual
/-- ground truth: the term contains a call of `now()` / `uuid()` at some depth -/
def Term.nonIdem : Term → Bool
  | .int | .prim _ | .bindQ | .bindNamed _ => false
  | .list xs | .set xs | .tuple xs => xs.nonIdem
  | .map kvs => kvs.nonIdem
  | .udt fs => fs.nonIdem
  | .cast _ _ t => t.nonIdem
  | .call ks name args => callNonIdem ks name || args.nonIdem
def Terms.nonIdem : Terms → Bool
  | .nil => false
  | .cons t ts => t.nonIdem || ts.nonIdem
def Pairs.nonIdem : Pairs → Bool
  | .nil => false
  | .cons a b ps => a.nonIdem || b.nonIdem || ps.nonIdem
def Fields.nonIdem : Fields → Bool
  | .nil => false
  | .cons _ v fs => v.nonIdem || fs.nonIdem
def Args.nonIdem : Args → Bool
  | .nil => false
  | .term t as => t.nonIdem || as.nonIdem
  | .col _ as => as.nonIdem
end

mutual
/-- a plain term: literals, bind markers and list / set / map / tuple literals of plain terms -/
def Term.plain : Term → Bool
  | .int | .prim _ | .bindQ | .bindNamed _ => true
  | .list xs | .set xs | .tuple xs => xs.plain
  | .map kvs => kvs.plain
  | .udt _ | .cast _ _ _ | .call _ _ _ => false
def Terms.plain : Terms → Bool
  | .nil => true
  | .cons t ts => t.plain && ts.plain
def Pairs.plain : Pairs → Bool
  | .nil => true
  | .cons a b ps => a.plain && b.plain && ps.plain
end

mutual
/-- a bound on the fuel the mirrored parser needs for a term: its number of tokens (plus one per element) -/
def Term.size : Term → Nat
  | .int | .prim _ | .bindQ => 1
  | .bindNamed _ => 2
  | .list xs => 2 + xs.size
  | .set xs | .tuple xs => 3 + xs.size
  | .map kvs => 3 + kvs.size
  | .udt fs => 2 + fs.size
  | .cast _ ps t => 3 + ps.length + t.size
  | .call _ _ as => 4 + as.size
def Terms.size : Terms → Nat
  | .nil => 0
  | .cons t ts => 1 + t.size + ts.size
def Pairs.size : Pairs → Nat
  | .nil => 0
  | .cons a b ps => 2 + a.size + b.size + ps.size
def Fields.size : Fields → Nat
  | .nil => 0
  | .cons _ v fs => 3 + v.size + fs.size
def Args.size : Args → Nat
  | .nil => 0
  | .term t as => 1 + t.size + as.size
  | .col _ as => 2 + as.size
end

/-- column names inside `( … )`, then `)` -/
def renderCols : List Ident → List Tok → List Tok
  | [], rest => k tkRparen :: rest
  | [a], rest => idt a :: k tkRparen :: rest
  | a :: b :: more, rest => idt a :: k tkComma :: renderCols (b :: more) rest

/-- `INSERT INTO [ks.]table (columns) VALUES (terms) <anything>`; `valuesKw` is the word VALUES as written (any letter
case), `tail` whatever follows the closing parenthesis (IF NOT EXISTS, USING …, `;`, the next child of a batch) -/
structure Insert where
  ks : Option Ident
  table : Ident
  cols : List Ident
  valuesKw : Ident
  vals : Terms
  tail : List Tok

def Insert.render (i : Insert) : List Tok :=
  k tkInsert :: k tkInto :: renderName i.ks i.table
    (k tkLparen :: renderCols i.cols (idt i.valuesKw :: k tkLparen :: i.vals.renderElems (k tkRparen :: i.tail)))

/-- an INSERT followed by something: `i.tail`, then `after` -/
def Insert.renderWith (i : Insert) (after : List Tok) : List Tok :=
  k tkInsert :: k tkInto :: renderName i.ks i.table
    (k tkLparen :: renderCols i.cols (idt i.valuesKw :: k tkLparen :: i.vals.renderElems (k tkRparen :: (i.tail ++ after))))

/-- the children of a batch, each an INSERT with or without a `;` behind it -/
def renderChildren : List (Insert × Bool) → List Tok → List Tok
  | [], rest => rest
  | (i, semi) :: more, rest => i.renderWith ((if semi then [k tkEOS] else []) ++ renderChildren more rest)

/-- `BEGIN BATCH insert [;] insert [;] … APPLY BATCH <anything>` -/
def renderBatch (children : List (Insert × Bool)) (rest : List Tok) : List Tok :=
  k tkBegin :: k tkBatch :: renderChildren children (k tkApply :: k tkBatch :: rest)

def childrenNonIdem (children : List (Insert × Bool)) : Bool := children.any fun c => c.1.vals.nonIdem

/-- the assignments of an UPDATE's SET clause, each `column = term` -/
inductive Assigns where
  | nil
  | cons (col : Ident) (t : Term) (as : Assigns)

mutual
def Assigns.renderElems : Assigns → List Tok → List Tok
  | .nil, rest => rest
  | .cons c t as, rest => idt c :: k tkEqual :: t.render (as.renderTail rest)
def Assigns.renderTail : Assigns → List Tok → List Tok
  | .nil, rest => rest
  | .cons c t as, rest => k tkComma :: idt c :: k tkEqual :: t.render (as.renderTail rest)
end

def Assigns.nonIdem : Assigns → Bool
  | .nil => false
  | .cons _ t as => t.nonIdem || as.nonIdem

/-- `UPDATE [ks.]table SET c = term, … <tail>`; `setKw` is the word SET as written, `tail` whatever follows the last
assignment (WHERE …, IF …, `;`, end of input) -/
structure Update where
  ks : Option Ident
  table : Ident
  setKw : Ident
  ops : Assigns
  tail : List Tok

def Update.render (u : Update) : List Tok :=
  k tkUpdate :: renderName u.ks u.table (idt u.setKw :: u.ops.renderElems u.tail)

/-- a relation of a WHERE clause: `column <op> term` (op one of `= < <= > >= !=`, by its token kind) or `column IN (terms)` -/
inductive Rel where
  | cmp (col : Ident) (op : Nat) (t : Term)
  | inList (col : Ident) (ts : Terms)

def Rel.render : Rel → List Tok → List Tok
  | .cmp c op t, rest => idt c :: k op :: t.render rest
  | .inList c ts, rest => idt c :: k tkIn :: k tkLparen :: ts.renderElems (k tkRparen :: rest)

def Rel.nonIdem : Rel → Bool
  | .cmp _ _ t => t.nonIdem
  | .inList _ ts => ts.nonIdem

/-- relations joined by AND -/
def renderRels : List Rel → List Tok → List Tok
  | [], rest => rest
  | [r], rest => r.render rest
  | r :: r2 :: more, rest => r.render (k tkAnd :: renderRels (r2 :: more) rest)

/-- `UPDATE [ks.]table SET c = term, … WHERE rel AND … <tail>` -/
structure UpdateW where
  ks : Option Ident
  table : Ident
  setKw : Ident
  ops : Assigns
  rels : List Rel
  tail : List Tok

def UpdateW.render (u : UpdateW) : List Tok :=
  k tkUpdate :: renderName u.ks u.table (idt u.setKw :: u.ops.renderElems (k tkWhere :: renderRels u.rels u.tail))

/-- `DELETE FROM [ks.]table WHERE rel AND … <tail>` (a whole-row delete: no selectors) -/
structure DeleteW where
  ks : Option Ident
  table : Ident
  rels : List Rel
  tail : List Tok

def DeleteW.render (d : DeleteW) : List Tok :=
  k tkDelete :: k tkFrom :: renderName d.ks d.table (k tkWhere :: renderRels d.rels d.tail)

/-- the lexer `L` yields the tokens `ts` from position `p` on, one position per token -/
def At (L : Lexer) : Nat → List Tok → Prop
  | _, [] => True
  | p, a :: ts => L p = { kind := a.kind, stop := p + 1, id := a.id } ∧ At L (p + 1) ts

/-- the lexer that yields exactly the given tokens and end-of-input ever after -/
def lexOf (ts : List Tok) : Lexer := fun p =>
  match ts[p]? with
  | some a => { kind := a.kind, stop := p + 1, id := a.id }
  | none => { kind := tkEOF, stop := p }

end CqlVerif.Ast
