/-
Model.Keyspace — per-client keyspace / version / compression and the session table of
proxy/proxy.go (`sessionKey`, `findSession`, `maybeCreateSession`), with sessions whose every
backend connection ran `USE <keyspace text>` at connect (`connPool.connect`).
-/
namespace CqlVerif.Keyspace

def lowerChar (c : Char) : Char := if 'A' ≤ c ∧ c ≤ 'Z' then Char.ofNat (c.toNat + 32) else c

def unescapeQuotes : List Char → List Char
  | '"' :: '"' :: t => '"' :: unescapeQuotes t
  | c :: t => c :: unescapeQuotes t
  | [] => []

/-- what a CQL identifier text denotes (`Identifier.ID()`, and what the backend makes of `USE <text>`) -/
def canonChars : List Char → List Char
  | '"' :: rest => unescapeQuotes rest.dropLast
  | cs => cs.map lowerChar

def canon (raw : String) : String := String.ofList (canonChars raw.toList)

structure Key where
  version : Nat
  keyspace : String       -- the identifier text as the client wrote it ("" = none)
  compression : String
  deriving Repr, DecidableEq

structure Client where
  version : Nat
  compression : String
  keyspace : String := ""
  deriving Repr, DecidableEq

/-- a cached session: its key and the keyspace its backend connections are in -/
structure Session where
  key : Key
  connKeyspace : String
  deriving Repr, DecidableEq

structure St where
  clients : List Client
  sessions : List Session := []
  deriving Repr

inductive Reply where
  | setKeyspace (name : String)
  | backendError
  | forwarded (connKeyspace : String) (version : Nat) (compression : String)
  | invalidKeyspace
  deriving Repr, DecidableEq

/-- `maybeCreateSessionUnlocked`: cached, or connect pools that each run `USE <text>` -/
def getSession (missing : String → Bool) (s : St) (k : Key) : Option Session × St :=
  match s.sessions.find? (·.key = k) with
  | some sess => (some sess, s)
  | none =>
    if k.keyspace ≠ "" ∧ missing (canon k.keyspace) then (none, s)
    else
      let sess : Session := { key := k, connKeyspace := if k.keyspace = "" then "" else canon k.keyspace }
      (some sess, { s with sessions := sess :: s.sessions })

def setClient (l : List Client) (i : Nat) (c : Client) : List Client := l.set i c

/-- client i sends `USE <text>` (answered by the proxy itself) -/
def useKs (missing : String → Bool) (s : St) (i : Nat) (raw : String) : Option Reply × St :=
  match s.clients[i]? with
  | none => (none, s)
  | some c =>
    match getSession missing s { version := c.version, keyspace := raw, compression := c.compression } with
    | (none, s') => (some .backendError, s')
    | (some _, s') => (some (.setKeyspace (canon raw)), { s' with clients := setClient s'.clients i { c with keyspace := raw } })

/-- client i sends a request that is forwarded -/
def forward (missing : String → Bool) (s : St) (i : Nat) : Option Reply × St :=
  match s.clients[i]? with
  | none => (none, s)
  | some c =>
    match getSession missing s { version := c.version, keyspace := c.keyspace, compression := c.compression } with
    | (none, s') => (some .invalidKeyspace, s')
    | (some sess, s') => (some (.forwarded sess.connKeyspace sess.key.version sess.key.compression), s')

end CqlVerif.Keyspace
