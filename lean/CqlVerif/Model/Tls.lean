/-
Model.Tls — the decision an Astra-bundle connection takes about the server's certificate chain:
astra/bundle.go (`LoadBundleZip`: root pool = system roots + the bundle's CA, client key pair,
server name = the bundle's host), astra/endpoint.go (`copyTLSConfig`: per-node SNI, and a
`VerifyPeerCertificate` callback that verifies the presented chain for the *bundle's* host name at
the time of the handshake, with the rest of the presented chain as intermediates), and the
metadata request of `Resolve` (standard verification with the same pool and name).

Certificates are abstract: a key identity, the identity of the key that signed them, the DNS names,
a validity interval, the CA flag.  `chainOk` is the path search of crypto/x509 as far as these
attributes go; the `tls` stream materialises every abstract chain as real certificates and
compares the decision of the real handshake with `accept`.
-/
namespace CqlVerif.Tls

structure Cert where
  id : Nat              -- the key this certificate certifies
  signer : Nat          -- the key that signed it
  names : List Nat      -- DNS names (0 = none; the bundle's host is a name like any other)
  notBefore : Int
  notAfter : Int
  isCA : Bool
  deriving Repr, DecidableEq

def Cert.validAt (c : Cert) (t : Int) : Bool := decide (c.notBefore ≤ t) && decide (t ≤ c.notAfter)

/-- is there a path from `c` to a trusted root through the presented intermediates, every
certificate on it valid at `t` and every issuer a CA? -/
def chainOk (roots inters : List Cert) (t : Int) : Nat → Cert → Bool
  | 0, _ => false
  | fuel + 1, c =>
    c.validAt t &&
    (roots.any (fun r => r.id == c.signer && r.isCA && r.validAt t) ||
     inters.any (fun i => i.id == c.signer && i.isCA && chainOk roots inters t fuel i))

structure Bundle where
  roots : List Cert     -- the bundle's CA (plus whatever the system pool holds)
  host : Nat            -- the bundle's host name
  clientCert : Nat      -- identity of the bundle's client certificate
  deriving Repr

/-- the callback of `copyTLSConfig` / the standard verification of the metadata request, on the
chain the server presents (leaf first), at time `t` -/
def accept (b : Bundle) (chain : List Cert) (t : Int) : Bool :=
  match chain with
  | [] => false
  | leaf :: rest =>
    leaf.names.contains b.host &&
    (b.roots.contains leaf && leaf.validAt t || chainOk b.roots rest t (rest.length + 1) leaf)

/-- what the client side of a connection does -/
structure Outcome where
  connected : Bool          -- the handshake completes and CQL / HTTP bytes follow
  sni : Nat                 -- the server name sent in the ClientHello
  presents : Option Nat     -- the client certificate sent (only once the server has been accepted)
  deriving Repr, DecidableEq

/-- a node connection made through an endpoint created for `node` (a host id or a contact point) -/
def connectNode (b : Bundle) (node : Nat) (chain : List Cert) (t : Int) : Outcome :=
  let ok := accept b chain t
  { connected := ok, sni := node, presents := if ok then some b.clientCert else none }

/-- the metadata request -/
def connectMeta (b : Bundle) (chain : List Cert) (t : Int) : Outcome :=
  let ok := accept b chain t
  { connected := ok, sni := b.host, presents := if ok then some b.clientCert else none }

end CqlVerif.Tls
