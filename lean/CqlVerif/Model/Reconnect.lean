/-
Model.Reconnect — proxycore/reconnpolicy.go with Go's int64 arithmetic (time.Duration):
`<<` and `+` wrap modulo 2^64 (two's complement) exactly as Go performs them.
-/
namespace CqlVerif.Reconnect

def two63 : Int := 9223372036854775808
def two64 : Int := 18446744073709551616

/-- reinterpretation of an integer as int64 (what Go's wrapping arithmetic yields) -/
def wrap (x : Int) : Int := (x + two63) % two64 - two63

def millisecond : Int := 1000000

/-- `63 - bits.LeadingZeros64(uint64(baseDelay))` -/
def calcMaxAttempts (base : Int) : Int :=
  if base = 0 then -1
  else if base < 0 then 63      -- uint64 of a negative duration has its top bit set
  else (Nat.log2 base.toNat : Int)

structure Policy where
  attempts : Nat := 0
  maxAttempts : Int
  base : Int
  max : Int
  deriving Repr, DecidableEq

def new (base max : Int) : Policy := { maxAttempts := calcMaxAttempts base, base, max }

/-- `NextDelay()`; `jitterMs` is `rand.Intn(30)+85` -/
def nextDelay (p : Policy) (jitterMs : Int) : Int × Policy :=
  if (p.attempts : Int) ≥ p.maxAttempts then (p.max, p)
  else
    let exp := wrap (millisecond * 2 ^ p.attempts)          -- time.Millisecond << d.attempts
    let delay := wrap (wrap (p.base + exp) + wrap (jitterMs * millisecond))
    (if delay > p.max then p.max else delay, { p with attempts := p.attempts + 1 })

def reset (p : Policy) : Policy := { p with attempts := 0 }
def clone (p : Policy) : Policy := new p.base p.max

end CqlVerif.Reconnect
