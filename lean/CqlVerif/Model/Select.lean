import CqlVerif.Model.Parser
/-
Model.Select — `parser.IsQueryHandled` (parser.go, parse_select.go): which statements the proxy
answers itself, over the same abstract lexer interface as Model.Parser.
-/
namespace CqlVerif.Select
open CqlVerif.Parser CqlVerif.Gen.Lex

def systemTables : List String :=
  ["local", "peers", "peers_v2", "schema_keyspaces", "schema_columnfamilies", "schema_columns", "schema_usertypes"]

def isSystemTable (i : Ident) : Bool := systemTables.any i.equal

inductive Kind where | none | select | use deriving Repr, DecidableEq

structure Handled where
  handled : Bool
  err : Bool := false
  kind : Kind := .none
  table : Ident := {}
  nsel : Nat := 0
  oof : Bool := false
  deriving Repr

/-- `untilToken(l, tkFrom)` -/
def untilFrom (L : Lexer) : Nat → LS → Nat × LS
  | 0, s => (tkInvalid, s)
  | fuel+1, s =>
    let (t, s) := nextT L s
    if t = tkFrom ∨ t = tkEOF then (t, s) else untilFrom L fuel s

/-- arguments of a selector function call: (number of args, closing token ok, error) -/
def selectorArgs (L : Lexer) : Nat → LS → Nat → Nat → Nat × Nat × Bool × LS
  | 0, s, t, n => (n, t, true, s)
  | fuel+1, s, t, n =>
    if t ≠ tkRparen ∧ t ≠ tkEOF then
      if t = tkStar ∨ t = tkIdentifier then
        let (t, s) := nextT L s
        let (t, s) := skipToken L s t tkComma
        selectorArgs L fuel s t (n + 1)
      else (n, tkInvalid, true, s)
    else (n, t, false, s)

/-- `parseSelector`: (next token, error) -/
def parseSelector (L : Lexer) (fuel : Nat) (s : LS) (t : Nat) : Nat × Bool × LS :=
  let asClause (s : LS) : Nat × Bool × LS :=
    let (t, s) := nextT L s
    if isUnreservedKeyword s t "as" then
      let (t, s) := nextT L s
      if t ≠ tkIdentifier then (tkInvalid, true, s) else let (t, s) := nextT L s; (t, false, s)
    else (t, false, s)
  if t = tkIdentifier then
    let name := s.id
    let s := mark s
    let (t, s) := nextT L s
    if t = tkLparen then
      let (t, s) := nextT L s
      let (n, t, e, s) := selectorArgs L fuel s t 0
      if e then (tkInvalid, true, s)
      else if t ≠ tkRparen then (tkInvalid, true, s)
      else if name.ignoreCase ∧ name.text.map lowerB == "count".toList.map Char.toNat then
        if n = 0 then (tkInvalid, true, s) else let (t, s) := nextT L s; (t, false, s)
      else if name.ignoreCase ∧ name.text.map lowerB == "now".toList.map Char.toNat then
        if n ≠ 0 then (tkInvalid, true, s) else let (t, s) := nextT L s; (t, false, s)
      else (tkInvalid, true, s)
    else asClause (rewind s)
  else if t = tkStar then let (t, s) := nextT L s; (t, false, s)
  else (tkInvalid, true, s)

/-- the selector loop of a handled SELECT: (number of selectors, error) -/
def selectorsLoop (L : Lexer) : Nat → LS → Nat → Nat → Nat × Bool × Bool
  | 0, _, _, n => (n, true, true)
  | fuel+1, s, t, n =>
    if t ≠ tkFrom ∧ t ≠ tkEOF then
      if t = tkIdentifier ∧ (isUnreservedKeyword s t "json" ∨ isUnreservedKeyword s t "distinct") then (n, true, false)
      else
        let (t, e, s) := parseSelector L fuel s t
        if e then (n, true, false)
        else
          let (t, s) := skipToken L s t tkComma
          selectorsLoop L fuel s t (n + 1)
    else (n, false, false)

/-- `isHandledSelectStmt(l, keyspace)` (after the repair: the qualifier, when present, decides) -/
def handledSelect (L : Lexer) (fuel : Nat) (s : LS) (keyspace : Ident) : Handled :=
  let s := mark s
  let (t, s) := untilFrom L fuel s
  if t ≠ tkFrom then { handled := false, err := true, kind := .select }
  else
    let (t, s) := nextT L s
    if t ≠ tkIdentifier then { handled := false, err := true, kind := .select }
    else
      let (q, table, _, e, s) := parseQualifiedIdentifier L s
      if e then { handled := false, err := true, kind := .select }
      else
        let ks := if q.isEmpty then keyspace else q
        if !(ks.equal "system") || !(isSystemTable table) then { handled := false, kind := .select }
        else
          let s := rewind s
          let (t, s) := nextT L s
          let (n, e, oof) := selectorsLoop L fuel s t 0
          if e then { handled := true, err := true, kind := .none, oof }
          else { handled := true, kind := .select, table, nsel := n }

/-- `IsQueryHandled(keyspace, query)` -/
def isQueryHandled (L : Lexer) (fuel : Nat) (keyspace : Ident) : Handled :=
  let (t, s) := nextT L { p := 0 }
  if t = tkSelect then handledSelect L fuel s keyspace
  else if t = tkUse then
    let (t, _) := nextT L s
    if t ≠ tkIdentifier then { handled := false, err := true } else { handled := true, kind := .use }
  else { handled := false }

end CqlVerif.Select
