import CqlVerif.Model.Parser
/-
Model.Select — `parser.IsQueryHandled` (parser.go, parse_select.go): which statements the proxy
answers itself, over the same abstract lexer interface as Model.Parser.
-/
namespace CqlVerif.Select
open CqlVerif.Parser CqlVerif.Gen.Lex

def systemTables : List String :=
  ["local", "peers", "peers_v2", "schema_keyspaces", "schema_columnfamilies", "schema_columns", "schema_usertypes"]

def isSystemTable (i : Ident) : Bool := systemTables.any i.equal

inductive Kind where | none | select | use deriving Repr, DecidableEq

/-- a selector of a handled SELECT (`Selector` implementations of parser.go) -/
inductive Sel where
  | star
  | id (name : List Nat)             -- `l.identifierStr()`: the identifier text as written (with quotes if quoted)
  | count (arg : List Nat)           -- "*" or the identifier text
  | now
  | alias (s : Sel) (name : List Nat)
  deriving Repr, DecidableEq

structure Handled where
  handled : Bool
  err : Bool := false
  kind : Kind := .none
  table : Ident := {}
  nsel : Nat := 0
  sels : List Sel := []
  oof : Bool := false
  deriving Repr

/-- `Identifier.ID()` -/
def identID (i : Ident) : List Nat := if i.ignoreCase then i.text.map lowerB else i.text

/-- `l.identifierStr()` reconstructed from the parsed identifier -/
def identStr (i : Ident) : List Nat := if i.ignoreCase then i.text else [34] ++ i.text ++ [34]

/-- `untilToken(l, tkFrom)` -/
def untilFrom (L : Lexer) : Nat → LS → Nat × LS
  | 0, s => (tkInvalid, s)
  | fuel+1, s =>
    let (t, s) := nextT L s
    if t = tkFrom ∨ t = tkEOF then (t, s) else untilFrom L fuel s

/-- arguments of a selector function call: (number of args, closing token ok, error) -/
def selectorArgs (L : Lexer) : Nat → LS → Nat → List (List Nat) → List (List Nat) × Nat × Bool × LS
  | 0, s, t, acc => (acc, t, true, s)
  | fuel+1, s, t, acc =>
    if t ≠ tkRparen ∧ t ≠ tkEOF then
      if t = tkStar ∨ t = tkIdentifier then
        let arg := if t = tkStar then [42] else identStr s.id
        let (t, s) := nextT L s
        let (t, s) := skipToken L s t tkComma
        selectorArgs L fuel s t (acc ++ [arg])
      else (acc, tkInvalid, true, s)
    else (acc, t, false, s)

/-- `parseSelector`: (selector, next token, error) -/
def parseSelector (L : Lexer) (fuel : Nat) (s : LS) (t : Nat) : Sel × Nat × Bool × LS :=
  let asClause (sel : Sel) (s : LS) : Sel × Nat × Bool × LS :=
    let (t, s) := nextT L s
    if isUnreservedKeyword s t "as" then
      let (t, s) := nextT L s
      if t ≠ tkIdentifier then (sel, tkInvalid, true, s)
      else
        let a := identStr s.id
        let (t, s) := nextT L s
        (.alias sel a, t, false, s)
    else (sel, t, false, s)
  if t = tkIdentifier then
    let name := s.id
    let s := mark s
    let (t, s) := nextT L s
    if t = tkLparen then
      let (t, s) := nextT L s
      let (args, t, e, s) := selectorArgs L fuel s t []
      if e then (.star, tkInvalid, true, s)
      else if t ≠ tkRparen then (.star, tkInvalid, true, s)
      else if name.ignoreCase ∧ name.text.map lowerB == "count".toList.map Char.toNat then
        match args with
        | [] => (.star, tkInvalid, true, s)
        | a :: _ => asClause (.count a) s
      else if name.ignoreCase ∧ name.text.map lowerB == "now".toList.map Char.toNat then
        if !args.isEmpty then (.star, tkInvalid, true, s) else asClause .now s
      else (.star, tkInvalid, true, s)
    else asClause (.id (identStr name)) (rewind s)
  else if t = tkStar then let (t, s) := nextT L s; (.star, t, false, s)
  else (.star, tkInvalid, true, s)

/-- the selector loop of a handled SELECT: (selectors, error, out of fuel) -/
def selectorsLoop (L : Lexer) : Nat → LS → Nat → List Sel → List Sel × Bool × Bool
  | 0, _, _, acc => (acc, true, true)
  | fuel+1, s, t, acc =>
    if t ≠ tkFrom ∧ t ≠ tkEOF then
      if t = tkIdentifier ∧ (isUnreservedKeyword s t "json" ∨ isUnreservedKeyword s t "distinct") then (acc, true, false)
      else
        let (sel, t, e, s) := parseSelector L fuel s t
        if e then (acc, true, false)
        else
          let (t, s) := skipToken L s t tkComma
          selectorsLoop L fuel s t (acc ++ [sel])
    else (acc, false, false)

/-- `isHandledSelectStmt(l, keyspace)` (after the repair: the qualifier, when present, decides) -/
def handledSelect (L : Lexer) (fuel : Nat) (s : LS) (keyspace : Ident) : Handled :=
  let s := mark s
  let (t, s) := untilFrom L fuel s
  if t ≠ tkFrom then { handled := false, err := true, kind := .select }
  else
    let (t, s) := nextT L s
    if t ≠ tkIdentifier then { handled := false, err := true, kind := .select }
    else
      let (q, table, _, e, s) := parseQualifiedIdentifier L s
      if e then { handled := false, err := true, kind := .select }
      else
        let ks := if q.isEmpty then keyspace else q
        if !(ks.equal "system") || !(isSystemTable table) then { handled := false, kind := .select }
        else
          let s := rewind s
          let (t, s) := nextT L s
          let (sels, e, oof) := selectorsLoop L fuel s t []
          if e then { handled := true, err := true, kind := .none, oof }
          else { handled := true, kind := .select, table := { text := identID table, ignoreCase := table.ignoreCase }, nsel := sels.length, sels }

/-- `IsQueryHandled(keyspace, query)` -/
def isQueryHandled (L : Lexer) (fuel : Nat) (keyspace : Ident) : Handled :=
  let (t, s) := nextT L { p := 0 }
  if t = tkSelect then handledSelect L fuel s keyspace
  else if t = tkUse then
    let (t, _) := nextT L s
    if t ≠ tkIdentifier then { handled := false, err := true } else { handled := true, kind := .use }
  else { handled := false }

end CqlVerif.Select
