import CqlVerif.Model.Retry
/-
Model.Core — the concurrent core of the proxy as atomic handler steps over a global state:
many client requests in flight, backend connections with their stream-id bookkeeping
(proxycore/requests.go), pool slots (connpool.go), the request handlers of proxy/request.go
(`Execute/OnResult/OnClose`) and the UNPREPARED recovery of clientconn.go.

Each `Act` is one handler invocation that the code runs under `request.mu` (and, for the
registration in `pending`, under `closingMu`); the interleaving of handlers is arbitrary: the
theorems quantify over all action lists. Faithful details that matter:
  * `Send` = register in pending (fails if `closing` or no free stream) *then* enqueue the write;
    on a dead socket the enqueue nondeterministically "succeeds" (frame never delivered) or fails
    (`w`), and a failed write leaves the pending entry behind, as the code does;
  * `Closing` sets `closing` (atomically with respect to `addToPending`) and then calls `OnClose`
    for every entry *without* holding the connection's lock, so other handlers interleave between
    the notifications (`closing` then one `notifyNext` per entry); it does not delete entries;
  * `executeInternal(false)` with a failing Send moves on to the plan's next host.
-/
namespace CqlVerif.Core
open CqlVerif.Retry

abbrev ConnId := Nat
abbrev ReqId := Nat
abbrev BS := Nat          -- backend stream id

inductive Handle where
  | req (r : ReqId)        -- the client's request itself
  | prep (r : ReqId)       -- a re-prepare sent on behalf of request r (prepareRequest)
  deriving DecidableEq, Repr

def Handle.rid : Handle → ReqId
  | .req r => r
  | .prep r => r

structure Req where
  client : Nat
  cstream : Int
  idem : Bool
  plan : List Host
  host : Option Host := none
  rc : Nat := 0
  done : Bool := false
  deriving Repr

structure Conn where
  host : Host
  closing : Bool := false      -- ClientConn.closing
  dead : Bool := false         -- the socket is broken: nothing written from now on is delivered
  notified : Bool := false     -- Closing has run (OnClose delivered to the entries present then)
  pending : List (BS × Handle) := []
  free : List BS := []         -- FIFO of free stream ids (the `streams` channel)
  wire : List (BS × Handle) := []   -- frames delivered to the backend and not yet answered
  toNotify : List (BS × Handle) := []   -- entries `pending.closing` has still to call OnClose for
  inflight : Int := 0
  deriving Repr

/-- a frame written to a client -/
structure Rep where
  rid : ReqId
  client : Nat
  cstream : Int
  origin : Option Handle       -- the backend frame whose answer is being forwarded (none: proxy's own error)
  deriving Repr, DecidableEq

structure St where
  req : ReqId → Req
  nreq : Nat := 0
  conn : ConnId → Conn
  nconn : Nat := 0
  pool : Host → List (Option ConnId)      -- connPool.conns per host (slots may be empty)
  out : List Rep := []

def upd {α} (f : Nat → α) (i : Nat) (v : α) : Nat → α := fun j => if j = i then v else f j
@[simp] theorem upd_same {α} (f : Nat → α) (i : Nat) (v : α) : upd f i v i = v := by simp [upd]
@[simp] theorem upd_other {α} (f : Nat → α) (i j : Nat) (v : α) (h : j ≠ i) : upd f i v j = f j := by simp [upd, h]

def St.setReq (s : St) (r : ReqId) (q : Req) : St := { s with req := upd s.req r q }
def St.setConn (s : St) (c : ConnId) (k : Conn) : St := { s with conn := upd s.conn c k }

/-- `connPool.leastBusyConn` -/
def leastBusyAux (s : St) : List (Option ConnId) → Option ConnId → Int → Option ConnId
  | [], best, _ => best
  | none :: t, best, m => leastBusyAux s t best m
  | some c :: t, best, m =>
    if (s.conn c).inflight < m then leastBusyAux s t (some c) (s.conn c).inflight else leastBusyAux s t best m

def leastBusy (s : St) (h : Host) : Option ConnId :=
  match s.pool h with
  | [] => none
  | [c] => c
  | c0 :: rest => leastBusyAux s (c0 :: rest) c0 2147483647

/-- `ClientConn.Send`: addToPending, then conn.Write. `w`: outcome of the enqueue on a dead socket. -/
def sendTo (s : St) (c : ConnId) (hd : Handle) (w : Bool) : St × Bool :=
  let k := s.conn c
  if k.closing then (s, false) else
  match k.free with
  | [] => (s, false)
  | b :: fr =>
    let k' := { k with free := fr, pending := (b, hd) :: k.pending }
    if k.dead then
      if w then (s.setConn c { k' with inflight := k'.inflight + 1 }, true) else (s.setConn c k', false)
    else (s.setConn c { k' with wire := k'.wire ++ [(b, hd)], inflight := k'.inflight + 1 }, true)

/-- `Session.Send(host, request)` -/
def sendHost (s : St) (h : Host) (hd : Handle) (w : Bool) : St × Bool :=
  match leastBusy s h with
  | none => (s, false)
  | some c => sendTo s c hd w

def finish (s : St) (r : ReqId) (origin : Option Handle) : St :=
  let q := s.req r
  { (s.setReq r { q with done := true }) with
    out := s.out ++ [{ rid := r, client := q.client, cstream := q.cstream, origin := origin }] }

/-- executeInternal(next = true): walk the remaining plan -/
def execNext (s : St) (r : ReqId) (ws : List Bool) : List Host → St
  | [] =>
    let q := s.req r
    finish (s.setReq r { q with plan := [], host := none }) r none
  | h :: rest =>
    let q := s.req r
    let s := s.setReq r { q with plan := rest, host := some h }
    let (s', ok) := sendHost s h (.req r) (ws.headD true)
    if ok then s' else execNext s' r ws.tail rest

/-- executeInternal(next = false) -/
def execSame (s : St) (r : ReqId) (ws : List Bool) : St :=
  match (s.req r).host with
  | none => finish s r none
  | some h =>
    let (s', ok) := sendHost s h (.req r) (ws.headD true)
    if ok then s' else execNext s' r ws.tail (s'.req r).plan

/-- request.OnResult for a backend answer `o` to frame `origin` -/
def onResult (s : St) (r : ReqId) (o : Outcome) (origin : Handle) (ws : List Bool) : St :=
  let q := s.req r
  if q.done then s else
  match o with
  | .success => finish s r (some origin)
  | o =>
    match Retry.decide q.idem q.rc o with
    | .returnError => finish s r (some origin)
    | .retrySame => execSame (s.setReq r { q with rc := q.rc + 1 }) r ws
    | .retryNext => execNext (s.setReq r { q with rc := q.rc + 1 }) r ws q.plan

/-- request.OnClose -/
def onClose (s : St) (r : ReqId) (ws : List Bool) : St :=
  let q := s.req r
  if q.done then s
  else if q.idem then execNext s r ws q.plan
  else finish s r none

/-- request.Execute(next) (called by prepareRequest.OnResult) -/
def execute (s : St) (r : ReqId) (next : Bool) (ws : List Bool) : St :=
  if (s.req r).done then s
  else if next then execNext s r ws (s.req r).plan else execSame s r ws

def removeEntry (p : List (BS × Handle)) (b : BS) : List (BS × Handle) := p.filter (fun e => e.1 ≠ b)

/-- `pendingRequests.loadAndDelete(b)` + `inflight--` + the answered frame leaves the wire -/
def release (k : Conn) (b : BS) : Conn :=
  { k with wire := k.wire.filter (fun e => e.1 ≠ b), pending := removeEntry k.pending b,
           free := k.free ++ [b], inflight := k.inflight - 1 }

def closeAll (s : St) (ws : List Bool) : List (BS × Handle) → St
  | [] => s
  | e :: es => closeAll (onClose s e.2.rid ws) ws es

inductive Act where
  | clientReq (client : Nat) (cstream : Int) (idem : Bool) (plan : List Host) (ws : List Bool)
  | backendReply (c : ConnId) (b : BS) (o : Outcome) (ws : List Bool)
  | connDead (c : ConnId)
  | closing (c : ConnId)                    -- closing := true; the entries present now will be notified
  | notifyNext (c : ConnId) (ws : List Bool)   -- OnClose for the next of them
  | slotCleared (h : Host) (slot : Nat)
  | connect (h : Host) (slot : Nat) (maxStreams : Nat)   -- newPendingRequests(maxStreams): ids 0 … max-1

def setSlot (l : List (Option ConnId)) (i : Nat) (v : Option ConnId) : List (Option ConnId) :=
  if i < l.length then l.set i v else l ++ List.replicate (i - l.length) none ++ [v]

def step (s : St) : Act → St
  | .clientReq client cstream idem plan ws =>
    let r := s.nreq
    let s := { s with nreq := r + 1, req := upd s.req r { client, cstream, idem, plan } }
    execNext s r ws plan
  | .backendReply c b o ws =>
    let k := s.conn c
    -- a well-behaved backend answers a frame it received, once, on the stream it arrived on
    match k.wire.find? (fun e => e.1 = b) with
    | none => s
    | some w =>
      -- ClientConn.Receive: loadAndDelete
      match k.pending.find? (fun e => e.1 = b) with
      | none => s.setConn c { k with wire := k.wire.filter (fun e => e.1 ≠ b) }   -- "invalid stream": the reader closes the connection
      | some e =>
        let s := s.setConn c (release k b)
        match e.2 with
        | .req r =>
          match o with
          | .unprepared true _ =>
            -- maybePrepareAndExecute: re-prepare on this very connection
            let (s', ok) := sendTo s c (.prep r) (ws.headD true)
            if ok then s' else onResult s' r o w.2 ws.tail
          | o => onResult s r o w.2 ws
        | .prep r => execute s r (o != .success) ws
  | .connDead c => s.setConn c { s.conn c with dead := true, wire := [] }
  | .closing c =>
    let k := s.conn c
    if k.notified ∨ !k.dead then s else
    s.setConn c { k with closing := true, notified := true, toNotify := k.pending }
  | .notifyNext c ws =>
    let k := s.conn c
    match k.toNotify with
    | [] => s
    | e :: rest => onClose (s.setConn c { k with toNotify := rest }) e.2.rid ws
  | .slotCleared h slot => { s with pool := upd s.pool h (setSlot (s.pool h) slot none) }
  | .connect h slot maxStreams =>
    let c := s.nconn
    { s with nconn := c + 1, conn := upd s.conn c { host := h, free := List.range maxStreams },
             pool := upd s.pool h (setSlot (s.pool h) slot (some c)) }

def init : St :=
  { req := fun _ => { client := 0, cstream := 0, idem := false, plan := [], done := true },
    conn := fun _ => { host := 0, closing := true, dead := true, notified := true },
    pool := fun _ => [] }

def run (as : List Act) : St := as.foldl step init

end CqlVerif.Core
