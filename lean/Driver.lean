import CqlVerif.Drv.LB
import CqlVerif.Drv.Names
import CqlVerif.Drv.Retry
import CqlVerif.Drv.Core
import CqlVerif.Drv.Storm
import CqlVerif.Drv.Sched
import CqlVerif.Drv.Gate
import CqlVerif.Drv.Prep
import CqlVerif.Drv.Events
import CqlVerif.Drv.Ks
import CqlVerif.Drv.Reconn
import CqlVerif.Drv.Topo
import CqlVerif.Drv.Lex
import CqlVerif.Drv.Idem
import CqlVerif.Drv.Handled
import CqlVerif.Drv.Route
import CqlVerif.Drv.Codec
import CqlVerif.Drv.Bytes
import CqlVerif.Drv.Ring
import CqlVerif.Drv.Hostile
import CqlVerif.Drv.Race
import CqlVerif.Drv.Tls
import CqlVerif.Drv.Late
import CqlVerif.Drv.Cfg
import CqlVerif.Drv.Heal
import CqlVerif.Drv.Shake
import CqlVerif.Drv.Ast
open CqlVerif.Drv

def dispatchStream (stream op real : String) : Verdict :=
  match stream with
  | "lb" => LBStream.handle op real
  | "names" => NamesStream.handle op real
  | "retry" => RetryStream.handle op real
  | "core" => CoreStream.handle op real
  | "storm" => StormStream.handle op real
  | "sched" => SchedStream.handle op real
  | "gate" => GateStream.handle op real
  | "prep" => PrepStream.handle op real
  | "events" => EventsStream.handle op real
  | "ks" => KsStream.handle op real
  | "reconn" => ReconnStream.handle op real
  | "topo" => TopoStream.handle op real
  | "lex" => LexStream.handle op real
  | "idem" => IdemStream.handle op real
  | "handled" => HandledStream.handle op real
  | "route" => RouteStream.handle op real
  | "codec" => CodecStream.handle op real
  | "bytes" => BytesStream.handle op real
  | "ring" => RingStream.handle op real
  | "hostile" => HostileStream.handle op real
  | "race" => RaceStream.handle op real
  | "tls" => TlsStream.handle op real
  | "late" => LateStream.handle op real
  | "cfg" => CfgStream.handle op real
  | "heal" => HealStream.handle op real
  | "shake" => ShakeStream.handle op real
  | "ast" => AstStream.handle op real
  | _ => { kind := "diff", detail := s!"unknown stream {stream}" }

/-- the harness could not set the case up (no port, no connection): that says nothing about the code -/
def dispatch (stream op real : String) : Verdict :=
  if real.startsWith "env-error" || real.startsWith "dial-error" || (real.splitOn "address already in use").length > 1 then
    { kind := "diff", sig := "harness", key := "harness:environment", detail := real }
  else dispatchStream stream op real

partial def loop (h : IO.FS.Stream) (out : IO.FS.Stream) : IO Unit := do
  let line ← h.getLine
  if line.isEmpty then return ()
  let line := (line.dropEndWhile (· == (Char.ofNat 10))).toString
  match line.splitOn "\t" with
  | [stream, op, real] => out.putStrLn (dispatch stream op real).render
  | [stream, op] => out.putStrLn (dispatch stream op "").render
  | _ => out.putStrLn "diff\t\tmalformed line"
  loop h out

def main : IO Unit := do
  let out ← IO.getStdout
  loop (← IO.getStdin) out
  out.flush
