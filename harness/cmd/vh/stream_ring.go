package main

import (
	"crypto/md5"
	"encoding/binary"
	"encoding/hex"
	"fmt"
	"net"
	"strings"
	"time"

	"github.com/datastax/cql-proxy/proxy"
	"github.com/datastax/go-cassandra-native-protocol/datatype"
	"github.com/datastax/go-cassandra-native-protocol/message"
	"github.com/datastax/go-cassandra-native-protocol/primitive"
	"verifharness/internal/e2e"
	"verifharness/internal/rng"
)

// ring: the virtual system.local / system.peers tables of a configured proxy.
// op:   A:<rpc-address|-> D:<data-center|-> T:<own tokens ,-separated|-> X:<dse 0|1> P:<peer;peer;…  each addr/dc/tokens(+-separated)|-> Q:<hex of the SELECT>
// real: connect-error:<class> | invalid:<message class> | cols=<name:type,…> n=<rows> then per row r=<v|v|…> (values canonical, hex for varchar)

func init() { streams["ring"] = stream{gen: genRing, run: runRing} }

func decodeValue(t datatype.DataType, b []byte) string {
	if b == nil {
		return "null"
	}
	switch t.Code() {
	case primitive.DataTypeCodeVarchar, primitive.DataTypeCodeAscii:
		return "s" + hex.EncodeToString(b)
	case primitive.DataTypeCodeInet:
		return "ip" + net.IP(b).String()
	case primitive.DataTypeCodeUuid:
		return "u" + hex.EncodeToString(b)
	case primitive.DataTypeCodeTimeuuid:
		if len(b) == 16 && b[6]>>4 == 1 {
			return "timeuuid"
		}
		return "bad-timeuuid"
	case primitive.DataTypeCodeInt:
		if len(b) != 4 {
			return "bad-int"
		}
		return fmt.Sprintf("i%d", int32(binary.BigEndian.Uint32(b)))
	case primitive.DataTypeCodeSet, primitive.DataTypeCodeList:
		if len(b) < 4 {
			return "bad-coll"
		}
		n := int(int32(binary.BigEndian.Uint32(b)))
		p := b[4:]
		var els []string
		for i := 0; i < n; i++ {
			if len(p) < 4 {
				return "bad-coll"
			}
			l := int(int32(binary.BigEndian.Uint32(p)))
			p = p[4:]
			if l < 0 || l > len(p) {
				return "bad-coll"
			}
			els = append(els, hex.EncodeToString(p[:l]))
			p = p[l:]
		}
		if len(p) != 0 {
			return "bad-coll"
		}
		return "l[" + strings.Join(els, ",") + "]"
	}
	return "x" + hex.EncodeToString(b)
}

func runRing(op string) (out string) {
	defer func() {
		if p := recover(); p != nil {
			out = fmt.Sprintf("panic:%v", strings.ReplaceAll(fmt.Sprint(p), " ", "_"))
		}
	}()
	par := map[string]string{"A": "-", "D": "-", "T": "-", "X": "0", "P": "-", "Q": ""}
	for _, t := range strings.Fields(op) {
		if len(t) >= 2 && t[1] == ':' {
			par[t[:1]] = t[2:]
		}
	}
	// <canonical text>@<16 bytes hex>[@<the spelling given to the proxy>]
	strip := func(a string) string {
		f := strings.Split(a, "@")
		if len(f) == 3 {
			return f[2]
		}
		return f[0]
	}
	canon := func(a string) string {
		if ip := net.ParseIP(a); ip != nil {
			return ip.String()
		}
		return a
	}
	o := e2e.Options{Hosts: 1}
	if par["A"] != "-" {
		o.RPCAddr = strip(par["A"])
	}
	if par["D"] != "-" {
		o.DC = par["D"]
	}
	if par["T"] != "-" {
		o.Tokens = strings.Split(par["T"], ",")
	}
	if par["X"] == "1" {
		o.DSEVersion = "6.8.0"
	}
	if par["P"] != "-" {
		for _, ps := range strings.Split(par["P"], ";") {
			f := strings.Split(ps, "/")
			pc := proxy.PeerConfig{RPCAddr: strip(f[0])}
			if len(f) > 1 && f[1] != "" {
				pc.DC = f[1]
			}
			if len(f) > 2 && f[2] != "" {
				pc.Tokens = strings.Split(f[2], "+")
			}
			o.Peers = append(o.Peers, pc)
		}
	}
	env, err := e2e.Start(o)
	if err != nil {
		msg := err.Error()
		switch {
		case strings.Contains(msg, "RPC address is not set"):
			return "connect-error:peers-without-rpc-address"
		case strings.Contains(msg, "no 'rpc-address' provided for peer"):
			return "connect-error:peer-without-rpc-address"
		case strings.Contains(msg, "tokens must be provided"):
			return "connect-error:peer-without-tokens"
		case strings.Contains(msg, "invalid"):
			return "connect-error:invalid-address"
		}
		return "connect-error:" + strings.ReplaceAll(msg, " ", "_")
	}
	defer env.Close()
	if par["W"] == "1" {
		// the control connection is lost and re-established, and the node that answers now is of the other kind
		// (plain / DSE): what the proxy presents was fixed when it started and must not change
		if o.DSEVersion == "" {
			env.Cluster.SetDSEVersion("6.8.0")
		} else {
			env.Cluster.SetDSEVersion("")
		}
		for _, ip := range env.Cluster.NodeIPs() {
			env.Cluster.Node(ip).DropConns(func(c interface{ Registered() bool }) bool { return c.Registered() })
		}
		time.Sleep(10 * time.Millisecond)
		restored := false
		for i := 0; i < 600 && !restored; i++ {
			for _, ip := range env.Cluster.NodeIPs() {
				for _, c := range env.Cluster.Node(ip).Conns() {
					restored = restored || c.Registered()
				}
			}
			time.Sleep(5 * time.Millisecond)
		}
		if !restored {
			return "env-error:control-connection-not-restored"
		}
		time.Sleep(60 * time.Millisecond) // the topology queries that follow the REGISTER
	}
	cl, err := env.Dial(primitive.ProtocolVersion4, "")
	if err != nil {
		return "dial-error"
	}
	defer cl.Close()
	q, _ := hex.DecodeString(par["Q"])
	_ = cl.Send(1, &message.Query{Query: string(q), Options: &message.QueryOptions{Consistency: primitive.ConsistencyLevelOne}})
	r, err := cl.Recv(3 * time.Second)
	if err != nil || r.Frame == nil {
		return "none"
	}
	switch m := r.Frame.Body.Message.(type) {
	case message.Error:
		txt := m.GetErrorMessage()
		switch {
		case strings.HasPrefix(txt, "invalid column"):
			return "invalid:column"
		case strings.HasPrefix(txt, "Doesn't exist"):
			return "invalid:doesnt-exist"
		case strings.Contains(txt, "unsupported") || strings.Contains(txt, "unable") || strings.Contains(txt, "expected") || strings.Contains(txt, "unexpected"):
			return "invalid:unsupported"
		}
		return "error:" + strings.ReplaceAll(txt, " ", "_")
	case *message.RowsResult:
		var cols []string
		for _, c := range m.Metadata.Columns {
			cols = append(cols, fmt.Sprintf("%s.%s.%s:%d", c.Keyspace, c.Table, c.Name, c.Type.Code()))
		}
		oracle := map[string]string{v3uuid("127.0.0.1"): "127.0.0.1"}
		if o.RPCAddr != "" {
			oracle[v3uuid(canon(o.RPCAddr))] = canon(o.RPCAddr)
		}
		for _, pc := range o.Peers {
			oracle[v3uuid(canon(pc.RPCAddr))] = canon(pc.RPCAddr)
		}
		parts := []string{"cols=" + strings.Join(cols, ","), fmt.Sprintf("n=%d", len(m.Data))}
		if int(m.Metadata.ColumnCount) != len(m.Metadata.Columns) {
			parts = append(parts, "column-count-mismatch")
		}
		for _, row := range m.Data {
			var vs []string
			if len(row) != len(m.Metadata.Columns) {
				parts = append(parts, "row-width-mismatch")
				continue
			}
			for i, v := range row {
				dv := decodeValue(m.Metadata.Columns[i].Type, v)
				if strings.HasPrefix(dv, "u") && dv != "u4f2b29e659b54e2d8fd601e32e67f0d7" {
					// the model computes the bytes itself (Model/Md5); independently of it, a host id must be the
					// version-3 UUID of one of the configured addresses
					if _, ok := oracle[dv[1:]]; !ok {
						dv = "hostid-unknown:" + dv
					}
				}
				vs = append(vs, dv)
			}
			parts = append(parts, "r="+strings.Join(vs, "|"))
		}
		return strings.Join(parts, " ")
	}
	return "other"
}

// v3uuid is the independent oracle for host ids: version-3 (name based, MD5) UUID of the address text
func v3uuid(name string) string {
	h := md5.Sum([]byte(name))
	h[6] = (h[6] & 0x0f) | 0x30
	h[8] = (h[8] & 0x3f) | 0x80
	return hex.EncodeToString(h[:])
}

func genRing(e *emitter, r *rng.R, n int, tier string) {
	var ops []string
	defer func() { e.emitAll(ops, 12) }()
	addrs := []string{"127.0.0.1", "127.0.0.2", "10.0.0.9", "10.0.0.10", "192.168.1.1", "9.255.255.255", "::1", "fe80::1", "2001:db8::2", "2001:db8::10", "172.16.0.1", "1.1.1.1", "8.8.8.8", "100.64.0.7", "203.0.113.5", "fd00::5"}
	dcs := []string{"", "dc1", "dc2", "DC-East"}
	locals := []string{"*", "key", "key, rpc_address, data_center", "host_id, tokens", "count(*)", "COUNT(key)", "now()", "key AS k, host_id AS h", "rack, release_version, partitioner, cluster_name, cql_version, schema_version, native_protocol_version", "dse_version", "nope", "*, key", "tokens AS t, count(*)"}
	peers := []string{"*", "peer", "peer, rpc_address, data_center, rack, tokens, host_id", "count(*)", "count(peer) AS c", "peer AS p, tokens", "release_version, schema_version", "key", "dse_version, peer"}
	hx := func(s string) string { return hex.EncodeToString([]byte(s)) }
	for i := 0; i < n; i++ {
		rr := r.Fork(uint64(i))
		np := rr.Intn(6)
		if rr.Chance(1, 10) {
			np = 8 + rr.Intn(9)
		}
		perm := append([]string{}, addrs...)
		for j := len(perm) - 1; j > 0; j-- {
			k := rr.Intn(j + 1)
			perm[j], perm[k] = perm[k], perm[j]
		}
		self := perm[0]
		list := perm[1 : 1+min(np, len(perm)-1)]
		if rr.Bool() && len(list) > 0 { // the shared list names this proxy too
			list = append(append([]string{}, list...), self)
			k := rr.Intn(len(list))
			list[k], list[len(list)-1] = list[len(list)-1], list[k]
		}
		withTokens := rr.Chance(1, 4)
		// (peers that name tokens while this proxy names none: the ring is then calculated, for every node)
		peerTokens := withTokens || rr.Chance(1, 6)
		// the same address can be written in several ways; what the proxy presents must not depend on the spelling
		spell := map[string][]string{"::1": {"0:0:0:0:0:0:0:1", "0000::0001"}, "fe80::1": {"FE80::1", "fe80:0:0:0:0:0:0:1"}, "2001:db8::2": {"2001:0db8::0002", "2001:DB8:0:0::2"},
			"2001:db8::10": {"2001:db8:0::10", "2001:0DB8::0010"}, "fd00::5": {"fd00:0:0:0:0:0:0:5", "FD00::5"}, "127.0.0.1": {"::ffff:127.0.0.1"}, "10.0.0.9": {"::ffff:10.0.0.9", "0:0:0:0:0:ffff:a00:9"}, "8.8.8.8": {"::FFFF:8.8.8.8"}}
		ann := func(a string) string {
			if a == "" {
				return a
			}
			if alts := spell[a]; len(alts) > 0 && rr.Chance(1, 3) {
				return a + "@" + hex.EncodeToString(net.ParseIP(a).To16()) + "@" + rr.Pick(alts)
			}
			return a + "@" + hex.EncodeToString(net.ParseIP(a).To16())
		}
		var ps []string
		for j, a := range list {
			tok := ""
			if peerTokens && !(rr.Chance(1, 12)) {
				tok = fmt.Sprintf("%d+%d", -9000000000000000000+int64(j)*1000, int64(j)*77)
			}
			if rr.Chance(1, 25) {
				a = "" // a peer without rpc-address
			}
			ps = append(ps, ann(a)+"/"+dcs[rr.Intn(len(dcs))]+"/"+tok)
		}
		A := ann(self)
		if rr.Chance(1, 8) {
			A = "-"
		}
		T := "-"
		if withTokens {
			T = "-1000,2000"
		}
		P := "-"
		if len(ps) > 0 {
			P = strings.Join(ps, ";")
		}
		D := "-"
		if rr.Bool() {
			D = rr.Pick([]string{"dc1", "dc2", "DC-East"})
		}
		table, sel := "local", rr.Pick(locals)
		if rr.Bool() {
			table, sel = "peers", rr.Pick(peers)
		}
		tn := rr.Pick([]string{"system." + table, "system." + table, "SYSTEM." + strings.ToUpper(table), "system.\"" + table + "\""})
		if rr.Chance(1, 15) {
			tn = rr.Pick([]string{"system.peers_v2", "system.schema_keyspaces", "system.schema_columns"})
		}
		W := ""
		if rr.Chance(1, 6) {
			W = " W:1"
			if rr.Bool() {
				sel = rr.Pick([]string{"*", "dse_version", "key, dse_version", "*"})
				if table == "peers" {
					sel = rr.Pick([]string{"*", "dse_version, peer", "*"})
				}
			}
		}
		ops = append(ops, fmt.Sprintf("A:%s D:%s T:%s X:%d P:%s Q:%s%s", A, D, T, rr.Intn(2), P, hx("SELECT "+sel+" FROM "+tn), W))
	}
}
