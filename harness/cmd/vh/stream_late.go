package main

import (
	"context"
	"fmt"
	"strconv"
	"strings"
	"sync"
	"time"

	"github.com/datastax/cql-proxy/proxycore"
	"github.com/datastax/go-cassandra-native-protocol/frame"
	"github.com/datastax/go-cassandra-native-protocol/message"
	"github.com/datastax/go-cassandra-native-protocol/primitive"
	"verifharness/internal/e2e"
	"verifharness/internal/fakecass"
	"verifharness/internal/rng"
)

// late: one backend connection (proxycore.ClientConn, as pools and the control connection use it) over a long
// history: internal requests whose caller gives up waiting (heart-beat / topology query timing out) while the
// backend answers them much later, with thousands of forwarded requests recycling the connection's stream ids
// in between.
// op:   sequence of
//         t<k>      k internal requests (OPTIONS through SendAndReceive) whose context expires before the backend answers
//         r<n>      n forwarded requests, each answered at once with its own tag
//         h<n>      n forwarded requests sent, their answers held back
//         l         the backend now answers every timed-out internal request (late answers)
//         a         the backend answers the held requests, oldest first
// real: ok=<requests that got their own answer> [misrouted:<request>-got-<what>] [unanswered=<n>] [closed]

func init() { streams["late"] = stream{gen: genLate, run: runLate} }

type lateReq struct {
	frm  *frame.Frame
	tag  string
	mu   sync.Mutex
	got  []string
	done chan struct{}
	once sync.Once
}

func (r *lateReq) Frame() interface{}     { return r.frm }
func (r *lateReq) IsPrepareRequest() bool { return false }
func (r *lateReq) Execute(bool)           {}
func (r *lateReq) OnClose(error) {
	r.mu.Lock()
	r.got = append(r.got, "closed")
	r.mu.Unlock()
	r.once.Do(func() { close(r.done) })
}
func (r *lateReq) OnResult(raw *frame.RawFrame) {
	what := fmt.Sprintf("opcode%d", raw.Header.OpCode)
	if f, err := fakecass.Codec("").ConvertFromRawFrame(raw); err == nil {
		if rows, ok := f.Body.Message.(*message.RowsResult); ok && len(rows.Data) == 1 && len(rows.Data[0]) == 1 {
			what = string(rows.Data[0][0])
		} else if _, ok := f.Body.Message.(*message.Supported); ok {
			what = "SUPPORTED"
		}
	}
	r.mu.Lock()
	r.got = append(r.got, what)
	r.mu.Unlock()
	r.once.Do(func() { close(r.done) })
}

func runLate(op string) (out string) {
	defer func() {
		if p := recover(); p != nil {
			out = fmt.Sprintf("panic:%v", p)
		}
	}()
	port, err := e2e.FreePort("127.0.0.1")
	if err != nil {
		return "env-error"
	}
	cl := fakecass.NewCluster(port)
	defer cl.Shutdown()
	if _, err := cl.AddNode("127.0.0.1", "dc1"); err != nil {
		return "env-error:" + err.Error()
	}
	var mu sync.Mutex
	type heldOpt struct {
		c      *fakecass.Conn
		v      primitive.ProtocolVersion
		stream int16
	}
	var heldInternal []heldOpt
	var heldReqs []*fakecass.Request
	holdNext := 0
	cl.OptionsHandler = func(c *fakecass.Conn, h *frame.Header) (fakecass.Response, bool) {
		mu.Lock()
		defer mu.Unlock()
		heldInternal = append(heldInternal, heldOpt{c, h.Version, h.StreamId})
		return fakecass.Response{Kind: fakecass.RespSilent}, true
	}
	cl.Handler = func(rq *fakecass.Request) fakecass.Response {
		mu.Lock()
		defer mu.Unlock()
		if holdNext > 0 {
			holdNext--
			heldReqs = append(heldReqs, rq)
			return fakecass.Response{Kind: fakecass.RespSilent}
		}
		return fakecass.Response{Kind: fakecass.RespMsg, Msg: rowsWith(fmt.Sprint(tokenOf(rq)))}
	}
	ctx, cancel := context.WithTimeout(context.Background(), 5*time.Second)
	conn, err := proxycore.ConnectClient(ctx, proxycore.NewEndpoint(fmt.Sprintf("127.0.0.1:%d", port)), proxycore.ClientConnConfig{})
	if err == nil {
		_, err = conn.Handshake(ctx, primitive.ProtocolVersion4, nil)
	}
	cancel()
	if err != nil {
		return "connect-error:" + strings.ReplaceAll(err.Error(), " ", "_")
	}
	defer conn.Close()
	var reqs []*lateReq
	send := func() *lateReq {
		tok := len(reqs)
		r := &lateReq{tag: fmt.Sprint(tok), done: make(chan struct{}),
			frm: frame.NewFrame(primitive.ProtocolVersion4, 0, &message.Query{Query: fmt.Sprintf("SELECT v FROM ks.t /*t%d*/", tok),
				Options: &message.QueryOptions{Consistency: primitive.ConsistencyLevelOne}})}
		reqs = append(reqs, r)
		if err := conn.Send(r); err != nil {
			r.OnClose(err)
		}
		return r
	}
	wait := func(r *lateReq) {
		select {
		case <-r.done:
		case <-time.After(2 * time.Second):
		}
	}
	for _, a := range strings.Fields(op) {
		n, _ := strconv.Atoi(a[1:])
		switch a[0] {
		case 't':
			for i := 0; i < n; i++ {
				c, cancel := context.WithTimeout(context.Background(), 15*time.Millisecond)
				_, _ = conn.SendAndReceive(c, frame.NewFrame(primitive.ProtocolVersion4, 0, &message.Options{}))
				cancel()
			}
		case 'r':
			for i := 0; i < n; i++ {
				wait(send())
			}
		case 'h':
			mu.Lock()
			holdNext = n
			mu.Unlock()
			for i := 0; i < n; i++ {
				send()
			}
			for i := 0; i < 200; i++ { // until the backend has them
				mu.Lock()
				k := holdNext
				mu.Unlock()
				if k == 0 {
					break
				}
				time.Sleep(time.Millisecond)
			}
		case 'l':
			mu.Lock()
			hs := heldInternal
			heldInternal = nil
			mu.Unlock()
			for _, h := range hs {
				_ = h.c.Send(h.v, h.stream, &message.Supported{Options: map[string][]string{"CQL_VERSION": {"3.4.5"}}})
			}
			time.Sleep(15 * time.Millisecond)
		case 'a':
			mu.Lock()
			hs := heldReqs
			heldReqs = nil
			mu.Unlock()
			for _, rq := range hs {
				_ = rq.Conn.Send(rq.Header.Version, rq.Header.StreamId, rowsWith(fmt.Sprint(tokenOf(rq))))
			}
			time.Sleep(15 * time.Millisecond)
		}
	}
	time.Sleep(20 * time.Millisecond)
	ok, unanswered := 0, 0
	var bad []string
	closed := false
	for _, r := range reqs {
		r.mu.Lock()
		switch {
		case len(r.got) == 0:
			unanswered++
		case len(r.got) == 1 && r.got[0] == r.tag:
			ok++
		case r.got[0] == "closed":
			closed = true
		default:
			bad = append(bad, fmt.Sprintf("misrouted:%s-got-%s", r.tag, strings.Join(r.got, "+")))
		}
		r.mu.Unlock()
	}
	res := fmt.Sprintf("ok=%d", ok)
	if len(bad) > 3 {
		bad = append(bad[:3], fmt.Sprintf("and-%d-more", len(bad)-3))
	}
	if len(bad) > 0 {
		res += " " + strings.Join(bad, " ")
	}
	if unanswered > 0 {
		res += fmt.Sprintf(" unanswered=%d", unanswered)
	}
	if closed {
		res += " closed"
	}
	return res
}

func genLate(e *emitter, r *rng.R, n int, tier string) {
	ops := []string{
		"t1 r2047 h1 l a",          // the timed-out request's stream id comes round exactly when the late answer arrives
		"t1 r2048 h2 l a",
		"t3 r2045 h4 l a r10",
		"t1 r10 l r2100",
		"t2 h5 l a r2050 h3 a",
		"r100 t1 r1947 h1 l a",
		"t1 r4095 h1 l a",
	}
	defer func() { e.emitAll(ops, 8) }()
	for i := 0; i < n; i++ {
		rr := r.Fork(uint64(i))
		var parts []string
		timedOut := 0
		for j := 0; j < 2+rr.Intn(6); j++ {
			switch rr.Intn(6) {
			case 0:
				k := 1 + rr.Intn(3)
				timedOut += k
				parts = append(parts, fmt.Sprintf("t%d", k))
			case 1:
				parts = append(parts, fmt.Sprintf("r%d", []int{1, 7, 2040, 2046, 2047, 2048, 2049, 300}[rr.Intn(8)]))
			case 2:
				parts = append(parts, fmt.Sprintf("h%d", 1+rr.Intn(5)))
			case 3:
				parts = append(parts, "l")
			case 4:
				parts = append(parts, "a")
			default:
				parts = append(parts, fmt.Sprintf("r%d", 2048-timedOut-rr.Intn(3)))
			}
		}
		parts = append(parts, "l", "a")
		ops = append(ops, strings.Join(parts, " "))
	}
}
