package main

import (
	"fmt"
	"go/ast"
	"go/parser"
	"go/token"
	"path/filepath"
	"sort"
	"strings"
)

// extract tls: the shape of the code that decides whom an Astra-bundle connection trusts, as facts read off the
// syntax tree of /repo's current source: what copyTLSConfig puts into the per-node tls.Config and into the
// VerifyOptions of its callback (and that they are built inside the callback, at handshake time), what
// LoadBundleZip puts into the bundle's tls.Config, how the resolver derives its configs, and that Connect
// completes the TLS handshake before the connection's goroutines start.  Output: Gen/TlsFacts.lean; theorem
// C19.tls_shape_ok compares it with Spec/TlsShape.lean, which ties Model/Tls.lean's `accept` to this code.

func init() { extractors["tls"] = extractTLS }

func extractTLS(outDir string) error {
	fset := token.NewFileSet()
	facts := map[string]string{}
	multi := map[string][]string{}
	parse := func(rel string) (*ast.File, error) {
		return parser.ParseFile(fset, filepath.Join(repoRoot(), rel), nil, 0)
	}
	text := func(n ast.Node) string { return exprText(fset, n) }
	findFunc := func(f *ast.File, name string) *ast.FuncDecl {
		for _, d := range f.Decls {
			if fd, ok := d.(*ast.FuncDecl); ok && fd.Name.Name == name {
				return fd
			}
		}
		return nil
	}
	// --- astra/endpoint.go
	ep, err := parse("astra/endpoint.go")
	if err != nil {
		return err
	}
	if fd := findFunc(ep, "copyTLSConfig"); fd != nil {
		var cb *ast.FuncLit
		ast.Inspect(fd.Body, func(n ast.Node) bool {
			if as, ok := n.(*ast.AssignStmt); ok && len(as.Lhs) == 1 && len(as.Rhs) == 1 {
				if sel, ok := as.Lhs[0].(*ast.SelectorExpr); ok && text(sel.X) == "tlsConfig" {
					if fl, ok := as.Rhs[0].(*ast.FuncLit); ok {
						facts["copy."+sel.Sel.Name] = "callback"
						if sel.Sel.Name == "VerifyPeerCertificate" {
							cb = fl
						}
					} else {
						facts["copy."+sel.Sel.Name] = text(as.Rhs[0])
					}
				}
				if id, ok := as.Lhs[0].(*ast.Ident); ok && id.Name == "tlsConfig" {
					facts["copy.base"] = text(as.Rhs[0])
				}
			}
			return true
		})
		if cb != nil {
			ast.Inspect(cb.Body, func(n ast.Node) bool {
				switch x := n.(type) {
				case *ast.CompositeLit:
					if text(x.Type) == "x509.VerifyOptions" {
						facts["verify.optionsBuiltInCallback"] = "true"
						var keys []string
						for _, el := range x.Elts {
							if kv, ok := el.(*ast.KeyValueExpr); ok {
								facts["verify."+text(kv.Key)] = text(kv.Value)
								keys = append(keys, text(kv.Key))
							}
						}
						sort.Strings(keys)
						facts["verify.optionKeys"] = strings.Join(keys, ",")
					}
				case *ast.CallExpr:
					if sel, ok := x.Fun.(*ast.SelectorExpr); ok {
						switch sel.Sel.Name {
						case "Verify":
							multi["verify.calls"] = append(multi["verify.calls"], text(x))
						case "AddCert", "AppendCertsFromPEM":
							multi["verify.poolAdds"] = append(multi["verify.poolAdds"], text(x))
						}
					}
				case *ast.RangeStmt:
					multi["verify.ranges"] = append(multi["verify.ranges"], text(x.X))
				case *ast.ReturnStmt:
					var rs []string
					for _, r := range x.Results {
						rs = append(rs, text(r))
					}
					multi["verify.returns"] = append(multi["verify.returns"], strings.Join(rs, ","))
				case *ast.AssignStmt:
					for _, r := range x.Rhs {
						if c, ok := r.(*ast.CallExpr); ok {
							if sel, ok := c.Fun.(*ast.SelectorExpr); ok && sel.Sel.Name == "Verify" {
								var ls []string
								for _, l := range x.Lhs {
									ls = append(ls, text(l))
								}
								facts["verify.resultTo"] = strings.Join(ls, ",")
							}
						}
					}
				}
				return true
			})
		}
		// VerifyOptions anywhere outside the callback would mean options fixed when the endpoint is created
		outside := 0
		ast.Inspect(fd.Body, func(n ast.Node) bool {
			if n == ast.Node(cb) {
				return false
			}
			if cl, ok := n.(*ast.CompositeLit); ok && text(cl.Type) == "x509.VerifyOptions" {
				outside++
			}
			return true
		})
		facts["verify.optionsOutsideCallback"] = fmt.Sprint(outside)
	}
	ast.Inspect(ep, func(n ast.Node) bool {
		if c, ok := n.(*ast.CallExpr); ok {
			if id, ok := c.Fun.(*ast.Ident); ok && id.Name == "copyTLSConfig" {
				var as []string
				for _, a := range c.Args {
					as = append(as, text(a))
				}
				multi["endpoint.copyCalls"] = append(multi["endpoint.copyCalls"], strings.Join(as, ","))
			}
		}
		if kv, ok := n.(*ast.KeyValueExpr); ok && text(kv.Key) == "TLSClientConfig" {
			facts["resolve.TLSClientConfig"] = text(kv.Value)
		}
		return true
	})
	// --- astra/bundle.go
	bf, err := parse("astra/bundle.go")
	if err != nil {
		return err
	}
	if fd := findFunc(bf, "LoadBundleZip"); fd != nil {
		ast.Inspect(fd.Body, func(n ast.Node) bool {
			switch x := n.(type) {
			case *ast.CompositeLit:
				if text(x.Type) == "tls.Config" {
					var keys []string
					for _, el := range x.Elts {
						if kv, ok := el.(*ast.KeyValueExpr); ok {
							facts["bundle."+text(kv.Key)] = text(kv.Value)
							keys = append(keys, text(kv.Key))
						}
					}
					sort.Strings(keys)
					facts["bundle.configKeys"] = strings.Join(keys, ",")
				}
			case *ast.CallExpr:
				if sel, ok := x.Fun.(*ast.SelectorExpr); ok && sel.Sel.Name == "AppendCertsFromPEM" {
					multi["bundle.poolAdds"] = append(multi["bundle.poolAdds"], text(x))
				}
			case *ast.AssignStmt:
				if len(x.Lhs) >= 1 && text(x.Lhs[0]) == "rootCAs" && len(x.Rhs) == 1 {
					facts["bundle.rootCAsFrom"] = text(x.Rhs[0])
				}
				if len(x.Lhs) >= 1 && text(x.Lhs[0]) == "cert" && len(x.Rhs) == 1 {
					facts["bundle.certFrom"] = text(x.Rhs[0])
				}
			}
			return true
		})
	}
	// --- proxycore/conn.go
	cf, err := parse("proxycore/conn.go")
	if err != nil {
		return err
	}
	if fd := findFunc(cf, "Connect"); fd != nil {
		var hs, start, client token.Pos
		ast.Inspect(fd.Body, func(n ast.Node) bool {
			if c, ok := n.(*ast.CallExpr); ok {
				switch text(c.Fun) {
				case "tlsConn.Handshake":
					hs = c.Pos()
				case "NewConn":
					start = c.Pos()
				case "tls.Client":
					client = c.Pos()
					var as []string
					for _, a := range c.Args {
						as = append(as, text(a))
					}
					facts["connect.tlsClientArgs"] = strings.Join(as, ",")
				}
			}
			if is, ok := n.(*ast.IfStmt); ok && is.Init != nil && strings.Contains(text(is.Init), "tlsConn.Handshake()") {
				facts["connect.handshakeErrorBranch"] = text(is.Cond) + " => " + lastStmt(fset, is.Body)
			}
			return true
		})
		facts["connect.order"] = fmt.Sprintf("client<handshake=%v handshake<start=%v", client < hs && client.IsValid(), hs < start && hs.IsValid())
	}
	for k, v := range multi {
		facts[k] = strings.Join(v, " | ")
	}
	var keys []string
	for k := range facts {
		keys = append(keys, k)
	}
	sort.Strings(keys)
	var sb strings.Builder
	sb.WriteString("-- GENERATED by `vh extract tls` from /repo (astra/endpoint.go, astra/bundle.go, proxycore/conn.go). Do not edit.\n")
	sb.WriteString("namespace CqlVerif.Gen.TlsFacts\n\ndef facts : List (String × String) := [\n")
	for i, k := range keys {
		sep := ","
		if i == len(keys)-1 {
			sep = ""
		}
		fmt.Fprintf(&sb, "  (%s, %s)%s\n", leanStr(k), leanStr(facts[k]), sep)
	}
	sb.WriteString("]\n\nend CqlVerif.Gen.TlsFacts\n")
	return writeGen(outDir, "TlsFacts.lean", sb.String())
}

func lastStmt(fset *token.FileSet, b *ast.BlockStmt) string {
	if b == nil || len(b.List) == 0 {
		return ""
	}
	return exprText(fset, b.List[len(b.List)-1])
}
