package main

import (
	"encoding/hex"
	"fmt"
	"strings"

	"github.com/datastax/cql-proxy/proxy"
	"verifharness/internal/rng"
)

// names: the option-name parsers on documented spellings, all their case variants, near-misses
// and mutated names. op = "version:<hex>" | "consistency:<hex>"; real = value or "rejected".

func init() {
	streams["names"] = stream{gen: genNames, run: runNames}
}

func runNames(op string) string {
	i := strings.IndexByte(op, ':')
	if i < 0 {
		return "bad-op"
	}
	raw, err := hex.DecodeString(op[i+1:])
	if err != nil {
		return "bad-op"
	}
	switch op[:i] {
	case "version":
		if v, ok := proxy.VerifParseProtocolVersion(string(raw)); ok {
			return fmt.Sprint(v)
		}
		return "rejected"
	case "consistency":
		if v, ok := proxy.VerifUnmarshalConsistency(string(raw)); ok {
			return fmt.Sprint(v)
		}
		return "rejected"
	}
	return "bad-op"
}

func mutateName(r *rng.R, s string) string {
	b := []byte(s)
	switch r.Intn(6) {
	case 0:
		if len(b) > 0 {
			b = append(b[:r.Intn(len(b))], b[min(len(b), r.Intn(len(b))+1):]...)
		}
	case 1:
		i := r.Intn(len(b) + 1)
		b = append(b[:i], append([]byte{byte(32 + r.Intn(95))}, b[i:]...)...)
	case 2:
		if len(b) > 0 {
			b[r.Intn(len(b))] = byte(32 + r.Intn(95))
		}
	case 3:
		b = append(b, b...)
	case 4:
		b = append([]byte(" "), b...)
	case 5:
		if len(b) > 1 {
			i := r.Intn(len(b) - 1)
			b[i], b[i+1] = b[i+1], b[i]
		}
	}
	return string(b)
}

func genNames(e *emitter, r *rng.R, n int, tier string) {
	for _, nm := range versionNames {
		for _, v := range caseVariants(nm) {
			e.emit("version:" + hex.EncodeToString([]byte(v)))
		}
	}
	for _, v := range versionNearMisses {
		e.emit("version:" + hex.EncodeToString([]byte(v)))
	}
	for _, nm := range consistencyNames {
		vs := caseVariants(nm)
		if tier != "thorough" && len(vs) > 64 {
			// quick: lower, upper, and a deterministic sample; the full set is in Gen.ConfigTables
			sample := []string{vs[0], vs[len(vs)-1]}
			for i := 0; i < 62; i++ {
				sample = append(sample, vs[r.Intn(len(vs))])
			}
			vs = sample
		}
		for _, v := range vs {
			e.emit("consistency:" + hex.EncodeToString([]byte(v)))
		}
	}
	for _, v := range consistencyNearMisses {
		e.emit("consistency:" + hex.EncodeToString([]byte(v)))
	}
	for i := 0; i < n; i++ {
		if r.Bool() {
			e.emit("version:" + hex.EncodeToString([]byte(mutateName(r, r.Pick(versionNames)))))
		} else {
			e.emit("consistency:" + hex.EncodeToString([]byte(mutateName(r, r.Pick(consistencyNames)))))
		}
	}
}
