package main

import (
	"fmt"
	"go/ast"
	"go/parser"
	"go/token"
	"path/filepath"
	"sort"
	"strings"
)

// extract slot: the two loops that keep a backend connection alive - connPool.stayConnected (proxycore/connpool.go)
// and Cluster.stayConnected (proxycore/cluster.go) - as facts read off the syntax tree of /repo's current source:
// where the private reconnect policy comes from, what the loop does when it has no connection and no timer
// (how often it asks the policy, what the timer is armed with), what it does when the timer fires (the attempt,
// Reset() on success only, pendingConnect cleared either way) and when the connection is reported closed.
// Logging statements are left out. Output: Gen/SlotFacts.lean; theorem C16.slot_shape_ok compares it with
// Spec/SlotShape.lean, which ties Model/Slot.lean to this code.

func init() { extractors["slot"] = extractSlot }

func extractSlot(outDir string) error {
	fset := token.NewFileSet()
	facts := map[string]string{}
	text := func(n ast.Node) string { return strings.Join(strings.Fields(exprText(fset, n)), " ") }
	isLog := func(s ast.Stmt) bool {
		es, ok := s.(*ast.ExprStmt)
		return ok && strings.Contains(text(es.X), ".logger.")
	}
	var stmts func(list []ast.Stmt) string
	stmt := func(s ast.Stmt) string {
		switch x := s.(type) {
		case *ast.IfStmt:
			out := "if "
			if x.Init != nil {
				out += text(x.Init) + "; "
			}
			out += text(x.Cond) + " {" + stmts(x.Body.List) + "}"
			if x.Else != nil {
				if b, ok := x.Else.(*ast.BlockStmt); ok {
					out += " else {" + stmts(b.List) + "}"
				} else {
					out += " else " + text(x.Else)
				}
			}
			return out
		default:
			return text(s)
		}
	}
	stmts = func(list []ast.Stmt) string {
		var out []string
		for _, s := range list {
			if isLog(s) {
				continue
			}
			out = append(out, stmt(s))
		}
		return strings.Join(out, " ; ")
	}
	for _, src := range []struct{ key, file, recv string }{{"pool", "proxycore/connpool.go", "connPool"}, {"ctl", "proxycore/cluster.go", "Cluster"}} {
		f, err := parser.ParseFile(fset, filepath.Join(repoRoot(), src.file), nil, 0)
		if err != nil {
			return err
		}
		var fd *ast.FuncDecl
		for _, d := range f.Decls {
			if x, ok := d.(*ast.FuncDecl); ok && x.Name.Name == "stayConnected" && x.Recv != nil && strings.Contains(text(x.Recv.List[0].Type), src.recv) {
				fd = x
			}
		}
		if fd == nil {
			facts[src.key+".found"] = "false"
			continue
		}
		nd, rs := 0, 0
		ast.Inspect(fd.Body, func(n ast.Node) bool {
			switch x := n.(type) {
			case *ast.AssignStmt:
				if len(x.Lhs) == 1 && len(x.Rhs) == 1 {
					switch text(x.Lhs[0]) {
					case "reconnectPolicy":
						facts[src.key+".policy"] = text(x.Rhs[0])
					case "pendingConnect":
						if _, seen := facts[src.key+".pendingInit"]; !seen {
							facts[src.key+".pendingInit"] = text(x.Rhs[0])
						}
					}
				}
			case *ast.CallExpr:
				switch text(x.Fun) {
				case "reconnectPolicy.NextDelay":
					nd++
				case "reconnectPolicy.Reset":
					rs++
				}
			case *ast.ForStmt:
				facts[src.key+".loop"] = text(x.Cond)
				if len(x.Body.List) == 1 {
					if outer, ok := x.Body.List[0].(*ast.IfStmt); ok {
						facts[src.key+".noConnCond"] = text(outer.Cond)
						if len(outer.Body.List) == 1 {
							if inner, ok := outer.Body.List[0].(*ast.IfStmt); ok {
								facts[src.key+".rearmCond"] = text(inner.Cond)
								facts[src.key+".rearm"] = stmts(inner.Body.List)
								if eb, ok := inner.Else.(*ast.BlockStmt); ok && len(eb.List) == 1 {
									if sel, ok := eb.List[0].(*ast.SelectStmt); ok {
										for _, c := range sel.Body.List {
											cc := c.(*ast.CommClause)
											facts[src.key+".wait["+text(cc.Comm)+"]"] = stmts(cc.Body)
										}
									}
								}
							}
						}
						if eb, ok := outer.Else.(*ast.BlockStmt); ok && len(eb.List) == 1 {
							if sel, ok := eb.List[0].(*ast.SelectStmt); ok {
								for _, c := range sel.Body.List {
									cc := c.(*ast.CommClause)
									k := text(cc.Comm)
									if strings.Contains(k, "ctx.Done()") || strings.Contains(k, "IsClosed()") {
										facts[src.key+".have["+k+"]"] = stmts(cc.Body)
									}
								}
							}
						}
					}
				}
			}
			return true
		})
		facts[src.key+".calls"] = fmt.Sprintf("NextDelay=%d Reset=%d", nd, rs)
	}
	// the cluster's loop starts after Connect established the control connection; the pool's with its first timer
	if f, err := parser.ParseFile(fset, filepath.Join(repoRoot(), "proxycore/connpool.go"), nil, 0); err == nil {
		ast.Inspect(f, func(n ast.Node) bool {
			if fd, ok := n.(*ast.FuncDecl); ok && fd.Name.Name == "stayConnected" {
				ast.Inspect(fd.Body, func(m ast.Node) bool {
					if as, ok := m.(*ast.AssignStmt); ok && len(as.Lhs) == 1 && text(as.Lhs[0]) == "connectTimer" && as.Tok == token.DEFINE {
						facts["pool.firstTimer"] = text(as.Rhs[0])
					}
					return true
				})
			}
			return true
		})
	}
	var keys []string
	for k := range facts {
		keys = append(keys, k)
	}
	sort.Strings(keys)
	var sb strings.Builder
	sb.WriteString("-- GENERATED by `vh extract slot` from /repo (proxycore/connpool.go, proxycore/cluster.go). Do not edit.\n")
	sb.WriteString("namespace CqlVerif.Gen.SlotFacts\n\ndef facts : List (String × String) := [\n")
	for i, k := range keys {
		sep := ","
		if i == len(keys)-1 {
			sep = ""
		}
		fmt.Fprintf(&sb, "  (%s, %s)%s\n", leanStr(k), leanStr(facts[k]), sep)
	}
	sb.WriteString("]\n\nend CqlVerif.Gen.SlotFacts\n")
	return writeGen(outDir, "SlotFacts.lean", sb.String())
}
