package main

import (
	"encoding/hex"
	"fmt"
	"os"
	"path/filepath"
	"regexp"
	"strconv"
	"strings"

	"github.com/datastax/cql-proxy/parser"
	"verifharness/internal/rng"
)

// lex: the real lexer token stream. op = hex of the input bytes; real = "kind:stop:idhex ..." per token

func init() { streams["lex"] = stream{gen: genLex, run: runLex} }

func runLex(op string) (out string) {
	defer func() {
		if p := recover(); p != nil {
			out = fmt.Sprintf("panic:%v", p)
		}
	}()
	b, err := hex.DecodeString(op)
	if err != nil {
		return "bad-op"
	}
	var parts []string
	for _, t := range parser.VerifLex(string(b)) {
		parts = append(parts, fmt.Sprintf("%d:%d:%s", t.Kind, t.Stop, hex.EncodeToString([]byte(t.ID))))
	}
	return strings.Join(parts, " ")
}

// testStrings collects the string literals of the repo's own parser tests.
func testStrings() []string {
	var out []string
	files, _ := filepath.Glob(filepath.Join(repoRoot(), "parser", "*_test.go"))
	re := regexp.MustCompile("\"((?:[^\"\\\\]|\\\\.)*)\"|`([^`]*)`")
	for _, f := range files {
		src, err := os.ReadFile(f)
		if err != nil {
			continue
		}
		for _, m := range re.FindAllStringSubmatch(string(src), -1) {
			if m[2] != "" {
				out = append(out, m[2])
			} else if s, err := strconv.Unquote("\"" + m[1] + "\""); err == nil && s != "" {
				out = append(out, s)
			}
		}
	}
	return out
}

var lexAlphabet = []byte("abcdefxyzPTYMDHSW0123456789 \t\r\n'\"$-+.,;:?()[]{}<>=!*_eEnNaAiIfFtTuUsS/\xc2\xb5\x00\xff")

func genLex(e *emitter, r *rng.R, n int, tier string) {
	corpus := testStrings()
	corpus = append(corpus, cqlKeywordVariants()...)
	for _, s := range corpus {
		e.emit(hex.EncodeToString([]byte(s)))
	}
	// truncations and single-byte mutations of the corpus
	for i := 0; i < n; i++ {
		s := []byte(corpus[r.Intn(len(corpus))])
		switch r.Intn(4) {
		case 0:
			if len(s) > 0 {
				s = s[:r.Intn(len(s))]
			}
		case 1:
			if len(s) > 0 {
				s[r.Intn(len(s))] = lexAlphabet[r.Intn(len(lexAlphabet))]
			}
		case 2:
			k := r.Intn(25)
			s = make([]byte, k)
			for j := range s {
				s[j] = lexAlphabet[r.Intn(len(lexAlphabet))]
			}
		case 3:
			k := r.Intn(12)
			s = r.Bytes(k)
		}
		e.emit(hex.EncodeToString(s))
	}
	// statements from the CQL generator in random case / whitespace variants
	for i := 0; i < n/2; i++ {
		e.emit(hex.EncodeToString([]byte(varyCaseWs(r, genStatement(r.Fork(uint64(i)), 4).text))))
	}
}

func cqlKeywordVariants() []string {
	kws := []string{"select", "insert", "update", "delete", "begin", "apply", "batch", "create", "alter", "drop", "into", "from", "use", "using", "if", "where", "and", "token", "is", "in", "not", "true", "false", "null", "nan", "infinity"}
	var out []string
	for _, k := range kws {
		out = append(out, k, strings.ToUpper(k), strings.Title(k), k+" x", k+"x", k+"(", k+";", " "+k+"\n")
	}
	return out
}
