package main

import (
	"encoding/hex"
	"fmt"
	"strings"

	"github.com/datastax/cql-proxy/parser"
	"verifharness/internal/rng"
)

// idem: parser.IsQueryIdempotent on generated statements (ground truth attached by construction), on
// case / whitespace / terminator variants of each, on the repo's own test strings and on mutated / random bytes.
// op:   T:<truth 1|0|-> P:<plain 1|0> then hex texts: the base statement followed by meaning-preserving variants
// real: per text  1 | 0 | 0e (error) | panic

func init() { streams["idem"] = stream{gen: genIdem, run: runIdem} }

func idemOne(s string) (out string) {
	defer func() {
		if p := recover(); p != nil {
			out = "panic"
		}
	}()
	ok, err := parser.IsQueryIdempotent(s)
	switch {
	case ok && err == nil:
		return "1"
	case ok:
		return "1e"
	case err != nil:
		return "0e"
	}
	return "0"
}

func runIdem(op string) string {
	var res []string
	for _, t := range strings.Fields(op) {
		if strings.HasPrefix(t, "T:") || strings.HasPrefix(t, "P:") {
			continue
		}
		b, err := hex.DecodeString(t)
		if err != nil {
			return "bad-op"
		}
		res = append(res, idemOne(string(b)))
	}
	return strings.Join(res, " ")
}

func genIdem(e *emitter, r *rng.R, n int, tier string) {
	hx := func(s string) string {
		if s == "" {
			return "00"[:0] + "20" // a lone space stands for the empty statement (fields cannot be empty)
		}
		return hex.EncodeToString([]byte(s))
	}
	for _, s := range testStrings() {
		e.emit("T:- P:0 " + hx(s))
	}
	for i := 0; i < n; i++ {
		rr := r.Fork(uint64(i))
		g := genStatement(rr, 1+rr.Intn(4))
		parts := []string{fmt.Sprintf("T:%d", b2i(g.idem)), fmt.Sprintf("P:%d", b2i(g.plain)), hx(g.text)}
		for v := 0; v < 3; v++ {
			parts = append(parts, hx(varyCaseWs(rr, g.text)))
		}
		e.emit(strings.Join(parts, " "))
	}
	// malformed stream: truncations, single-byte mutations, random bytes (no ground truth; totality and agreement only)
	for i := 0; i < n/2; i++ {
		rr := r.Fork(uint64(1000000 + i))
		s := []byte(genStatement(rr, 3).text)
		switch rr.Intn(3) {
		case 0:
			s = s[:rr.Intn(len(s)+1)]
		case 1:
			if len(s) > 0 {
				s[rr.Intn(len(s))] = lexAlphabet[rr.Intn(len(lexAlphabet))]
			}
		default:
			k := rr.Intn(len(s) + 1)
			s = append(append(append([]byte{}, s[:k]...), lexAlphabet[rr.Intn(len(lexAlphabet))]), s[k:]...)
		}
		e.emit("T:- P:0 " + hx(string(s)))
	}
}

func b2i(b bool) int {
	if b {
		return 1
	}
	return 0
}
