package main

import (
	"bytes"
	"fmt"
	"go/ast"
	"go/constant"
	"go/printer"
	"go/token"
	"go/types"
	"path/filepath"
	"sort"
	"strings"

	"golang.org/x/tools/go/packages"
	"golang.org/x/tools/go/ssa"
	"golang.org/x/tools/go/ssa/ssautil"
)

// extract panics: the inventory of operations that can panic at run time (Go's partial operations) in the
// proxy's own packages, from the typed SSA of /repo's current source: slice/array/string indexing,
// slice expressions, single-value type assertions, explicit panic calls, integer division by a
// non-constant, conversions slice->array.  Map reads never panic and are left out; writes to a map are
// listed (nil-map write).  Each site is keyed by (package.function, kind, expression text, ordinal among
// equal keys) - no line numbers, so that unrelated edits do not disturb the table.
// Output: Gen/PanicSites.lean  (def sites : List Site).  Model/Hostile.lean carries the hand-written
// justification table; theorem C17.sites_justified proves (by kernel evaluation) that every site has one.

func init() { extractors["panics"] = extractPanics }

type panicSite struct {
	fn, kind, expr, guards string
}

func exprText(fset *token.FileSet, n ast.Node) string {
	var b bytes.Buffer
	_ = printer.Fprint(&b, fset, n)
	s := strings.Join(strings.Fields(b.String()), " ")
	if len(s) > 90 {
		s = s[:90]
	}
	return s
}

func loadRepoSSA(tags string, pats ...string) ([]*packages.Package, *ssa.Program, error) {
	cfg := &packages.Config{Mode: packages.LoadAllSyntax, Dir: repoRoot()}
	if tags != "" {
		cfg.BuildFlags = []string{"-tags", tags}
	}
	pkgs, err := packages.Load(cfg, pats...)
	if err != nil {
		return nil, nil, err
	}
	if packages.PrintErrors(pkgs) > 0 {
		return nil, nil, fmt.Errorf("type errors loading %v", pats)
	}
	prog, _ := ssautil.AllPackages(pkgs, ssa.InstantiateGenerics)
	prog.Build()
	return pkgs, prog, nil
}

func skipFile(name string) bool {
	b := filepath.Base(name)
	return strings.HasSuffix(b, "_test.go") || strings.HasPrefix(b, "verif_") || strings.HasPrefix(b, "mock")
}

func funcName(pkg *packages.Package, fd *ast.FuncDecl) string {
	n := fd.Name.Name
	if fd.Recv != nil && len(fd.Recv.List) > 0 {
		t := fd.Recv.List[0].Type
		if s, ok := t.(*ast.StarExpr); ok {
			t = s.X
		}
		if ix, ok := t.(*ast.IndexExpr); ok {
			t = ix.X
		}
		if id, ok := t.(*ast.Ident); ok {
			n = id.Name + "." + n
		}
	}
	return pkg.Name + "." + n
}

func extractPanics(outDir string) error {
	pkgs, _, err := loadRepoSSA("", "./proxy", "./proxycore", "./codecs", "./parser")
	if err != nil {
		return err
	}
	var sites []panicSite
	var stores [][4]string
	lexerSites := map[string]int{}
	for _, pkg := range pkgs {
		info := pkg.TypesInfo
		for _, f := range pkg.Syntax {
			fname := pkg.Fset.PositionFor(f.Pos(), false).Filename
			if skipFile(fname) {
				continue
			}
			isLexer := filepath.Base(fname) == "lexer.go"
			for _, d := range f.Decls {
				fd, ok := d.(*ast.FuncDecl)
				if !ok || fd.Body == nil {
					continue
				}
				fn := funcName(pkg, fd)
				recv := ""
				if fd.Recv != nil && len(fd.Recv.List) > 0 && len(fd.Recv.List[0].Names) > 0 {
					recv = fd.Recv.List[0].Names[0].Name
				}
				commaOk := map[ast.Expr]bool{}
				ast.Inspect(fd.Body, func(n ast.Node) bool {
					switch x := n.(type) {
					case *ast.AssignStmt:
						if len(x.Lhs) == 2 && len(x.Rhs) == 1 {
							commaOk[ast.Unparen(x.Rhs[0])] = true
						}
					case *ast.ValueSpec:
						if len(x.Names) == 2 && len(x.Values) == 1 {
							commaOk[ast.Unparen(x.Values[0])] = true
						}
					case *ast.TypeSwitchStmt:
						var e ast.Expr
						switch a := x.Assign.(type) {
						case *ast.AssignStmt:
							e = a.Rhs[0]
						case *ast.ExprStmt:
							e = a.X
						}
						if e != nil {
							commaOk[ast.Unparen(e)] = true
						}
					}
					return true
				})
				aliases := map[string]map[string]bool{}
				ast.Inspect(fd.Body, func(n ast.Node) bool {
					if as, ok := n.(*ast.AssignStmt); ok && len(as.Lhs) == 1 && len(as.Rhs) == 1 {
						if id, ok := as.Lhs[0].(*ast.Ident); ok {
							aliases[id.Name] = identsOf(as.Rhs[0], recv)
						}
					}
					return true
				})
				var stack []ast.Node
				add := func(kind string, n ast.Node) {
					if isLexer && fn == "parser.lexer.next" {
						lexerSites[kind+" "+exprText(pkg.Fset, n)]++
						return
					}
					sites = append(sites, panicSite{fn, kind, exprText(pkg.Fset, n), guardsOf(pkg.Fset, stack, n, recv, aliases)})
				}
				ast.Inspect(fd.Body, func(n ast.Node) bool {
					if n == nil {
						stack = stack[:len(stack)-1]
						return true
					}
					stack = append(stack, n)
					switch x := n.(type) {
					case *ast.IndexExpr:
						tv, ok := info.Types[x.X]
						if !ok || tv.IsType() {
							return true
						}
						switch u := tv.Type.Underlying().(type) {
						case *types.Map:
							return true
						case *types.Array:
							if c := info.Types[x.Index].Value; c != nil {
								if v, ok := constant.Int64Val(c); ok && v >= 0 && v < u.Len() {
									return true
								}
							}
						case *types.Signature:
							return true
						}
						add("index", x)
					case *ast.SliceExpr:
						if tv, ok := info.Types[x.X]; ok {
							if p, ok := tv.Type.Underlying().(*types.Pointer); ok {
								if _, ok := p.Elem().Underlying().(*types.Array); ok && x.Low == nil && x.High == nil {
									return true
								}
							}
							if _, ok := tv.Type.Underlying().(*types.Array); ok && x.Low == nil && x.High == nil {
								return true
							}
						}
						if x.Low == nil && x.High == nil && x.Max == nil {
							return true
						}
						add("slice", x)
					case *ast.TypeAssertExpr:
						if x.Type == nil || commaOk[x] {
							return true
						}
						add("assert", x)
					case *ast.CallExpr:
						if sel, ok := x.Fun.(*ast.SelectorExpr); ok && (sel.Sel.Name == "Store" || sel.Sel.Name == "LoadOrStore" || sel.Sel.Name == "Add") {
							if tv, ok := info.Types[sel.X]; ok {
								ts := tv.Type.String()
								if strings.HasSuffix(ts, "sync.Map") || strings.HasSuffix(ts, "atomic.Value") || strings.HasSuffix(ts, "lru.Cache") {
									var ats []string
									for _, a := range x.Args {
										if atv, ok := info.Types[a]; ok {
											ats = append(ats, types.TypeString(atv.Type, func(p *types.Package) string { return p.Name() }))
										}
									}
									stores = append(stores, [4]string{fn, exprText(pkg.Fset, sel.X), sel.Sel.Name, strings.Join(ats, " , ")})
								}
							}
						}
						if id, ok := x.Fun.(*ast.Ident); ok && id.Name == "panic" {
							if _, isBuiltin := info.Uses[id].(*types.Builtin); isBuiltin {
								add("panic", x)
							}
						}
					case *ast.BinaryExpr:
						if x.Op == token.QUO || x.Op == token.REM {
							if tv, ok := info.Types[x.Y]; ok && tv.Value == nil {
								if b, ok := tv.Type.Underlying().(*types.Basic); ok && b.Info()&types.IsInteger != 0 {
									add("div", x)
								}
							}
						}
					}
					return true
				})
			}
		}
	}
	sort.SliceStable(sites, func(i, j int) bool {
		a, b := sites[i], sites[j]
		if a.fn != b.fn {
			return a.fn < b.fn
		}
		if a.kind != b.kind {
			return a.kind < b.kind
		}
		return a.expr < b.expr
	})
	var sb strings.Builder
	sb.WriteString("-- GENERATED by `vh extract panics` from /repo (proxy, proxycore, codecs, parser). Do not edit.\n")
	sb.WriteString("namespace CqlVerif.Gen.PanicSites\n\n")
	sb.WriteString("/-- (function, kind, expression, ordinal among identical triples, guards: the conditions on the way to the site that mention its operands) -/\n")
	sb.WriteString("def sites : List (String × String × String × Nat × String) := [\n")
	count := map[panicSite]int{}
	for i, s := range sites {
		k := panicSite{s.fn, s.kind, s.expr, ""}
		ord := count[k]
		count[k]++
		sep := ","
		if i == len(sites)-1 {
			sep = ""
		}
		fmt.Fprintf(&sb, "  (%s, %s, %s, %d, %s)%s\n", leanStr(s.fn), leanStr(s.kind), leanStr(s.expr), ord, leanStr(s.guards), sep)
	}
	sb.WriteString("]\n\n")
	var lk []string
	for k := range lexerSites {
		lk = append(lk, k)
	}
	sort.Strings(lk)
	sb.WriteString("/-- parser.lexer.next (ragel output): distinct partial operations with their number of occurrences -/\n")
	sb.WriteString("def lexerNext : List (String × Nat) := [\n")
	for i, k := range lk {
		sep := ","
		if i == len(lk)-1 {
			sep = ""
		}
		fmt.Fprintf(&sb, "  (%s, %d)%s\n", leanStr(k), lexerSites[k], sep)
	}
	sb.WriteString("]\n\n")
	sort.Slice(stores, func(i, j int) bool { return fmt.Sprint(stores[i]) < fmt.Sprint(stores[j]) })
	sb.WriteString("/-- every write into a sync.Map / atomic.Value: (function, container, method, static types of the arguments) -/\n")
	sb.WriteString("def stores : List (String × String × String × String) := [\n")
	for i, st := range stores {
		sep := ","
		if i == len(stores)-1 {
			sep = ""
		}
		fmt.Fprintf(&sb, "  (%s, %s, %s, %s)%s\n", leanStr(st[0]), leanStr(st[1]), leanStr(st[2]), leanStr(st[3]), sep)
	}
	sb.WriteString("]\n\nend CqlVerif.Gen.PanicSites\n")
	return writeGen(outDir, "PanicSites.lean", sb.String())
}

// identsOf: the identifiers an expression mentions (selector fields by their field name), without the receiver.
func identsOf(n ast.Node, recv string) map[string]bool {
	m := map[string]bool{}
	ast.Inspect(n, func(x ast.Node) bool {
		switch v := x.(type) {
		case *ast.SelectorExpr:
			m[v.Sel.Name] = true
		case *ast.Ident:
			if v.Name != recv && v.Name != "len" && v.Name != "_" {
				m[v.Name] = true
			}
		}
		return true
	})
	return m
}

func terminates(b *ast.BlockStmt) bool {
	if b == nil || len(b.List) == 0 {
		return false
	}
	switch s := b.List[len(b.List)-1].(type) {
	case *ast.ReturnStmt:
		return true
	case *ast.BranchStmt:
		return s.Tok == token.CONTINUE || s.Tok == token.BREAK || s.Tok == token.GOTO
	case *ast.ExprStmt:
		if c, ok := s.X.(*ast.CallExpr); ok {
			if id, ok := c.Fun.(*ast.Ident); ok && id.Name == "panic" {
				return true
			}
		}
	}
	return false
}

// guardsOf: the conditions that hold on the way to the site and mention one of its operands: conditions of the
// enclosing if/for statements (negated for an else branch), early exits `if c { return }` earlier in an enclosing
// block, enclosing case clauses and range statements.
func guardsOf(fset *token.FileSet, stack []ast.Node, site ast.Node, recv string, aliases map[string]map[string]bool) string {
	want := identsOf(site, recv)
	for a, rhs := range aliases { // `count := len(p.conns)`: a condition on count is a condition on conns
		for k := range rhs {
			if want[k] {
				want[a] = true
				break
			}
		}
	}
	mentions := func(c ast.Node) bool {
		for k := range identsOf(c, recv) {
			if want[k] {
				return true
			}
		}
		return false
	}
	var gs []string
	addc := func(prefix string, c ast.Node) {
		if c != nil && mentions(c) {
			gs = append(gs, prefix+exprText(fset, c))
		}
	}
	for i := 0; i+1 < len(stack); i++ {
		child := stack[i+1]
		switch p := stack[i].(type) {
		case *ast.IfStmt:
			if child == ast.Node(p.Body) {
				addc("", p.Cond)
			} else if p.Else != nil && child == ast.Node(p.Else) {
				addc("!", p.Cond)
			}
		case *ast.ForStmt:
			if child == ast.Node(p.Body) {
				addc("", p.Cond)
			}
		case *ast.RangeStmt:
			if child == ast.Node(p.Body) && mentions(p) {
				gs = append(gs, "range "+exprText(fset, p.X))
			}
		case *ast.CaseClause:
			for _, e := range p.List {
				addc("case ", e)
			}
			for _, st := range p.Body {
				if st == child {
					break
				}
				if is, ok := st.(*ast.IfStmt); ok && is.Else == nil && terminates(is.Body) {
					addc("!", is.Cond)
				}
			}
		case *ast.BlockStmt:
			for _, st := range p.List {
				if st == child {
					break
				}
				if is, ok := st.(*ast.IfStmt); ok && is.Else == nil && terminates(is.Body) {
					addc("!", is.Cond)
				}
			}
		case *ast.BinaryExpr:
			// short-circuit: the right operand of && runs under the left one
			if p.Op == token.LAND && child == ast.Node(p.Y) {
				gs = append(gs, exprText(fset, p.X))
			} else if p.Op == token.LOR && child == ast.Node(p.Y) {
				gs = append(gs, "!"+exprText(fset, p.X))
			}
		}
	}
	return strings.Join(gs, " ; ")
}
