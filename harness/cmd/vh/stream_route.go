package main

import (
	"github.com/datastax/go-cassandra-native-protocol/frame"
	"encoding/hex"
	"fmt"
	"strings"
	"time"

	"github.com/datastax/go-cassandra-native-protocol/message"
	"github.com/datastax/go-cassandra-native-protocol/primitive"
	"verifharness/internal/e2e"
	"verifharness/internal/fakecass"
	"verifharness/internal/rng"
)

// route: end to end, is a statement answered by the proxy itself or forwarded - as QUERY and as PREPARE + EXECUTE.
// op:   T:<truth 1 local|0 forwarded> K:<hex current keyspace|-> <hex statement>
//       P:<keyspace hex>: before that, on the same connection, USE <keyspace> and the same statement (QUERY and PREPARE)
//       F:<keyspace hex>: after USE <K>, a USE of this keyspace that the backend rejects - it changes nothing
// real: query=<local|fwd|none> prepare=<local|fwd|none> execute=<local|fwd|none|skip>

func init() { streams["route"] = stream{gen: genRoute, run: runRoute} }

func runRoute(op string) (out string) {
	defer func() {
		if p := recover(); p != nil {
			out = fmt.Sprintf("panic:%v", p)
		}
	}()
	ks, q, prevKs, failKs := "", "", "", ""
	payloadKey := ""
	hasPrev := false
	version := primitive.ProtocolVersion4
	for _, t := range strings.Fields(op) {
		switch {
		case strings.HasPrefix(t, "V:"):
			var v int
			fmt.Sscan(t[2:], &v)
			version = primitive.ProtocolVersion(v)
		case strings.HasPrefix(t, "T:"):
		case strings.HasPrefix(t, "P:"): // earlier on the same connection: USE <this keyspace> and the very same statement
			hasPrev = true
			if t[2:] != "-" {
				b, _ := hex.DecodeString(t[2:])
				prevKs = string(b)
			}
		case strings.HasPrefix(t, "Y:"): // the observed requests carry a custom payload with this key
			payloadKey = t[2:]
		case strings.HasPrefix(t, "F:"):
			b, _ := hex.DecodeString(t[2:])
			failKs = string(b)
		case strings.HasPrefix(t, "K:"):
			if t[2:] != "-" {
				b, _ := hex.DecodeString(t[2:])
				ks = string(b)
			}
		default:
			b, _ := hex.DecodeString(t)
			q = string(b)
		}
	}
	env, err := e2e.Start(e2e.Options{Hosts: 1, MaxVersion: primitive.ProtocolVersionDse2, Version: primitive.ProtocolVersion4, BackendMax: primitive.ProtocolVersionDse2})
	if err != nil {
		return "env-error"
	}
	defer env.Close()
	env.Cluster.Handler = func(rq *fakecass.Request) fakecass.Response {
		if rq.Header.OpCode == primitive.OpCodePrepare {
			return fakecass.Response{Kind: fakecass.RespMsg, Msg: &message.PreparedResult{PreparedQueryId: pid(q), ResultMetadataId: pid(q + "m")}}
		}
		return fakecass.Response{Kind: fakecass.RespMsg, Msg: &message.VoidResult{}}
	}
	cl, err := env.Dial(version, "")
	if err != nil {
		return "dial-error"
	}
	defer cl.Close()
	if hasPrev {
		if prevKs != "" {
			_ = cl.Send(1, &message.Query{Query: "USE " + prevKs, Options: &message.QueryOptions{Consistency: primitive.ConsistencyLevelOne}})
			_, _ = cl.Recv(3 * time.Second)
		}
		_ = cl.Send(2, &message.Query{Query: q, Options: &message.QueryOptions{Consistency: primitive.ConsistencyLevelOne}})
		_, _ = cl.Recv(3 * time.Second)
		_ = cl.Send(2, &message.Prepare{Query: q})
		_, _ = cl.Recv(3 * time.Second)
	}
	if ks != "" {
		_ = cl.Send(1, &message.Query{Query: "USE " + ks, Options: &message.QueryOptions{Consistency: primitive.ConsistencyLevelOne}})
		if _, err := cl.Recv(3 * time.Second); err != nil {
			return "use-unanswered"
		}
	}
	if failKs != "" {
		canon := strings.ToLower(failKs)
		if strings.HasPrefix(failKs, "\"") {
			canon = strings.Trim(failKs, "\"")
		}
		env.Cluster.SetMissingKeyspace(canon)
		_ = cl.Send(1, &message.Query{Query: "USE " + failKs, Options: &message.QueryOptions{Consistency: primitive.ConsistencyLevelOne}})
		if r, err := cl.Recv(3 * time.Second); err != nil {
			return "use-unanswered"
		} else if _, ok := r.Frame.Body.Message.(*message.SetKeyspaceResult); ok {
			return "env-error:use-not-rejected"
		}
	}
	observe := func(msg message.Message) (string, *e2e.Reply) {
		before := env.Cluster.LogLen()
		if payloadKey != "" {
			b, err := cl.Encode(2, msg, func(f *frame.Frame) { f.SetCustomPayload(map[string][]byte{payloadKey: []byte("g")}) })
			if err != nil {
				return "unencodable", nil
			}
			_ = cl.WriteBytes(b)
		} else {
			_ = cl.Send(2, msg)
		}
		r, err := cl.Recv(3 * time.Second)
		if err != nil {
			return "none", nil
		}
		if env.Cluster.LogLen() > before {
			return "fwd", r
		}
		return "local", r
	}
	opts := &message.QueryOptions{Consistency: primitive.ConsistencyLevelOne}
	qr, _ := observe(&message.Query{Query: q, Options: opts})
	pr, prep := observe(&message.Prepare{Query: q})
	er := "skip"
	if prep != nil && prep.Frame != nil {
		if p, ok := prep.Frame.Body.Message.(*message.PreparedResult); ok {
			er, _ = observe(&message.Execute{QueryId: p.PreparedQueryId, ResultMetadataId: p.ResultMetadataId, Options: opts})
		}
	}
	return fmt.Sprintf("query=%s prepare=%s execute=%s", qr, pr, er)
}

func genRoute(e *emitter, r *rng.R, n int, tier string) {
	hx := func(s string) string { return hex.EncodeToString([]byte(s)) }
	type c struct {
		ks, q string
		local bool
	}
	cases := []c{
		{"", "SELECT * FROM system.local", true}, {"", "select key from SYSTEM.peers", true}, {"system", "SELECT * FROM local", true}, {"\"system\"", "SELECT count(*) FROM peers", true},
		{"system", "SELECT * FROM app.local", false}, {"system", "SELECT * FROM app.peers", false}, {"app", "SELECT * FROM local", false}, {"", "SELECT * FROM local", false},
		{"app", "SELECT * FROM system.peers_v2", true}, {"", "SELECT * FROM system.\"Local\"", false}, {"", "SELECT * FROM \"system\".\"local\"", true}, {"", "SELECT * FROM \"System\".local", false},
		{"", "INSERT INTO system.local (key) VALUES ('x')", false}, {"system", "UPDATE local SET x = 1 WHERE key = 'local'", false}, {"", "SELECT * FROM system.schema_keyspaces", true},
		{"system", "SELECT * FROM system_schema.tables", false}, {"", "SELECT * FROM system.size_estimates", false}, {"app", "USE other", true},
	}
	var ops []string
	for _, x := range cases {
		k := "-"
		if x.ks != "" {
			k = hx(x.ks)
		}
		ops = append(ops, fmt.Sprintf("T:%d K:%s %s", b2i(x.local), k, hx(x.q)))
		ops = append(ops, fmt.Sprintf("V:5 T:%d K:%s %s", b2i(x.local), k, hx(x.q)), fmt.Sprintf("V:66 T:%d K:%s %s", b2i(x.local), k, hx(x.q)))
	}
	for i := 0; i < n; i++ {
		rr := r.Fork(uint64(i))
		ks := rr.Pick([]string{"", "system", "SYSTEM", "app", "\"system\"", "\"System\"", "\"SYSTEM\"", "\"app\"", "System"})
		qual := rr.Pick([]string{"", "system.", "System.", "app.", "\"system\".", "system_auth."})
		tbl := rr.Pick([]string{"local", "peers", "peers_v2", "PEERS", "locals", "users", "\"Local\"", "schema_columns"})
		ksSys := strings.EqualFold(ks, "system") || ks == "\"system\""
		if qual != "" {
			ksSys = strings.EqualFold(qual, "system.") || qual == "\"system\"."
		}
		tblSys := map[string]bool{"local": true, "peers": true, "peers_v2": true, "PEERS": true, "schema_columns": true}[tbl]
		k := "-"
		if ks != "" {
			k = hx(ks)
		}
		q := varyCaseWs(rr, "SELECT "+rr.Pick([]string{"*", "key", "count(*)"})+" FROM "+qual+tbl)
		ops = append(ops, fmt.Sprintf("V:%d T:%d K:%s %s", []int{3, 4, 4, 5, 65, 66}[rr.Intn(6)], b2i(ksSys && tblSys), k, hx(q)))
		if rr.Intn(3) == 0 { // the same with a custom payload, under the keys the proxy itself looks at and others
			ops = append(ops, fmt.Sprintf("V:%d T:%d K:%s Y:%s %s", []int{4, 4, 5, 65, 66}[rr.Intn(5)], b2i(ksSys && tblSys), k,
				rr.Pick([]string{"graph-source", "graph-language", "graph-name", "graph-results", "graph-read-consistency", "request-id", "k", "graph-source"}), hx(q)))
		}
		if rr.Intn(3) == 0 { // a rejected USE in between: of the system keyspace when the current one is not, of another one when it is
			inSys := strings.EqualFold(ks, "system") || ks == "\"system\""
			ops = append(ops, fmt.Sprintf("V:4 T:%d K:%s F:%s %s", b2i(ksSys && tblSys), k, hx(map[bool]string{true: rr.Pick([]string{"gone", "\"Gone\""}), false: rr.Pick([]string{"system", "SYSTEM", "\"system\""})}[inSys]), hx(q)))
		}
		if ks != "" && rr.Intn(2) == 0 { // the same statement was seen earlier under another keyspace
			ops = append(ops, fmt.Sprintf("V:4 T:%d P:%s K:%s %s", b2i(ksSys && tblSys), hx(map[bool]string{true: rr.Pick([]string{"app", "\"System\"", "other"}), false: rr.Pick([]string{"system", "SYSTEM", "\"system\""})}[strings.EqualFold(ks, "system") || ks == "\"system\""]), k, hx(q)))
		}
	}
	e.emitAll(ops, 12)
}
