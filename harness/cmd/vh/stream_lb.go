package main

import (
	"sync/atomic"
	"sync"
	"sort"
	"fmt"
	"strings"

	"github.com/datastax/cql-proxy/proxycore"
	"verifharness/internal/rng"
)

// lb: the public API of proxycore's round-robin load balancer on generated notification
// histories with plans created and consumed at arbitrary points.

type lbEndpoint struct{ key string }

func (e lbEndpoint) String() string         { return e.key }
func (e lbEndpoint) Key() string            { return e.key }
func (e lbEndpoint) Addr() string           { return e.key }
func (e lbEndpoint) IsResolved() bool       { return true }
func (e lbEndpoint) TLSConfig() interface{} { return nil }

func init() {
	streams["lb"] = stream{gen: genLB, run: func(op string) string { return strings.Join(runLB(strings.Fields(op)), " ") }}
}

func lbHost(k string) *proxycore.Host {
	return &proxycore.Host{Endpoint: proxycore.NewEndpoint(k)}
}

// runLB executes an op list on the real load balancer.
func runLB(ops []string) (out []string) {
	defer func() {
		if p := recover(); p != nil {
			out = append(out, "panic")
		}
	}()
	lb := proxycore.NewRoundRobinLoadBalancer()
	var plans []proxycore.QueryPlan
	for _, op := range ops {
		name, arg := op, ""
		if i := strings.IndexByte(op, ':'); i >= 0 {
			name, arg = op[:i], op[i+1:]
		}
		switch name {
		case "B":
			var hs []*proxycore.Host
			if arg != "" {
				for _, k := range strings.Split(arg, ",") {
					hs = append(hs, lbHost(k))
				}
			}
			lb.OnEvent(&proxycore.BootstrapEvent{Hosts: hs})
		case "A":
			lb.OnEvent(&proxycore.AddEvent{Host: lbHost(arg)})
		case "R":
			lb.OnEvent(&proxycore.RemoveEvent{Host: lbHost(arg)})
		case "P":
			plans = append(plans, lb.NewQueryPlan())
		case "S":
			var n uint64
			fmt.Sscan(arg, &n)
			proxycore.VerifSetLBIndex(lb, n)
		case "C":
			// g goroutines create k plans each, at the same time, and take the first host of each
			var g, k int
			fmt.Sscanf(strings.ReplaceAll(arg, ",", " "), "%d %d", &g, &k)
			counts := map[string]int{}
			var cmu sync.Mutex
			var wg sync.WaitGroup
			start := make(chan struct{})
			for i := 0; i < g; i++ {
				wg.Add(1)
				go func() {
					defer wg.Done()
					local := map[string]int{}
					<-start
					for j := 0; j < k; j++ {
						if h := lb.NewQueryPlan().Next(); h != nil {
							local[h.Key()]++
						} else {
							local["-"]++
						}
					}
					cmu.Lock()
					for kk, v := range local {
						counts[kk] += v
					}
					cmu.Unlock()
				}()
			}
			close(start)
			wg.Wait()
			var keys []string
			for kk := range counts {
				keys = append(keys, kk)
			}
			sort.Strings(keys)
			var parts []string
			for _, kk := range keys {
				parts = append(parts, fmt.Sprintf("%s=%d", kk, counts[kk]))
			}
			out = append(out, "c:"+strings.Join(parts, ","))
		case "T":
			// g goroutines create and walk k plans each while host h (not a member) is added and removed over and over
			var g, k int
			var h string
			fmt.Sscanf(strings.ReplaceAll(arg, ",", " "), "%d %d %s", &g, &k, &h)
			var bad atomic.Value
			stop := make(chan struct{})
			var tw sync.WaitGroup
			tw.Add(1)
			go func() {
				defer tw.Done()
				for {
					select {
					case <-stop:
						return
					default:
					}
					lb.OnEvent(&proxycore.AddEvent{Host: lbHost(h)})
					lb.OnEvent(&proxycore.RemoveEvent{Host: lbHost(h)})
				}
			}()
			var wg sync.WaitGroup
			for i := 0; i < g; i++ {
				wg.Add(1)
				go func() {
					defer wg.Done()
					defer func() {
						if p := recover(); p != nil {
							bad.Store("t:panic")
						}
					}()
					for j := 0; j < k; j++ {
						seen := map[string]bool{}
						pl := lb.NewQueryPlan()
						for hst := pl.Next(); hst != nil; hst = pl.Next() {
							if seen[hst.Key()] {
								bad.Store("t:dup")
							}
							seen[hst.Key()] = true
						}
					}
				}()
			}
			wg.Wait()
			close(stop)
			tw.Wait()
			if b := bad.Load(); b != nil {
				out = append(out, b.(string))
			} else {
				out = append(out, "t:ok")
			}
		case "N":
			var i int
			fmt.Sscan(arg, &i)
			if i >= len(plans) {
				out = append(out, "?")
				continue
			}
			h := plans[i].Next()
			if h == nil {
				out = append(out, "-")
			} else {
				out = append(out, h.Key())
			}
		}
	}
	return out
}

func genLBHistory(r *rng.R, maxHosts, maxOps int, allowSet bool) []string {
	pool := []string{"h0", "h1", "h2", "h3", "h4", "h5", "h6"}[:maxHosts]
	members := map[string]bool{}
	var ops []string
	// bootstrap with a random subset
	var boot []string
	for _, k := range pool {
		if r.Chance(1, 2) {
			boot = append(boot, k)
			members[k] = true
		}
	}
	ops = append(ops, "B:"+strings.Join(boot, ","))
	nplans := 0
	nops := 1 + r.Intn(maxOps)
	for len(ops) < nops {
		switch c := r.Intn(20); {
		case c < 2: // add a non-member (the cluster only announces new keys)
			var cands []string
			for _, k := range pool {
				if !members[k] {
					cands = append(cands, k)
				}
			}
			if len(cands) > 0 {
				k := r.Pick(cands)
				members[k] = true
				ops = append(ops, "A:"+k)
			}
		case c < 4: // remove (mostly members, sometimes a non-member: a no-op in the code)
			k := r.Pick(pool)
			delete(members, k)
			ops = append(ops, "R:"+k)
		case c < 9:
			ops = append(ops, "P")
			nplans++
		case c == 10 && r.Chance(1, 3): // a bootstrap notification again, with whatever the cluster then knows
			members = map[string]bool{}
			var again []string
			for _, k := range pool {
				if r.Chance(1, 2) {
					again = append(again, k)
					members[k] = true
				}
			}
			ops = append(ops, "B:"+strings.Join(again, ","))
		case c == 9 && allowSet:
			// jump close to the uint32 wrap
			ops = append(ops, fmt.Sprintf("S:%d", []uint64{1 << 32, 0}[r.Intn(2)]-uint64(1+r.Intn(4))))
		default:
			if nplans > 0 {
				// prefer recent plans, sometimes an old one (held across membership changes)
				i := nplans - 1
				if r.Chance(1, 3) {
					i = r.Intn(nplans)
				}
				ops = append(ops, fmt.Sprintf("N:%d", i))
			}
		}
	}
	return ops
}

func genLB(e *emitter, r *rng.R, n int, tier string) {
	// corpus: the wrap-around point of the uint32 counter (DESIGN §7 item 13)
	corpus := [][]string{
		{"B:h0,h1,h2", "S:4294967295", "P", "N:0", "N:0", "N:0", "N:0"},
		{"B:h0,h1,h2", "S:18446744073709551615", "P", "N:0", "N:0", "N:0", "N:0", "P", "N:1"},
		{"B:h0,h1,h2", "P", "P", "P", "P", "N:0", "N:1", "N:2", "N:3"},
		{"B:h0,h1", "P", "B:h2,h3,h4", "P", "N:1", "N:1", "N:1", "N:1", "N:0", "N:0", "N:0"},
		{"B:h0", "A:h1", "R:h0", "B:h0,h2", "P", "N:0", "N:0", "N:0"},
		{"B:h0,h1,h2,h3", "P", "R:h1", "N:0", "N:0", "N:0", "N:0", "N:0", "P", "N:1", "N:1", "N:1", "N:1"},
	}
	// plans created by many goroutines at once (every request creates one): the counter must hand each its own offset
	for _, c := range [][]string{
		{"B:h0,h1,h2", "C:8,3000", "P", "N:0"},
		{"B:h0,h1,h2,h3,h4", "P", "C:16,2000", "R:h1", "C:12,1500", "P", "N:1", "N:1"},
		{"B:h0,h1", "S:18446744073709551000", "C:8,1000", "P", "N:0", "N:0"},
		{"B:h0,h1,h2,h3,h4,h5,h6", "C:16,4001", "A:h7", "C:5,777"},
		{"B:h0,h1,h2", "T:8,3000,h9", "P", "N:0", "N:0", "N:0", "N:0"},
		{"B:h0,h1", "P", "T:12,2000,h9", "A:h5", "T:6,1500,h8", "P", "N:1", "N:1"},
	} {
		corpus = append(corpus, c)
	}
	for _, ops := range corpus {
		e.emit(strings.Join(ops, " "))
	}
	// exhaustive small scope: every op list over 2 hosts up to a bounded length
	depth := 5
	if tier == "thorough" {
		depth = 7
	}
	alphabet := []string{"A:h0", "A:h1", "R:h0", "R:h1", "P", "N:0", "N:1"}
	var rec func(prefix []string, d int)
	rec = func(prefix []string, d int) {
		if d == 0 {
			return
		}
		for _, a := range alphabet {
			ops := append(append([]string{}, prefix...), a)
			// keep histories well-formed: adds only of non-members
			if !lbWellFormed(ops) {
				continue
			}
			if strings.HasPrefix(a, "N") {
				e.emit(strings.Join(ops, " "))
			}
			rec(ops, d-1)
		}
	}
	rec([]string{"B:"}, depth)
	for i := 0; i < n; i++ {
		rr := r.Fork(uint64(i))
		ops := genLBHistory(rr, 2+rr.Intn(5), 60, i%10 == 0)
		e.emit(strings.Join(ops, " "))
	}
}

func lbWellFormed(ops []string) bool {
	m := map[string]bool{}
	np := 0
	for _, op := range ops {
		switch {
		case strings.HasPrefix(op, "B:"):
			m = map[string]bool{}
			if len(op) > 2 {
				for _, k := range strings.Split(op[2:], ",") {
					m[k] = true
				}
			}
		case strings.HasPrefix(op, "A:"):
			if m[op[2:]] {
				return false
			}
			m[op[2:]] = true
		case strings.HasPrefix(op, "R:"):
			delete(m, op[2:])
		case op == "P":
			np++
		case strings.HasPrefix(op, "N:"):
			var i int
			fmt.Sscan(op[2:], &i)
			if i >= np {
				return false
			}
		}
	}
	return true
}
