// vh: the Go side of the /verif correspondence check. It runs the real cql-proxy code
// (linked from /repo with -tags verif) on generated inputs and prints one line per case:
//
//	<stream> TAB <input / operation list> TAB <what the real code did>
//
// The Lean driver consumes these lines, runs the model and the Spec, and prints verdicts.
package main

import (
	"bufio"
	"flag"
	"fmt"
	"os"
	"sort"
	"strings"
	"sync"

	"verifharness/internal/rng"
)

type emitter struct {
	w      *bufio.Writer
	stream string
	n      int
}

// emit runs the real code on op and writes the line.
func (e *emitter) emit(op string) {
	real := streams[e.stream].run(op)
	fmt.Fprintf(e.w, "%s\t%s\t%s\n", e.stream, op, real)
	e.n++
}

// emitAll runs the real code on many independent ops in parallel and writes the lines in order.
func (e *emitter) emitAll(ops []string, workers int) {
	if workers < 1 {
		workers = 1
	}
	res := make([]string, len(ops))
	var wg sync.WaitGroup
	ch := make(chan int)
	run := streams[e.stream].run
	for w := 0; w < workers; w++ {
		wg.Add(1)
		go func() {
			defer wg.Done()
			for i := range ch {
				res[i] = run(ops[i])
			}
		}()
	}
	for i := range ops {
		ch <- i
	}
	close(ch)
	wg.Wait()
	for i, op := range ops {
		fmt.Fprintf(e.w, "%s\t%s\t%s\n", e.stream, op, res[i])
		e.n++
	}
}

// A stream pairs a generator of inputs / operation lists with a function that executes one
// of them on the real code and renders what was observed (canonicalised, one line, no tabs).
type stream struct {
	gen func(e *emitter, r *rng.R, n int, tier string)
	run func(op string) string
}

var streams = map[string]stream{}

func main() {
	if len(os.Args) < 2 {
		usage()
	}
	switch os.Args[1] {
	case "gen":
		fs := flag.NewFlagSet("gen", flag.ExitOnError)
		seed := fs.Uint64("seed", 1, "seed")
		n := fs.Int("n", 1000, "number of generated cases")
		tier := fs.String("tier", "quick", "quick|thorough")
		out := fs.String("out", "", "output file (default stdout)")
		_ = fs.Parse(os.Args[3:])
		if len(os.Args) < 3 {
			usage()
		}
		st, ok := streams[os.Args[2]]
		fn := st.gen
		if !ok {
			fmt.Fprintf(os.Stderr, "unknown stream %q\n", os.Args[2])
			os.Exit(2)
		}
		f := os.Stdout
		if *out != "" {
			var err error
			f, err = os.Create(*out)
			if err != nil {
				fmt.Fprintln(os.Stderr, err)
				os.Exit(2)
			}
			defer f.Close()
		}
		w := bufio.NewWriterSize(f, 1<<20)
		e := &emitter{w: w, stream: os.Args[2]}
		fn(e, rng.New(*seed), *n, *tier)
		w.Flush()
	case "rerun":
		// stdin: lines "<stream> TAB <op>[ TAB ...]"; stdout: the same ops with what the real code does now
		sc := bufio.NewScanner(os.Stdin)
		sc.Buffer(make([]byte, 1<<26), 1<<26)
		w := bufio.NewWriterSize(os.Stdout, 1<<20)
		for sc.Scan() {
			parts := strings.SplitN(sc.Text(), "\t", 3)
			if len(parts) < 2 {
				continue
			}
			if st, ok := streams[parts[0]]; ok {
				fmt.Fprintf(w, "%s\t%s\t%s\n", parts[0], parts[1], st.run(parts[1]))
			}
		}
		w.Flush()
	case "list":
		var names []string
		for k := range streams {
			names = append(names, k)
		}
		sort.Strings(names)
		for _, k := range names {
			fmt.Println(k)
		}
	default:
		if fn, ok := commands[os.Args[1]]; ok {
			os.Exit(fn(os.Args[2:]))
		}
		usage()
	}
}

var commands = map[string]func(args []string) int{}

func usage() {
	fmt.Fprintln(os.Stderr, "usage: vh gen <stream> [-seed N] [-n N] [-tier quick|thorough] [-out file] | vh list | vh <command> ...")
	os.Exit(2)
}
