package main

import (
	"sync/atomic"
	"bytes"
	"fmt"
	"sort"
	"strconv"
	"strings"
	"sync"
	"time"

	"github.com/datastax/go-cassandra-native-protocol/frame"
	"github.com/datastax/go-cassandra-native-protocol/message"
	"github.com/datastax/go-cassandra-native-protocol/primitive"
	"verifharness/internal/e2e"
	"verifharness/internal/fakecass"
	"verifharness/internal/rng"
)

// events: fan-out of backend events to registered clients.
// op:   L:<clients> [U:<password|dse> the backend authenticates connections] [O:<i> three nodes; node i is replaced by one that speaks protocol v3 only once the proxy is up] then actions
//         c<i>[:3] connect client i (with protocol v3) | r<i>:<event types> REGISTER | d<i> disconnect
//         s<k>:<target>  backend emits schema-change event k | t topology event | u status event
//         x              the control connection is dropped (the proxy fails over / reconnects)
//         y<k>:<target>  the control connection is dropped, and the backend emits schema-change event k on the new
//                        control connection as soon as its REGISTER is acknowledged (while the proxy is still
//                        running its topology queries on it)
// real: per client "<i>=<event ids received, in order>" (sorted by client) [+ anomalies]

func init() { streams["events"] = stream{gen: genEvents, run: runEvents} }

func schemaEvent(k int, target string) *message.SchemaChangeEvent {
	ev := &message.SchemaChangeEvent{ChangeType: primitive.SchemaChangeTypeCreated, Keyspace: fmt.Sprintf("ks%d", k)}
	switch target {
	case "K":
		ev.Target = primitive.SchemaChangeTargetKeyspace
	case "T":
		ev.Target = primitive.SchemaChangeTargetTable
		ev.Object = "tbl"
		ev.ChangeType = primitive.SchemaChangeTypeUpdated
	case "Y":
		ev.Target = primitive.SchemaChangeTargetType
		ev.Object = "typ"
		ev.ChangeType = primitive.SchemaChangeTypeDropped
	case "F":
		ev.Target = primitive.SchemaChangeTargetFunction
		ev.Object = "fn"
		ev.Arguments = []string{"int", "text"}
	case "A":
		ev.Target = primitive.SchemaChangeTargetAggregate
		ev.Object = "agg"
		ev.Arguments = []string{"int"}
	}
	return ev
}

func runEvents(op string) (out string) {
	defer func() {
		if p := recover(); p != nil {
			out = fmt.Sprintf("panic:%v", p)
		}
	}()
	nclients := 2
	var acts []string
	if strings.HasPrefix(op, "Z:") {
		return runEventFlood(op)
	}
	opts := e2e.Options{Hosts: 2, NumConns: 1, ReconnectBase: 5 * time.Millisecond, ReconnectMax: 20 * time.Millisecond}
	oldNode := -1
	for _, t := range strings.Fields(op) {
		if strings.HasPrefix(t, "L:") {
			nclients, _ = strconv.Atoi(t[2:])
		} else if strings.HasPrefix(t, "U:") {
			opts.Auth = t[2:]
		} else if strings.HasPrefix(t, "O:") {
			oldNode, _ = strconv.Atoi(t[2:])
			opts.Hosts = 3
		} else {
			acts = append(acts, t)
		}
	}
	env, err := e2e.Start(opts)
	if err != nil {
		return "env-error:" + err.Error()
	}
	defer env.Close()
	if oldNode >= 0 && oldNode < len(env.IPs) {
		env.Cluster.Node(env.IPs[oldNode]).SetMaxVersion(primitive.ProtocolVersion3)
	}
	clients := make([]*e2e.Client, nclients)
	var mu sync.Mutex
	got := make([][]string, nclients)
	var anomalies []string
	events := 0
	var wg sync.WaitGroup
	sent := map[int]*message.SchemaChangeEvent{}
	reader := func(i int, c *e2e.Client, ready chan string) {
		defer wg.Done()
		for {
			r, err := c.Recv(time.Hour)
			if err != nil {
				return
			}
			mu.Lock()
			events++
			if r.Frame == nil {
				anomalies = append(anomalies, fmt.Sprintf("undecodable:client%d", i))
				mu.Unlock()
				continue
			}
			switch m := r.Frame.Body.Message.(type) {
			case *message.SchemaChangeEvent:
				id, _ := strconv.Atoi(strings.TrimPrefix(m.Keyspace, "ks"))
				got[i] = append(got[i], strconv.Itoa(id))
				if r.Header.StreamId != -1 {
					anomalies = append(anomalies, fmt.Sprintf("event-on-stream:%d", r.Header.StreamId))
				}
				if want, ok := sent[id]; !ok || want.String() != m.String() {
					anomalies = append(anomalies, fmt.Sprintf("content-differs:event%d", id))
				}
				mu.Unlock()
			case message.Event:
				anomalies = append(anomalies, fmt.Sprintf("non-schema-event:client%d", i))
				mu.Unlock()
			default:
				mu.Unlock()
				select {
				case ready <- classify(r, 4):
				default:
				}
			}
		}
	}
	readyCh := make([]chan string, nclients)
	quiesce := func() {
		last, stable := -1, 0
		for i := 0; i < 300 && stable < 4; i++ {
			time.Sleep(2 * time.Millisecond)
			mu.Lock()
			e := events
			mu.Unlock()
			if e == last {
				stable++
			} else {
				stable, last = 0, e
			}
		}
	}
	waitControl := func() bool {
		for i := 0; i < 400; i++ {
			for _, ip := range env.Cluster.NodeIPs() {
				for _, c := range env.Cluster.Node(ip).Conns() {
					if c.Registered() {
						return true
					}
				}
			}
			time.Sleep(5 * time.Millisecond)
		}
		return false
	}
	for _, a := range acts {
		switch a[0] {
		case 'c':
			// c<i> or c<i>:<protocol version>
			cp := strings.SplitN(a[1:], ":", 2)
			i, _ := strconv.Atoi(cp[0])
			if i >= nclients || clients[i] != nil {
				continue
			}
			cv := primitive.ProtocolVersion4
			if len(cp) > 1 && cp[1] == "3" {
				cv = primitive.ProtocolVersion3
			}
			c, err := env.Dial(cv, "")
			if err != nil {
				return "dial-error"
			}
			clients[i] = c
			readyCh[i] = make(chan string, 4)
			wg.Add(1)
			go reader(i, c, readyCh[i])
		case 'r':
			p := strings.SplitN(a[1:], ":", 2)
			i, _ := strconv.Atoi(p[0])
			if i >= nclients || clients[i] == nil {
				continue
			}
			var ts []primitive.EventType
			for _, t := range strings.Split(p[1], ",") {
				ts = append(ts, primitive.EventType(t))
			}
			_ = clients[i].Send(9, &message.Register{EventTypes: ts})
			select {
			case <-readyCh[i]:
			case <-time.After(2 * time.Second):
				mu.Lock()
				anomalies = append(anomalies, fmt.Sprintf("register-unanswered:client%d", i))
				mu.Unlock()
			}
		case 'd':
			i, _ := strconv.Atoi(a[1:])
			if i >= nclients || clients[i] == nil {
				continue
			}
			clients[i].Close()
			clients[i] = nil
			time.Sleep(15 * time.Millisecond) // the proxy notices the closed socket asynchronously
		case 's':
			p := strings.SplitN(a[1:], ":", 2)
			k, _ := strconv.Atoi(p[0])
			ev := schemaEvent(k, p[1])
			mu.Lock()
			sent[k] = ev
			mu.Unlock()
			if env.Cluster.Event(ev) == 0 {
				mu.Lock()
				anomalies = append(anomalies, "no-control-connection")
				mu.Unlock()
			}
			quiesce()
		case 't':
			env.Cluster.Event(&message.TopologyChangeEvent{ChangeType: primitive.TopologyChangeTypeNewNode, Address: &primitive.Inet{Addr: []byte{127, 9, 9, 9}, Port: 9042}})
			quiesce()
		case 'u':
			env.Cluster.Event(&message.StatusChangeEvent{ChangeType: primitive.StatusChangeTypeDown, Address: &primitive.Inet{Addr: []byte{127, 9, 9, 9}, Port: 9042}})
			quiesce()
		case 'y':
			p := strings.SplitN(a[1:], ":", 2)
			k, _ := strconv.Atoi(p[0])
			ev := schemaEvent(k, p[1])
			mu.Lock()
			sent[k] = ev
			mu.Unlock()
			var once sync.Once
			env.Cluster.SetAfterRegister(func(c *fakecass.Conn) {
				if c.Version != primitive.ProtocolVersion4 {
					return // a connection to the older node: the proxy will not keep it as its control connection
				}
				once.Do(func() {
					f := frame.NewFrame(c.Version, -1, ev)
					var buf bytes.Buffer
					if fakecass.Codec("").EncodeFrame(f, &buf) == nil {
						_ = c.WriteRaw(buf.Bytes())
					}
				})
			})
			for _, ip := range env.Cluster.NodeIPs() {
				env.Cluster.Node(ip).DropConns(func(c interface{ Registered() bool }) bool { return c.Registered() })
			}
			time.Sleep(10 * time.Millisecond)
			if !waitControl() {
				mu.Lock()
				anomalies = append(anomalies, "control-connection-not-restored")
				mu.Unlock()
			}
			env.Cluster.SetAfterRegister(nil)
			time.Sleep(30 * time.Millisecond)
			quiesce()
		case 'x':
			for _, ip := range env.Cluster.NodeIPs() {
				env.Cluster.Node(ip).DropConns(func(c interface{ Registered() bool }) bool { return c.Registered() })
			}
			time.Sleep(10 * time.Millisecond)
			if !waitControl() {
				mu.Lock()
				anomalies = append(anomalies, "control-connection-not-restored")
				mu.Unlock()
			}
		}
	}
	quiesce()
	for _, c := range clients {
		if c != nil {
			c.Close()
		}
	}
	wg.Wait()
	mu.Lock()
	defer mu.Unlock()
	var parts []string
	for i := range got {
		parts = append(parts, fmt.Sprintf("%d=%s", i, strings.Join(got[i], ",")))
	}
	sort.Strings(anomalies)
	return strings.TrimSpace(strings.Join(parts, " ") + " " + strings.Join(anomalies, " "))
}

// runEventFlood: Z:<n>:<arguments per event>:<ms> - two registered clients, the first does not read for <ms>
// milliseconds while the backend emits n large events back to back. The proxy's queues fill up and everything waits for
// the slow client; once it reads, every event reaches both clients.  real: z0=<events client 0 got> z1=<…>
func runEventFlood(op string) string {
	p := strings.Split(strings.Fields(op)[0][2:], ":")
	for len(p) < 3 {
		p = append(p, "0")
	}
	n, _ := strconv.Atoi(p[0])
	nargs, _ := strconv.Atoi(p[1])
	ms, _ := strconv.Atoi(p[2])
	env, err := e2e.Start(e2e.Options{Hosts: 1, NumConns: 1})
	if err != nil {
		return "env-error:" + err.Error()
	}
	defer env.Close()
	var cls [2]*e2e.Client
	for i := range cls {
		c, err := env.Dial(primitive.ProtocolVersion4, "")
		if err != nil {
			return "dial-error"
		}
		defer c.Close()
		_ = c.Send(9, &message.Register{EventTypes: []primitive.EventType{primitive.EventTypeSchemaChange}})
		if _, err := c.Recv(2 * time.Second); err != nil {
			return "register-unanswered"
		}
		cls[i] = c
	}
	var counts [2]int64
	var wg sync.WaitGroup
	for i := range cls {
		wg.Add(1)
		go func(i int) {
			defer wg.Done()
			if i == 0 {
				time.Sleep(time.Duration(ms) * time.Millisecond)
			}
			for {
				r, err := cls[i].Recv(4 * time.Second)
				if err != nil {
					return
				}
				if r.Frame != nil {
					if _, ok := r.Frame.Body.Message.(*message.SchemaChangeEvent); ok {
						if atomic.AddInt64(&counts[i], 1) >= int64(n) {
							return
						}
					}
				}
			}
		}(i)
	}
	args := make([]string, nargs)
	for i := range args {
		args[i] = "int"
	}
	for k := 1; k <= n; k++ {
		env.Cluster.Event(&message.SchemaChangeEvent{ChangeType: primitive.SchemaChangeTypeCreated, Target: primitive.SchemaChangeTargetFunction,
			Keyspace: fmt.Sprintf("ks%d", k), Object: "fn", Arguments: args})
	}
	wg.Wait()
	return fmt.Sprintf("z0=%d z1=%d", atomic.LoadInt64(&counts[0]), atomic.LoadInt64(&counts[1]))
}

func genEvents(e *emitter, r *rng.R, n int, tier string) {
	ops := []string{
		"L:3 c0 c1 c2 r0:SCHEMA_CHANGE r1:TOPOLOGY_CHANGE,STATUS_CHANGE s1:K t u s2:T d0 s3:F",
		"L:2 c0 r0:SCHEMA_CHANGE s1:K x s2:T c1 r1:STATUS_CHANGE,SCHEMA_CHANGE s3:A",
		"L:2 c0 r0:SCHEMA_CHANGE r0:SCHEMA_CHANGE s1:Y",
		"L:2 c0 c1 r0:SCHEMA_CHANGE y1:K s2:T",
		"L:2 c0 c1 r0:SCHEMA_CHANGE r1:SCHEMA_CHANGE s1:T s1:T s2:K s1:T",
		"L:2 c0:3 c1 r0:SCHEMA_CHANGE r1:SCHEMA_CHANGE s1:F s2:A s3:K s4:T s5:Y s6:F",
		"L:2 U:password c0 c1 r0:SCHEMA_CHANGE s1:K x s2:T r1:SCHEMA_CHANGE s3:F", // backends that authenticate, with and without a challenge round trip
		"L:2 U:dse c0 c1 r0:SCHEMA_CHANGE s1:K x s2:T r1:SCHEMA_CHANGE s3:F",
		"L:2 O:1 c0 c1 r0:SCHEMA_CHANGE r1:SCHEMA_CHANGE s1:K x s2:T x s3:F x s4:A", // a mixed-version cluster: the fail-over passes an older node
		"L:1 O:2 c0 r0:SCHEMA_CHANGE x s1:K x s2:T x s3:Y",
		"Z:3600:1500:1500", // more events than every queue on the way holds, with one client not reading
		"L:1 c0 r0:SCHEMA_CHANGE s1:K y2:T y3:A s4:F",
	}
	defer func() { e.emitAll(ops, 8) }()
	types := []string{"SCHEMA_CHANGE", "TOPOLOGY_CHANGE", "STATUS_CHANGE", "SCHEMA_CHANGE,TOPOLOGY_CHANGE", "TOPOLOGY_CHANGE,STATUS_CHANGE", "STATUS_CHANGE,SCHEMA_CHANGE,TOPOLOGY_CHANGE", "SCHEMA_CHANGE"}
	for i := 0; i < n; i++ {
		rr := r.Fork(uint64(i))
		l := 1 + rr.Intn(4)
		parts := []string{fmt.Sprintf("L:%d", l)}
		switch rr.Intn(8) {
		case 0:
			parts = append(parts, "U:"+rr.Pick([]string{"password", "dse"}))
		case 1:
			parts = append(parts, fmt.Sprintf("O:%d", 1+rr.Intn(2)))
		}
		ev := 0
		for j := 0; j < 5+rr.Intn(12); j++ {
			ci := rr.Intn(l)
			switch c := rr.Intn(20); {
			case c < 4:
				if rr.Intn(3) == 0 {
					parts = append(parts, fmt.Sprintf("c%d:3", ci))
				} else {
					parts = append(parts, fmt.Sprintf("c%d", ci))
				}
			case c < 8:
				parts = append(parts, fmt.Sprintf("r%d:%s", ci, rr.Pick(types)))
			case c < 10:
				parts = append(parts, fmt.Sprintf("d%d", ci))
			case c < 15:
				ev++
				tok := fmt.Sprintf("s%d:%s", ev, rr.Pick([]string{"K", "T", "Y", "F", "A"}))
				parts = append(parts, tok)
				if rr.Intn(4) == 0 { // the backend emits the very same event again (two ALTERs of one table)
					parts = append(parts, tok)
				}
			case c == 15 && rr.Intn(3) == 0:
				ev++
				parts = append(parts, fmt.Sprintf("y%d:%s", ev, rr.Pick([]string{"K", "T", "Y", "F", "A"})))
			case c < 17:
				parts = append(parts, "t")
			case c < 19:
				parts = append(parts, "u")
			default:
				parts = append(parts, "x")
			}
		}
		ops = append(ops, strings.Join(parts, " "))
	}
}
