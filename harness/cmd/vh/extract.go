package main

import (
	"flag"
	"fmt"
	"os"
	"path/filepath"
	"strings"
)

// extract: translators / tabulators that regenerate lean/CqlVerif/Gen/*.lean from /repo on every run.

type extractor func(outDir string) error

var extractors = map[string]extractor{}

func init() {
	commands["extract"] = func(args []string) int {
		if len(args) < 1 {
			fmt.Fprintln(os.Stderr, "usage: vh extract <name> -out <dir>")
			return 2
		}
		fs := flag.NewFlagSet("extract", flag.ExitOnError)
		out := fs.String("out", ".", "output directory for generated Lean files")
		_ = fs.Parse(args[1:])
		fn, ok := extractors[args[0]]
		if !ok {
			fmt.Fprintf(os.Stderr, "unknown extractor %q\n", args[0])
			return 2
		}
		if err := os.MkdirAll(*out, 0o755); err != nil {
			fmt.Fprintln(os.Stderr, err)
			return 1
		}
		if err := fn(*out); err != nil {
			fmt.Fprintln(os.Stderr, "extract "+args[0]+": "+err.Error())
			return 1
		}
		return 0
	}
}

// writeGen replaces a generated file atomically (a stale file can never satisfy a check: it is
// removed first and only recreated on success).
func writeGen(outDir, name, content string) error {
	path := filepath.Join(outDir, name)
	_ = os.Remove(path)
	tmp := path + ".tmp"
	if err := os.WriteFile(tmp, []byte(content), 0o644); err != nil {
		return err
	}
	return os.Rename(tmp, path)
}

func leanStr(s string) string {
	var sb strings.Builder
	sb.WriteByte('"')
	for _, r := range s {
		switch {
		case r == '"':
			sb.WriteString("\\\"")
		case r == '\\':
			sb.WriteString("\\\\")
		case r == '\n':
			sb.WriteString("\\n")
		case r == '\t':
			sb.WriteString("\\t")
		case r == '\r':
			sb.WriteString("\\r")
		case r < 0x20 || r == 0x7f:
			fmt.Fprintf(&sb, "\\x%02x", r)
		default:
			sb.WriteRune(r)
		}
	}
	sb.WriteByte('"')
	return sb.String()
}

// leanBytes renders a Go string as a Lean list of byte values (strings are bytes on the Go side;
// keeping them as numbers keeps kernel evaluation of table lemmas cheap and total).
func leanBytes(s string) string {
	var sb strings.Builder
	sb.WriteByte('[')
	for i := 0; i < len(s); i++ {
		if i > 0 {
			sb.WriteByte(',')
		}
		fmt.Fprintf(&sb, "%d", s[i])
	}
	sb.WriteByte(']')
	return sb.String()
}

func repoRoot() string {
	if r := os.Getenv("VERIF_REPO"); r != "" {
		return r
	}
	return "/repo"
}
