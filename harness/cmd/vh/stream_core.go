package main

import (
	"fmt"
	"sort"
	"strconv"
	"strings"
	"sync"
	"time"

	"github.com/datastax/go-cassandra-native-protocol/datatype"
	"github.com/datastax/go-cassandra-native-protocol/message"
	"github.com/datastax/go-cassandra-native-protocol/primitive"
	"verifharness/internal/e2e"
	"verifharness/internal/fakecass"
	"verifharness/internal/rng"
)

// core: sequentialised multi-request histories through the real proxy. Backends hold every
// request frame until the history answers it, so any number of requests is in flight at once
// and answers/connection losses happen in any order.
// op:   H:<hosts> L:<clients> then actions
//         q<client>:<stream>:<i|n>      client sends a request (token = index of the q action)
//         a<token>:<outcome>            the backend answers the outstanding frame of that request
//         k<token>                      the backend drops the connection carrying that frame
// real: per token  <token>=<hosts tried>/<reply class>@<client>:<stream>  (sorted by token) [+ anomalies]

func init() { streams["core"] = stream{gen: genCore, run: runCore} }

type heldFrame struct {
	rq    *fakecass.Request
	token int
	host  int
}

func tokenOf(rq *fakecass.Request) int {
	if rq.Frame == nil {
		return -1
	}
	if q, ok := rq.Frame.Body.Message.(*message.Query); ok {
		if i := strings.Index(q.Query, "/*t"); i >= 0 {
			rest := q.Query[i+3:]
			if j := strings.Index(rest, "*/"); j >= 0 {
				n, err := strconv.Atoi(rest[:j])
				if err == nil {
					return n
				}
			}
		}
	}
	return -1
}

func rowsWith(tag string) message.Message {
	return &message.RowsResult{
		Metadata: &message.RowsMetadata{ColumnCount: 1, Columns: []*message.ColumnMetadata{{Keyspace: "ks", Table: "t", Name: "tok", Index: 0, Type: datatype.Varchar}}},
		Data:     message.RowSet{message.Row{[]byte(tag)}},
	}
}

// replyTag extracts the tag a backend put into its answer ("" if the frame is the proxy's own)
func replyTag(r *e2e.Reply) (class string, tag string) {
	if r.Frame == nil {
		return "undecodable", ""
	}
	switch m := r.Frame.Body.Message.(type) {
	case *message.RowsResult:
		if len(m.Data) == 1 && len(m.Data[0]) == 1 {
			return "ok", string(m.Data[0][0])
		}
		return "ok", ""
	case message.Error:
		txt := m.GetErrorMessage()
		if strings.HasPrefix(txt, "Proxy ") {
			return "proxyerr", ""
		}
		return "err", txt
	}
	return "other", ""
}

func runCore(op string) (out string) {
	defer func() {
		if p := recover(); p != nil {
			out = fmt.Sprintf("panic:%v", p)
		}
	}()
	toks := strings.Fields(op)
	hosts, nclients := 2, 1
	var acts []string
	for _, t := range toks {
		switch {
		case strings.HasPrefix(t, "H:"):
			hosts, _ = strconv.Atoi(t[2:])
		case strings.HasPrefix(t, "L:"):
			nclients, _ = strconv.Atoi(t[2:])
		default:
			acts = append(acts, t)
		}
	}
	env, err := e2e.Start(e2e.Options{Hosts: hosts, NumConns: 1, ReconnectBase: 30 * time.Second, ReconnectMax: 30 * time.Second})
	if err != nil {
		return "env-error:" + err.Error()
	}
	defer env.Close()
	ips := append([]string{}, env.IPs...)
	sort.Strings(ips)
	idx := map[string]int{}
	for i, ip := range ips {
		idx[ip] = i
	}
	var mu sync.Mutex
	var held []*heldFrame
	tried := map[int][]string{}
	events := 0
	env.Cluster.Handler = func(rq *fakecass.Request) fakecass.Response {
		mu.Lock()
		defer mu.Unlock()
		t := tokenOf(rq)
		h := idx[rq.Node]
		held = append(held, &heldFrame{rq: rq, token: t, host: h})
		tried[t] = append(tried[t], fmt.Sprintf("h%d", h))
		events++
		return fakecass.Response{Kind: fakecass.RespSilent}
	}
	clients := make([]*e2e.Client, nclients)
	type got struct {
		class, tag string
		stream     int16
	}
	replies := make([][]got, nclients)
	var wg sync.WaitGroup
	for i := range clients {
		c, err := env.Dial(primitive.ProtocolVersion4, "")
		if err != nil {
			return "dial-error:" + err.Error()
		}
		clients[i] = c
		wg.Add(1)
		go func(i int, c *e2e.Client) { // reader
			defer wg.Done()
			for {
				r, err := c.Recv(time.Hour)
				if err != nil {
					return
				}
				class, tag := replyTag(r)
				mu.Lock()
				st := int16(-9999)
				if r.Header != nil {
					st = r.Header.StreamId
				}
				replies[i] = append(replies[i], got{class, tag, st})
				events++
				mu.Unlock()
			}
		}(i, c)
	}
	// waitEvent: an action that takes effect makes the proxy do at least one observable thing (forward a frame to
	// a backend or answer the client); wait for it before looking for quiescence.
	waitEvent := func(before int) {
		for i := 0; i < 1500; i++ {
			mu.Lock()
			e := events
			mu.Unlock()
			if e > before {
				return
			}
			time.Sleep(time.Millisecond)
		}
	}
	evCount := func() int { mu.Lock(); defer mu.Unlock(); return events }
	quiesce := func() {
		last, stable := -1, 0
		for i := 0; i < 400 && stable < 5; i++ {
			time.Sleep(2 * time.Millisecond)
			mu.Lock()
			e := events
			mu.Unlock()
			if e == last {
				stable++
			} else {
				stable, last = 0, e
			}
		}
	}
	type reqInfo struct {
		client int
		stream int16
	}
	var reqs []reqInfo
	var anomalies []string
	answerSeq := 0
	takeHeld := func(token int) *heldFrame {
		mu.Lock()
		defer mu.Unlock()
		for i, h := range held {
			if h.token == token {
				held = append(held[:i], held[i+1:]...)
				return h
			}
		}
		return nil
	}
	for _, a := range acts {
		before := evCount()
		effective := false
		switch a[0] {
		case 'q':
			effective = true
			p := strings.Split(a[1:], ":")
			cl, _ := strconv.Atoi(p[0])
			st, _ := strconv.Atoi(p[1])
			token := len(reqs)
			reqs = append(reqs, reqInfo{cl, int16(st)})
			q := "INSERT INTO ks.t (k, v) VALUES (1, 'a') /*t" + strconv.Itoa(token) + "*/"
			if p[2] == "n" {
				q = "INSERT INTO ks.t (k, v) VALUES (1, now()) /*t" + strconv.Itoa(token) + "*/"
			}
			b, _ := clients[cl].Encode(int16(st), &message.Query{Query: q, Options: &message.QueryOptions{Consistency: primitive.ConsistencyLevelOne}}, nil)
			_ = clients[cl].WriteBytes(b)
		case 'a':
			p := strings.SplitN(a[1:], ":", 2)
			token, _ := strconv.Atoi(p[0])
			h := takeHeld(token)
			if h == nil {
				continue // nothing outstanding for that request: the action is a no-op in the model too
			}
			tag := fmt.Sprintf("%d#%d", token, answerSeq)
			answerSeq++
			var msg message.Message
			if p[1] == "ok" {
				msg = rowsWith(tag)
			} else {
				msg = errFor(p[1], tag)
			}
			_ = h.rq.Conn.Send(h.rq.Header.Version, h.rq.Header.StreamId, msg)
			effective = true
		case 'k':
			token, _ := strconv.Atoi(a[1:])
			h := takeHeld(token)
			if h == nil {
				continue
			}
			// every frame held on that connection is lost with it
			mu.Lock()
			var keep []*heldFrame
			for _, o := range held {
				if o.rq.Conn != h.rq.Conn {
					keep = append(keep, o)
				}
			}
			held = keep
			mu.Unlock()
			h.rq.Conn.Close()
			effective = true
		}
		if effective {
			waitEvent(before)
		}
		quiesce()
	}
	quiesce()
	for _, c := range clients {
		c.Close()
	}
	wg.Wait()
	mu.Lock()
	defer mu.Unlock()
	// per request: hosts tried / reply
	var parts []string
	used := make([][]bool, nclients)
	for i := range used {
		used[i] = make([]bool, len(replies[i]))
	}
	for token, ri := range reqs {
		rep := "none"
		n := 0
		for j, g := range replies[ri.client] {
			if used[ri.client][j] || g.stream != ri.stream {
				continue
			}
			// a reply on (client, stream) belongs to the oldest unanswered request sent there
			earlier := false
			for t2 := 0; t2 < token; t2++ {
				if reqs[t2].client == ri.client && reqs[t2].stream == ri.stream && !strings.Contains(strings.Join(parts, " "), fmt.Sprintf(" %d=", t2)) {
					earlier = true
				}
			}
			_ = earlier
			used[ri.client][j] = true
			n++
			rep = g.class
			if g.tag != "" {
				want := fmt.Sprintf("%d#", token)
				if !strings.HasPrefix(g.tag, want) {
					anomalies = append(anomalies, fmt.Sprintf("misrouted:req%d-got-%s", token, g.tag))
				}
			}
			break
		}
		parts = append(parts, fmt.Sprintf("%d=%s/%s@%d:%d", token, strings.Join(tried[token], ","), rep, ri.client, ri.stream))
	}
	for i := range replies {
		for j, g := range replies[i] {
			if !used[i][j] {
				anomalies = append(anomalies, fmt.Sprintf("extra-frame:client%d-stream%d-%s-%s", i, g.stream, g.class, g.tag))
			}
		}
	}
	sort.Strings(anomalies)
	return strings.Join(append(parts, anomalies...), " ")
}

func genCore(e *emitter, r *rng.R, n int, tier string) {
	ops := []string{
		"H:2 L:1 q0:1:i q0:2:i k0 a1:ok a0:ok",
		"H:2 L:2 q0:5:i q1:5:n k0 a1:ok a0:se a0:ok",
		"H:3 L:1 q0:1:n q0:2:i q0:3:i a0:un a0:wt:SIMPLE a1:rt:2:2:0 a1:ok a2:se a2:ov a2:tr",
		"H:2 L:1 q0:1:i a0:ok q0:1:i a1:ok",
	}
	defer func() { e.emitAll(ops, 12) }()
	outcomes := []string{"ok", "ok", "ok", "un", "bs", "se", "ov", "tr", "rf", "wf", "rt:2:2:0", "rt:1:2:0", "wt:BATCH_LOG", "wt:SIMPLE", "inv", "syn"}
	for i := 0; i < n; i++ {
		rr := r.Fork(uint64(i))
		h := 1 + rr.Intn(3)
		l := 1 + rr.Intn(3)
		parts := []string{fmt.Sprintf("H:%d", h), fmt.Sprintf("L:%d", l)}
		nreq := 0
		type live struct{ cl, st int }
		inUse := map[live]int{} // (client, stream) -> token of the request that may still be in flight there
		steps := 3 + rr.Intn(14)
		for s := 0; s < steps; s++ {
			c := rr.Intn(10)
			switch {
			case c < 4 || nreq == 0:
				// stream ids: small pool so that equal ids on different clients and immediate reuse occur; sometimes extreme
				cl := rr.Intn(l)
				st := []int{0, 1, 1, 2, 7, 32767, 100}[rr.Intn(7)]
				for try := 0; try < 20; try++ { // a driver never reuses a stream id that may still be in flight
					if _, busy := inUse[live{cl, st}]; !busy {
						break
					}
					st = ([]int{0, 1, 2, 3, 4, 7, 32767, 100, 200, 300, 1}[rr.Intn(11)] + try) % 32768
				}
				if _, busy := inUse[live{cl, st}]; busy {
					continue
				}
				inUse[live{cl, st}] = nreq
				parts = append(parts, fmt.Sprintf("q%d:%d:%s", cl, st, rr.Pick([]string{"i", "i", "n"})))
				nreq++
			case c < 9:
				tok := rr.Intn(nreq)
				oc := rr.Pick(outcomes)
				parts = append(parts, fmt.Sprintf("a%d:%s", tok, oc))
				if oc == "ok" { // surely finished now: its stream id may be reused at once
					for k, v := range inUse {
						if v == tok {
							delete(inUse, k)
						}
					}
				}
			default:
				parts = append(parts, fmt.Sprintf("k%d", rr.Intn(nreq)))
			}
		}
		ops = append(ops, strings.Join(parts, " "))
	}
}
