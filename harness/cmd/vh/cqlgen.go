package main

import (
	"fmt"
	"strings"

	"verifharness/internal/rng"
)

// Type-directed generator of CQL DML statements with ground truth attached by construction
// (DESIGN §5 C06): truth.idem is what the documented rule says, independently of any parser.

type genStmt struct {
	text  string
	idem  bool // IdemTruth: SELECT, or a mutation with none of the documented non-idempotent constructs
	plain bool // only literals, bind markers and set/map additions: must be classified idempotent
	kind  string
}

type termInfo struct {
	text    string
	nonIdem bool // contains a system now()/uuid() call
	plain   bool // literal / bind marker / collection of those
	shape   string
}

var gIdents = []string{"k", "v", "col1", "name", "\"Quoted\"", "ts", "value", "key", "json", "ttl", "contains", "filtering", "list1", "m", "s"}
// (tables and keyspaces named like the words the classifier looks for as unreserved keywords are ordinary names)
var gTables = []string{"t", "ks.t", "ks1.tbl", "\"Ks\".\"T\"", "system.t", "users", "t", "ks.t",
	"json", "ks.json", "json.t", "values", "ks.values", "ttl", "timestamp", "ks.set", "counter", "unlogged.t", "key", "like", "contains", "\"json\""}
var gFuncs = []string{"f", "ks.fn", "tojson", "token", "mintimeuuid", "dateof", "blobasint", "my.now", "other.uuid", "nowx", "uuids"}
var gTypes = []string{"int", "text", "frozen<list<int>>", "map<text, int>", "ks.udt", "bigint"}

func gLiteral(r *rng.R) termInfo {
	lits := []string{"1", "0", "-5", "42", "1.5", "-0.25e10", "true", "FALSE", "null", "'a'", "'it''s'", "'$$'", "0xCAFE", "123e4567-e89b-12d3-a456-426614174000", "1h30m", "P1Y2M", "NaN", "Infinity", "''", "'now()'", "'uuid()'"}
	return termInfo{text: r.Pick(lits), plain: true, shape: "lit"}
}

func gBind(r *rng.R) termInfo {
	return termInfo{text: r.Pick([]string{"?", ":name", ":\"Q\"", "?"}), plain: true, shape: "bind"}
}

func gTerm(r *rng.R, depth int) termInfo {
	c := r.Intn(20)
	if depth <= 0 && c >= 8 {
		c = r.Intn(8)
	}
	switch {
	case c < 5:
		return gLiteral(r)
	case c < 8:
		return gBind(r)
	case c < 10: // list
		n := r.Intn(4)
		var parts []string
		t := termInfo{plain: true, shape: "list"}
		for i := 0; i < n; i++ {
			e := gTerm(r, depth-1)
			parts = append(parts, e.text)
			t.nonIdem = t.nonIdem || e.nonIdem
			t.plain = t.plain && e.plain
		}
		t.text = "[" + strings.Join(parts, ", ") + "]"
		return t
	case c < 12: // set
		n := 1 + r.Intn(3)
		var parts []string
		t := termInfo{plain: true, shape: "set"}
		for i := 0; i < n; i++ {
			e := gTerm(r, depth-1)
			parts = append(parts, e.text)
			t.nonIdem = t.nonIdem || e.nonIdem
			t.plain = t.plain && e.plain
		}
		t.text = "{" + strings.Join(parts, ", ") + "}"
		return t
	case c < 14: // map
		n := r.Intn(3)
		var parts []string
		t := termInfo{plain: true, shape: "map"}
		for i := 0; i < n; i++ {
			k, v := gTerm(r, depth-1), gTerm(r, depth-1)
			parts = append(parts, k.text+": "+v.text)
			t.nonIdem = t.nonIdem || k.nonIdem || v.nonIdem
			t.plain = t.plain && k.plain && v.plain
		}
		t.text = "{" + strings.Join(parts, ", ") + "}"
		return t
	case c < 15: // UDT literal
		n := 1 + r.Intn(3)
		var parts []string
		t := termInfo{shape: "udt"}
		for i := 0; i < n; i++ {
			v := gTerm(r, depth-1)
			parts = append(parts, r.Pick([]string{"f1", "field", "\"F\""})+": "+v.text)
			t.nonIdem = t.nonIdem || v.nonIdem
		}
		t.text = "{" + strings.Join(parts, ", ") + "}"
		return t
	case c < 16: // tuple
		n := 1 + r.Intn(3)
		var parts []string
		t := termInfo{shape: "tuple"}
		for i := 0; i < n; i++ {
			e := gTerm(r, depth-1)
			parts = append(parts, e.text)
			t.nonIdem = t.nonIdem || e.nonIdem
		}
		t.text = "(" + strings.Join(parts, ", ") + ")"
		return t
	case c < 17: // cast
		e := gTerm(r, depth-1)
		return termInfo{text: "(" + r.Pick(gTypes) + ") " + e.text, nonIdem: e.nonIdem, shape: "cast"}
	case c < 19: // function call
		n := r.Intn(3)
		var parts []string
		t := termInfo{shape: "func"}
		for i := 0; i < n; i++ {
			if r.Chance(1, 3) {
				parts = append(parts, r.Pick(gIdents)) // column reference
				continue
			}
			e := gTerm(r, depth-1)
			parts = append(parts, e.text)
			t.nonIdem = t.nonIdem || e.nonIdem
		}
		t.text = r.Pick(gFuncs) + "(" + strings.Join(parts, ", ") + ")"
		return t
	default: // the system's non-deterministic functions
		f := r.Pick([]string{"now", "uuid", "NOW", "Uuid", "system.now", "SYSTEM.uuid", "\"now\"", "system.\"uuid\""})
		return termInfo{text: f + "()", nonIdem: true, shape: "sysfunc"}
	}
}

func gUsing(r *rng.R) string {
	switch r.Intn(6) {
	case 0:
		return " USING TTL 10"
	case 1:
		return " USING TIMESTAMP ? AND TTL :ttl"
	case 2:
		return " using timestamp 12345"
	}
	return ""
}

func gWhere(r *rng.R, depth int) (string, bool, bool) {
	n := 1 + r.Intn(3)
	var parts []string
	nonIdem, plain := false, true
	use := func(ts ...termInfo) {
		for _, t := range ts {
			nonIdem = nonIdem || t.nonIdem
			plain = plain && t.plain
		}
	}
	for i := 0; i < n; i++ {
		col := r.Pick(gIdents)
		switch r.Intn(9) {
		case 0:
			t := gTerm(r, depth)
			parts = append(parts, col+" = "+t.text)
			use(t)
		case 1:
			a, b := gTerm(r, depth-1), gTerm(r, depth-1)
			list := a.text + ", " + b.text
			if r.Chance(1, 8) { // a long IN list
				for j := 0; j < 30+r.Intn(30); j++ {
					x := gTerm(r, 0)
					list += ", " + x.text
					use(x)
				}
			}
			parts = append(parts, col+" IN ("+list+")")
			use(a, b)
		case 2:
			parts = append(parts, col+" IN ?")
		case 3:
			t := gTerm(r, depth-1)
			parts = append(parts, col+" CONTAINS "+r.Pick([]string{"", "KEY "})+t.text)
			use(t)
		case 4:
			t := gTerm(r, depth-1)
			parts = append(parts, "token(k, v) "+r.Pick([]string{">", "<=", "="})+" "+t.text)
			use(t)
		case 5:
			a, b := gTerm(r, depth-1), gTerm(r, depth-1)
			parts = append(parts, "(k, v) "+r.Pick([]string{"=", ">", "IN"})+" ("+a.text+", "+b.text+")")
			use(a, b)
		case 6:
			parts = append(parts, col+" IS NOT NULL")
		case 7:
			a, b := gTerm(r, depth-1), gTerm(r, depth-1)
			parts = append(parts, col+"["+a.text+"] "+r.Pick([]string{"=", "!=", ">="})+" "+b.text)
			use(a, b)
		default:
			t := gLiteral(r)
			parts = append(parts, col+" "+r.Pick([]string{"=", "<", ">", "<=", ">=", "!="})+" "+t.text)
		}
	}
	return " WHERE " + strings.Join(parts, " AND "), nonIdem, plain
}

func gIf(r *rng.R) (string, bool) {
	switch r.Intn(8) {
	case 0:
		return " IF EXISTS", true
	case 1:
		return " IF NOT EXISTS", true
	case 2:
		return " IF v = 1", true
	}
	return "", false
}

func genInsert(r *rng.R, depth int) genStmt {
	g := genStmt{kind: "insert", idem: true, plain: true}
	if r.Chance(1, 8) {
		g.text = "INSERT INTO " + r.Pick(gTables) + " JSON " + r.Pick([]string{"'{\"k\": 1}'", "?", "'{}' DEFAULT UNSET"})
	} else {
		n := 1 + r.Intn(4)
		if r.Chance(1, 15) { // a wide row
			n, depth = 20+r.Intn(45), 0
		}
		var cols, vals []string
		for i := 0; i < n; i++ {
			cols = append(cols, r.Pick(gIdents))
			t := gTerm(r, depth)
			vals = append(vals, t.text)
			g.idem = g.idem && !t.nonIdem
			g.plain = g.plain && t.plain
		}
		g.text = "INSERT INTO " + r.Pick(gTables) + " (" + strings.Join(cols, ", ") + ") VALUES (" + strings.Join(vals, ", ") + ")"
	}
	ifs, lwt := gIf(r)
	if lwt && !strings.Contains(ifs, "v = 1") {
		g.text += ifs
		g.idem, g.plain = false, false
	}
	g.text += gUsing(r)
	return g
}

func genUpdate(r *rng.R, depth int) genStmt {
	g := genStmt{kind: "update", idem: true, plain: true}
	g.text = "UPDATE " + r.Pick(gTables) + gUsing(r) + " SET "
	n := 1 + r.Intn(3)
	var ops []string
	for i := 0; i < n; i++ {
		col := r.Pick(gIdents)
		switch r.Intn(12) {
		case 0, 1, 2, 3: // col = term
			t := gTerm(r, depth)
			ops = append(ops, col+" = "+t.text)
			g.idem = g.idem && !t.nonIdem
			g.plain = g.plain && t.plain
		case 4: // counter
			ops = append(ops, col+" = "+col+" "+r.Pick([]string{"+", "-"})+" "+r.Pick([]string{"1", "5", "-2"}))
			g.idem, g.plain = false, false
		case 5: // set/map addition: idempotent
			t := gTerm(r, depth-1)
			txt := "{" + t.text + "}"
			if r.Bool() {
				ops = append(ops, col+" = "+col+" + "+txt)
			} else {
				ops = append(ops, col+" += "+txt)
			}
			g.idem = g.idem && !t.nonIdem
			g.plain = g.plain && t.plain
		case 6: // list append / prepend / remove
			t := gLiteral(r)
			ops = append(ops, r.Pick([]string{col + " = " + col + " + [" + t.text + "]", col + " = [" + t.text + "] + " + col, col + " += [" + t.text + "]", col + " -= [" + t.text + "]", col + " = " + col + " - [" + t.text + "]"}))
			g.idem, g.plain = false, false
		case 7: // ambiguous: col = col + bind marker / function / cast
			ops = append(ops, col+" = "+col+" "+r.Pick([]string{"+", "-"})+" "+r.Pick([]string{"?", ":x", "f(1)", "(int) 1"}))
			g.idem, g.plain = false, false
		case 8: // counter +=
			ops = append(ops, col+" "+r.Pick([]string{"+=", "-="})+" "+r.Pick([]string{"1", "?"}))
			g.idem, g.plain = false, false
		case 9: // element / field assignment
			a, b := gTerm(r, depth-1), gTerm(r, depth-1)
			ops = append(ops, col+"["+a.text+"] = "+b.text)
			g.idem = g.idem && !a.nonIdem && !b.nonIdem
			g.plain = false
		case 10:
			t := gTerm(r, depth-1)
			ops = append(ops, col+".field = "+t.text)
			g.idem = g.idem && !t.nonIdem
			g.plain = false
		default: // set removal: idempotent
			t := gLiteral(r)
			ops = append(ops, col+" -= {"+t.text+"}")
		}
	}
	g.text += strings.Join(ops, ", ")
	w, wn, wp := gWhere(r, depth-1)
	g.text += w
	g.idem = g.idem && !wn
	g.plain = g.plain && wp
	ifs, lwt := gIf(r)
	if lwt {
		g.text += ifs
		g.idem, g.plain = false, false
	}
	return g
}

func genDelete(r *rng.R, depth int) genStmt {
	g := genStmt{kind: "delete", idem: true, plain: true}
	var sels []string
	for i := 0; i < r.Intn(3); i++ {
		col := r.Pick(gIdents)
		switch r.Intn(6) {
		case 0: // delete by index
			sels = append(sels, col+"["+r.Pick([]string{"0", "1", "?", ":i"})+"]")
			g.idem, g.plain = false, false
		case 1: // delete map element by key
			sels = append(sels, col+"["+r.Pick([]string{"'key'", "1.5", "0xAB", "true"})+"]")
		case 2:
			sels = append(sels, col+".field")
		default:
			sels = append(sels, col)
		}
	}
	g.text = "DELETE " + strings.Join(sels, ", ")
	if len(sels) > 0 {
		g.text += " "
	}
	g.text += "FROM " + r.Pick(gTables) + gUsing(r)
	w, wn, wp := gWhere(r, depth-1)
	g.text += w
	g.idem = g.idem && !wn
	g.plain = g.plain && wp
	ifs, lwt := gIf(r)
	if lwt {
		g.text += ifs
		g.idem, g.plain = false, false
	}
	return g
}

func genStatement(r *rng.R, depth int) genStmt {
	switch c := r.Intn(20); {
	case c < 2:
		return genStmt{kind: "select", idem: true, plain: true, text: r.Pick([]string{"SELECT * FROM ks.t WHERE k = 1", "select now() from system.local", "SELECT a, b FROM t WHERE k IN (1, 2) ALLOW FILTERING", "SELECT uuid() FROM t"})}
	case c < 8:
		return genInsert(r, depth)
	case c < 14:
		return genUpdate(r, depth)
	case c < 17:
		return genDelete(r, depth)
	default: // batch
		g := genStmt{kind: "batch", idem: true, plain: true}
		mode := r.Pick([]string{"", "", "UNLOGGED ", "COUNTER ", "unlogged "})
		if strings.EqualFold(strings.TrimSpace(mode), "counter") {
			g.idem, g.plain = false, false
		}
		g.text = "BEGIN " + mode + "BATCH" + gUsing(r) + " "
		children := 1 + r.Intn(3)
		if r.Chance(1, 10) { // a long batch
			children = 8 + r.Intn(12)
		}
		for i := 0; i < children; i++ {
			var c genStmt
			switch r.Intn(3) {
			case 0:
				c = genInsert(r, depth-1)
			case 1:
				c = genUpdate(r, depth-1)
			default:
				c = genDelete(r, depth-1)
			}
			g.text += c.text + r.Pick([]string{"; ", " ", ";\n"})
			g.idem = g.idem && c.idem
			g.plain = g.plain && c.plain
		}
		g.text += "APPLY BATCH"
		return g
	}
}

// varyCaseWs re-spells a statement without changing its meaning: keyword case, whitespace runs,
// newlines, a trailing semicolon. String literals and quoted identifiers are left alone.
func varyCaseWs(r *rng.R, s string) string {
	var sb strings.Builder
	inStr, inQ := false, false
	mode := r.Intn(3) // 0 upper keywords, 1 lower, 2 random per word
	i := 0
	for i < len(s) {
		c := s[i]
		switch {
		case inStr:
			sb.WriteByte(c)
			if c == '\'' {
				inStr = false
			}
			i++
		case inQ:
			sb.WriteByte(c)
			if c == '"' {
				inQ = false
			}
			i++
		case c == '\'':
			inStr = true
			sb.WriteByte(c)
			i++
		case c == '"':
			inQ = true
			sb.WriteByte(c)
			i++
		case c == '$' && strings.HasPrefix(s[i:], "$$"):
			j := strings.Index(s[i+2:], "$$")
			if j < 0 {
				sb.WriteString(s[i:])
				i = len(s)
			} else {
				sb.WriteString(s[i : i+2+j+2])
				i += 2 + j + 2
			}
		case c == ' ':
			sb.WriteString(r.Pick([]string{" ", "  ", "\n", "\t", " \r\n ", " "}))
			i++
		case (c >= 'a' && c <= 'z') || (c >= 'A' && c <= 'Z') || c == '_':
			j := i
			for j < len(s) && ((s[j] >= 'a' && s[j] <= 'z') || (s[j] >= 'A' && s[j] <= 'Z') || (s[j] >= '0' && s[j] <= '9') || s[j] == '_') {
				j++
			}
			w := s[i:j]
			isKw := map[string]bool{"select": true, "insert": true, "update": true, "delete": true, "begin": true, "apply": true, "batch": true, "into": true, "from": true, "using": true, "if": true, "where": true, "and": true, "token": true, "is": true, "in": true, "not": true, "null": true, "set": true, "values": true, "ttl": true, "timestamp": true, "unlogged": true, "counter": true, "exists": true, "contains": true, "key": true, "json": true, "allow": true, "filtering": true, "true": true, "false": true, "nan": true, "infinity": true}[strings.ToLower(w)]
			prevIsDigitOrHex := i > 0 && ((s[i-1] >= '0' && s[i-1] <= '9') || s[i-1] == '-')
			if isKw && !prevIsDigitOrHex {
				switch mode {
				case 0:
					w = strings.ToUpper(w)
				case 1:
					w = strings.ToLower(w)
				default:
					b := []byte(w)
					for k := range b {
						if r.Bool() {
							b[k] = strings.ToUpper(string(b[k]))[0]
						} else {
							b[k] = strings.ToLower(string(b[k]))[0]
						}
					}
					w = string(b)
				}
			}
			sb.WriteString(w)
			i = j
		default:
			sb.WriteByte(c)
			i++
		}
	}
	out := sb.String()
	switch r.Intn(4) {
	case 0:
		out += ";"
	case 1:
		out = " " + out + " ;"
	case 2:
		out += "\n"
	}
	return out
}

var _ = fmt.Sprintf
