package main

import (
	"fmt"
	"sort"
	"strings"
	"sync"
	"time"

	"github.com/datastax/cql-proxy/proxy"
	"github.com/datastax/cql-proxy/proxycore"
	"github.com/datastax/go-cassandra-native-protocol/message"
	"github.com/datastax/go-cassandra-native-protocol/primitive"
	"verifharness/internal/e2e"
	"verifharness/internal/fakecass"
	"verifharness/internal/rng"
)

// sched: scenarios that need a particular interleaving, replayed deterministically through the
// yield points compiled in with -tags verif. Scenarios run one at a time (the hook is global).
// op:   samehost-removed <outcome> <i|n>   the host answers <outcome>; if the proxy decides to resend on the
//                                          same host, that host is removed from the topology before the resend
// real: att:<hosts> reply:<class>

func init() { streams["sched"] = stream{gen: genSched, run: runSched} }

var schedMu sync.Mutex

func runSched(op string) (out string) {
	schedMu.Lock()
	defer schedMu.Unlock()
	defer func() {
		if p := recover(); p != nil {
			out = fmt.Sprintf("panic:%v", p)
		}
	}()
	f := strings.Fields(op)
	if len(f) != 3 || f[0] != "samehost-removed" {
		return "bad-op"
	}
	env, err := e2e.Start(e2e.Options{Hosts: 2, NumConns: 1, ReconnectBase: 30 * time.Second, ReconnectMax: 30 * time.Second})
	if err != nil {
		return "env-error:" + err.Error()
	}
	defer env.Close()
	defer proxycore.VerifSetYieldHook(func(string) {})
	ips := append([]string{}, env.IPs...)
	sort.Strings(ips)
	idx := map[string]int{}
	for i, ip := range ips {
		idx[ip] = i
	}
	var mu sync.Mutex
	var att []string
	n := 0
	env.Cluster.Handler = func(rq *fakecass.Request) fakecass.Response {
		mu.Lock()
		defer mu.Unlock()
		att = append(att, fmt.Sprintf("h%d", idx[rq.Node]))
		n++
		if n == 1 {
			return fakecass.Response{Kind: fakecass.RespMsg, Msg: errFor(f[1], "backend#0")}
		}
		return fakecass.Response{Kind: fakecass.RespMsg, Msg: &message.VoidResult{}}
	}
	fired := false
	proxycore.VerifSetYieldHook(func(point string) {
		if point == "retry.before-execute" && !fired {
			fired = true
			// the host that has just answered disappears (what a topology refresh delivers)
			mu.Lock()
			first := ips[0]
			if len(att) > 0 {
				for ip, i := range idx {
					if fmt.Sprintf("h%d", i) == att[0] {
						first = ip
					}
				}
			}
			mu.Unlock()
			proxy.VerifDeliverClusterEvent(env.Proxy, &proxycore.RemoveEvent{Host: &proxycore.Host{
				Endpoint: proxycore.NewEndpoint(fmt.Sprintf("%s:%d", first, env.Cluster.Port))}})
		}
	})
	cl, err := env.Dial(primitive.ProtocolVersion4, "")
	if err != nil {
		return "dial-error:" + err.Error()
	}
	defer cl.Close()
	q := stmtIdem
	if f[2] == "n" {
		q = stmtNonIdem
	}
	_ = cl.Send(5, &message.Query{Query: q, Options: &message.QueryOptions{Consistency: primitive.ConsistencyLevelOne}})
	reply := "none"
	if r, err := cl.Recv(1500 * time.Millisecond); err == nil && r.Frame != nil {
		switch m := r.Frame.Body.Message.(type) {
		case message.Error:
			txt := m.GetErrorMessage()
			switch {
			case strings.HasPrefix(txt, "Proxy exhausted"):
				reply = "nomorehosts"
			case strings.HasPrefix(txt, "backend#"):
				reply = "fwd:" + txt[len("backend#"):]
			default:
				reply = "err"
			}
		default:
			reply = "ok"
		}
	}
	mu.Lock()
	defer mu.Unlock()
	return fmt.Sprintf("att:%s reply:%s", strings.Join(att, ","), reply)
}

func genSched(e *emitter, r *rng.R, n int, tier string) {
	for _, o := range []string{"rt:2:2:0", "wt:BATCH_LOG", "rt:1:2:0", "un"} {
		for _, k := range []string{"i", "n"} {
			e.emit("samehost-removed " + o + " " + k)
		}
	}
}
