package main

import (
	"encoding/hex"
	"fmt"
	"strings"

	"github.com/datastax/cql-proxy/parser"
	"verifharness/internal/rng"
)

// handled: parser.IsQueryHandled(current keyspace, query).
// op:   T:<ground truth 1|0|-> K:<hex of the connection's current keyspace text, "-" = none> <hex query>
// real: handled=<0|1> err=<0|1> kind=<select|use|none> ks=<hex> table=<hex> nsel=<n>   | panic

func init() { streams["handled"] = stream{gen: genHandled, run: runHandled} }

func runHandled(op string) (out string) {
	defer func() {
		if p := recover(); p != nil {
			out = "panic"
		}
	}()
	ks, q := "", ""
	for _, t := range strings.Fields(op) {
		switch {
		case strings.HasPrefix(t, "T:"):
		case strings.HasPrefix(t, "K:"):
			if t[2:] != "-" {
				b, _ := hex.DecodeString(t[2:])
				ks = string(b)
			}
		default:
			b, _ := hex.DecodeString(t)
			q = string(b)
		}
	}
	handled, stmt, err := parser.IsQueryHandled(parser.IdentifierFromString(ks), q)
	kind, table, kss, nsel := "none", "", "", 0
	switch s := stmt.(type) {
	case *parser.SelectStatement:
		kind = "select"
		table, kss, nsel = s.Table, s.Keyspace, len(s.Selectors)
	case *parser.UseStatement:
		kind = "use"
		kss = s.Keyspace
	}
	return fmt.Sprintf("handled=%d err=%d kind=%s ks=%s table=%s nsel=%d", b2i(handled), b2i(err != nil), kind, hexs(kss), hexs(table), nsel)
}

func genHandled(e *emitter, r *rng.R, n int, tier string) {
	hx := func(s string) string { return hex.EncodeToString([]byte(s)) }
	type idt struct {
		text     string
		isSystem bool
	}
	current := []struct {
		text     string
		isSystem bool
	}{{"", false}, {"system", true}, {"SYSTEM", true}, {"System", true}, {"\"system\"", true}, {"\"System\"", false}, {"app", false}, {"\"App\"", false}, {"system_auth", false}, {"systems", false}}
	quals := []struct {
		text           string
		present, isSys bool
	}{{"", false, false}, {"system", true, true}, {"SYSTEM", true, true}, {"sYsTeM", true, true}, {"\"system\"", true, true}, {"\"SYSTEM\"", true, false}, {"app", true, false}, {"foo", true, false}, {"\"system \"", true, false}, {"system_schema", true, false}}
	tables := []struct {
		text  string
		isSys bool
	}{{"local", true}, {"peers", true}, {"peers_v2", true}, {"schema_keyspaces", true}, {"schema_columnfamilies", true}, {"schema_columns", true}, {"schema_usertypes", true},
		{"LOCAL", true}, {"Peers", true}, {"\"local\"", true}, {"\"peers\"", true}, {"\"Local\"", false}, {"\"PEERS\"", false},
		{"locals", false}, {"local_", false}, {"peers_v3", false}, {"users", false}, {"t", false}, {"schema_keyspace", false}, {"size_estimates", false}}
	sels := []string{"*", "key", "key, rpc_address", "count(*)", "COUNT(key)", "now()", "key AS k, count(*) AS c", "peer, data_center, tokens", "\"from\"", "a, b, c", "*, key",
		// selector lists holding what the scanner has no token for: the table decides, not the selectors
		"/* probe */ *", "key / 2", "a % b, c", "~x, key", "key, /* c */ peer", "@ # !"}
	rests := []string{"", " WHERE key = 'local'", " where peer = '127.0.0.1' ALLOW FILTERING", " LIMIT 1", ";", " WHERE key IN ('a', 'b') AND x = now()"}
	emit := func(cur struct {
		text     string
		isSystem bool
	}, q string, truth string) {
		k := "-"
		if cur.text != "" {
			k = hx(cur.text)
		}
		e.emit(fmt.Sprintf("T:%s K:%s %s", truth, k, hx(q)))
	}
	full := tier == "thorough"
	for _, cur := range current {
		for _, q := range quals {
			for _, t := range tables {
				for si, sel := range sels {
					for ri, rest := range rests {
						if !full && (si*7+ri*3+len(t.text)+len(q.text)+len(cur.text))%9 != 0 {
							continue
						}
						tbl := t.text
						if q.present {
							tbl = q.text + "." + t.text
						}
						ksSys := cur.isSystem
						if q.present {
							ksSys = q.isSys
						}
						truth := "0"
						if ksSys && t.isSys {
							truth = "1"
						}
						stmt := "SELECT " + sel + " FROM " + tbl + rest
						if r.Chance(1, 3) {
							stmt = varyCaseWs(r, stmt)
						}
						emit(cur, stmt, truth)
					}
				}
			}
		}
		// USE is always the proxy's; every other statement kind never is
		for _, u := range []string{"USE app", "use \"App\"", "USE system;", " Use  ks1 "} {
			emit(cur, u, "1")
		}
		for _, o := range []string{"INSERT INTO system.local (key) VALUES ('x')", "UPDATE system.peers SET a = 1 WHERE peer = '1.1.1.1'", "DELETE FROM system.local WHERE key = 'local'",
			"BEGIN BATCH INSERT INTO system.local (key) VALUES ('x') APPLY BATCH", "CREATE TABLE system.local (k int PRIMARY KEY)", "DROP TABLE system.peers", "ALTER TABLE system.local ADD x int",
			"TRUNCATE system.local", "LIST ROLES", "", "SELECT", "SELECT * FROM", "SELECT * FROM system.", "SELECT * system.local", "USE", "USE 1"} {
			emit(cur, o, "0")
		}
	}
	for i := 0; i < n; i++ {
		rr := r.Fork(uint64(i))
		cur := current[rr.Intn(len(current))]
		g := genStatement(rr, 3)
		truth := "0"
		if g.kind == "select" {
			truth = "-"
		}
		emit(cur, g.text, truth)
	}
}
