package main

import (
	"fmt"
	"math/rand"
	"sort"
	"strconv"
	"strings"
	"sync"
	"sync/atomic"
	"time"

	"github.com/datastax/go-cassandra-native-protocol/message"
	"github.com/datastax/go-cassandra-native-protocol/primitive"
	"verifharness/internal/e2e"
	"verifharness/internal/fakecass"
	"verifharness/internal/rng"
)

// storm: concurrent clients against the real proxy while backends reorder, fail and drop
// connections. Not a differential stream: the Spec oracles ExactlyOne (C01) and Routed (C02) are
// evaluated on what the clients observed.
// op:   S:<seed> L:<clients> N:<requests per client> H:<hosts> C:<conns> K:<connection kills> B:<burst: hold answers until this many are outstanding>
//       R:<ms>: the clients do not read any answer for the first <ms> milliseconds (a slow reader: the proxy's write
//       queue and the socket buffers fill up; every answer must still arrive once the client reads)
// real: sent=<n> answered=<n> [anomaly...]

func init() { streams["storm"] = stream{gen: genStorm, run: runStorm} }

func runStorm(op string) (out string) {
	defer func() {
		if p := recover(); p != nil {
			out = fmt.Sprintf("panic:%v", p)
		}
	}()
	par := map[string]int{"S": 1, "L": 4, "N": 100, "H": 2, "C": 1, "K": 0, "B": 0, "R": 0}
	for _, t := range strings.Fields(op) {
		if len(t) > 2 && t[1] == ':' {
			v, _ := strconv.Atoi(t[2:])
			par[t[:1]] = v
		}
	}
	env, err := e2e.Start(e2e.Options{Hosts: par["H"], NumConns: par["C"], ReconnectBase: 5 * time.Millisecond, ReconnectMax: 40 * time.Millisecond})
	if err != nil {
		return "env-error:" + err.Error()
	}
	defer env.Close()
	var answerSeq int64
	var outstanding int64
	burst := int64(par["B"])
	var holdMu sync.Mutex
	var heldBurst []func()
	released := false
	releaseAll := func() { // answer everything held, in reverse order of arrival
		holdMu.Lock()
		released = true
		fs := heldBurst
		heldBurst = nil
		holdMu.Unlock()
		for i := len(fs) - 1; i >= 0; i-- {
			fs[i]()
		}
	}
	if burst > 0 {
		// the threshold may be unreachable (stream limits, killed connections): release on a timer too
		go func() { time.Sleep(1500 * time.Millisecond); releaseAll() }()
	}
	brand := rand.New(rand.NewSource(int64(par["S"])))
	var brmu sync.Mutex
	env.Cluster.Handler = func(rq *fakecass.Request) fakecass.Response {
		tok := tokenOf(rq)
		seq := atomic.AddInt64(&answerSeq, 1)
		tag := fmt.Sprintf("%d#%d", tok, seq)
		brmu.Lock()
		c := brand.Intn(100)
		d := time.Duration(brand.Intn(300)) * time.Microsecond
		brmu.Unlock()
		var msg message.Message
		switch {
		case c < 80:
			if par["R"] > 0 { // big answers: socket buffers and the proxy's write queue must actually fill
				msg = rowsWith(tag + strings.Repeat("x", 6000))
			} else {
				msg = rowsWith(tag)
			}
		case c < 86:
			msg = errFor("un", tag)
		case c < 92:
			msg = errFor("se", tag)
		case c < 95:
			msg = errFor("bs", tag)
		case c < 97:
			msg = errFor("rt:2:2:0", tag)
		default:
			msg = errFor("inv", tag)
		}
		if burst > 0 {
			holdMu.Lock()
			if !released {
				n := atomic.AddInt64(&outstanding, 1)
				conn, hdr := rq.Conn, rq.Header
				heldBurst = append(heldBurst, func() { _ = conn.Send(hdr.Version, hdr.StreamId, msg) })
				if n >= burst {
					holdMu.Unlock()
					go releaseAll()
					return fakecass.Response{Kind: fakecass.RespSilent}
				}
				holdMu.Unlock()
				return fakecass.Response{Kind: fakecass.RespSilent}
			}
			holdMu.Unlock()
		}
		return fakecass.Response{Kind: fakecass.RespMsg, Msg: msg, Delay: d}
	}
	nclients, nreq := par["L"], par["N"]
	type sentReq struct {
		token  int
		stream int16
	}
	var sentTotal, answered int64
	var amu sync.Mutex
	var anomalies []string
	addAnomaly := func(s string) {
		amu.Lock()
		if len(anomalies) < 20 {
			anomalies = append(anomalies, s)
		}
		amu.Unlock()
	}
	var wg sync.WaitGroup
	stopKill := make(chan struct{})
	if par["K"] > 0 {
		go func() {
			kr := rand.New(rand.NewSource(int64(par["S"]) + 7))
			for i := 0; i < par["K"]; i++ {
				select {
				case <-stopKill:
					return
				case <-time.After(time.Duration(100+kr.Intn(2500)) * time.Microsecond):
				}
				ips := env.Cluster.NodeIPs()
				n := env.Cluster.Node(ips[kr.Intn(len(ips))])
				conns := n.Conns()
				var pool []*fakecass.Conn
				for _, c := range conns {
					if !c.Registered() {
						pool = append(pool, c)
					}
				}
				if kr.Intn(3) == 0 { // sometimes two hosts at the same instant
					for _, ip := range ips {
						for _, c := range env.Cluster.Node(ip).Conns() {
							if !c.Registered() {
								c.Close()
								break
							}
						}
					}
				} else if len(pool) > 0 {
					pool[kr.Intn(len(pool))].Close()
				}
			}
		}()
	}
	for ci := 0; ci < nclients; ci++ {
		wg.Add(1)
		go func(ci int) {
			defer wg.Done()
			cl, err := env.Dial(primitive.ProtocolVersion4, "")
			if err != nil {
				addAnomaly("dial-error")
				return
			}
			defer cl.Close()
			cr := rand.New(rand.NewSource(int64(par["S"])*1000 + int64(ci)))
			inflight := map[int16]int{} // stream -> token
			var imu sync.Mutex
			window := 64
			if burst > 0 {
				window = 4096
			}
			if par["R"] > 0 {
				window = 1 << 15
			}
			sem := make(chan struct{}, window)
			done := make(chan struct{})
			expected := int64(nreq)
			var got int64
			go func() { // reader
				defer close(done)
				if par["R"] > 0 {
					time.Sleep(time.Duration(par["R"]) * time.Millisecond)
				}
				for atomic.LoadInt64(&got) < expected {
					r, err := cl.Recv(8 * time.Second)
					if err != nil {
						return
					}
					if r.Header == nil {
						addAnomaly("undecodable-frame")
						continue
					}
					imu.Lock()
					tok, ok := inflight[r.Header.StreamId]
					if ok {
						delete(inflight, r.Header.StreamId)
					}
					imu.Unlock()
					if !ok {
						addAnomaly(fmt.Sprintf("extra-frame:client%d-stream%d", ci, r.Header.StreamId))
						continue
					}
					_, tag := replyTag(r)
					if tag != "" && !strings.HasPrefix(tag, fmt.Sprintf("%d#", tok)) {
						addAnomaly(fmt.Sprintf("misrouted:req%d-got-%s", tok, tag))
					}
					atomic.AddInt64(&got, 1)
					atomic.AddInt64(&answered, 1)
					<-sem
				}
			}()
			next := int16(cr.Intn(30000))
			stalled := false
			for i := 0; i < nreq && !stalled; i++ {
				select {
				case sem <- struct{}{}:
				case <-time.After(6 * time.Second):
					stalled = true // the window never drains: replies are missing
					continue
				}
				token := ci*1000000 + i
				imu.Lock()
				for {
					next++
					if next < 0 {
						next = 0
					}
					if _, busy := inflight[next]; !busy {
						break
					}
				}
				st := next
				inflight[st] = token
				imu.Unlock()
				q := "INSERT INTO ks.t (k, v) VALUES (1, 'a') /*t" + strconv.Itoa(token) + "*/"
				if cr.Intn(3) == 0 {
					q = "INSERT INTO ks.t (k, v) VALUES (1, now()) /*t" + strconv.Itoa(token) + "*/"
				}
				b, _ := cl.Encode(st, &message.Query{Query: q, Options: &message.QueryOptions{Consistency: primitive.ConsistencyLevelOne}}, nil)
				if cl.WriteBytes(b) != nil {
					addAnomaly("client-write-failed")
					return
				}
				atomic.AddInt64(&sentTotal, 1)
			}
			select {
			case <-done:
			case <-time.After(10 * time.Second):
			}
			imu.Lock()
			if len(inflight) > 0 {
				var toks []string
				for _, t := range inflight {
					toks = append(toks, strconv.Itoa(t))
					if len(toks) > 3 {
						break
					}
				}
				addAnomaly(fmt.Sprintf("missing-reply:client%d-%d-requests-e.g.-%s", ci, len(inflight), strings.Join(toks, ",")))
			}
			imu.Unlock()
			// sentinel: anything still queued for this client arrives before the OPTIONS reply
			if b, err := cl.Encode(32000, &message.Options{}, nil); err == nil && cl.WriteBytes(b) == nil {
				for {
					r, err := cl.Recv(2 * time.Second)
					if err != nil {
						break
					}
					if r.Header != nil && r.Header.OpCode == primitive.OpCodeSupported {
						break
					}
					if r.Header != nil {
						addAnomaly(fmt.Sprintf("extra-frame:client%d-stream%d-late", ci, r.Header.StreamId))
					}
				}
			}
		}(ci)
	}
	wg.Wait()
	close(stopKill)
	amu.Lock()
	defer amu.Unlock()
	sort.Strings(anomalies)
	return strings.TrimSpace(fmt.Sprintf("sent=%d answered=%d %s", sentTotal, answered, strings.Join(anomalies, " ")))
}

func genStorm(e *emitter, r *rng.R, n int, tier string) {
	// n is the number of storms; sizes grow with the tier
	var ops []string
	scale := 1
	if tier == "thorough" {
		scale = 8
	}
	for i := 0; i < n; i++ {
		rr := r.Fork(uint64(i))
		burst := 0
		l, nr := 2+rr.Intn(6), (40+rr.Intn(200))*scale
		if i%5 == 4 { // exceed the per-connection stream limit: > 2048 requests outstanding
			burst = 2300 + rr.Intn(400)
			l, nr = 3, 1000
		}
		ops = append(ops, fmt.Sprintf("S:%d L:%d N:%d H:%d C:%d K:%d B:%d", rr.Intn(1<<30), l, nr, 1+rr.Intn(3), 1+rr.Intn(2), []int{0, 3, 10, 30}[rr.Intn(4)], burst))
		if i%20 == 7 { // a client that pipelines thousands of requests before it reads the first answer
			ops = append(ops, fmt.Sprintf("S:%d L:%d N:%d H:2 C:1 K:0 B:0 R:%d", rr.Intn(1<<30), 1+rr.Intn(2), 3000+rr.Intn(2000), 800+rr.Intn(1200)))
		}
	}
	e.emitAll(ops, 4)
}
